---- MODULE TraceKV ----
EXTENDS Naturals, Sequences, TLC, Json, FiniteSets
Trace == ndJsonDeserialize("trace.ndjson")
Keys == 0..2
Clients == 0..3
VARIABLES l, reg, pend   \* pend[c] = [id,kind,k,v,done,r] or <<>>
vars == <<l, reg, pend>>
None == [id |-> 0]
Init == TLCSet(1, 0) /\ l = 1 /\ reg = [k \in Keys |-> 0] /\ pend = [c \in Clients |-> None]
Inv(c) == /\ l <= Len(Trace) /\ Trace[l].e = "inv" /\ Trace[l].c = c
          /\ pend[c] = None
          /\ pend' = [pend EXCEPT ![c] = [id |-> Trace[l].id, kind |-> Trace[l].kind, k |-> Trace[l].k, v |-> Trace[l].v, done |-> FALSE, r |-> 0]]
          /\ l' = l + 1 /\ UNCHANGED reg
Lin(c) == /\ pend[c] # None /\ ~pend[c].done
          /\ IF pend[c].kind = "put"
               THEN /\ reg' = [reg EXCEPT ![pend[c].k] = pend[c].v]
                    /\ pend' = [pend EXCEPT ![c].done = TRUE]
               ELSE /\ pend' = [pend EXCEPT ![c].done = TRUE, ![c].r = reg[pend[c].k]]
                    /\ UNCHANGED reg
          /\ UNCHANGED l
Ret(c) == /\ l <= Len(Trace) /\ Trace[l].e = "ret" /\ Trace[l].c = c
          /\ pend[c] # None /\ pend[c].done /\ pend[c].id = Trace[l].id
          /\ pend[c].r = Trace[l].r
          /\ pend' = [pend EXCEPT ![c] = None]
          /\ l' = l + 1 /\ UNCHANGED reg
Next == \E c \in Clients : Inv(c) \/ Lin(c) \/ Ret(c)
Spec == Init /\ [][Next]_vars
\* high-water mark of consumed trace lines
HWM == TLCSet(1, IF TLCGet(1) < l THEN l ELSE TLCGet(1))
Constr == HWM
Accepted == TLCGet(1) = Len(Trace) + 1
====
