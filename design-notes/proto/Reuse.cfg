SPECIFICATION Spec
INVARIANT ReuseNotClosed
CHECK_DEADLOCK FALSE
