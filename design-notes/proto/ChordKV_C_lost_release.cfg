SPECIFICATION Spec
CONSTANTS
  M = 8
  Node = {1, 3, 5}
  InitMembers = {1, 5}
  Joiners = {3}
  Leavers = {5}
  Key = {2, 4}
  MaxOps = 1
  Faults = TRUE
  FixPred = FALSE
INVARIANTS NoBad SingleCopy NoLoss NoNonRetryable NoStuck Placement
CHECK_DEADLOCK FALSE
