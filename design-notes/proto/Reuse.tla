---- MODULE Reuse ----
(* Throwaway prototype: two peers A,B; connections X (A dials B) and Y (B dials A).
   Each connection runs reuseConnection on both ends.  Steps per end:
   rd  : RLock, read own cache -> status (CACHED/FRESH, direction)
   ex  : status exchanged (needs both ends to have done rd)
   dec : WLock, decide from peer status + cached snapshot (+ re-check) *)
EXTENDS Naturals, FiniteSets, Sequences, TLC
Peers == {"A", "B"}
Conns == {"X", "Y"}
Other(p) == IF p = "A" THEN "B" ELSE "A"
Dialer(c) == IF c = "X" THEN "A" ELSE "B"
Dir(p, c) == IF Dialer(c) = p THEN "out" ELSE "in"

VARIABLES cache,   \* cache[p] \in Conns \cup {"none"}
          cdir,    \* direction of the cached conn at p
          pc,      \* pc[p][c] \in {"idle","rd","dec","done"}
          st,      \* st[p][c] = [state, dir] sent to peer
          snap,    \* snap[p][c] = cache snapshot taken at rd
          res,     \* res[p][c] \in {"none","err","fresh","reuse:X","reuse:Y"}
          closed,  \* set of conns closed by negotiation (CloseWithError 508)
          started  \* which conns have been dialled
vars == <<cache, cdir, pc, st, snap, res, closed, started>>

Init == /\ cache = [p \in Peers |-> "none"]
        /\ cdir = [p \in Peers |-> "none"]
        /\ pc = [p \in Peers |-> [c \in Conns |-> "idle"]]
        /\ st = [p \in Peers |-> [c \in Conns |-> <<"none","none">>]]
        /\ snap = [p \in Peers |-> [c \in Conns |-> "none"]]
        /\ res = [p \in Peers |-> [c \in Conns |-> "none"]]
        /\ closed = {}
        /\ started = {}

Dial(c) == /\ c \notin started
           /\ started' = started \cup {c}
           /\ pc' = [p \in Peers |-> [pc[p] EXCEPT ![c] = "rd"]]
           /\ UNCHANGED <<cache, cdir, st, snap, res, closed>>

Read(p, c) ==
  /\ pc[p][c] = "rd"
  /\ snap' = [snap EXCEPT ![p][c] = cache[p]]
  /\ st' = [st EXCEPT ![p][c] = IF cache[p] # "none" THEN <<"CACHED", cdir[p]>> ELSE <<"FRESH", Dir(p, c)>>]
  /\ pc' = [pc EXCEPT ![p][c] = "dec"]
  /\ UNCHANGED <<cache, cdir, res, closed, started>>

\* decision table transcribed from overlay/reuse.go
Decide(p, c) ==
  /\ pc[p][c] = "dec"
  /\ pc[Other(p)][c] \in {"dec", "done"}     \* peer status received
  /\ LET peer == st[Other(p)][c]
         cached == snap[p][c] # "none"
         mydir == Dir(p, c)
         sdir == IF cached THEN cdir[p] ELSE "none"   \* snapshot dir (cache entry immutable once stored)
     IN
     \/ /\ peer[1] = "CACHED" /\ peer[2] = "in" /\ cached /\ sdir = "out"
        /\ res' = [res EXCEPT ![p][c] = "reuse:" \o snap[p][c]]
        /\ closed' = closed \cup {c}
        /\ UNCHANGED <<cache, cdir>>
     \/ /\ peer[1] = "CACHED" /\ peer[2] = "out" /\ cached /\ sdir = "in"
        /\ res' = [res EXCEPT ![p][c] = "reuse:" \o snap[p][c]]
        /\ UNCHANGED <<cache, cdir, closed>>
     \/ /\ peer[1] = "FRESH" /\ ~cached
        /\ ((peer[2] = "in" /\ mydir = "out") \/ (peer[2] = "out" /\ mydir = "in"))
        /\ IF cache[p] # "none"
             THEN /\ res' = [res EXCEPT ![p][c] = "reuse:" \o cache[p]]
                  /\ closed' = closed \cup {c}
                  /\ UNCHANGED <<cache, cdir>>
             ELSE /\ cache' = [cache EXCEPT ![p] = c]
                  /\ cdir' = [cdir EXCEPT ![p] = mydir]
                  /\ res' = [res EXCEPT ![p][c] = "fresh"]
                  /\ UNCHANGED closed
     \/ /\ ~( (peer[1] = "CACHED" /\ peer[2] = "in" /\ cached /\ sdir = "out")
           \/ (peer[1] = "CACHED" /\ peer[2] = "out" /\ cached /\ sdir = "in")
           \/ (peer[1] = "FRESH" /\ ~cached /\ ((peer[2] = "in" /\ mydir = "out") \/ (peer[2] = "out" /\ mydir = "in"))))
        /\ res' = [res EXCEPT ![p][c] = "err"]
        /\ UNCHANGED <<cache, cdir, closed>>
  /\ pc' = [pc EXCEPT ![p][c] = "done"]
  /\ UNCHANGED <<st, snap, started>>

Next == \/ \E c \in Conns : Dial(c)
        \/ \E p \in Peers, c \in Conns : Read(p, c) \/ Decide(p, c)
Spec == Init /\ [][Next]_vars

Quiet == \A p \in Peers, c \in Conns : pc[p][c] \in {"idle", "done"}
\* clause 1: never caching different live connections
NoSplit == Quiet => ~(cache["A"] # "none" /\ cache["B"] # "none" /\ cache["A"] # cache["B"]
                      /\ cache["A"] \notin closed /\ cache["B"] \notin closed)
\* clause 2: a cached connection that one peer reuses is never closed by the negotiation
ReuseNotClosed == \A p \in Peers, c \in Conns :
     (res[p][c] = "reuse:X" => "X" \notin closed) /\ (res[p][c] = "reuse:Y" => "Y" \notin closed)
\* clause 3: a peer caches a new connection only if the other peer caches the same one
CacheAgree == Quiet => \A p \in Peers : (cache[p] # "none" /\ cache[p] \notin closed) => cache[Other(p)] = cache[p]
====
