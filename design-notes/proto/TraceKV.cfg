SPECIFICATION Spec
CONSTRAINT Constr
POSTCONDITION Accepted
CHECK_DEADLOCK FALSE
