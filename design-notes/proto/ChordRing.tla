---- MODULE ChordRing ----
(* Throwaway prototype: pointers + fingers, lookups, stabilization, graceful join/leave (no KV). *)
EXTENDS Naturals, FiniteSets, Sequences, TLC

CONSTANTS B, Node, InitMembers, Joiners, Leavers, FixSelf
M == 2 ^ B
Nil == M + 1
Gone == M + 2
Diverge == M + 3

Between(low, t, high, incl) ==
  IF high > low THEN (low < t /\ t < high) \/ (incl /\ t = high)
  ELSE low < t \/ t < high \/ (incl /\ t = high)

VARIABLES st, pred, succ, fing, jpc, jctx, lpc, lctx
vars == <<st, pred, succ, fing, jpc, jctx, lpc, lctx>>

Live(n) == st[n] \in {"Joining", "Active", "Transferring", "Leaving"}
Pingable(n) == st[n] \in {"Joining", "Active", "Transferring"}

NextMember(S, n) == LET after == {m \in S : m > n} IN
                    IF after # {} THEN CHOOSE m \in after : \A o \in after : m <= o
                    ELSE CHOOSE m \in S : \A o \in S : m <= o
PrevMember(S, n) == LET before == {m \in S : m < n} IN
                    IF before # {} THEN CHOOSE m \in before : \A o \in before : m >= o
                    ELSE CHOOSE m \in S : \A o \in S : m >= o
Owner(S, k) == IF k \in S THEN k ELSE NextMember(S, k)
Target(n, k) == (n + 2 ^ (k - 1)) % M

Hd(n) == IF succ[n] = <<>> THEN Nil ELSE succ[n][1]
MkList(imm, list) ==
  LET rest == SelectSeq(list, LAMBDA x : x # imm) IN
  IF rest = <<>> THEN <<imm>> ELSE <<imm, rest[1]>>

Init ==
  /\ st = [n \in Node |-> IF n \in InitMembers THEN "Active" ELSE "Inactive"]
  /\ pred = [n \in Node |-> IF n \in InitMembers THEN PrevMember(InitMembers, n) ELSE Nil]
  /\ succ = [n \in Node |-> IF n \in InitMembers
                            THEN LET s1 == NextMember(InitMembers, n) IN
                                 IF s1 = n THEN <<n>> ELSE
                                 LET s2 == NextMember(InitMembers, s1) IN
                                 IF s2 = n THEN <<s1>> ELSE <<s1, s2>>
                            ELSE <<>>]
  /\ fing = [n \in Node |-> [k \in 1..B |-> IF n \in InitMembers THEN Owner(InitMembers, Target(n, k)) ELSE Nil]]
  /\ jpc = [j \in Joiners |-> "idle"]
  /\ jctx = [j \in Joiners |-> [x |-> Nil, p |-> Nil, sl |-> <<>>]]
  /\ lpc = [l \in Leavers |-> "idle"]
  /\ lctx = [l \in Leavers |-> [p |-> Nil, s |-> Nil]]

(* closestPrecedingNode: scan fingers from B down to 1 *)
Closest(n, key) ==
  LET cands == {k \in 1..B : fing[n][k] # Nil /\ Between(n, fing[n][k], key, FALSE)} IN
  IF cands = {} THEN n ELSE fing[n][CHOOSE k \in cands : \A o \in cands : k >= o]

RECURSIVE Find(_, _, _)
Find(n, key, fuel) ==
  IF ~Live(n) THEN Gone
  ELSE IF pred[n] # Nil /\ Between(pred[n], key, n, TRUE) THEN n
  ELSE IF Hd(n) = Nil THEN Gone
  ELSE IF Between(n, key, Hd(n), TRUE) THEN Hd(n)
  ELSE LET c == Closest(n, key) IN
       IF c = n THEN (IF FixSelf THEN (IF fuel = 0 THEN Diverge ELSE Find(Hd(n), key, fuel - 1)) ELSE Diverge)
       ELSE IF fuel = 0 THEN Diverge
       ELSE Find(c, key, fuel - 1)

Lookup(n, key) == Find(n, key, Cardinality(Node) + B)

--------------------------------------------------------------------------
StabResult(n) ==
  LET RECURSIVE Go(_)
      Go(list) ==
        IF list = <<>> THEN <<>>
        ELSE LET h == list[1] IN
             IF h # Nil /\ Live(h) THEN
                  LET base == MkList(h, succ[h])
                      ns == pred[h] IN
                  IF ns # Nil /\ Between(n, ns, h, FALSE) /\ Live(ns)
                  THEN MkList(ns, succ[ns]) ELSE base
             ELSE Go(Tail(list))
  IN Go(succ[n])

NotifyPred(h, p) ==
  IF ~Live(h) THEN pred[h]
  ELSE IF pred[h] # Nil /\ pred[h] = p THEN pred[h]
  ELSE IF pred[h] = Nil THEN p
  ELSE IF Pingable(pred[h]) THEN (IF Between(pred[h], p, h, FALSE) THEN p ELSE pred[h])
  ELSE p

DoStabilize(n) ==
  LET nl == StabResult(n)
      h == IF nl = <<>> THEN Nil ELSE nl[1] IN
  /\ succ' = [succ EXCEPT ![n] = nl]
  /\ IF h # Nil /\ Pingable(n) THEN pred' = [pred EXCEPT ![h] = NotifyPred(h, n)] ELSE UNCHANGED pred

TasksStarted(n) == n \in Joiners => jpc[n] \notin {"idle", "req", "install"}

Stabilize(n) ==
  /\ Live(n) /\ succ[n] # <<>> /\ TasksStarted(n)
  /\ DoStabilize(n)
  /\ UNCHANGED <<st, fing, jpc, jctx, lpc, lctx>>

FixFinger(n, k) ==
  /\ Live(n) /\ TasksStarted(n)
  /\ LET f == Lookup(n, Target(n, k)) IN
     /\ f \in Node
     /\ fing' = [fing EXCEPT ![n][k] = f]
  /\ UNCHANGED <<st, pred, succ, jpc, jctx, lpc, lctx>>

CheckPred(n) ==
  /\ Live(n) /\ TasksStarted(n) /\ pred[n] # Nil /\ pred[n] # n /\ ~Pingable(pred[n])
  /\ pred' = [pred EXCEPT ![n] = Nil]
  /\ UNCHANGED <<st, succ, fing, jpc, jctx, lpc, lctx>>

--------------------------------------------------------------------------
JoinStart(j) ==
  /\ jpc[j] = "idle" /\ st[j] = "Inactive"
  /\ st' = [st EXCEPT ![j] = "Joining"]
  /\ jpc' = [jpc EXCEPT ![j] = "req"]
  /\ UNCHANGED <<pred, succ, fing, jctx, lpc, lctx>>

ReqJoin(j) ==
  /\ jpc[j] = "req"
  /\ \E peer \in {n \in Node : st[n] \in {"Active", "Transferring"}} :
       LET x == Lookup(peer, j) IN
       IF x \notin Node \/ x = j THEN UNCHANGED <<st, pred, jpc, jctx>>
       ELSE IF Lookup(x, j) # x \/ st[x] # "Active" \/ pred[x] = Nil \/ ~Pingable(pred[x])
               \/ ~Between(pred[x], j, x, FALSE)
            THEN UNCHANGED <<st, pred, jpc, jctx>>      \* refused (retry); repaired variant for nil/gone pred
       ELSE /\ jctx' = [jctx EXCEPT ![j] = [x |-> x, p |-> pred[x], sl |-> MkList(x, succ[x])]]
            /\ pred' = [pred EXCEPT ![x] = j]
            /\ st' = [st EXCEPT ![x] = "Transferring"]
            /\ jpc' = [jpc EXCEPT ![j] = "install"]
  /\ UNCHANGED <<succ, fing, lpc, lctx>>

JoinInstall(j) ==
  /\ jpc[j] = "install"
  /\ succ' = [succ EXCEPT ![j] = jctx[j].sl]
  /\ pred' = [pred EXCEPT ![j] = jctx[j].p]
  /\ jpc' = [jpc EXCEPT ![j] = "tasks"]        \* window probed by C09: neighbours known, fingers empty
  /\ UNCHANGED <<st, fing, jctx, lpc, lctx>>

JoinTasks(j) ==    \* startTasks: stabilize once (fixFinger follows as ordinary FixFinger steps)
  /\ jpc[j] = "tasks"
  /\ DoStabilize(j)
  /\ jpc' = [jpc EXCEPT ![j] = "adv"]
  /\ UNCHANGED <<st, fing, jctx, lpc, lctx>>

JoinAdvisory(j) ==
  /\ jpc[j] = "adv"
  /\ LET p == jctx[j].p IN
     IF Live(p) /\ succ[p] # <<>> THEN DoStabilize(p) ELSE UNCHANGED <<succ, pred>>
  /\ jpc' = [jpc EXCEPT ![j] = "rel"]
  /\ st' = [st EXCEPT ![j] = "Active"]
  /\ UNCHANGED <<fing, jctx, lpc, lctx>>

JoinRelease(j) ==
  /\ jpc[j] = "rel"
  /\ st' = [st EXCEPT ![jctx[j].x] = "Active"]
  /\ jpc' = [jpc EXCEPT ![j] = "done"]
  /\ UNCHANGED <<pred, succ, fing, jctx, lpc, lctx>>

LeaveLock(l) ==
  /\ lpc[l] = "idle" /\ st[l] = "Active" /\ pred[l] # Nil /\ Hd(l) # Nil
  /\ LET s == Hd(l) IN
     /\ s # l /\ st[s] = "Active"
     /\ st' = [st EXCEPT ![l] = "Leaving", ![s] = "Transferring"]
     /\ lctx' = [lctx EXCEPT ![l] = [p |-> pred[l], s |-> s]]
  /\ lpc' = [lpc EXCEPT ![l] = "adv"]
  /\ UNCHANGED <<pred, succ, fing, jpc, jctx>>

LeaveAdvisory(l) ==
  /\ lpc[l] = "adv"
  /\ LET p == lctx[l].p IN
     IF p # l /\ Live(p) /\ succ[p] # <<>> THEN DoStabilize(p) ELSE UNCHANGED <<succ, pred>>
  /\ lpc' = [lpc EXCEPT ![l] = "left"]
  /\ UNCHANGED <<st, fing, jpc, jctx, lctx>>

LeaveLeft(l) ==
  /\ lpc[l] = "left"
  /\ st' = [st EXCEPT ![l] = "Left", ![lctx[l].s] = "Active"]
  /\ lpc' = [lpc EXCEPT ![l] = "done"]
  /\ UNCHANGED <<pred, succ, fing, jpc, jctx, lctx>>

Maint == \E n \in Node : Stabilize(n) \/ CheckPred(n) \/ (\E k \in 1..B : FixFinger(n, k))
Churn == \/ \E j \in Joiners : JoinStart(j) \/ ReqJoin(j) \/ JoinInstall(j) \/ JoinTasks(j) \/ JoinAdvisory(j) \/ JoinRelease(j)
         \/ \E l \in Leavers : LeaveLock(l) \/ LeaveAdvisory(l) \/ LeaveLeft(l)
Next == Maint \/ Churn
Spec == Init /\ [][Next]_vars
FairSpec == Spec /\ \A n \in Node : /\ WF_vars(Stabilize(n)) /\ WF_vars(CheckPred(n))
                                    /\ \A k \in 1..B : WF_vars(FixFinger(n, k))
                 /\ WF_vars(Churn)

--------------------------------------------------------------------------
Members == {n \in Node : st[n] \in {"Active", "Transferring"}}
(* C09: every lookup at every live node terminates *)
Terminates == \A n \in Node, key \in 0..(M-1) : Live(n) => Lookup(n, key) # Diverge
RingCorrect == \A n \in Members :
                 /\ pred[n] = PrevMember(Members, n)
                 /\ Hd(n) = NextMember(Members, n)
                 /\ \A k \in 1..B : fing[n][k] = Owner(Members, Target(n, k))
(* C01: on a correct ring all lookups are correct *)
LookupCorrect == RingCorrect => \A n \in Members, key \in 0..(M-1) : Lookup(n, key) = Owner(Members, key)
ChurnDone == /\ \A j \in Joiners : jpc[j] = "done"
             /\ \A l \in Leavers : lpc[l] = "done"
Converges == <>[](ChurnDone /\ RingCorrect)
====
