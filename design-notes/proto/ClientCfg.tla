---- MODULE ClientCfg ----
(* Throwaway prototype of C44: RebuildTunnels (diff, close proxies, write, build router) racing with
   incoming HTTP connections (load route, load-or-create proxy, forward). One hostname. *)
EXTENDS Naturals, Sequences, FiniteSets, TLC
CONSTANTS Targets, MaxChanges, MaxConns, BuildFirst, LockConn
None == "none"
VARIABLES cfg, router, proxy,   \* configured target / router entry / cached proxy's target (None = absent)
          rpc, newcfg, nchg,    \* rebuild process
          conns, version        \* conns: seq of [pc, route, arrivedAt]; version counts completed changes
vars == <<cfg, router, proxy, rpc, newcfg, nchg, conns, version>>
Init == /\ cfg \in Targets /\ router = cfg /\ proxy = None /\ rpc = "idle" /\ newcfg = None
        /\ nchg = 0 /\ conns = <<>> /\ version = 0
Start == /\ rpc = "idle" /\ nchg < MaxChanges
         /\ \E t \in (Targets \cup {None}) \ {cfg} : newcfg' = t
         /\ rpc' = (IF BuildFirst THEN "build" ELSE "close") /\ nchg' = nchg + 1
         /\ UNCHANGED <<cfg, router, proxy, conns, version>>
Close == /\ rpc = "close" /\ proxy' = None
         /\ rpc' = (IF BuildFirst THEN "done" ELSE "build")
         /\ UNCHANGED <<cfg, router, newcfg, nchg, conns, version>>
Build == /\ rpc = "build" /\ router' = newcfg /\ cfg' = newcfg
         /\ rpc' = (IF BuildFirst THEN "close" ELSE "done")
         /\ UNCHANGED <<proxy, newcfg, nchg, conns, version>>
Done == /\ rpc = "done" /\ rpc' = "idle" /\ version' = version + 1
        /\ UNCHANGED <<cfg, router, proxy, newcfg, nchg, conns>>
Arrive == /\ Len(conns) < MaxConns
          /\ conns' = Append(conns, [pc |-> "load", route |-> None, quiet |-> (rpc = "idle"), v0 |-> version, want |-> cfg, got |-> None])
          /\ UNCHANGED <<cfg, router, proxy, rpc, newcfg, nchg, version>>
Load(i) == /\ conns[i].pc = "load"
           /\ conns' = [conns EXCEPT ![i].route = router, ![i].pc = (IF router = None THEN "dropped" ELSE "proxy"),
                                     ![i].quiet = (conns[i].quiet /\ rpc = "idle" /\ version = conns[i].v0)]
           /\ UNCHANGED <<cfg, router, proxy, rpc, newcfg, nchg, version>>
GetProxy(i) == /\ conns[i].pc = "proxy"
               /\ proxy' = IF proxy = None THEN conns[i].route ELSE proxy      \* LoadOrStoreLazy
               /\ conns' = [conns EXCEPT ![i].got = (IF proxy = None THEN conns[i].route ELSE proxy), ![i].pc = "fwd",
                                     ![i].quiet = (conns[i].quiet /\ rpc = "idle" /\ version = conns[i].v0)]
               /\ UNCHANGED <<cfg, router, rpc, newcfg, nchg, version>>
\* repair candidate: the connection path holds configMu.RLock across route load + proxy load-or-create
LoadLocked(i) == /\ LockConn /\ rpc = "idle" /\ conns[i].pc = "load"
                 /\ IF router = None
                      THEN /\ conns' = [conns EXCEPT ![i].pc = "dropped"] /\ UNCHANGED proxy
                      ELSE /\ proxy' = (IF proxy = None THEN router ELSE proxy)
                           /\ conns' = [conns EXCEPT ![i].got = (IF proxy = None THEN router ELSE proxy), ![i].pc = "fwd",
                                                     ![i].quiet = (conns[i].quiet /\ version = conns[i].v0)]
                 /\ UNCHANGED <<cfg, router, rpc, newcfg, nchg, version>>
Next == Start \/ Close \/ Build \/ Done \/ Arrive \/ \E i \in 1..Len(conns) : (~LockConn /\ (Load(i) \/ GetProxy(i))) \/ LoadLocked(i)
Spec == Init /\ [][Next]_vars
\* a connection that arrived while no change was in progress is forwarded to the target configured then
CurrentTarget == \A i \in 1..Len(conns) :
    (conns[i].quiet /\ conns[i].pc = "fwd") => conns[i].got = conns[i].want
\* ... and is dropped if the hostname was not configured then
RemovedNotForwarded == \A i \in 1..Len(conns) :
    (conns[i].quiet /\ conns[i].want = None) => conns[i].pc # "fwd"
====
