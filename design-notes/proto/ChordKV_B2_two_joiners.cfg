SPECIFICATION Spec
CONSTANTS
  M = 8
  Node = {1, 3, 5, 7}
  InitMembers = {1, 5}
  Joiners = {3, 7}
  Leavers = {5}
  Key = {2, 6}
  MaxOps = 2
  Faults = FALSE
  FixPred = TRUE
INVARIANTS NoBad SingleCopy NoLoss NoNonRetryable NoStuck Placement
CHECK_DEADLOCK FALSE
