---- MODULE ChordKV ----
(* Throwaway prototype of the membership + KV model (design calibration).
   Ring of size M; nodes have fixed ids; keys are ring positions. *)
EXTENDS Naturals, FiniteSets, Sequences, TLC

CONSTANTS M,          \* ring size
          Node,       \* set of node ids (subset of 0..M-1)
          InitMembers,\* initial stable ring
          Joiners,    \* nodes that may join (subset of Node \ InitMembers)
          Leavers,    \* nodes that may leave
          Key,        \* set of key positions
          MaxOps,     \* number of client operations
          Faults,     \* TRUE: FinishJoin/FinishLeave release may be lost
          FixPred     \* TRUE: model the repair: refuse join while predecessor is nil or not pingable

Nil == M + 1          \* "no node"
NodeOrNil == Node \cup {Nil}

(* circular interval tests, transcribed from spec/chord/chord.go *)
Between(low, t, high, incl) ==
  IF high > low THEN (low < t /\ t < high) \/ (incl /\ t = high)
  ELSE low < t \/ t < high \/ (incl /\ t = high)

VARIABLES st, pred, succ, sur, store,     \* per node
          jpc, jctx,                      \* join process per joiner
          lpc, lctx,                      \* leave process per leaver
          cur,                            \* cur[k] = last linearized write value (0 = none)
          ops,                            \* client ops: sequence of records
          nops,                           \* ops issued so far
          bad                             \* set of violation tags
vars == <<st, pred, succ, sur, store, jpc, jctx, lpc, lctx, cur, ops, nops, bad>>

Live(n) == st[n] \in {"Joining", "Active", "Transferring", "Leaving"}   \* checkNodeState(false) = nil
Pingable(n) == st[n] \in {"Joining", "Active", "Transferring"}          \* checkNodeState(true) = nil

(* sorted successor helper for the initial stable ring *)
NextMember(S, n) == LET after == {m \in S : m > n} IN
                    IF after # {} THEN CHOOSE m \in after : \A o \in after : m <= o
                    ELSE CHOOSE m \in S : \A o \in S : m <= o
PrevMember(S, n) == LET before == {m \in S : m < n} IN
                    IF before # {} THEN CHOOSE m \in before : \A o \in before : m >= o
                    ELSE CHOOSE m \in S : \A o \in S : m >= o
Owner(S, k) == IF k \in S THEN k ELSE NextMember(S, k)

Init ==
  /\ st = [n \in Node |-> IF n \in InitMembers THEN "Active" ELSE "Inactive"]
  /\ pred = [n \in Node |-> IF n \in InitMembers THEN PrevMember(InitMembers, n) ELSE Nil]
  /\ succ = [n \in Node |-> IF n \in InitMembers
                            THEN LET s1 == NextMember(InitMembers, n) IN
                                 IF s1 = n THEN <<n>> ELSE
                                 LET s2 == NextMember(InitMembers, s1) IN
                                 IF s2 = n THEN <<s1>> ELSE <<s1, s2>>
                            ELSE <<>>]
  /\ sur = [n \in Node |-> Nil]
  /\ store = [n \in Node |-> [k \in Key |-> 0]]
  /\ jpc = [j \in Joiners |-> "idle"]
  /\ jctx = [j \in Joiners |-> [x |-> Nil, p |-> Nil, sl |-> <<>>]]
  /\ lpc = [l \in Leavers |-> "idle"]
  /\ lctx = [l \in Leavers |-> [p |-> Nil, s |-> Nil]]
  /\ cur = [k \in Key |-> 0]
  /\ ops = <<>>
  /\ nops = 0
  /\ bad = {}

Hd(n) == IF succ[n] = <<>> THEN Nil ELSE succ[n][1]

(* MakeSuccListByID(immediate, list, 2) *)
MkList(imm, list) ==
  LET rest == SelectSeq(list, LAMBDA x : x # imm) IN
  IF rest = <<>> THEN <<imm>> ELSE <<imm, rest[1]>>

(* Routing over-approximation: what FindSuccessor issued at node a for key k may return. *)
LookupSet(a, k) ==
  IF pred[a] # Nil /\ Between(pred[a], k, a, TRUE) THEN {a}
  ELSE IF Hd(a) # Nil /\ Between(a, k, Hd(a), TRUE) THEN {Hd(a)}
  ELSE {Hd(z) : z \in {z \in Node : Live(z) /\ Hd(z) # Nil /\ Between(z, k, Hd(z), TRUE)}}
       \cup {z \in Node : Live(z) /\ pred[z] # Nil /\ Between(pred[z], k, z, TRUE)}

--------------------------------------------------------------------------
(* JOIN *)
JoinStart(j) ==
  /\ jpc[j] = "idle" /\ st[j] = "Inactive"
  /\ st' = [st EXCEPT ![j] = "Joining"]
  /\ jpc' = [jpc EXCEPT ![j] = "req"]
  /\ UNCHANGED <<pred, succ, sur, store, jctx, lpc, lctx, cur, ops, nops, bad>>

(* RequestToJoin handled at X: lock, range check, transfer, hand-off -- one critical section *)
ReqJoin(j) ==
  /\ jpc[j] = "req"
  /\ \E peer \in {n \in Node : st[n] \in {"Active", "Transferring"}} :
     \E x \in LookupSet(peer, j) :
       IF x = j THEN
            /\ bad' = bad \cup {"dupjoiner"} /\ UNCHANGED <<st, pred, succ, sur, store, jpc, jctx>>
       ELSE IF ~Live(x) THEN      \* ErrNodeGone etc: retry
            UNCHANGED <<st, pred, succ, sur, store, jpc, jctx, bad>>
       ELSE IF st[x] # "Active" THEN   \* ErrJoinInvalidState: retry (stay in req)
            UNCHANGED <<st, pred, succ, sur, store, jpc, jctx, bad>>
       ELSE IF FixPred /\ (pred[x] = Nil \/ ~Pingable(pred[x])) /\ pred[x] # x THEN
            UNCHANGED <<st, pred, succ, sur, store, jpc, jctx, bad>>
       ELSE IF pred[x] = Nil THEN
            /\ bad' = bad \cup {"nilpred-panic"} /\ UNCHANGED <<st, pred, succ, sur, store, jpc, jctx>>
       ELSE IF ~Between(pred[x], j, x, FALSE) THEN   \* ErrJoinInvalidSuccessor: retry
            UNCHANGED <<st, pred, succ, sur, store, jpc, jctx, bad>>
       ELSE
            LET p == pred[x]
                moved == {k \in Key : store[x][k] # 0 /\ Between(p, k, j, TRUE)} IN
            /\ store' = [store EXCEPT ![j] = [k \in Key |-> IF k \in moved THEN store[x][k] ELSE store[j][k]],
                                       ![x] = [k \in Key |-> IF k \in moved THEN 0 ELSE store[x][k]]]
            /\ pred' = [pred EXCEPT ![x] = j]
            /\ sur' = [sur EXCEPT ![x] = j]
            /\ st' = [st EXCEPT ![x] = "Transferring"]
            /\ jctx' = [jctx EXCEPT ![j] = [x |-> x, p |-> p, sl |-> MkList(x, succ[x])]]
            /\ jpc' = [jpc EXCEPT ![j] = "install"]
            /\ UNCHANGED <<succ, bad>>
  /\ UNCHANGED <<lpc, lctx, cur, ops, nops>>

JoinGiveUp(j) ==   \* retries exhausted
  /\ jpc[j] = "req"
  /\ st' = [st EXCEPT ![j] = "Inactive"]
  /\ jpc' = [jpc EXCEPT ![j] = "done"]
  /\ UNCHANGED <<pred, succ, sur, store, jctx, lpc, lctx, cur, ops, nops, bad>>

JoinInstall(j) ==
  /\ jpc[j] = "install"
  /\ succ' = [succ EXCEPT ![j] = jctx[j].sl]
  /\ pred' = [pred EXCEPT ![j] = jctx[j].p]
  /\ jpc' = [jpc EXCEPT ![j] = "adv"]
  /\ UNCHANGED <<st, sur, store, jctx, lpc, lctx, cur, ops, nops, bad>>

(* stabilize body, used by periodic stabilize and by FinishJoin/FinishLeave(stabilize) *)
StabResult(n) ==
  LET RECURSIVE Go(_)
      Go(list) ==
        IF list = <<>> THEN <<>>
        ELSE LET h == list[1] IN
             IF h # Nil /\ Live(h) THEN
                  LET base == MkList(h, succ[h])
                      ns == pred[h] IN
                  IF ns # Nil /\ Between(n, ns, h, FALSE) /\ Live(ns)
                  THEN MkList(ns, succ[ns]) ELSE base
             ELSE Go(Tail(list))
  IN Go(succ[n])

(* Notify(h, p): h learns about candidate predecessor p (atomic approximation) *)
NotifyEffect(h, p, prd, sr) ==
  \* returns <<newpred, newsur>> for node h
  IF ~Live(h) THEN <<prd, sr>>
  ELSE IF prd # Nil /\ prd = p THEN <<prd, sr>>
  ELSE IF prd = Nil THEN <<p, IF p = h THEN Nil ELSE p>>
  ELSE IF Pingable(prd) THEN
          IF Between(prd, p, h, FALSE) THEN <<p, IF p = h THEN Nil ELSE p>> ELSE <<prd, sr>>
       ELSE <<p, IF p = h THEN Nil ELSE p>>

DoStabilize(n) ==
  LET nl == StabResult(n)
      h == IF nl = <<>> THEN Nil ELSE nl[1] IN
  /\ succ' = [succ EXCEPT ![n] = nl]
  /\ IF h # Nil /\ Pingable(n)    \* don't re-notify when leaving
       THEN LET r == NotifyEffect(h, n, pred[h], sur[h]) IN
            /\ pred' = [pred EXCEPT ![h] = r[1]]
            /\ sur' = [sur EXCEPT ![h] = r[2]]
       ELSE UNCHANGED <<pred, sur>>

Stabilize(n) ==
  /\ Live(n) /\ succ[n] # <<>>
  /\ (n \in Joiners => jpc[n] \notin {"idle", "req", "install"})
  /\ DoStabilize(n)
  /\ UNCHANGED <<st, store, jpc, jctx, lpc, lctx, cur, ops, nops, bad>>

JoinAdvisory(j) ==   \* predecessor.FinishJoin(true,false): predecessor stabilizes
  /\ jpc[j] = "adv"
  /\ LET p == jctx[j].p IN
     IF Live(p) /\ succ[p] # <<>> THEN DoStabilize(p) ELSE UNCHANGED <<succ, pred, sur>>
  /\ jpc' = [jpc EXCEPT ![j] = "active"]
  /\ UNCHANGED <<st, store, jctx, lpc, lctx, cur, ops, nops, bad>>

JoinActive(j) ==
  /\ jpc[j] = "active"
  /\ st' = [st EXCEPT ![j] = "Active"]
  /\ jpc' = [jpc EXCEPT ![j] = "rel"]
  /\ UNCHANGED <<pred, succ, sur, store, jctx, lpc, lctx, cur, ops, nops, bad>>

JoinRelease(j) ==
  /\ jpc[j] = "rel"
  /\ LET x == jctx[j].x IN
     \/ /\ st[x] = "Transferring"
        /\ st' = [st EXCEPT ![x] = "Active"]
     \/ /\ Faults /\ UNCHANGED st          \* release RPC lost
  /\ jpc' = [jpc EXCEPT ![j] = "done"]
  /\ UNCHANGED <<pred, succ, sur, store, jctx, lpc, lctx, cur, ops, nops, bad>>

--------------------------------------------------------------------------
(* LEAVE *)
LeaveLock(l) ==
  /\ lpc[l] = "idle" /\ st[l] = "Active"
  /\ pred[l] # Nil /\ Hd(l) # Nil
  /\ LET s == Hd(l) IN
     IF pred[l] = l /\ s = l THEN
          /\ st' = [st EXCEPT ![l] = "Left"]      \* alone: nothing to transfer (abstracted)
          /\ lpc' = [lpc EXCEPT ![l] = "done"]
          /\ UNCHANGED lctx
     ELSE IF st[s] = "Active" /\ s # l THEN    \* both locks acquired (either order succeeds only if both Active)
          /\ st' = [st EXCEPT ![l] = "Leaving", ![s] = "Transferring"]
          /\ lctx' = [lctx EXCEPT ![l] = [p |-> pred[l], s |-> s]]
          /\ lpc' = [lpc EXCEPT ![l] = "xfer"]
     ELSE UNCHANGED <<st, lctx, lpc>>           \* rejected: retry later
  /\ UNCHANGED <<pred, succ, sur, store, jpc, jctx, cur, ops, nops, bad>>

LeaveTransfer(l) ==
  /\ lpc[l] = "xfer"
  /\ LET s == lctx[l].s IN
     /\ store' = [store EXCEPT ![s] = [k \in Key |-> IF store[l][k] # 0 THEN store[l][k] ELSE store[s][k]],
                                ![l] = [k \in Key |-> 0]]
     /\ sur' = [sur EXCEPT ![l] = l]
  /\ lpc' = [lpc EXCEPT ![l] = "adv"]
  /\ UNCHANGED <<st, pred, succ, jpc, jctx, lctx, cur, ops, nops, bad>>

LeaveAdvisory(l) ==
  /\ lpc[l] = "adv"
  /\ LET p == lctx[l].p IN
     IF p # l /\ Live(p) /\ succ[p] # <<>> THEN DoStabilize(p) ELSE UNCHANGED <<succ, pred, sur>>
  /\ lpc' = [lpc EXCEPT ![l] = "left"]
  /\ UNCHANGED <<st, store, jpc, jctx, lctx, cur, ops, nops, bad>>

LeaveLeft(l) ==
  /\ lpc[l] = "left"
  /\ st' = [st EXCEPT ![l] = "Left"]
  /\ lpc' = [lpc EXCEPT ![l] = "rel"]
  /\ UNCHANGED <<pred, succ, sur, store, jpc, jctx, lctx, cur, ops, nops, bad>>

LeaveRelease(l) ==
  /\ lpc[l] = "rel"
  /\ LET s == lctx[l].s IN
     \/ /\ st[s] = "Transferring" /\ st' = [st EXCEPT ![s] = "Active"]
     \/ /\ Faults /\ UNCHANGED st
  /\ lpc' = [lpc EXCEPT ![l] = "done"]
  /\ UNCHANGED <<pred, succ, sur, store, jpc, jctx, lctx, cur, ops, nops, bad>>

--------------------------------------------------------------------------
CheckPred(n) ==
  /\ Live(n) /\ pred[n] # Nil /\ pred[n] # n
  /\ ~Pingable(pred[n])
  /\ pred' = [pred EXCEPT ![n] = Nil]
  /\ UNCHANGED <<st, succ, sur, store, jpc, jctx, lpc, lctx, cur, ops, nops, bad>>

--------------------------------------------------------------------------
(* CLIENT KV OPS: [kind, k, v, at, hops, state] *)
OpStart ==
  /\ nops < MaxOps
  /\ \E e \in {n \in Node : st[n] = "Active"}, k \in Key, kind \in {"put", "get"} :
       /\ ops' = Append(ops, [kind |-> kind, k |-> k, v |-> nops + 1, at |-> e, hops |-> 0, s |-> "run", r |-> 0])
       /\ nops' = nops + 1
  /\ UNCHANGED <<st, pred, succ, sur, store, jpc, jctx, lpc, lctx, cur, bad>>

OpStep(i) ==
  /\ ops[i].s = "run"
  /\ LET o == ops[i]  a == o.at  k == o.k IN
     IF o.hops > 4 THEN
        /\ ops' = [ops EXCEPT ![i].s = "looped"] /\ UNCHANGED <<store, cur, bad>>
     ELSE IF ~Live(a) THEN   \* ErrNodeGone / NotStarted at a remote hop -> stale (retryable)
        /\ ops' = [ops EXCEPT ![i].s = IF st[a] = "Inactive" THEN "notstarted" ELSE "stale"]
        /\ UNCHANGED <<store, cur, bad>>
     ELSE \E r \in LookupSet(a, k) :
        IF r # a THEN
             /\ ops' = [ops EXCEPT ![i].at = r, ![i].hops = o.hops + 1] /\ UNCHANGED <<store, cur, bad>>
        ELSE IF st[a] # "Active" THEN
             /\ ops' = [ops EXCEPT ![i].s = "stale"] /\ UNCHANGED <<store, cur, bad>>
        ELSE IF sur[a] # Nil /\ Between(a, k, sur[a], TRUE) THEN
             /\ ops' = [ops EXCEPT ![i].at = sur[a], ![i].hops = o.hops + 1] /\ UNCHANGED <<store, cur, bad>>
        ELSE IF pred[a] # Nil /\ ~Between(pred[a], k, a, TRUE) THEN
             /\ ops' = [ops EXCEPT ![i].s = "stale"] /\ UNCHANGED <<store, cur, bad>>
        ELSE IF o.kind = "put" THEN
             /\ store' = [store EXCEPT ![a][k] = o.v]
             /\ cur' = [cur EXCEPT ![k] = o.v]
             /\ ops' = [ops EXCEPT ![i].s = "ok"]
             /\ UNCHANGED bad
        ELSE
             /\ ops' = [ops EXCEPT ![i].s = "ok", ![i].r = store[a][k]]
             /\ bad' = IF store[a][k] # cur[k] THEN bad \cup {"staleread"} ELSE bad
             /\ UNCHANGED <<store, cur>>
  /\ UNCHANGED <<st, pred, succ, sur, jpc, jctx, lpc, lctx, nops>>

Next ==
  \/ \E j \in Joiners : JoinStart(j) \/ ReqJoin(j) \/ JoinGiveUp(j) \/ JoinInstall(j) \/ JoinAdvisory(j) \/ JoinActive(j) \/ JoinRelease(j)
  \/ \E l \in Leavers : LeaveLock(l) \/ LeaveTransfer(l) \/ LeaveAdvisory(l) \/ LeaveLeft(l) \/ LeaveRelease(l)
  \/ \E n \in Node : Stabilize(n) \/ CheckPred(n)
  \/ OpStart
  \/ \E i \in 1..Len(ops) : OpStep(i)

Spec == Init /\ [][Next]_vars

--------------------------------------------------------------------------
NoBad == bad = {}
(* every value lives on exactly one node, and it is the current one *)
SingleCopy == \A k \in Key : Cardinality({n \in Node : store[n][k] # 0}) <= 1
NoLoss == \A k \in Key : cur[k] # 0 => \E n \in Node : store[n][k] = cur[k]
NoNonRetryable == \A i \in 1..Len(ops) : ops[i].s \notin {"notstarted", "looped"}
Quiet == /\ \A j \in Joiners : jpc[j] \in {"idle", "done"}
         /\ \A l \in Leavers : lpc[l] \in {"idle", "done"}
NoStuck == Quiet => \A n \in Node : st[n] \in {"Inactive", "Active", "Left"}
Members == {n \in Node : st[n] = "Active"}
Placement == (Quiet /\ \A n \in Members : pred[n] # Nil /\ pred[n] \in Members /\ pred[n] = PrevMember(Members, n))
             => \A n \in Members, k \in Key : store[n][k] # 0 => Between(pred[n], k, n, TRUE)
====
