---- MODULE AOF ----
(* Throwaway prototype: append -> apply -> (rollback) -> ack, crash anywhere, recover by replay. *)
EXTENDS Naturals, Sequences, FiniteSets, TLC
CONSTANTS Keys, Children, Vals, MaxHist, SkipConflictOnReplay
Muts == [t : {"put"}, k : Keys, v : Vals] \cup [t : {"del"}, k : Keys]
        \cup [t : {"app"}, k : Keys, c : Children] \cup [t : {"rem"}, k : Keys, c : Children]
Empty == [s |-> [k \in Keys |-> 0], ch |-> [k \in Keys |-> {}]]
\* apply returns <<newstate, ok>>
Apply(m, st) ==
  CASE m.t = "put" -> <<[st EXCEPT !.s[m.k] = m.v], TRUE>>
    [] m.t = "del" -> <<[st EXCEPT !.s[m.k] = 0], TRUE>>
    [] m.t = "app" -> IF m.c \in st.ch[m.k] THEN <<st, FALSE>> ELSE <<[st EXCEPT !.ch[m.k] = @ \cup {m.c}], TRUE>>
    [] m.t = "rem" -> <<[st EXCEPT !.ch[m.k] = @ \ {m.c}], TRUE>>
RECURSIVE Fold(_, _)
Fold(seq, st) == IF seq = <<>> THEN st ELSE Fold(Tail(seq), Apply(seq[1], st)[1])
\* replay as the code does it: any apply error aborts the open (unless the repair is modelled)
RECURSIVE Replay(_, _)
Replay(seq, st) ==
  IF seq = <<>> THEN <<st, TRUE>>
  ELSE LET r == Apply(seq[1], st) IN
       IF r[2] \/ SkipConflictOnReplay THEN Replay(Tail(seq), r[1]) ELSE <<st, FALSE>>

VARIABLES seg,      \* entries in the tail segment file
          endf,     \* contents of the .END file or "none"
          segthere, \* FALSE between remove(segment) and rename(.END)
          mem, pc, cur, issued, acked, crashed, rec
vars == <<seg, endf, segthere, mem, pc, cur, issued, acked, crashed, rec>>
Init == /\ seg = <<>> /\ endf = [there |-> FALSE, c |-> <<>>] /\ segthere = TRUE /\ mem = Empty /\ pc = "idle"
        /\ cur = "none" /\ issued = <<>> /\ acked = <<>> /\ crashed = FALSE /\ rec = "none"
Issue == /\ ~crashed /\ pc = "idle" /\ Len(issued) < MaxHist
         /\ \E m \in Muts : cur' = m /\ issued' = Append(issued, m)
         /\ pc' = "append" /\ UNCHANGED <<seg, endf, segthere, mem, acked, crashed, rec>>
AppendLog == /\ ~crashed /\ pc = "append" /\ seg' = Append(seg, cur) /\ pc' = "apply"
             /\ UNCHANGED <<endf, segthere, mem, cur, issued, acked, crashed, rec>>
ApplyMem == /\ ~crashed /\ pc = "apply"
            /\ LET r == Apply(cur, mem) IN
               /\ mem' = r[1]
               /\ pc' = IF r[2] THEN "ack" ELSE "rb_end"
            /\ UNCHANGED <<seg, endf, segthere, cur, issued, acked, crashed, rec>>
RbWriteEnd == /\ ~crashed /\ pc = "rb_end" /\ endf' = [there |-> TRUE, c |-> SubSeq(seg, 1, Len(seg) - 1)] /\ pc' = "rb_rm"
              /\ UNCHANGED <<seg, segthere, mem, cur, issued, acked, crashed, rec>>
RbRemove == /\ ~crashed /\ pc = "rb_rm" /\ segthere' = FALSE /\ pc' = "rb_mv"
            /\ UNCHANGED <<seg, endf, mem, cur, issued, acked, crashed, rec>>
RbRename == /\ ~crashed /\ pc = "rb_mv" /\ seg' = endf.c /\ endf' = [there |-> FALSE, c |-> <<>>] /\ segthere' = TRUE /\ pc' = "nack"
            /\ UNCHANGED <<mem, cur, issued, acked, crashed, rec>>
Ack == /\ ~crashed /\ pc \in {"ack", "nack"}
       /\ acked' = IF pc = "ack" THEN Append(acked, cur) ELSE acked
       /\ issued' = IF pc = "nack" THEN SubSeq(issued, 1, Len(issued) - 1) ELSE issued   \* rejected: no effect
       /\ pc' = "idle" /\ cur' = "none"
       /\ UNCHANGED <<seg, endf, segthere, mem, crashed, rec>>
Crash == /\ ~crashed /\ crashed' = TRUE
         /\ LET disk == IF endf.there THEN endf.c ELSE seg   \* wal load(): END wins, leftovers removed
                r == Replay(disk, Empty) IN
            rec' = [ok |-> r[2], st |-> r[1], disk |-> disk]
         /\ UNCHANGED <<seg, endf, segthere, mem, pc, cur, issued, acked>>
Next == Issue \/ AppendLog \/ ApplyMem \/ RbWriteEnd \/ RbRemove \/ RbRename \/ Ack \/ Crash
Spec == Init /\ [][Next]_vars

IsPrefix(a, b) == Len(a) <= Len(b) /\ SubSeq(b, 1, Len(a)) = a
RecoverOK == crashed => rec.ok
\* recovered state = state of some prefix of the issued mutations that contains every acknowledged one
\* (a mutation in flight may or may not be included; a rejected one has no effect either way)
PrefixState == (crashed /\ rec.ok) =>
   \E n \in Len(acked)..Len(issued) : rec.st = Fold(SubSeq(issued, 1, n), Empty)
====
