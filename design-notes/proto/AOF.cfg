SPECIFICATION Spec
CONSTANTS
  Keys = {"k"}
  Children = {"c", "d"}
  Vals = {1}
  MaxHist = 5
  SkipConflictOnReplay = TRUE
INVARIANTS RecoverOK PrefixState
CHECK_DEADLOCK FALSE
