SPECIFICATION Spec
CONSTANTS
  B = 3
  Node = {1, 3, 4, 6}
  InitMembers = {1, 4, 6}
  Joiners = {3}
  Leavers = {4}
  FixSelf = FALSE
INVARIANTS Terminates LookupCorrect
CHECK_DEADLOCK FALSE
