SPECIFICATION Spec
CONSTANTS
  Targets = {"t1", "t2"}
  MaxChanges = 3
  MaxConns = 3
  BuildFirst = FALSE
  LockConn = TRUE
INVARIANTS CurrentTarget RemovedNotForwarded
CHECK_DEADLOCK FALSE
