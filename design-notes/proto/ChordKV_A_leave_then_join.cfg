SPECIFICATION Spec
CONSTANTS
  M = 8
  Node = {1, 3, 4, 5}
  InitMembers = {1, 3, 5}
  Joiners = {4}
  Leavers = {3}
  Key = {2, 4}
  MaxOps = 2
  Faults = FALSE
  FixPred = FALSE
INVARIANTS NoBad SingleCopy NoLoss NoNonRetryable NoStuck Placement
CHECK_DEADLOCK FALSE
