import json, random, sys
# generate a linearizable concurrent history on K keys with C clients: invoke/return events
random.seed(int(sys.argv[1])); N=int(sys.argv[2]); K=3; C=4
state={k:0 for k in range(K)}
pending={}  # client -> op
out=[]; opid=0; nxt=1
while len(out) < N:
    c=random.randrange(C)
    if c in pending:
        op=pending.pop(c)
        # linearize now (at return) for simplicity: effect at return time
        if op['kind']=='put':
            state[op['k']]=op['v']; r=0
        else:
            r=state[op['k']]
        out.append({"e":"ret","c":c,"id":op['id'],"r":r})
    else:
        opid+=1
        kind=random.choice(['put','get'])
        op={"id":opid,"kind":kind,"k":random.randrange(K),"v":(nxt if kind=='put' else 0)}
        if kind=='put': nxt+=1
        pending[c]=op
        out.append({"e":"inv","c":c,**op})
with open('trace.ndjson','w') as f:
    for o in out: f.write(json.dumps(o)+"\n")
print(len(out),"events")
