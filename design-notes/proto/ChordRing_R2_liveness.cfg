SPECIFICATION FairSpec
CONSTANTS
  B = 3
  Node = {1, 3, 4, 6}
  InitMembers = {1, 4, 6}
  Joiners = {3}
  Leavers = {4}
  FixSelf = TRUE
INVARIANTS Terminates LookupCorrect
PROPERTY Converges
CHECK_DEADLOCK FALSE
