"""Shared machinery for the specter TLA+ model-based checks (python3 stdlib only).

A check is a python function run(ck) in checks/<id>.py.  It uses:
  ck.tlc(...)        run TLC on a spec from spec/ (copied to scratch), parse stats + emitted JSON records
  ck.build(name)     build harness/drv/<name> against $VERIF_REPO (default /repo) with -tags verif -overlay
  ck.drive(bin,...)  run a driver, parse its ndjson output
  ck.violation(...)  record a real-code violation (matched against known_findings.json)
  ck.finish()        write evidence/<id>.json, print KNOWN-FINDING / VIOLATION lines, exit
Exit codes: 0 held, 1 violation (real code only), 2 infrastructure problem (never a VIOLATION line).
"""
import json, os, re, shutil, subprocess, sys, tempfile, time, hashlib, random, glob, threading, itertools
_uniq = itertools.count(1)
_tlc_lock = threading.Lock()

VERIF = os.path.dirname(os.path.dirname(os.path.abspath(__file__)))
REPO = os.environ.get("VERIF_REPO", "/repo")
JAR = "/opt/veriftools/tla/tla2tools.jar:/opt/veriftools/tla/CommunityModules-deps.jar"
NCPU = os.cpu_count() or 4


class Infra(Exception):
    """Infrastructure failure: exit 2, never a violation."""


def find_go():
    cands = sorted(glob.glob(os.path.expanduser("~/go/pkg/mod/golang.org/toolchain@v0.0.1-go1.26.1.linux-amd64/bin/go")))
    cands += sorted(glob.glob("/root/go/pkg/mod/golang.org/toolchain@v0.0.1-go1.26.*.linux-amd64/bin/go"))
    cands += ["/opt/veriftools/go1.26.8/bin/go"]
    for c in cands:
        if os.path.exists(c):
            return c
    return "go"


GO = find_go()


def go_env():
    e = dict(os.environ)
    e["GOFLAGS"] = "-mod=mod"
    e["GOPROXY"] = "off"
    e["GOSUMDB"] = "off"
    e["GOTOOLCHAIN"] = "local"
    e.pop("GOWORK", None)
    if GO == "go":  # fall back to auto-switching
        e.pop("GOTOOLCHAIN", None)
        e.pop("GOSUMDB", None)
    return e


class TlcResult:
    def __init__(self):
        self.generated = 0
        self.distinct = 0
        self.printed = []       # JSON values emitted with PrintT("@@" \o ToJson(..))
        self.error = None       # None | dict(kind=..., name=..., text=...)
        self.finished = False
        self.raw = ""
        self.wall = 0.0
        self.coverage_zero = []  # actions with 0 count (only with coverage=True)
        self.trace_json = None   # parsed -dumpTrace json on error


class Check:
    def __init__(self, pid, tier, seed, level="model_checking", replay=None):
        self.id = pid
        self.tier = tier
        self.seed = seed
        self.level = level
        self.replay = replay
        self.t0 = time.time()
        self.rng = random.Random(seed)
        self.scratch = tempfile.mkdtemp(prefix="verif-%s-" % pid, dir=os.environ.get("VERIF_TMP", "/tmp"))
        self.states = 0
        self.transitions = 0
        self.traces = 0
        self.evaluations = 0
        self.distinct = set()
        self.distinct_n = 0
        self.rule = ""
        self.samples = []
        self.assumptions = []
        self.exhaustive = None
        self.extra = {}
        self.viol = []          # (signature, what, replay_obj)
        self.notes = []
        self._overlay = None
        self.thorough = tier == "thorough"

    # ------------------------------------------------------------------ util
    def log(self, *a):
        print("[%s %6.1fs]" % (self.id, time.time() - self.t0), *a, flush=True)

    def path(self, *p):
        return os.path.join(self.scratch, *p)

    def sample(self, obj, cap=6):
        if len(self.samples) < cap:
            self.samples.append(obj)

    def count(self, key=None, nontrivial=True):
        """count one evaluation; key (hashable/json-able) identifies distinct non-trivial cases"""
        self.evaluations += 1
        if nontrivial and key is not None:
            if not isinstance(key, (str, int, tuple)):
                key = json.dumps(key, sort_keys=True)
            self.distinct.add(key if len(str(key)) < 200 else hashlib.sha1(str(key).encode()).hexdigest())

    # ------------------------------------------------------------------ TLC
    def tlc(self, module, cfg, *, workers=None, simulate=None, depth=None, timeout=600, dfs=False,
            coverage=False, constants=None, allow_error=False, extra_args=(), heap=None, count=True,
            files=None):
        """Run TLC on spec/<module>.tla with config file name (in spec/) or literal cfg text.
        simulate: dict(num=N) -> -simulate num=N ; depth for -depth.
        Returns TlcResult.  A TLC crash / timeout raises Infra.  An invariant violation is returned in
        .error (if allow_error) or raises Infra (a design-level error is never a violation by itself)."""
        sdir = self.path("spec")
        with _tlc_lock:
            if not os.path.isdir(sdir):
                shutil.copytree(os.path.join(VERIF, "spec"), sdir)
        for fn, content in (files or {}).items():
            with open(os.path.join(sdir, fn), "w") as f:
                f.write(content)
        if "\n" in cfg or not cfg.endswith(".cfg"):
            cfgname = "_gen_%s_%d.cfg" % (module, next(_uniq))
            with open(os.path.join(sdir, cfgname), "w") as f:
                f.write(cfg)
        else:
            cfgname = cfg
        if constants:
            with open(os.path.join(sdir, cfgname)) as f:
                txt = f.read()
            for k, v in constants.items():
                txt, n = re.subn(r"(?m)^(\s*%s\s*=\s*).*$" % re.escape(k), lambda m: m.group(1) + str(v), txt)
                if n == 0:
                    raise Infra("constant %s not in %s" % (k, cfgname))
            cfgname = "_ovr_%d_%s" % (next(_uniq), os.path.basename(cfgname))
            with open(os.path.join(sdir, cfgname), "w") as f:
                f.write(txt)
        meta = tempfile.mkdtemp(prefix="meta-", dir=self.scratch)
        w = workers or (1 if simulate or dfs else min(NCPU, 8))
        jopts = ["-XX:+UseParallelGC", "-Xss64m", "-Djava.io.tmpdir=" + meta]      # TLC's own temporary directory goes away with the scratch directory
        if heap:
            jopts.append("-Xmx%s" % heap)
        if dfs:
            jopts.append("-Dtlc2.tool.queue.IStateQueue=StateDeque")
        cmd = ["java"] + jopts + ["-cp", JAR, "tlc2.TLC", "-metadir", meta, "-workers", str(w),
                                  "-config", cfgname, "-noGenerateSpecTE"]
        if simulate:
            cmd += ["-simulate", ",".join("%s=%s" % kv for kv in simulate.items())]
            cmd += ["-seed", str(self.seed)]
        if depth:
            cmd += ["-depth", str(depth)]
        if coverage:
            cmd += ["-coverage", "1"]
        tracefile = os.path.join(meta, "trace.json")
        cmd += ["-dumpTrace", "json", tracefile]
        cmd += list(extra_args)
        cmd += [module + ".tla"]
        t0 = time.time()
        env = dict(os.environ)
        env.pop("JAVA_TOOL_OPTIONS", None)
        try:
            p = subprocess.run(cmd, cwd=sdir, capture_output=True, text=True, timeout=timeout, env=env)
        except subprocess.TimeoutExpired:
            subprocess.run(["pkill", "-f", meta], capture_output=True)
            raise Infra("TLC timeout (%ss) on %s/%s" % (timeout, module, cfgname))
        r = TlcResult()
        r.wall = time.time() - t0
        out = p.stdout
        r.raw = out
        for line in out.splitlines():
            if line.startswith('"@@'):
                try:
                    s = json.loads(line)
                    r.printed.append(json.loads(s[2:]))
                except Exception as e:  # noqa
                    raise Infra("unparsable emitted record: %r (%s)" % (line[:200], e))
        m = re.findall(r"(\d+) states generated, (\d+) distinct states found", out)
        if m:
            r.generated, r.distinct = int(m[-1][0]), int(m[-1][1])
        m2 = re.search(r"The number of states generated: (\d+)", out)  # simulation mode
        if m2 and not m:
            r.generated = int(m2.group(1))
            r.distinct = r.generated
        r.finished = ("Model checking completed. No error has been found." in out) or \
                     (simulate is not None and p.returncode == 0)
        if coverage:
            for cm in re.finditer(r"(?m)^<(\w+) line (\d+), col \d+ to line \d+, col \d+ of module (\w+)>: (\d+):(\d+)$", out):
                if cm.group(4) == "0" and cm.group(5) == "0":
                    r.coverage_zero.append(cm.group(1))
        em = re.search(r"Error: (Invariant (\S+) is violated|Action property (\S+) is violated|Temporal properties were violated|Deadlock reached|.*)", out)
        if not r.finished or em:
            kind, name = "other", ""
            if em:
                if em.group(2):
                    kind, name = "invariant", em.group(2)
                elif em.group(3):
                    kind, name = "action", em.group(3)
                elif "Temporal" in em.group(1):
                    kind = "temporal"
                elif "Deadlock" in em.group(1):
                    kind = "deadlock"
            r.error = dict(kind=kind, name=name, text=out[-4000:] + p.stderr[-2000:])
            if os.path.exists(tracefile):
                try:
                    with open(tracefile) as f:
                        r.trace_json = json.load(f)
                except Exception:
                    pass
            if kind == "other" or not allow_error:
                if kind == "other" and simulate and p.returncode == 0:
                    r.error = None
                else:
                    raise Infra("TLC error on %s/%s: %s\n%s" % (module, cfgname, (kind + " " + name).strip(), r.error["text"][-3000:]))
        shutil.rmtree(meta, ignore_errors=True)
        if count:
            with _tlc_lock:
                self.states += r.distinct
                self.transitions += r.generated
        self.log("tlc %s/%s: %d generated, %d distinct, %d records, %.1fs%s" % (
            module, os.path.basename(cfgname), r.generated, r.distinct, len(r.printed), r.wall,
            (" ERROR " + r.error["kind"] + " " + r.error["name"]) if r.error else ""))
        return r

    def tlc_many(self, jobs, parallel=5):
        """jobs: list of dict(kwargs for self.tlc incl. module, cfg); runs them concurrently; returns results in order (Infra re-raised)"""
        from concurrent.futures import ThreadPoolExecutor
        def one(j):
            j = dict(j)
            return self.tlc(j.pop("module"), j.pop("cfg"), **j)
        with ThreadPoolExecutor(parallel) as ex:
            return list(ex.map(one, jobs))

    # ------------------------------------------------------------------ Go build
    def overlay(self):
        if self._overlay:
            return self._overlay
        rep = {}
        H = os.path.join(VERIF, "harness")
        for f in glob.glob(os.path.join(H, "verifkit", "**", "*.go"), recursive=True):
            rep[os.path.join(REPO, "internal", "verifkit", os.path.relpath(f, os.path.join(H, "verifkit")))] = f
        for d in glob.glob(os.path.join(H, "export", "*")):
            pkg = os.path.basename(d).replace("__", "/")
            for f in glob.glob(os.path.join(d, "*.go")):
                rep[os.path.join(REPO, pkg, "zz_verif_" + os.path.basename(f))] = f
        for d in glob.glob(os.path.join(H, "drv", "*")):
            for f in glob.glob(os.path.join(d, "*.go")):
                rep[os.path.join(REPO, "cmd", "verifdrv_" + os.path.basename(d), os.path.basename(f))] = f
        stub = os.path.join(H, "stub_index.html")
        uib = os.path.join(REPO, "tun", "client", "ui", "build")
        if not os.path.isdir(uib) or not os.listdir(uib):
            rep[os.path.join(uib, "index.html")] = stub
        for f in glob.glob(os.path.join(self.scratch, "gen_overlay", "*.json")):
            with open(f) as fh:
                rep.update(json.load(fh))
        p = self.path("overlay.json")
        with open(p, "w") as f:
            json.dump({"Replace": rep}, f)
        self._overlay = p
        return p

    def add_overlay(self, mapping):
        """extra overlay entries (e.g. generated clock-rewritten copies of working-tree files)"""
        d = self.path("gen_overlay")
        os.makedirs(d, exist_ok=True)
        with open(os.path.join(d, "%d.json" % len(os.listdir(d))), "w") as f:
            json.dump(mapping, f)
        self._overlay = None

    def clock_overlay(self, relpaths):
        """overlay copies (generated now from the working-tree files) with time.Now()/time.Since( replaced by the virtual clock"""
        m = {}
        for rp in relpaths:
            src = os.path.join(REPO, rp)
            txt = open(src).read()
            if "time.Now()" not in txt and "time.Since(" not in txt:
                raise Infra("clock overlay: %s no longer reads the clock with time.Now()/time.Since()" % rp)
            txt = txt.replace("time.Now()", "verifclock.Now()").replace("time.Since(", "verifclock.Since(")
            imp = '\t"go.miragespace.co/specter/internal/verifkit/verifclock"\n'
            txt = re.sub(r'import \(\n', 'import (\n' + imp, txt, count=1)
            if not re.search(r'\btime\.', txt.replace("verifclock.", "")):
                txt = txt.replace('\t"time"\n', '')
            dst = self.path("clock_" + rp.replace("/", "__"))
            with open(dst, "w") as f:
                f.write(txt)
            m[src] = dst
        self.add_overlay(m)

    def build(self, name, race=False, timeout=900):
        out = self.path("drv_" + name + ("_race" if race else ""))
        cmd = [GO, "build", "-tags", "verif", "-overlay", self.overlay(), "-o", out]
        if race:
            cmd.append("-race")
        cmd.append("./cmd/verifdrv_" + name)
        t0 = time.time()
        p = subprocess.run(cmd, cwd=REPO, capture_output=True, text=True, env=go_env(), timeout=timeout)
        if p.returncode != 0:
            raise Infra("go build %s failed:\n%s" % (name, (p.stdout + p.stderr)[-4000:]))
        self.log("built driver %s in %.1fs" % (name, time.time() - t0))
        return out

    def drive(self, binary, args=(), input_obj=None, input_lines=None, timeout=600, env=None, wrap=None,
              allow_fail=False):
        """run a driver; returns list of parsed ndjson stdout records.  A crashing driver is Infra unless allow_fail."""
        inp = None
        if input_lines is not None:
            inp = "\n".join(json.dumps(x) for x in input_lines) + "\n"
        elif input_obj is not None:
            inp = json.dumps(input_obj)
        e = dict(os.environ)
        e["VERIF_SEED"] = str(self.seed)
        if env:
            e.update(env)
        cmd = (wrap or []) + [binary] + list(args)
        try:
            p = subprocess.run(cmd, input=inp, capture_output=True, text=True, timeout=timeout, env=e, cwd=self.scratch)
        except subprocess.TimeoutExpired:
            raise Infra("driver timeout: %s" % " ".join(cmd[:4]))
        recs = []
        for line in p.stdout.splitlines():
            line = line.strip()
            if line.startswith("{") or line.startswith("["):
                try:
                    recs.append(json.loads(line))
                except Exception:
                    pass
        if p.returncode != 0 and not allow_fail:
            raise Infra("driver %s exited %d:\n%s" % (os.path.basename(binary), p.returncode, (p.stderr or p.stdout)[-3000:]))
        self.last_stderr = p.stderr
        self.last_rc = p.returncode
        return recs

    # ------------------------------------------------------------------ verdicts
    def violation(self, signature, what, replay_obj=None):
        for s, _, _ in self.viol:
            if s == signature:
                return
        self.viol.append((signature, what, replay_obj))

    def finish(self):
        kf_path = os.path.join(VERIF, "known_findings.json")
        known = []
        if os.path.exists(kf_path):
            with open(kf_path) as f:
                known = [k for k in json.load(f).get("findings", []) if k.get("status") == "known" and k.get("property") == self.id]
        real = []
        for sig, what, rep in self.viol:
            k = next((k for k in known if _sig_match(k.get("signature", ""), sig)), None)
            if k:
                print("KNOWN-FINDING: property=%s %s [%s]" % (self.id, k.get("what", what), sig), flush=True)
            else:
                real.append((sig, what, rep))
        wall = time.time() - self.t0
        cov = {
            "evaluations": self.evaluations,
            "distinct_nontrivial": max(self.distinct_n, len(self.distinct)),
            "rule": self.rule,
            "samples": self.samples[:8],
            "states": self.states,
            "transitions": self.transitions,
            "traces_validated_against_impl": self.traces,
        }
        if self.exhaustive is not None:
            cov["exhaustive"] = bool(self.exhaustive)
        cov.update(self.extra)
        ev = {
            "property_id": self.id, "tier": self.tier, "seed": self.seed, "level": self.level,
            "coverage": cov, "assumptions": self.assumptions, "wall_s": round(wall, 2),
            "violations": len(real), "known_findings_reproduced": len(self.viol) - len(real),
            "notes": self.notes,
        }
        if not self.replay and "VERIF_REPO" not in os.environ:
            os.makedirs(os.path.join(VERIF, "evidence"), exist_ok=True)
            with open(os.path.join(VERIF, "evidence", self.id + ".json"), "w") as f:
                json.dump(ev, f, indent=1, default=str)
                f.write("\n")
        rc = 0
        if real:
            rdir = os.path.join(VERIF, "replays") if "VERIF_REPO" not in os.environ else tempfile.mkdtemp(prefix="verif-replays-")
            os.makedirs(rdir, exist_ok=True)
            for i, (sig, what, rep) in enumerate(real[:20]):
                rp = os.path.join(rdir, "%s-%d-%d.json" % (self.id, self.seed, i))
                with open(rp, "w") as f:
                    json.dump({"property": self.id, "signature": sig, "what": what, "tier": self.tier,
                               "seed": self.seed, "replay": rep}, f, indent=1, default=str)
                print("VIOLATION property=%s replay=%s" % (self.id, rp))
                print("  signature: %s\n  %s" % (sig, what))
            rc = 1
        self.log("done: evaluations=%d distinct=%d states=%d traces=%d violations=%d known=%d wall=%.1fs" % (
            self.evaluations, cov["distinct_nontrivial"], self.states, self.traces, len(real), len(self.viol) - len(real), wall))
        self.cleanup()
        return rc

    def cleanup(self):
        if os.environ.get("VERIF_KEEP"):
            print("scratch kept:", self.scratch)
            return
        shutil.rmtree(self.scratch, ignore_errors=True)


def _sig_match(pattern, sig):
    if pattern.endswith("*"):
        return sig.startswith(pattern[:-1])
    return pattern == sig


# ---------------------------------------------------------------------- generic table check
def table_check(ck, module, cfg, driver, *, judge=None, drv_args=(), sig=None, workers=None,
                tlc_timeout=600, drv_timeout=900, sample_every=None, nontrivial=None, cases=None,
                constants=None, limit=None, binary=None, shards=1):
    """TLC enumerates cases ({"c": case, "e": expected}) from a spec; the Go driver executes each case
    on the real code and answers {"i": index, "o": observation}; judge(case, expected, obs) -> None|str."""
    if cases is None:
        r = ck.tlc(module, cfg, workers=workers, timeout=tlc_timeout, constants=constants)
        cases = r.printed
    if ck.replay is not None:
        cases = [ck.replay]
    if not cases:
        raise Infra("spec %s produced no cases" % module)
    if limit and len(cases) > limit:
        ck.rng.shuffle(cases)
        cases = cases[:limit]
        ck.exhaustive = False
    elif ck.exhaustive is None:
        ck.exhaustive = True
    b = binary or ck.build(driver)
    if shards > 1 and len(cases) >= 4 * shards:      # independent cases: several driver processes, indices shifted back
        import concurrent.futures
        step = (len(cases) + shards - 1) // shards
        def part(k):
            rs = ck.drive(b, drv_args, input_lines=[c["c"] for c in cases[k * step:(k + 1) * step]], timeout=drv_timeout)
            return [dict(r, i=r["i"] + k * step) for r in rs if "i" in r]
        with concurrent.futures.ThreadPoolExecutor(max_workers=shards) as ex:
            recs = [r for rs in ex.map(part, range(shards)) for r in rs]
    else:
        recs = ck.drive(b, drv_args, input_lines=[c["c"] for c in cases], timeout=drv_timeout)
    byi = {r["i"]: r for r in recs if "i" in r}
    if len(byi) != len(cases):
        raise Infra("driver %s answered %d of %d cases\n%s" % (driver, len(byi), len(cases), getattr(ck, "last_stderr", "")[-2000:]))
    for i, c in enumerate(cases):
        obs = byi[i]["o"]
        nt = nontrivial(c) if nontrivial else True
        ck.count(c["c"], nt)
        if i % max(1, len(cases) // 5) == 0:
            ck.sample({"case": c["c"], "expected": c.get("e"), "observed": obs})
        msg = (judge or _judge_eq)(c["c"], c.get("e"), obs)
        if msg:
            s = sig(c["c"], c.get("e"), obs) if sig else "%s:%s" % (ck.id, json.dumps(c["c"], sort_keys=True)[:120])
            ck.violation(s, "%s; case=%s expected=%s observed=%s" % (msg, json.dumps(c["c"])[:400], json.dumps(c.get("e"))[:300], json.dumps(obs)[:300]), c)
    ck.traces += len(cases)
    return cases, byi


def _judge_eq(case, exp, obs):
    if exp != obs:
        return "observation differs from the specification"
    return None


def main_run(pid, fn, level="model_checking"):
    import argparse
    ap = argparse.ArgumentParser()
    ap.add_argument("--tier", default=os.environ.get("VERIF_TIER", "quick"))
    ap.add_argument("--replay")
    a = ap.parse_args(sys.argv[2:])
    seed = int(os.environ.get("VERIF_SEED", "1") or "1")
    rep = None
    if a.replay:
        with open(a.replay) as f:
            rep = json.load(f).get("replay")
    ck = Check(pid, a.tier, seed, level=level, replay=rep)
    try:
        fn(ck)
        rc = ck.finish()
    except Infra as e:
        print("INFRA-ERROR property=%s: %s" % (pid, e), file=sys.stderr, flush=True)
        ck.cleanup()
        rc = 2
    except Exception:
        import traceback
        traceback.print_exc()
        ck.cleanup()
        rc = 2
    sys.exit(rc)
