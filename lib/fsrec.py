"""File-system recorder: run a command under strace and rebuild, for every syscall boundary, the content of the files under a
root directory (process-crash model: everything written so far is in the page cache and survives the death of the process)."""
import os, re, subprocess, copy

TRACE = "openat,open,creat,write,pwrite64,writev,ftruncate,truncate,rename,renameat,renameat2,unlink,unlinkat,fsync,fdatasync,close,lseek,mkdir,mkdirat,dup,dup2,dup3"


def _unescape(s):
    # strace -xx: every byte as \xNN
    out = bytearray()
    i = 0
    while i < len(s):
        if s[i] == "\\" and i + 3 < len(s) + 1 and s[i + 1] == "x":
            out.append(int(s[i + 2:i + 4], 16))
            i += 4
        elif s[i] == "\\" and i + 1 < len(s):
            m = {"n": 10, "t": 9, "r": 13, "\\": 92, '"': 34, "0": 0}
            out.append(m.get(s[i + 1], ord(s[i + 1])))
            i += 2
        else:
            out.append(ord(s[i]))
            i += 1
    return bytes(out)


class FileObj:
    def __init__(self):
        self.data = bytearray()
        self.synced = 0      # length known to be on stable storage (after fsync)


class Recorder:
    def __init__(self, root):
        self.root = os.path.realpath(root)
        self.files = {}       # path -> FileObj
        self.fds = {}         # fd -> [FileObj or None, offset, append]
        self.images = []      # list of dict(files={relpath: bytes}, acked=int, after=str, synced={relpath: int})
        self.acked = 0
        self.stdout = bytearray()
        self.marks = []

    def _rel(self, p):
        p = os.path.normpath(p if p.startswith("/") else os.path.join(self.root, p))
        if p == self.root or p.startswith(self.root + "/"):
            return p
        return None

    def snap(self, after):
        img = {os.path.relpath(p, self.root): bytes(f.data) for p, f in self.files.items()}
        syn = {os.path.relpath(p, self.root): f.synced for p, f in self.files.items()}
        if self.images and self.images[-1]["files"] == img and self.images[-1]["acked"] == self.acked:
            return
        self.images.append({"files": img, "acked": self.acked, "after": after, "synced": syn})

    def feed(self, name, args, ret):
        if ret.startswith("-1") or ret == "?":
            return
        a = args
        if name in ("openat", "open", "creat"):
            m = re.match(r'(?:AT_FDCWD|\d+), "((?:[^"\\]|\\.)*)", ([A-Z_|0-9a-zx]+)', a) if name == "openat" else re.match(r'"((?:[^"\\]|\\.)*)", ([A-Z_|0-9a-zx]+)', a)
            if not m:
                return
            path = self._rel(_unescape(m.group(1)).decode("utf8", "replace"))
            fd = int(ret.split()[0])
            flags = m.group(2)
            if path is None or "O_DIRECTORY" in flags:
                self.fds.pop(fd, None)
                return
            changed = False
            if path not in self.files:
                if "O_CREAT" in flags or name == "creat":
                    self.files[path] = FileObj()
                    changed = True
                else:
                    self.fds.pop(fd, None)
                    return
            f = self.files[path]
            if "O_TRUNC" in flags or name == "creat":
                if f.data:
                    changed = True
                f.data = bytearray()
                f.synced = 0
            self.fds[fd] = [f, 0, "O_APPEND" in flags]
            if changed:
                self.snap("%s %s %s" % (name, os.path.basename(path), flags))
        elif name in ("write", "pwrite64"):
            m = re.match(r'(\d+), "((?:[^"\\]|\\.)*)"(?:\.\.\.)?, (\d+)(?:, (\d+))?', a)
            if not m:
                return
            fd = int(m.group(1))
            data = _unescape(m.group(2))
            n = int(ret.split()[0])
            data = data[:n]
            if fd == 1:
                self.stdout += data
                for mm in re.finditer(rb"ACK (\d+)", data):
                    self.acked = max(self.acked, int(mm.group(1)))
                    self.snap("ack %d" % self.acked)
                return
            ent = self.fds.get(fd)
            if not ent or ent[0] is None:
                return
            f = ent[0]
            if name == "pwrite64":
                off = int(m.group(4))
            else:
                off = len(f.data) if ent[2] else ent[1]
            if off > len(f.data):
                f.data.extend(b"\0" * (off - len(f.data)))
            f.data[off:off + len(data)] = data
            if name == "write":
                ent[1] = off + len(data)
            self.snap("%s fd=%d off=%d len=%d" % (name, fd, off, len(data)))
            self.last_write = (f, off, len(data))
        elif name == "lseek":
            m = re.match(r"(\d+), (-?\d+), (SEEK_\w+)", a)
            if m and int(m.group(1)) in self.fds:
                self.fds[int(m.group(1))][1] = int(ret.split()[0])
        elif name == "ftruncate":
            m = re.match(r"(\d+), (\d+)", a)
            ent = self.fds.get(int(m.group(1))) if m else None
            if ent and ent[0] is not None:
                n = int(m.group(2))
                f = ent[0]
                if n < len(f.data):
                    del f.data[n:]
                else:
                    f.data.extend(b"\0" * (n - len(f.data)))
                f.synced = min(f.synced, n)
                self.snap("ftruncate %d" % n)
        elif name in ("rename", "renameat", "renameat2"):
            ps = re.findall(r'"((?:[^"\\]|\\.)*)"', a)
            if len(ps) >= 2:
                src, dst = self._rel(_unescape(ps[0]).decode()), self._rel(_unescape(ps[1]).decode())
                if src in self.files:
                    f = self.files.pop(src)
                    if dst:
                        self.files[dst] = f
                    self.snap("rename %s -> %s" % (os.path.basename(src), os.path.basename(dst or "?")))
        elif name in ("unlink", "unlinkat"):
            ps = re.findall(r'"((?:[^"\\]|\\.)*)"', a)
            if ps:
                p = self._rel(_unescape(ps[0]).decode())
                if p in self.files:
                    self.files.pop(p)
                    self.snap("unlink %s" % os.path.basename(p))
        elif name in ("fsync", "fdatasync"):
            m = re.match(r"(\d+)", a)
            ent = self.fds.get(int(m.group(1))) if m else None
            if ent and ent[0] is not None:
                ent[0].synced = len(ent[0].data)
                self.marks.append(("fsync", len(self.images)))
        elif name == "close":
            m = re.match(r"(\d+)", a)
            if m:
                self.fds.pop(int(m.group(1)), None)
        elif name in ("dup", "dup2", "dup3"):
            m = re.match(r"(\d+)", a)
            if m and int(m.group(1)) in self.fds:
                self.fds[int(ret.split()[0])] = self.fds[int(m.group(1))]


LINE = re.compile(r"^(?:\[pid\s+(\d+)\]\s+|(\d+)\s+)?(\w+)\((.*)\)\s+= (.*)$")
UNFIN = re.compile(r"^(?:\[pid\s+(\d+)\]\s+|(\d+)\s+)?(\w+)\((.*) <unfinished \.\.\.>$")
RESUM = re.compile(r"^(?:\[pid\s+(\d+)\]\s+|(\d+)\s+)?<\.\.\. (\w+) resumed>(.*)\)\s+= (.*)$")


def record(cmd, root, stdin_text=None, timeout=120, env=None):
    """run cmd under strace; returns (Recorder, returncode, stdout_bytes)"""
    out = root.rstrip("/") + ".strace"
    full = ["strace", "-f", "-xx", "-s", "4000000", "-e", "trace=" + TRACE, "-o", out] + cmd
    p = subprocess.run(full, input=stdin_text, capture_output=True, text=True, timeout=timeout, env=env)
    rec = Recorder(root)
    pending = {}
    with open(out, errors="replace") as f:
        for line in f:
            line = line.rstrip("\n")
            m = UNFIN.match(line)
            if m:
                pending[m.group(1) or m.group(2) or "0"] = (m.group(3), m.group(4))
                continue
            m = RESUM.match(line)
            if m:
                pid = m.group(1) or m.group(2) or "0"
                name, a0 = pending.pop(pid, (m.group(3), ""))
                rec.feed(name, a0 + m.group(4), m.group(5))
                continue
            m = LINE.match(line)
            if m:
                rec.feed(m.group(3), m.group(4), m.group(5))
    os.unlink(out)
    return rec, p.returncode, p.stdout, p.stderr


def materialize(image_files, dest):
    for rel, data in image_files.items():
        p = os.path.join(dest, rel)
        os.makedirs(os.path.dirname(p), exist_ok=True)
        with open(p, "wb") as f:
            f.write(data)
