---- MODULE MC_NodeState ----
EXTENDS NodeState
MCStates == <<"Inactive", "Joining", "Active", "Transferring">>
\* three threads race from the same state; one of them then continues; one forced Set
MCScript == ("t1" :> << <<"T", "Inactive", "Joining">>, <<"T", "Joining", "Active">> >>
             @@ "t2" :> << <<"T", "Inactive", "Active">>, <<"S", "Transferring">> >>
             @@ "t3" :> << <<"T", "Inactive", "Joining">>, <<"T", "Active", "Transferring">> >>)
\* a state is left and entered again (Active -> Transferring -> Active, the cycle of a membership lock) while other threads sit between the
\* load and the compare-and-swap of their own transition out of it: the swap compares the whole word, so they fail
MCStatesABA == <<"Active", "Transferring", "Leaving">>
MCScriptABA == ("t1" :> << <<"T", "Active", "Leaving">> >>
                @@ "t2" :> << <<"T", "Active", "Transferring">>, <<"T", "Transferring", "Active">> >>
                @@ "t3" :> << <<"T", "Transferring", "Active">>, <<"T", "Active", "Transferring">> >>)
====
