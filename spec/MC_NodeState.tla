---- MODULE MC_NodeState ----
EXTENDS NodeState
MCStates == <<"Inactive", "Joining", "Active", "Transferring">>
\* three threads race from the same state; one of them then continues; one forced Set
MCScript == ("t1" :> << <<"T", "Inactive", "Joining">>, <<"T", "Joining", "Active">> >>
             @@ "t2" :> << <<"T", "Inactive", "Active">>, <<"S", "Transferring">> >>
             @@ "t3" :> << <<"T", "Inactive", "Joining">>, <<"T", "Active", "Transferring">> >>)
====
