SPECIFICATION Spec
CONSTANTS
  HoldLease = TRUE
  K = 2
  KindSeqs <- PairsAndTriples
  InitRoutes <- BothRoutes
INVARIANT Linearizable LeaseFreed TypeOK
CHECK_DEADLOCK FALSE
