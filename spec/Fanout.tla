-------------------------------- MODULE Fanout --------------------------------
(* C46.  util/promise All(ctx, fns...): concurrent fan-out.

   Design model (Family = "design"): the goroutines of All as a state machine --
     main:   spawn the tasks one after the other, then select on {done, ctx.Done}; after ctx.Done wait for done
             (WaitAfterCancel; FALSE models the tempting variant that returns as soon as the context is cancelled)
     task i: spawned -> running fn (Begin) -> fn returned a value or an error (FnReturn) -> slot written (Store)
             -> wg.Done (WgDone)
     waiter: closes done once the wait group is zero
     Cancel: the shared context is cancelled at any moment
   TLC explores every interleaving for 0..MaxN tasks and checks ReturnAfterAll and Aligned, and that the visible
   history (start / fin / cancel / return events) of every behaviour is accepted by the event acceptor Accepts.

   Observation mode (Family = "obs"): the histories recorded from the real promise.All by harness/drv/c46fanout
   (fanout_obs.ndjson, one run per line) are judged by the same acceptor and the same predicates.

   Values: task i returns either a non-zero value (ok) or a non-zero error id (~ok); 0 is the zero value / nil. *)
EXTENDS Integers, Sequences, FiniteSets, TLC, Json

CONSTANTS MaxN, WaitAfterCancel, Family,
          KeepLog     \* design mode: carry the visible history (costly; needed for HistoryAccepted only)

Emit(r) == PrintT("@@" \o ToJson(r))

-------------------------------------------------------------------------------
(* events and the event acceptor (shared by both modes).
   ev = [t, i, ok, v, R, E, F]: t \in {"start","fin","cancel","return"}; fin carries the task's own result
   (ok, v = value or error id); return carries the returned slices R (values), E (error ids) and the completion
   flags F sampled when All returned. *)
Ev(t, i, ok, v, R, E, F) == [t |-> t, i |-> i, ok |-> ok, v |-> v, R |-> R, E |-> E, F |-> F]

AInit(n) == [st |-> [i \in 1..n |-> "new"], ok |-> [i \in 1..n |-> FALSE], v |-> [i \in 1..n |-> 0],
             cancelled |-> FALSE, returned |-> FALSE]

AllFinished(n, s) == \A i \in 1..n : s.st[i] = "finished"
AlignedRet(n, s, ev) ==      \* for each task, in input order, either its value or its error
  /\ Len(ev.R) = n /\ Len(ev.E) = n
  /\ \A i \in 1..n : s.st[i] = "finished" =>
        IF s.ok[i] THEN ev.R[i] = s.v[i] /\ ev.E[i] = 0
        ELSE ev.E[i] = s.v[i] /\ ev.R[i] = 0          \* the error and not also a value the failing task returned with it
FlagsSet(n, ev) == Len(ev.F) = n /\ \A i \in 1..n : ev.F[i]

(* well-formedness of a history (what any execution, right or wrong, must look like) *)
EvLegal(n, s, ev) ==
  CASE ev.t = "start"  -> ev.i \in 1..n /\ s.st[ev.i] = "new"
    [] ev.t = "fin"    -> ev.i \in 1..n /\ s.st[ev.i] = "started" /\ ev.v # 0
    [] ev.t = "cancel" -> ~s.cancelled
    [] ev.t = "return" -> ~s.returned
    [] OTHER           -> FALSE
(* the property: what the statement allows at this point *)
EvAllowed(n, s, ev) ==
  CASE ev.t = "start"  -> ~s.returned              \* nothing of a task happens after All returned
    [] ev.t = "fin"    -> ~s.returned
    [] ev.t = "cancel" -> TRUE
    [] ev.t = "return" -> AllFinished(n, s) /\ AlignedRet(n, s, ev) /\ FlagsSet(n, ev)
    [] OTHER           -> FALSE
Apply(s, ev) ==
  CASE ev.t = "start"  -> [s EXCEPT !.st[ev.i] = "started"]
    [] ev.t = "fin"    -> [s EXCEPT !.st[ev.i] = "finished", !.ok[ev.i] = ev.ok, !.v[ev.i] = ev.v]
    [] ev.t = "cancel" -> [s EXCEPT !.cancelled = TRUE]
    [] ev.t = "return" -> [s EXCEPT !.returned = TRUE]
    [] OTHER           -> s

(* replay a history through the acceptor: verdict = first problem found *)
RECURSIVE Replay(_, _, _, _)
Replay(n, s, h, k) ==
  IF k > Len(h) THEN [ok |-> TRUE, at |-> 0, why |-> "", returned |-> s.returned]
  ELSE LET ev == h[k] IN
       IF ~EvLegal(n, s, ev) THEN [ok |-> FALSE, at |-> k, why |-> "malformed", returned |-> s.returned]
       ELSE IF ~EvAllowed(n, s, ev) THEN
            [ok |-> FALSE, at |-> k, returned |-> s.returned,
             why |-> IF ev.t # "return" THEN "task-event-after-return"
                     ELSE IF ~AllFinished(n, s) THEN "returned-before-all-finished"
                     ELSE IF ~FlagsSet(n, ev) THEN "completion-flag-unset-at-return"
                     ELSE "results-not-aligned"]
       ELSE Replay(n, Apply(s, ev), h, k + 1)
Accepts(n, h) == Replay(n, AInit(n), h, 1)

-------------------------------------------------------------------------------
(* design model *)
VARIABLES n, tpc, out, R, E, wg, doneCh, cancelled, mpc, next, log, retR, retE
vars == <<n, tpc, out, R, E, wg, doneCh, cancelled, mpc, next, log, retR, retE>>
Logged(ev) == IF KeepLog THEN Append(log, ev) ELSE log

Finished(i) == tpc[i] \in {"ret", "stored", "fin"}          \* fn has returned
NoSeq == <<>>

DInit ==
  /\ n \in 0..MaxN
  /\ tpc = [i \in 1..n |-> "new"] /\ out = [i \in 1..n |-> [ok |-> FALSE, v |-> 0]]
  /\ R = [i \in 1..n |-> 0] /\ E = [i \in 1..n |-> 0]
  /\ wg = n /\ doneCh = FALSE /\ cancelled = FALSE /\ mpc = "spawn" /\ next = 1 /\ log = <<>> /\ retR = <<>> /\ retE = <<>>

Spawn ==
  /\ mpc = "spawn"
  /\ IF next <= n THEN tpc' = [tpc EXCEPT ![next] = "spawned"] /\ next' = next + 1 /\ mpc' = mpc
                  ELSE mpc' = "select" /\ UNCHANGED <<tpc, next>>
  /\ UNCHANGED <<n, out, R, E, wg, doneCh, cancelled, log, retR, retE>>
Begin(i) ==
  /\ tpc[i] = "spawned" /\ tpc' = [tpc EXCEPT ![i] = "run"]
  /\ log' = Logged(Ev("start", i, FALSE, 0, NoSeq, NoSeq, NoSeq))
  /\ UNCHANGED <<n, out, R, E, wg, doneCh, cancelled, mpc, next, retR, retE>>
FnReturn(i, ok) ==
  /\ tpc[i] = "run" /\ tpc' = [tpc EXCEPT ![i] = "ret"]
  /\ out' = [out EXCEPT ![i] = [ok |-> ok, v |-> IF ok THEN i ELSE 100 + i]]
  /\ log' = Logged(Ev("fin", i, ok, IF ok THEN i ELSE 100 + i, NoSeq, NoSeq, NoSeq))
  /\ UNCHANGED <<n, R, E, wg, doneCh, cancelled, mpc, next, retR, retE>>
Store(i) ==
  /\ tpc[i] = "ret" /\ tpc' = [tpc EXCEPT ![i] = "stored"]
  /\ IF out[i].ok THEN R' = [R EXCEPT ![i] = out[i].v] /\ E' = E
                  ELSE E' = [E EXCEPT ![i] = out[i].v] /\ R' = R
  /\ UNCHANGED <<n, out, wg, doneCh, cancelled, mpc, next, log, retR, retE>>
WgDone(i) ==
  /\ tpc[i] = "stored" /\ tpc' = [tpc EXCEPT ![i] = "fin"] /\ wg' = wg - 1
  /\ UNCHANGED <<n, out, R, E, doneCh, cancelled, mpc, next, log, retR, retE>>
Waiter ==
  /\ wg = 0 /\ ~doneCh /\ doneCh' = TRUE
  /\ UNCHANGED <<n, tpc, out, R, E, wg, cancelled, mpc, next, log, retR, retE>>
Cancel ==
  /\ ~cancelled /\ cancelled' = TRUE
  /\ log' = Logged(Ev("cancel", 0, FALSE, 0, NoSeq, NoSeq, NoSeq))
  /\ UNCHANGED <<n, tpc, out, R, E, wg, doneCh, mpc, next, retR, retE>>
Return ==
  /\ mpc' = "returned" /\ retR' = R /\ retE' = E
  /\ log' = Logged(Ev("return", 0, FALSE, 0, R, E, [i \in 1..n |-> Finished(i)]))
  /\ UNCHANGED <<n, tpc, out, R, E, wg, doneCh, cancelled, next>>
MainSelect ==
  /\ mpc = "select"
  /\ \/ doneCh /\ Return
     \/ cancelled /\ IF WaitAfterCancel THEN mpc' = "drain" /\ UNCHANGED <<n, tpc, out, R, E, wg, doneCh, cancelled, next, log, retR, retE>>
                                        ELSE Return
Drain == mpc = "drain" /\ doneCh /\ Return

DNext == Spawn \/ Waiter \/ Cancel \/ MainSelect \/ Drain
         \/ \E i \in 1..n : Begin(i) \/ FnReturn(i, TRUE) \/ FnReturn(i, FALSE) \/ Store(i) \/ WgDone(i)

(* the property on the design *)
ReturnAfterAll == mpc = "returned" => \A i \in 1..n : Finished(i)
Aligned ==
  mpc = "returned" =>
     \A i \in 1..n : IF out[i].ok THEN retR[i] = out[i].v /\ retE[i] = 0 ELSE retE[i] = out[i].v
HistoryAccepted == KeepLog => Accepts(n, log).ok            \* every visible history of the design passes the acceptor
(* termination: with every task finishing, All returns (checked as a property under weak fairness) *)
Fair == WF_vars(Spawn) /\ WF_vars(Waiter) /\ WF_vars(MainSelect) /\ WF_vars(Drain)
        /\ \A i \in 1..MaxN : WF_vars(i \in 1..n /\ (Begin(i) \/ FnReturn(i, TRUE) \/ Store(i) \/ WgDone(i)))
Terminates == <>(mpc = "returned")

-------------------------------------------------------------------------------
(* observation mode: one case per recorded run *)
Obs == IF Family = "obs" THEN ndJsonDeserialize("fanout_obs.ndjson") ELSE <<>>

VARIABLES c, done

OInit == c \in 1..Len(Obs) /\ done = FALSE
ONext == done = FALSE /\ done' = TRUE /\ c' = c /\ Emit([c |-> c, e |-> Accepts(Obs[c].n, Obs[c].ev)])

-------------------------------------------------------------------------------
allvars == <<n, tpc, out, R, E, wg, doneCh, cancelled, mpc, next, log, retR, retE, c, done>>

Init == IF Family = "design" THEN DInit /\ c = 0 /\ done = FALSE
        ELSE OInit /\ n = 0 /\ tpc = <<>> /\ out = <<>> /\ R = <<>> /\ E = <<>> /\ wg = 0 /\ doneCh = FALSE
             /\ cancelled = FALSE /\ mpc = "obs" /\ next = 0 /\ log = <<>> /\ retR = <<>> /\ retE = <<>>
Next == IF Family = "design" THEN DNext /\ UNCHANGED <<c, done>>
        ELSE ONext /\ UNCHANGED vars
Spec == Init /\ [][Next]_allvars
FairSpec == Spec /\ Fair
===============================================================================
