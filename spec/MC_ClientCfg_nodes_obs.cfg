SPECIFICATION Spec
CONSTANTS
  Family = "nodes_obs"
  MaxTun = 3
  MaxReg = 3
  ConfNames = {"", "a", "c.example.com"}
  RegNames = {"a", "x", "y", "c.example.com", "d.example.com"}
  MaxNodes = 5
  MaxChanges = 2
  MaxConns = 2
  LockConn = FALSE
  SaveMode = "inplace"
  NOld = 3
  NNew = 2
INVARIANT ImplMeetsDecl
CHECK_DEADLOCK FALSE
