------------------------------- MODULE TunnelRace -------------------------------
(* C26, racing requests.  tun/server/client_rpc.go: PublishTunnel, UnpublishTunnel, ReleaseTunnel of ONE client on ONE
   hostname run at the same time on one or several servers.  Each handler is a sequence of DHT operations; the
   client's lease (Acquire at the start, Release when the handler returns) is what keeps them apart.  One DHT
   operation = one action:

     publish    acq  chk  look x K  put x K                    rel      (the lookups / the puts run in parallel: any order)
     unpublish  acq  chk  del x 3                              rel
     release    acq  chk  del x 3   prm  rmc                   rel

     acq  Acquire(lease of the client)       conflict -> the request is refused, nothing else happens
     chk  PrefixContains(hostnames, h)       not registered -> refused (then rel)
     look Get(destination record)            put  Put(route slot i)        del  Delete(route slot i)
     prm  PrefixRemove(hostnames, h)         rmc  Delete(custom-hostname binding)
     rel  Release(lease, token)              (compare-and-swap on the token: frees the lease only if still ours)

   State is one record s (checks/ringlib style: the same  En / F  operators serve the model checker, the trace
   validator Trace_TunnelRace and the design variants):
     reg, custom : BOOLEAN       the hostname is registered to the client / has a custom-hostname binding
     routes      : [1..3 -> 0 | -1 | r]        who wrote the route in the slot (0 nobody, -1 an earlier publish, r = the publishing request)
     lease       : 0 | r         holder of the client's lease
     kind, pc, out, todo per request

   HoldLease = TRUE is the code as it is.  HoldLease = FALSE is the variant in which a publish gives the lease back
   right after the ownership check (rel0): TLC then finds the schedule in which a release runs between the check and
   the puts, both succeed and the routes stay behind - Linearizable is violated.  *)
EXTENDS Integers, Sequences, FiniteSets, TLC

CONSTANTS HoldLease,    \* TRUE: the lease is held until the handler returns
          K,            \* servers per publish
          KindSeqs,     \* set of sequences of request kinds explored from the initial states
          InitRoutes    \* set of initial route tables

Slots == 1..3
NoRoutes == [i \in Slots |-> 0]
OldRoutes == [i \in Slots |-> -1]

InitS(kinds, reg, routes, custom) ==
  [reg |-> reg, custom |-> custom, routes |-> routes, lease |-> 0,
   kind |-> kinds,
   pc   |-> [r \in 1..Len(kinds) |-> "acq"],
   out  |-> [r \in 1..Len(kinds) |-> "-"],
   todo |-> [r \in 1..Len(kinds) |-> {}]]

Reqs(s) == 1..Len(s.kind)

(* ---- the actions: En(s, r, a, i) enabled, F(s, r, a, i) successor ---- *)
En(s, r, a, i) ==
  /\ r \in Reqs(s)
  /\ CASE a = "acq"  -> s.pc[r] = "acq"
       [] a = "chk"  -> s.pc[r] = "chk"
       [] a = "rel0" -> s.pc[r] = "rel0"
       [] a = "look" -> s.pc[r] = "look" /\ i \in s.todo[r]
       [] a = "put"  -> s.pc[r] = "put" /\ i \in s.todo[r]
       [] a = "del"  -> s.pc[r] = "del" /\ i \in s.todo[r]
       [] a = "prm"  -> s.pc[r] = "prm"
       [] a = "rmc"  -> s.pc[r] = "rmc"
       [] a = "rel"  -> s.pc[r] = "rel"
       [] OTHER      -> FALSE

AfterDel(s, r) == IF s.kind[r] = "release" THEN [s EXCEPT !.pc[r] = "prm"] ELSE [s EXCEPT !.pc[r] = "rel", !.out[r] = "ok"]

F(s, r, a, i) ==
  CASE a = "acq"  -> IF s.lease # 0 THEN [s EXCEPT !.pc[r] = "done", !.out[r] = "lease"]
                     ELSE [s EXCEPT !.lease = r, !.pc[r] = "chk"]
    [] a = "chk"  -> IF ~s.reg THEN [s EXCEPT !.pc[r] = "rel", !.out[r] = "denied"]
                     ELSE IF s.kind[r] = "publish"
                          THEN IF HoldLease THEN [s EXCEPT !.pc[r] = "look", !.todo[r] = 1..K]
                               ELSE [s EXCEPT !.pc[r] = "rel0"]
                          ELSE [s EXCEPT !.pc[r] = "del", !.todo[r] = Slots]
    [] a = "rel0" -> [s EXCEPT !.lease = IF @ = r THEN 0 ELSE @, !.pc[r] = "look", !.todo[r] = 1..K]
    [] a = "look" -> LET t == s.todo[r] \ {i} IN
                     IF t = {} THEN [s EXCEPT !.pc[r] = "put", !.todo[r] = 1..K] ELSE [s EXCEPT !.todo[r] = t]
    [] a = "put"  -> LET t == s.todo[r] \ {i}
                         s1 == [s EXCEPT !.routes[i] = r, !.todo[r] = t] IN
                     IF t = {} THEN [s1 EXCEPT !.pc[r] = IF HoldLease THEN "rel" ELSE "done", !.out[r] = "ok"] ELSE s1
    [] a = "del"  -> LET t == s.todo[r] \ {i}
                         s1 == [s EXCEPT !.routes[i] = 0, !.todo[r] = t] IN
                     IF t = {} THEN AfterDel(s1, r) ELSE s1
    [] a = "prm"  -> [s EXCEPT !.reg = FALSE, !.pc[r] = "rmc"]
    [] a = "rmc"  -> [s EXCEPT !.custom = FALSE, !.pc[r] = "rel", !.out[r] = "ok"]
    [] a = "rel"  -> [s EXCEPT !.lease = IF @ = r THEN 0 ELSE @, !.pc[r] = "done"]

Acts == {"acq", "chk", "rel0", "look", "put", "del", "prm", "rmc", "rel"}
Done(s) == \A r \in Reqs(s) : s.pc[r] = "done"

(* ---- the statement for racing requests: the outcome is that of the successful requests in SOME order, each of them
        succeeding at its place ("succeeds only if the hostname is registered to the caller", "a successful publish stores
        ... in slots 1..k", "a release removes the routes, the registration and the binding"); refused requests do nothing ---- *)
Abs(s) == [reg |-> s.reg, custom |-> s.custom, routes |-> s.routes]
SeqOK(a, kind) == a.reg                                   \* succeeds only on a registered hostname
SeqF(a, r, kind) ==
  CASE kind = "publish"   -> [a EXCEPT !.routes = [i \in Slots |-> IF i <= K THEN r ELSE @[i]]]
    [] kind = "unpublish" -> [a EXCEPT !.routes = NoRoutes]
    [] kind = "release"   -> [reg |-> FALSE, custom |-> FALSE, routes |-> NoRoutes]
RECURSIVE Fold(_, _, _)
Fold(a, order, kinds) ==       \* [ok, a]: the abstract state after the requests of `order`; ok = each of them could succeed at its place
  IF order = <<>> THEN [ok |-> TRUE, a |-> a]
  ELSE IF ~SeqOK(a, kinds[Head(order)]) THEN [ok |-> FALSE, a |-> a]
  ELSE Fold(SeqF(a, Head(order), kinds[Head(order)]), Tail(order), kinds)
Perms(S) == {f \in [1..Cardinality(S) -> S] : \A x, y \in 1..Cardinality(S) : x # y => f[x] # f[y]}
LinearizableFrom(init, s) ==
  LET okset == {r \in Reqs(s) : s.out[r] = "ok"} IN
  \E order \in Perms(okset) : LET f == Fold(init, order, s.kind) IN f.ok /\ f.a = Abs(s)

VARIABLES s, s0       \* s0: the abstract initial state of the behaviour
vars == <<s, s0>>
Init == /\ \E kinds \in KindSeqs, reg \in BOOLEAN, routes \in InitRoutes, custom \in BOOLEAN :
             s = InitS(kinds, reg, routes, custom)
        /\ s0 = Abs(s)
Next == \E r \in Reqs(s), a \in Acts, i \in Slots : En(s, r, a, i) /\ s' = F(s, r, a, i) /\ s0' = s0
Spec == Init /\ [][Next]_vars

Linearizable == Done(s) => LinearizableFrom(s0, s)
LeaseFreed   == Done(s) => s.lease = 0
(* a refused request has written nothing: by construction of F (no put / del before chk succeeded) *)
TypeOK == /\ s.lease \in {0} \cup Reqs(s)
          /\ \A i \in Slots : s.routes[i] \in {0, -1} \cup Reqs(s)
===============================================================================
