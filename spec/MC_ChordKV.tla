---- MODULE MC_ChordKV ----
(* model-checking instances of ChordKV: layouts (node and key ranks) *)
EXTENDS ChordKV
\* four nodes a<b<c<d with one key before b and one key before c
Lay4 == [npos |-> <<1, 3, 5, 7>>, kpos |-> <<2, 4>>]
\* five nodes, keys between
Lay5 == [npos |-> <<1, 3, 5, 7, 9>>, kpos |-> <<2, 6>>]
\* five nodes with a key in every gap between the second and the fifth (racing joins between two members)
Lay5b == [npos |-> <<1, 3, 5, 7, 9>>, kpos |-> <<4, 6, 8>>]
Lay5c == [npos |-> <<1, 3, 5, 7, 9>>, kpos |-> <<2, 4, 6>>]
====
