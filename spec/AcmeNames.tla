------------------------------- MODULE AcmeNames -------------------------------
(* C33.  Hostname normalization and challenge names (spec/acme/acme.go Normalize, GenerateCustomRecord).
   Family "gen": TLC enumerates abstract hostnames (sequences of at most MaxLen symbols over Alphabet) and the
   relations between token pairs; drv/acme concretises every abstract string several ways, runs the real Normalize
   (twice, for idempotence) and records (in, ok, out, ok2, out2) as code point sequences together with two flags it
   computes on the input (is an IP address / is a local name, after removing white space).
   Family "obs": TLC reads the observations back and judges each with the postcondition Post. *)
EXTENDS Integers, Sequences, FiniteSets, TLC, Json

CONSTANTS RejectIP,   \* TRUE: Normalize refuses every IP literal (code after the fix)
          Family,     \* "gen" | "design" | "obs"
          MaxLen

Emit(r) == PrintT("@@" \o ToJson(r))

Alphabet == {"lower", "upper", "digit", "hyphen", "dot", "space", "star", "other", "uni", "ip", "local"}
   \* uni = non-ASCII letter (IDNA-mappable), other = other printable ASCII, ip / local = a whole IP literal / local name token

AlphaSeq == <<"lower", "upper", "digit", "hyphen", "dot", "space", "star", "other", "uni", "ip", "local">>
ASSUME {AlphaSeq[i] : i \in 1..Len(AlphaSeq)} = Alphabet

(* every abstract string of at most MaxLen symbols, packed: the case with prefix p stands for the strings p \o <<x>>, x in
   AlphaSeq order (the empty prefix also for the empty string); packing only keeps the number of TLC states small *)
Prefixes == UNION {[1..n -> Alphabet] : n \in 0..MaxLen-1}
Members(p) == [i \in 1..Len(AlphaSeq) |-> p \o <<AlphaSeq[i]>>] \o (IF p = <<>> THEN << <<>> >> ELSE <<>>)
NormCases == {[fam |-> "norm", p |-> p, strs |-> Members(p)] : p \in Prefixes}

(* Normalize transcribed over the abstract alphabet, exact for the canonical concretisation (variant 1 of drv/acme:
   lower 'a', upper 'A', digit '7', other '_', uni U+00FC, space ' ', ip "8.8.8.8", local "localhost"):
     removeSpace; certmagic.SubjectQualifiesForPublicCert (not empty, no leading / trailing dot, no special characters,
     not internal: localhost, *.localhost, *.local, private IP ranges); no '*'; idna.ToASCII (Punycode profile: encodes
     non-ASCII labels, maps nothing, validates nothing); the result must not contain anything outside [a-z0-9-.] *)
Trim(s) == SelectSeq(s, LAMBDA x : x # "space")
AbsIsLocal(t) == Len(t) > 0 /\ t[Len(t)] = "local" /\ (Len(t) = 1 \/ t[Len(t) - 1] = "dot")
AbsIsIP(t) == t \in {<<"ip">>, <<"digit", "ip">>, <<"ip", "digit">>, <<"digit", "ip", "digit">>}   \* 8.8.8.8, 78.8.8.8, 8.8.8.87, 78.8.8.87
AbsImpl(s) ==
  LET t == Trim(s) IN
  IF t = <<>> \/ t[1] = "dot" \/ t[Len(t)] = "dot" THEN "reject"          \* SubjectQualifiesForCert
  ELSE IF AbsIsLocal(t) THEN "reject"                                      \* SubjectIsInternal (8.8.8.8 is not a private address)
  ELSE IF \E i \in 1..Len(t) : t[i] = "star" THEN "reject"
  ELSE IF RejectIP /\ AbsIsIP(t) THEN "reject"                              \* net.ParseIP (added by the fix: public IPs qualified before)
  ELSE IF \E i \in 1..Len(t) : t[i] \in {"upper", "other"} THEN "reject"   \* nonDnsRegex on the ToASCII result
  ELSE "accept"
(* the statement at the abstract level: what is accepted is no wildcard, no IP address, no local name
   (the character-level clauses are judged on the concrete output only) *)
AbsDecl(s) == AbsImpl(s) = "accept" =>
                 /\ ~\E i \in 1..Len(s) : s[i] = "star"
                 /\ ~AbsIsIP(Trim(s))
                 /\ ~AbsIsLocal(Trim(s))

(* token pairs for the challenge targets: how the second token differs from the first *)
TokenRels == {"random", "bitflip", "prefix", "append-zero", "case", "empty-vs-zero", "reversed", "same"}
TokenCases == [fam : {"token"}, rel : TokenRels]

-------------------------------------------------------------------------------
(* postcondition over one observation *)
IsLDH(cp) == (cp >= 97 /\ cp <= 122) \/ (cp >= 48 /\ cp <= 57) \/ cp = 45 \/ cp = 46     \* a-z 0-9 - .
Canonical(o)  == o.ok => (Len(o.out) > 0 /\ \A i \in 1..Len(o.out) : IsLDH(o.out[i]))     \* lowercase ASCII letters, digits, hyphens, dots
Idempotent(o) == o.ok => (o.ok2 /\ o.out2 = o.out)                                        \* Normalize(Normalize(x)) = Normalize(x)
NoWildcard(o) == o.ok => ~\E i \in 1..Len(o.in) : o.in[i] = 42                            \* wildcards ('*') are rejected
NoIP(o)       == o.ok => ~o.ip                                                            \* IP addresses are rejected
NoLocal(o)    == o.ok => ~o.local                                                         \* local names are rejected
(* every clause has the form "accepted => ...": a rejected input satisfies Post whatever it was, so the driver's records
   of rejected inputs carry only ok = FALSE *)
Post(o) == Canonical(o) /\ Idempotent(o) /\ NoWildcard(o) /\ NoIP(o) /\ NoLocal(o)

Failed(o) == {n \in {"canonical", "idempotent", "wildcard", "ip", "local"} :
                \/ n = "canonical"  /\ ~Canonical(o)
                \/ n = "idempotent" /\ ~Idempotent(o)
                \/ n = "wildcard"   /\ ~NoWildcard(o)
                \/ n = "ip"         /\ ~NoIP(o)
                \/ n = "local"      /\ ~NoLocal(o)}

(* challenge targets: distinct tokens give distinct targets (o.same = the two tokens are equal) *)
TargetsOk(o) == (~o.same) => o.t1 # o.t2

-------------------------------------------------------------------------------
ObsRecs == IF Family = "obs" THEN ndJsonDeserialize("obs_acme.ndjson") ELSE <<>>

VARIABLES c, done
vars == <<c, done>>

CaseSet == CASE Family = "obs" -> 1..Len(ObsRecs)
             [] Family = "design" -> NormCases
             [] OTHER -> NormCases \cup TokenCases

(* an observation record packs the observations of one case (all members x all variants): r.v is a sequence of observations *)
Expected(x) ==
  IF Family = "obs"
  THEN LET r == ObsRecs[x] IN
       IF r.fam = "norm"
       THEN [bad |-> UNION {{<<k, n>> : n \in Failed(r.v[k])} : k \in 1..Len(r.v)}]
       ELSE [bad |-> {<<k, "collision">> : k \in {j \in 1..Len(r.v) : ~TargetsOk(r.v[j])}}]
  ELSE IF x.fam = "norm"
       THEN [model |-> [i \in 1..Len(x.strs) |-> AbsImpl(x.strs[i])], designOk |-> [i \in 1..Len(x.strs) |-> AbsDecl(x.strs[i])]]
       ELSE [model |-> <<>>, designOk |-> <<>>]

Init == c \in CaseSet /\ done = FALSE
Next == done = FALSE /\ done' = TRUE /\ c' = c /\ Emit([c |-> c, e |-> Expected(c)])
Spec == Init /\ [][Next]_vars

(* does the transcribed design have the property?  (MC_AcmeNames_design.cfg; a counterexample is a lead, not a verdict) *)
DesignHolds == (Family = "design" /\ c.fam = "norm") => \A i \in 1..Len(c.strs) : AbsDecl(c.strs[i])
===============================================================================
