\* C39 lead (not a verdict): a timer that has been popped but has not yet taken the mutex survives rtimer.Stop(), so a
\* timeout can be delivered after SetReadDeadline(zero) returned.  Expected: OutcomesOK is violated in this cfg.
SPECIFICATION Spec
CONSTANTS
  Caps = {1}
  Data <- Data3
  MaxReadLen = 1
  MaxReads = 2
  Deadlines = TRUE
  TimerRace = TRUE
  Variant = "code"
INVARIANTS OutcomesOK
CHECK_DEADLOCK FALSE
