SPECIFICATION Spec
CONSTANTS
  MaxBase = 3
  MaxOvr = 2
INVARIANT ImplMeetsDecl DedupIsDeclarative
CHECK_DEADLOCK FALSE
