SPECIFICATION Spec
CONSTANTS
  MaxBase = 3
  MaxOvr = 3
  Small = 1
INVARIANT ImplMeetsDecl DedupIsDeclarative
CHECK_DEADLOCK FALSE
