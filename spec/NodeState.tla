------------------------------ MODULE NodeState ------------------------------
(* chord/node_state.go: the lifecycle word (index << 4 | state) updated by compare-and-swap, with a history
   map written after a successful swap.  Threads run Transition(exp, nxt) or Set(val) (a retry loop around
   Transition(Get(), val)).  One action per atomic step of the code. *)
EXTENDS Integers, Sequences, FiniteSets, TLC, Json

CONSTANTS Thread, States, Script     \* Script[t] = sequence of calls: <<"T", exp, nxt>> or <<"S", val>>
VARIABLES word,      \* <<index, state>>
          hist,      \* index -> state (skipmap), filled after the swap
          pc, cur,   \* per thread: program counter, loaded word
          done,      \* per thread: number of completed calls
          res,       \* per thread: sequence of results <<ok, returned state>>
          wins,      \* ghost: sequence of successful swaps <<index, state>> in linearization order
          got,       \* per thread: the state Set() read with Get() before calling Transition
          sched      \* history: which thread took which step (excluded from the VIEW; replayed through the gates)
vars == <<word, hist, pc, cur, done, res, wins, got, sched>>
view == <<word, hist, pc, cur, done, res, wins, got>>
Emit(r) == PrintT("@@" \o ToJson(r))

Init == /\ word = <<0, States[1]>> /\ hist = (0 :> States[1])
        /\ pc = [t \in Thread |-> "idle"] /\ cur = [t \in Thread |-> <<0, States[1]>>]
        /\ done = [t \in Thread |-> 0] /\ res = [t \in Thread |-> <<>>] /\ wins = <<>>
        /\ got = [t \in Thread |-> States[1]] /\ sched = <<>>

Call(t) == Script[t][done[t] + 1]
Step(t, a) == sched' = Append(sched, <<t, a>>)
(* Set(): s.Get() before each attempt *)
GetLoad(t) == /\ pc[t] = "idle" /\ done[t] < Len(Script[t]) /\ Call(t)[1] = "S"
              /\ got' = [got EXCEPT ![t] = word[2]] /\ pc' = [pc EXCEPT ![t] = "enter"]
              /\ Step(t, "get") /\ UNCHANGED <<word, hist, cur, done, res, wins>>
Load(t) == /\ \/ pc[t] = "idle" /\ done[t] < Len(Script[t]) /\ Call(t)[1] = "T"
              \/ pc[t] = "enter"
           /\ cur' = [cur EXCEPT ![t] = word] /\ pc' = [pc EXCEPT ![t] = "cas"]
           /\ Step(t, "load") /\ UNCHANGED <<word, hist, done, res, wins, got>>
Exp(t) == IF Call(t)[1] = "T" THEN Call(t)[2] ELSE got[t]          \* Set expects the state it read with Get()
Nxt(t) == IF Call(t)[1] = "T" THEN Call(t)[3] ELSE Call(t)[2]
CAS(t) == /\ pc[t] = "cas"
          /\ IF word = <<cur[t][1], Exp(t)>>
             THEN /\ word' = <<cur[t][1] + 1, Nxt(t)>>
                  /\ wins' = Append(wins, <<cur[t][1] + 1, Nxt(t)>>)
                  /\ pc' = [pc EXCEPT ![t] = "store"]
                  /\ UNCHANGED <<done, res>>
             ELSE /\ UNCHANGED <<word, wins>>
                  /\ IF Call(t)[1] = "S"      \* Set retries: Gosched, Get() again, Transition again
                     THEN pc' = [pc EXCEPT ![t] = "enter"] /\ got' = [got EXCEPT ![t] = word[2]] /\ UNCHANGED <<done, res>>
                     ELSE /\ pc' = [pc EXCEPT ![t] = "idle"] /\ done' = [done EXCEPT ![t] = @ + 1]
                          /\ res' = [res EXCEPT ![t] = Append(@, <<FALSE, cur[t][2]>>)] /\ UNCHANGED got
          /\ (word = <<cur[t][1], Exp(t)>> => UNCHANGED got)
          /\ Step(t, "cas") /\ UNCHANGED <<hist, cur>>
Store(t) == /\ pc[t] = "store"
            /\ hist' = (cur[t][1] + 1 :> Nxt(t)) @@ hist
            /\ pc' = [pc EXCEPT ![t] = "idle"] /\ done' = [done EXCEPT ![t] = @ + 1]
            /\ res' = [res EXCEPT ![t] = Append(@, <<TRUE, Nxt(t)>>)]
            /\ Step(t, "store") /\ UNCHANGED <<word, cur, wins, got>>
Next == \E t \in Thread : GetLoad(t) \/ Load(t) \/ CAS(t) \/ Store(t)
Spec == Init /\ [][Next]_vars

Quiescent == \A t \in Thread : pc[t] = "idle" /\ done[t] = Len(Script[t])
(* of the attempts that expect the same word exactly one wins: indices in wins are 1, 2, 3, ... without gaps or repeats *)
OneWinnerPerWord == \A i \in 1..Len(wins) : wins[i][1] = i
(* the reported state is the last recorded one *)
GetIsLast == word[2] = (IF wins = <<>> THEN States[1] ELSE wins[Len(wins)][2]) /\ word[1] = Len(wins)
(* at quiescence the history lists every successful transition in order *)
HistoryComplete == Quiescent => /\ DOMAIN hist = 0..Len(wins)
                                /\ \A i \in 1..Len(wins) : hist[i] = wins[i][2]
(* behaviour export for replay through the gates of the real code (-simulate): at quiescence print the schedule and
   what the specification says the outcome is *)
EmitAtQuiescence == Quiescent => Emit([script |-> Script, first |-> States[1], sched |-> sched, res |-> res, get |-> word[2],
                                      hist |-> [i \in 1..Len(wins) + 1 |-> hist[i - 1]]])
=============================================================================
