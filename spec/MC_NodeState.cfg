SPECIFICATION Spec
CONSTANTS
  Thread = {"t1", "t2", "t3"}
  States <- MCStates
  Script <- MCScript
VIEW view
INVARIANTS OneWinnerPerWord GetIsLast HistoryComplete
CHECK_DEADLOCK FALSE
