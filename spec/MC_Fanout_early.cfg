SPECIFICATION Spec
CONSTANTS
  MaxN = 2
  WaitAfterCancel = FALSE
  Family = "design"
  KeepLog = TRUE
INVARIANT ReturnAfterAll Aligned HistoryAccepted
CHECK_DEADLOCK FALSE
