SPECIFICATION Spec
CONSTANTS
  Family = "design"
  MaxLen = 4
INVARIANT DesignHolds
CHECK_DEADLOCK FALSE
