SPECIFICATION Spec
CONSTANTS
  RejectIP = TRUE
  Family = "design"
  MaxLen = 4
INVARIANT DesignHolds
CHECK_DEADLOCK FALSE
