SPECIFICATION Spec
INVARIANT CellSane
CHECK_DEADLOCK FALSE
