SPECIFICATION RFairSpec
CONSTANTS
  L = 2
  FixPred = TRUE
  FixLeave = TRUE
  FixWrap = TRUE
  FixDead = TRUE
  FixAdopt = TRUE
  MaxTry = 2
  TrackCov = FALSE
  Goal = "none"
  MCLayout <- LayR5
  InitMembers = {1, 2, 3, 4, 5}
  Joiners = {}
  Leavers = {2, 3, 4}
  MaxOps = 0
  Faults = FALSE
  OpKinds = {}
  MaxMembers = 0
  B = 4
  FixSelf = TRUE
INVARIANTS InvNoDeadEnd
PROPERTY Converges
CHECK_DEADLOCK FALSE
