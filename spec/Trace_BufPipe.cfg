\* C39 trace validation: every history in trace.ndjson is explored from its own initial state
SPECIFICATION TraceSpec
CONSTANTS
  G = 6
  Only = {}
  Verbose = FALSE
INVARIANT TypeOK
CHECK_DEADLOCK FALSE
