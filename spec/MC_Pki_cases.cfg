SPECIFICATION Spec
CONSTANTS
  Family = "cases"
INVARIANT ImplMeetsDecl
CHECK_DEADLOCK FALSE
