\* used by checks/c49.py: needs obs_locks.ndjson (hold intervals recorded by drv/certstore) next to the spec
SPECIFICATION Spec
CONSTANTS
  Family = "lock_obs"
  PathSet = "shared"
  NVal = 2
  NInst = 2
  NNames = 2
  TTL = 2
  MaxT = 6
  HistLen = 10
INVARIANT Mutex
CHECK_DEADLOCK FALSE
