SPECIFICATION Spec
CONSTANTS
  Family = "lock_obs"
  PathSet = "shared"
  NVal = 2
  NInst = 2
  NNames = 2
  TTL = 2
  MaxT = 6
  HistLen = 10
INVARIANT Mutex
CHECK_DEADLOCK FALSE
