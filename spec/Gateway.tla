------------------------------- MODULE Gateway -------------------------------
(* The request-facing decisions of the gateway (gateway/proxy_handler.go, apex.go, internal_proxy.go),
   one case family per property:

     resolve  C34  host -> tunnel name            (extractHostname / parseAddr)
     rewrite  C35  inbound headers -> forwarded   (ReverseProxy stripping + proxyRewrite)
     status   C36  failure class x protocol -> what the caller is told
                                                  (errorHandler, forwardTCP + SendStatusProto, httpConnect)
     admin    C37  request under /_internal -> served or not
                                                  (apexServer.Mount: BasicAuth, internal proxy middleware)

   Every family has the code's decision logic transcribed ("...Impl") next to the statement of the
   property ("...Decl").  TLC checks Impl against Decl on every case (invariant ImplMeetsDecl) and emits
   every case with the *declarative* expectation; drv/gateway runs the cases through the real handlers
   and the verdict is taken against that expectation only.

   Variant = "code" is the logic as it stood when the properties were written, including three
   deviations from the statements (named where they occur: case-sensitive root comparison, pass-through of
   X-Forwarded-Port, silent / mis-classified forwarding failures).  Variant = "repaired" switches them off,
   so one module describes the tree before and after a repair.  A counterexample of the "code" variant is
   only a lead: it is replayed into the real code, and only the real code's answer is a verdict. *)
EXTENDS Integers, Sequences, FiniteSets, TLC, Json

CONSTANTS Family,     \* "resolve" | "resolve_obs" | "rewrite" | "status" | "admin"
          Variant,    \* "code" | "repaired"
          Depth       \* 0 = quick vocabularies, 1 = thorough

Emit(r) == PrintT("@@" \o ToJson(r))
SeqOf(order, S) == SelectSeq(order, LAMBDA x : x \in S)

-------------------------------------------------------------------------------
(* C34.  A host is a sequence of labels, a label a sequence of one-character strings, so that ASCII case is
   visible to the specification.  *)
UpperSeq == <<"A", "B", "C", "D", "E", "F", "G", "H", "I", "J", "K", "L", "M", "N", "O", "P", "Q", "R", "S", "T", "U", "V", "W", "X", "Y", "Z">>
LowerSeq == <<"a", "b", "c", "d", "e", "f", "g", "h", "i", "j", "k", "l", "m", "n", "o", "p", "q", "r", "s", "t", "u", "v", "w", "x", "y", "z">>
Upper   == {UpperSeq[i] : i \in 1..26}
Lowers  == {LowerSeq[i] : i \in 1..26}
LowerOf == [u \in Upper |-> LowerSeq[CHOOSE i \in 1..26 : UpperSeq[i] = u]]
UpperOf == [l \in Lowers |-> UpperSeq[CHOOSE i \in 1..26 : LowerSeq[i] = l]]
Digits  == {"0", "1", "2", "3", "4", "5", "6", "7", "8", "9"}
DigitVal == [d \in Digits |-> CHOOSE n \in 0..9 : ToString(n) = d]

LowC(ch)     == IF ch \in Upper THEN LowerOf[ch] ELSE ch
LowLabel(l)  == [i \in 1..Len(l) |-> LowC(l[i])]
LowHost(h)   == [i \in 1..Len(h) |-> LowLabel(h[i])]
HasUpper(h)  == \E i \in 1..Len(h) : \E j \in 1..Len(h[i]) : h[i][j] \in Upper

(* lower-case vocabulary; every ASCII-case variant of every label is enumerated *)
Vocab == {<<"a">>, <<"e">>, <<"c", "o">>, <<"1">>}
           \cup (IF Depth > 0 THEN {<<"2", "5", "5">>, <<"y">>, <<"2", "5", "6">>, <<"a", "-", "1">>} ELSE {})
VariantsOfChar(ch) == IF ch \in Lowers THEN {ch, UpperOf[ch]} ELSE {ch}
RECURSIVE CaseVariants(_)
CaseVariants(l)    == IF l = <<>> THEN {<<>>}
                      ELSE {<<ch>> \o rest : ch \in VariantsOfChar(Head(l)), rest \in CaseVariants(Tail(l))}
Labels    == UNION {CaseVariants(l) : l \in Vocab}
MaxLabels == 4
Hosts     == UNION {[1..n -> Labels] : n \in 1..MaxLabels}

(* configured root domains (lower case, at least two labels): none, one, two incl. a three-label root *)
RootLists == << <<>>,
                << <<<<"e">>, <<"c", "o">>>> >>,
                << <<<<"c", "o">>, <<"e">>>>, <<<<"a">>, <<"e">>, <<"c", "o">>>> >> >>
PortSeq   == <<443, 8443>>          \* parseAddr is tried with each, extractHostname without a port

(* an IPv4 literal is four decimal octets 0..255 without leading zeros (what net.ParseIP accepts); "256" is numeric
   but not an octet *)
NumVal(l)  == IF Len(l) = 1 THEN DigitVal[l[1]]
              ELSE IF Len(l) = 2 THEN 10 * DigitVal[l[1]] + DigitVal[l[2]]
              ELSE 100 * DigitVal[l[1]] + 10 * DigitVal[l[2]] + DigitVal[l[3]]
IsOctet(l) == /\ Len(l) \in 1..3 /\ \A i \in 1..Len(l) : l[i] \in Digits
              /\ (Len(l) > 1 => l[1] # "0") /\ NumVal(l) <= 255
IsIPv4(h)  == Len(h) = 4 /\ \A i \in 1..4 : IsOctet(h[i])
(* address literals that are not dotted label sequences; all must be refused *)
Literals  == {"::1", "fe80::1", "2001:db8::1", "::ffff:1.2.3.4", "::ffff:10.0.0.1", "::1.2.3.4", "64:ff9b::192.0.2.33"}

InList(t, list) == \E i \in 1..Len(list) : list[i] = t
Refused  == [ok |-> FALSE, name |-> <<>>]
Name(n)  == [ok |-> TRUE, name |-> n]

(* the statement, for an all-lower-case host ... *)
ResolveLower(h, roots) ==
  IF IsIPv4(h) \/ Len(h) < 3 THEN Refused
  ELSE IF InList(Tail(h), roots) THEN Name(<<h[1]>>)       \* label.root -> label
  ELSE Name(h)                                             \* whole host
(* ... and case-insensitivity as fixed in DESIGN 4.0: every variant resolves to what the lower-case host does *)
ResolveDecl(h, roots) == ResolveLower(LowHost(h), roots)

(* extractHostname, line by line *)
ResolveImpl(h, roots, v) ==
  IF IsIPv4(h) THEN Refused                                \* net.ParseIP(host) != nil
  ELSE IF Len(h) - 1 < 2 THEN Refused                      \* strings.Count(host, ".") < 2
  ELSE LET hh == IF v = "repaired" THEN LowHost(h) ELSE h     \* deviation: compared as received
       IN IF InList(Tail(hh), roots)                       \* SplitN(host, ".", 2); slices.Contains(RootDomains, parts[1])
          THEN Name(LowHost(<<hh[1]>>))                    \* strings.ToLower(parts[0])
          ELSE Name(LowHost(hh))                           \* strings.ToLower(host)

(* quick: with no root domain configured only hosts of up to three labels (nothing can match a root there) *)
HostsUpTo(n) == UNION {[1..k -> Labels] : k \in 1..n}
ResolveCases ==
  [host : Hosts, lit : {""}, roots : {RootLists[2], RootLists[3]}, ports : {PortSeq}]
    \cup [host : HostsUpTo(IF Depth > 0 THEN MaxLabels ELSE 3), lit : {""}, roots : {RootLists[1]}, ports : {PortSeq}]
    \cup [host : {<<>>}, lit : Literals, roots : {RootLists[2]}, ports : {PortSeq}]
ResolveExpected(x) == IF x.lit # "" THEN Refused ELSE ResolveDecl(x.host, x.roots)

(* backward direction (family resolve_obs): hosts drawn at random by the check (all ASCII letters, longer labels, up to
   six labels, real-looking root domains), resolved by the real code, are read back (obs_resolve.ndjson:
   {"c": {host, roots}, "o": [{ok, name}...]}, names split into labels and characters) and judged by the same ResolveDecl *)
ObsRecs == IF Family = "resolve_obs" THEN ndJsonDeserialize("obs_resolve.ndjson") ELSE <<>>
ObsVerdict(r) == LET want == ResolveDecl(r.c.host, r.c.roots) IN
  [want |-> want, good |-> \A k \in 1..Len(r.o) : r.o[k].ok = want.ok /\ (want.ok => r.o[k].name = want.name)]

-------------------------------------------------------------------------------
(* C35.  Headers are functions name -> sequence of values (<<>> = absent).  *)
XFF    == "X-Forwarded-For"
XFH    == "X-Forwarded-Host"
XFP    == "X-Forwarded-Proto"
TCIP   == "True-Client-IP"
XRIP   == "X-Real-IP"
XFPort == "X-Forwarded-Port"
JudgedSeq == <<XFF, XFH, XFP, TCIP, XRIP, XFPort>>
Judged    == {JudgedSeq[i] : i \in 1..Len(JudgedSeq)}

(* what a client would send to impersonate someone else; the second value is used when a header is repeated *)
Spoof1 == (XFF :> "198.51.100.66") @@ (XFH :> "evil.example.net") @@ (XFP :> "http") @@
          (TCIP :> "198.51.100.67") @@ (XRIP :> "198.51.100.68") @@ (XFPort :> "81")
Spoof2 == (XFF :> "198.51.100.76") @@ (XFH :> "evil2.example.net") @@ (XFP :> "ws") @@
          (TCIP :> "198.51.100.77") @@ (XRIP :> "198.51.100.78") @@ (XFPort :> "82")

TunnelHost == "app.example.com"
RewriteRoot == "example.com"
HostHeader(hp, port) == CASE hp = "none"  -> TunnelHost
                          [] hp = "gw"    -> TunnelHost \o ":" \o ToString(port)
                          [] hp = "other" -> TunnelHost \o ":9999"
InHeaders(set, dup) == [h \in Judged |-> IF h \notin set THEN <<>>
                                         ELSE IF dup THEN <<Spoof1[h], Spoof2[h]>> ELSE <<Spoof1[h]>>]
ForwardedHost(port) == IF port = 443 THEN TunnelHost ELSE TunnelHost \o ":" \o ToString(port)

(* the statement *)
RewriteDecl(in, peer, port, out) ==
  /\ out[XFF] = <<peer>>                       \* the connecting peer's IP only
  /\ out[XFP] = <<"https">>
  /\ out[XFH] = <<ForwardedHost(port)>>        \* requested host, with the gateway port unless it is 443
  /\ out[TCIP] = <<>> /\ out[XRIP] = <<>>
  /\ \A h \in Judged : \A i \in 1..Len(in[h]) : ~InList(in[h][i], out[h])     \* no client value passed through

(* ReverseProxy.ServeHTTP (Rewrite set) followed by proxyRewrite *)
Del(hdrs, S) == [h \in DOMAIN hdrs |-> IF h \in S THEN <<>> ELSE hdrs[h]]
RewriteImpl(in, peer, port, hostHeader, v) ==
  LET o1 == Del(in, {XFF, XFH, XFP})                    \* net/http/httputil: strip client-provided forwarding headers
      o2 == Del(o1, {TCIP, XRIP, XFF})                  \* for _, header := range delHeaders { out.Header.Del(header) }
      o3 == [o2 EXCEPT ![XFF] = o2[XFF] \o <<peer>>,    \* preq.SetXForwarded(): prior values + client IP,
                       ![XFH] = <<hostHeader>>,         \*   In.Host,
                       ![XFP] = <<"https">>]            \*   In.TLS != nil
      o4 == [o3 EXCEPT ![XFH] = <<ForwardedHost(port)>>,   \* out.URL.Hostname() (+ ":" + GatewayPort unless 443)
                       ![XFP] = <<"https">>]
  IN IF v = "repaired" THEN Del(o4, {XFPort}) ELSE o4   \* deviation: other X-Forwarded-* are not stripped

RewriteCases == [proto : {"1.1", "2", "3"}, port : {443, 8443}, peer : {"203.0.113.7", "2001:db8::7"},
                 set : SUBSET Judged, dup : BOOLEAN, hp : {"none", "gw", "other"},
                 method : IF Depth > 0 THEN {"GET", "POST", "DELETE"} ELSE {"GET"}]
RewriteCase(x) ==      \* what the driver needs
  LET in == InHeaders(x.set, x.dup)
      s  == SeqOf(JudgedSeq, x.set) IN
  [proto |-> x.proto, port |-> x.port, peer |-> x.peer, host |-> TunnelHost, root |-> RewriteRoot, method |-> x.method,
   hostHeader |-> HostHeader(x.hp, x.port), judged |-> JudgedSeq,
   hdrs |-> [i \in 1..Len(s) |-> [n |-> s[i], v |-> in[s[i]]]]]
RewriteExpected(x) ==
  [exact  |-> <<[n |-> XFF, v |-> <<x.peer>>], [n |-> XFH, v |-> <<ForwardedHost(x.port)>>], [n |-> XFP, v |-> <<"https">>]>>,
   absent |-> <<TCIP, XRIP>>,
   forbidden |-> RewriteCase(x).hdrs]          \* (name, value) pairs that must not appear in the outbound request

-------------------------------------------------------------------------------
(* C36.  class = why no usable client connection came back ("ok": one did), wrap = how the error is wrapped. *)
FailClasses == {"notfound", "notconnected", "nodirect", "timeout_ctx", "timeout_net", "canceled", "eof", "other"}
                 \cup (IF Depth > 0 THEN {"lookup"} ELSE {})
Wraps       == {"none", "fmt", "operr"}      \* as is | fmt.Errorf("...: %w") | &net.OpError{Err: e}
InProtos    == {"1.1", "2", "3"}
Frames      == {"OK", "NO_DIRECT", "UNKNOWN_ERROR"}
Fail        == {"NO_DIRECT", "UNKNOWN_ERROR"}

StatusRec(p, cl, w, path, ip, host, fr) ==
  [proto |-> p, class |-> cl, wrap |-> w, path |-> path, inproto |-> ip, host |-> host, frame |-> fr]
StatusCases ==
     {StatusRec("http", cl, w, pa, ip, "valid", "-") :
          cl \in FailClasses \cup {"canceled_gone"}, w \in Wraps, pa \in {"dial", "handler"}, ip \in InProtos}
     \* the tunnel accepts the connection and then closes it / answers garbage: a real transport error
\cup {StatusRec("http", cl, "none", "stream", ip, "valid", "-") : cl \in {"eof", "garbage"}, ip \in InProtos}
\cup {StatusRec(p, cl, w, "dial", "-", "valid", "-") : p \in {"tcp", "connect"}, cl \in FailClasses, w \in Wraps}
\cup {StatusRec(p, "ok", "none", "dial", "-", "valid", fr) : p \in {"tcp", "connect"}, fr \in Frames}
\cup {StatusRec(p, "nohost", "none", "dial", "-", h, "-") : p \in {"tcp", "connect"}, h \in {"ip", "short"}}

(* the statement.  HTTP: <<>> = nobody is left to observe a status (the caller itself went away). *)
HttpDecl(cl) == CASE cl = "notfound"                        -> <<404>>
                  [] cl = "notconnected"                    -> <<503>>
                  [] cl \in {"timeout_ctx", "timeout_net"}  -> <<504>>
                  [] cl = "canceled_gone"                   -> <<>>
                  [] OTHER                                  -> <<502>>     \* any other forwarding failure
(* TCP: frames the caller may receive first, and whether the stream must then be closed.
   CONNECT: whether a 2xx may be answered. *)
ClientThere(x)  == x.class = "ok"
TcpDecl(x)      == IF ClientThere(x) THEN [frames |-> <<x.frame>>, close |-> x.frame # "OK"]
                   ELSE [frames |-> <<"NO_DIRECT", "UNKNOWN_ERROR">>, close |-> TRUE]
ConnectDecl(x)  == [success |-> ClientThere(x) /\ x.frame = "OK"]

(* errorHandler *)
IsVia(cl, target)    == cl = target          \* errors.Is sees through %w and OpError.Unwrap
NetErrorTimeout(cl, w, v) ==                  \* e.(net.Error) looks at the outermost error only: *fmt.wrapError is not a
  /\ cl \in {"timeout_net", "timeout_ctx"}   \* net.Error, *net.OpError is one and delegates Timeout()
  /\ (w \in {"none", "operr"} \/ v = "repaired")
HttpImpl(cl, w, v) ==
  IF IsVia(cl, "notfound") THEN 404
  ELSE IF IsVia(cl, "notconnected") THEN 503
  ELSE IF cl \in {"canceled", "canceled_gone", "eof"}       \* "this is expected": returns without writing a status,
       THEN (IF v = "repaired" /\ cl # "canceled_gone" THEN 502 ELSE 200)   \* deviation: the server then sends 200
  ELSE IF IsVia(cl, "timeout_ctx") \/ NetErrorTimeout(cl, w, v) THEN 504
  ELSE 502
(* forwardTCP's deferred SendStatusProto; httpConnect *)
IsNoDirect(cl) == cl \in {"nodirect", "notconnected"}
TcpImpl(x)     == IF ClientThere(x) THEN x.frame ELSE IF IsNoDirect(x.class) THEN "NO_DIRECT" ELSE "UNKNOWN_ERROR"
ConnectImpl(x) == IF ~ClientThere(x) THEN 404 ELSE IF x.frame # "OK" THEN 503 ELSE 200

StatusExpected(x) == CASE x.proto = "http"    -> [kind |-> "http", allowed |-> HttpDecl(x.class)]
                       [] x.proto = "tcp"     -> [kind |-> "tcp"] @@ TcpDecl(x)
                       [] x.proto = "connect" -> [kind |-> "connect"] @@ ConnectDecl(x)
StatusHolds(x, v) ==
  CASE x.proto = "http"    -> HttpDecl(x.class) = <<>> \/ InList(HttpImpl(x.class, x.wrap, v), HttpDecl(x.class))
    [] x.proto = "tcp"     -> InList(TcpImpl(x), TcpDecl(x).frames)
    [] x.proto = "connect" -> (ConnectImpl(x) < 300) => ConnectDecl(x).success

-------------------------------------------------------------------------------
(* C37 *)
Cfgs    == [u : {"", "adm"}, p : {"", "pw"}]
Auths   == {[kind |-> "none", u |-> "", p |-> ""]}
             \cup [kind : {"basic"}, u : {"", "adm", "ADM", "bad"}, p : {"", "pw", "PW", "bad"}]
             \cup [kind : {"basic-lc", "bearer", "raw"}, u : {"adm"}, p : {"pw"}]
Methods == {"GET", "POST", "OPTIONS"} \cup (IF Depth > 0 THEN {"HEAD", "PUT", "DELETE", "PATCH", "PROPFIND"} ELSE {})
Under   == {"/_internal", "/_internal/", "/_internal/chord/stats", "/_internal/chord", "/_internal/acme/x",
            "/_internal/tun/y", "/_internal/migrator/z", "/_internal/debug/pprof/cmdline", "/_internal/nosuch",
            "/_internal//chord/stats"}
             \cup (IF Depth > 0 THEN {"/_internal/chord/", "/_internal/debug/pprof/", "/_internal/acme", "/_internal/../x"} ELSE {})
Outside == {"/", "/_internalx/chord/stats", "/_INTERNAL/chord/stats", "//_internal/chord/stats"}
             \cup (IF Depth > 0 THEN {"/quic.png", "/x/_internal/chord/stats"} ELSE {})
AdminCases == [cfg : Cfgs, path : Under \cup Outside, method : Methods, auth : Auths, node : BOOLEAN, fwd : BOOLEAN]

(* the statement *)
Configured(cfg)  == cfg.u # "" /\ cfg.p # ""                 \* "configurations with empty user or password" have none
Carries(a, cfg)  == a.kind \in {"basic", "basic-lc"} /\ a.u = cfg.u /\ a.p = cfg.p   \* scheme is case-insensitive (RFC 7617)
MayServe(x)      == Configured(x.cfg) /\ Carries(x.auth, x.cfg)
Served(outcome)  == outcome \in {"handler", "dialer"}

(* apexServer.Mount + middleware.BasicAuth + the internal proxy middleware *)
AdminImpl(x) ==
  IF x.path \notin Under THEN "outside"
  ELSE IF x.cfg.u = "" \/ x.cfg.p = "" THEN "unmounted"                              \* return before r.Route("/_internal")
  ELSE LET parsed == x.auth.kind \in {"basic", "basic-lc"}                           \* r.BasicAuth() ok
           creds  == [u \in {x.cfg.u} |-> x.cfg.p]
       IN IF ~parsed \/ x.auth.u \notin DOMAIN creds \/ x.auth.p # creds[x.auth.u] THEN "401"
          ELSE IF x.fwd \/ ~x.node THEN "handler" ELSE "dialer"
AdminExpected(x) == [under |-> x.path \in Under, mayServe |-> MayServe(x), model |-> AdminImpl(x)]

-------------------------------------------------------------------------------
VARIABLES c, done
vars == <<c, done>>

Cases == CASE Family = "resolve" -> ResolveCases
           [] Family = "resolve_obs" -> 1..Len(ObsRecs)
           [] Family = "rewrite" -> RewriteCases
           [] Family = "status"  -> StatusCases
           [] Family = "admin"   -> AdminCases

CaseOut(x)  == IF Family = "rewrite" THEN RewriteCase(x) ELSE x
Expected(x) == CASE Family = "resolve" -> ResolveExpected(x)
                 [] Family = "resolve_obs" -> ObsVerdict(ObsRecs[x])
                 [] Family = "rewrite" -> RewriteExpected(x)
                 [] Family = "status"  -> StatusExpected(x)
                 [] Family = "admin"   -> AdminExpected(x)

(* Impl against Decl, for the variant v of the transcription *)
Holds(x, v) ==
  CASE Family = "resolve" -> x.lit # "" \/ ResolveImpl(x.host, x.roots, v) = ResolveDecl(x.host, x.roots)
    [] Family = "resolve_obs" -> TRUE
    [] Family = "rewrite" -> LET in == InHeaders(x.set, x.dup) IN
                             RewriteDecl(in, x.peer, x.port, RewriteImpl(in, x.peer, x.port, HostHeader(x.hp, x.port), v))
    [] Family = "status"  -> StatusHolds(x, v)
    [] Family = "admin"   -> Served(AdminImpl(x)) => MayServe(x)

(* every case is emitted with the declarative expectation; lead = the "code" variant of the transcription breaks
   the statement on this case (a design-level counterexample, to be confirmed or refuted by the real code) *)
Init == c \in Cases /\ done = FALSE
Next == done = FALSE /\ done' = TRUE /\ c' = c
        /\ Emit([c |-> CaseOut(c), e |-> Expected(c), lead |-> ~Holds(c, "code")])
Spec == Init /\ [][Next]_vars

(* the theorem: the transcription (variant chosen in the cfg) meets the statement on every case *)
ImplMeetsDecl == Holds(c, Variant)
===============================================================================
