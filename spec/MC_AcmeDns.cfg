SPECIFICATION Spec
INVARIANT ImplMeetsDecl
CHECK_DEADLOCK FALSE
