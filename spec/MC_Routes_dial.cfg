SPECIFICATION Spec
CONSTANTS
  Family = "dial"
  MaxRoutes = 3
  Fixed = FALSE
INVARIANT ImplMeetsDecl DivergenceIsExact SortIsLocalFirst
CHECK_DEADLOCK FALSE
