--------------------------------- MODULE Reuse ---------------------------------
(* C41.  Connection reuse between two overlay.QUIC transports A and B (overlay/reuse.go, transport.go,
   reaper.go).

   Connections: X is dialed by A, Y is dialed by B ("two peers dialing each other"), Z is a connection
   from an earlier negotiation (dialed by A; the mirrored situation is the same model with the names
   swapped) that either peer may still hold in its cache when the run starts.

   One negotiation (reuseConnection) runs at both ends of a connection.  Per end:
     Read   : under the read lock, look at the cache, compute the status (sent to the peer afterwards)
     Decide : after the peer's status arrived, under the write lock, apply the decision table
              (ReuseTable!Cell) to the peer's status and the SNAPSHOT taken in the read phase; only the
              store cells look at the cache again.
   The gates verifhook.At("reuse:read" / "reuse:status" / "reuse:decide") of the real code delimit exactly
   these two sections, so a behaviour of this specification is an order in which drv/reuse releases them.

   Close events: the reuse cells close the NEW connection (code 508); an accepting end that errs closes
   the new connection about a second later (code 406, AcceptWithListener) = LateClose; handlePeer starts
   a watcher for every stored connection which, once that connection is closed, runs reapPeer: remove
   WHATEVER is cached for the peer and close it (code 401) = Reap.

   Mode = "full": every interleaving, a Reap at any time after the close (exhaustive design check).
   Mode = "gen" : the behaviours drv/reuse can enforce on two real transports, with the expected
                  projection of the state after every step (hist).  The driver owns the UDP sockets and
                  can hold back the datagrams one peer sends.  A close reaches the OTHER peer's watcher
                  when the driver lets it (Reap of a remotely closed connection = "flush the closer's
                  datagrams"); while a peer's datagrams are held no handshake completes and a status it
                  sends is not delivered.  A Reap whose trigger has been delivered (or is local) happens
                  before anything else; the delayed close happens when no negotiation step is left.
   The silently dead pre-existing connection ("gone": peer reaped it, CONNECTION_CLOSE lost) is noticed
   by its holder only when the schedule says so (Notice), in both modes.
   Fix  = "none": the code as it is.  "tiebreak": proposed repair (see Decide / Reap). *)
EXTENDS ReuseTable

CONSTANTS Mode, Fix,
          Pre,         \* set of allowed pre-existing cache states (see PreStates)
          TableFile    \* "" = the transcription ReuseTable!Cell; otherwise an ndjson file with the table as
                       \* extracted from the implementation by drv/reuse (one record per cell:
                       \* [c |-> cell, o |-> [status, out, kill]]), see TableX

Peers == {"A", "B"}
Negs  == {"X", "Y"}
Conns == {"X", "Y", "Z"}
None  == "-"
Other(p)  == IF p = "A" THEN "B" ELSE "A"
Dialer(k) == IF k = "Y" THEN "B" ELSE "A"
Dir(p, k) == IF Dialer(k) = p THEN "out" ELSE "in"
OwnOf(p, k) == IF k = None THEN "none" ELSE Dir(p, k)   \* direction field of a cache entry

(* The decision table the model runs with.  The check extracts the table from the real code (24 cell
   probes against a scripted peer); when it equals the transcription nothing changes, when it differs the
   three clauses are model-checked again with the extracted table ("a model whose decision table is
   extracted from the implementation").  kill = the cell closes the CACHED connection it returns. *)
ObsCells == IF TableFile = "" THEN <<>> ELSE ndJsonDeserialize(TableFile)
ObsIdx(ps, pd, own, dir) == CHOOSE i \in 1..Len(ObsCells) :
     LET c == ObsCells[i].c IN c.ps = ps /\ c.pd = pd /\ c.own = own /\ c.dir = dir
CellX(ps, pd, own, dir) ==
  IF TableFile = "" THEN Cell(ps, pd, own, dir)
  ELSE LET o == ObsCells[ObsIdx(ps, pd, own, dir)].o.out IN IF o = "store" THEN "recheck" ELSE o
KillX(ps, pd, own, dir) == TableFile # "" /\ ObsCells[ObsIdx(ps, pd, own, dir)].o.kill
StatusX(own, dir) ==
  IF TableFile = "" THEN Status(own, dir)
  ELSE LET i == CHOOSE i \in 1..Len(ObsCells) : ObsCells[i].c.own = own /\ ObsCells[i].c.dir = dir
       IN <<ObsCells[i].o.status[1], ObsCells[i].o.status[2]>>

VARIABLES cache,   \* cache[p] \in Conns \cup {None}: t.cachedConnections[key of the other peer]
          pc,      \* pc[p][k] \in {"idle", "read", "decide", "done"}
          st,      \* st[p][k]: status sent by p on k
          snap,    \* snap[p][k]: cache entry p saw in the read phase
          res,     \* res[p][k] = <<"none"|"err"|"fresh"|"reuse", connection returned>>
          cl,      \* cl[k] = <<"open">> | <<"gone">> (dead, nobody noticed) | <<kind, by>>, kind \in {"neg","late","reap","idle"}
          watch,   \* watch[p]: connections whose handlePeer watcher is running at p
          late,    \* pending delayed closes <<p, k>> of accepting ends that erred
          und,     \* gen: closed connections whose close has not been flushed to the remote peer
          ust,     \* gen: statuses <<p, k>> sent while p's datagrams were held
          pre,     \* name of the initial state (history only)
          hist     \* gen: sequence of executed steps
vars == <<cache, pc, st, snap, res, cl, watch, late, und, ust, pre, hist>>

Gen == Mode = "gen"
Live(k) == k # None /\ cl[k] = <<"open">>
Closed(k) == cl[k][1] \notin {"open", "gone"}
ClosedBy(k) == IF Len(cl[k]) = 2 THEN cl[k][2] ELSE None
NegClosed(k) == cl[k][1] \in {"neg", "late"}
WillClose(f, k) == k # None /\ f[k][1] \in {"open", "gone"}
CloseBy(f, k, kind, p) == IF WillClose(f, k) THEN [f EXCEPT ![k] = <<kind, p>>] ELSE f
CloseU(u, f, k) == IF Gen /\ WillClose(f, k) THEN u \cup {k} ELSE u

(* the remote peer still cares about the close of k: it watches k, or may still store it *)
Needed(k) == LET q == Other(ClosedBy(k)) IN k \in watch[q] \/ (k \in Negs /\ pc[q][k] \in {"read", "decide"})
Held(p) == Gen /\ \E k \in und : ClosedBy(k) = p /\ Needed(k)
Delivered(k) == k \notin und \/ ~Held(ClosedBy(k))
StDelivered(p, k) == <<p, k>> \notin ust \/ ~Held(p)

PendingReap(p, k) == k \in watch[p] /\ Closed(k)
ReapReady(p, k) == PendingReap(p, k) /\ (ClosedBy(k) = p \/ Delivered(k))
AnyReady == \E p \in Peers, k \in Conns : ReapReady(p, k)
BusyNeg == \E p \in Peers, k \in Negs : pc[p][k] \in {"read", "decide"}
QuietNow == /\ ~BusyNeg
            /\ late = {}
            /\ ~\E p \in Peers, k \in Conns : PendingReap(p, k)

(* pre-existing cache states: name |-> <<cache A, cache B, state of Z>> *)
PreStates ==
  [ none  |-> <<None, None, <<"gone">> >>,       \* nothing cached
    both  |-> <<"Z", "Z", <<"open">> >>,          \* the earlier connection is alive and cached by both
    aOnly |-> <<"Z", None, <<"gone">> >>,         \* B reaped it (or restarted), A did not notice yet
    bOnly |-> <<None, "Z", <<"gone">> >> ]        \* A reaped it, B did not notice yet

AtDecide == {<<p, k>> \in Peers \X Negs : /\ pc[p][k] = "decide" /\ pc[Other(p)][k] \in {"decide", "done"}
                                          /\ StDelivered(Other(p), k)}
Proj == [cache |-> cache,
         quiet |-> QuietNow,
         held  |-> {p \in Peers : Held(p)},
         atdec |-> AtDecide,
         cl    |-> [k \in Conns |-> cl[k]],
         res   |-> [p \in Peers |-> [k \in Negs |-> res[p][k]]],
         st    |-> [p \in Peers |-> [k \in Negs |-> st[p][k]]]]
LogC(a, p, k, cell) == IF Gen THEN hist' = Append(hist, [a |-> a, p |-> p, k |-> k, cell |-> cell, post |-> Proj'])
                       ELSE hist' = hist
Log(a, p, k) == LogC(a, p, k, <<>>)

Init == /\ pre \in Pre
        /\ cache = [p \in Peers |-> IF p = "A" THEN PreStates[pre][1] ELSE PreStates[pre][2]]
        /\ cl = [k \in Conns |-> IF k = "Z" THEN PreStates[pre][3] ELSE <<"open">>]
        /\ watch = [p \in Peers |-> IF cache[p] = None THEN {} ELSE {cache[p]}]
        /\ pc = [p \in Peers |-> [k \in Negs |-> "idle"]]
        /\ st = [p \in Peers |-> [k \in Negs |-> <<"-", "-">>]]
        /\ snap = [p \in Peers |-> [k \in Negs |-> None]]
        /\ res = [p \in Peers |-> [k \in Negs |-> <<"none", None>>]]
        /\ late = {}
        /\ und = {}
        /\ ust = {}
        /\ hist = <<>>

(* getCachedConnection: a dial starts only when the dialer finds nothing cached (transport.go:90-95);
   the QUIC handshake completes and both ends arrive at the read phase *)
Dial(k) == /\ \A p \in Peers : pc[p][k] = "idle"
           /\ cache[Dialer(k)] = None
           /\ \A p \in Peers : ~Held(p)
           /\ pc' = [p \in Peers |-> [pc[p] EXCEPT ![k] = "read"]]
           /\ UNCHANGED <<cache, st, snap, res, cl, watch, late, und, ust, pre>>
           /\ Log("Dial", Dialer(k), k)

Read(p, k) ==
  /\ pc[p][k] = "read"
  /\ snap' = [snap EXCEPT ![p][k] = cache[p]]
  /\ st' = [st EXCEPT ![p][k] = StatusX(OwnOf(p, cache[p]), Dir(p, k))]
  /\ pc' = [pc EXCEPT ![p][k] = "decide"]
  /\ ust' = IF Held(p) THEN ust \cup {<<p, k>>} ELSE ust
  /\ UNCHANGED <<cache, res, cl, watch, late, und, pre>>
  /\ Log("Read", p, k)

Decide(p, k) ==
  /\ pc[p][k] = "decide"
  /\ pc[Other(p)][k] \in {"decide", "done"}          \* the peer's status has been sent ...
  /\ StDelivered(Other(p), k)                        \* ... and has arrived
  /\ LET peer == st[Other(p)][k]
         s    == snap[p][k]
         own  == OwnOf(p, s)
         cell == CellX(peer[1], peer[2], own, Dir(p, k))
         kill == KillX(peer[1], peer[2], own, Dir(p, k)) /\ s # None
         branch == IF cell # "recheck" THEN cell ELSE IF cache[p] = None THEN "store" ELSE "recheck-cached"
     IN
     /\ CASE cell = "err" ->
            /\ res' = [res EXCEPT ![p][k] = <<"err", None>>]
            /\ late' = IF Dir(p, k) = "in" THEN late \cup {<<p, k>>} ELSE late
            /\ UNCHANGED <<cache, cl, watch, und>>
       [] cell = "reuse" ->
            /\ res' = [res EXCEPT ![p][k] = <<"reuse", s>>]
            /\ cl' = IF kill THEN CloseBy(cl, s, "neg", p) ELSE cl
            /\ und' = IF kill THEN CloseU(und, cl, s) ELSE und
            /\ UNCHANGED <<cache, watch, late>>
       [] cell = "reuse-close" ->
            /\ res' = [res EXCEPT ![p][k] = <<"reuse", s>>]
            /\ cl' = IF kill THEN CloseBy(CloseBy(cl, k, "neg", p), s, "neg", p) ELSE CloseBy(cl, k, "neg", p)
            /\ und' = IF kill THEN CloseU(CloseU(und, cl, k), cl, s) ELSE CloseU(und, cl, k)
            /\ UNCHANGED <<cache, watch, late>>
       [] cell = "recheck" ->
            IF cache[p] = None
            THEN /\ cache' = [cache EXCEPT ![p] = k]               \* Store(qKey, fresh); handlePeer
                 /\ watch' = [watch EXCEPT ![p] = @ \cup {k}]
                 /\ res' = [res EXCEPT ![p][k] = <<"fresh", k>>]
                 /\ UNCHANGED <<cl, late, und>>
            ELSE IF Fix = "tiebreak" /\ Dir(p, cache[p]) # Dir(p, k) /\ Dialer(k) = "A"
            THEN \* repair: simultaneous open detected (something was stored since the read phase, in the
                 \* opposite direction); both peers keep the connection dialed by the smaller address
                 /\ cl' = CloseBy(cl, cache[p], "neg", p)
                 /\ und' = CloseU(und, cl, cache[p])
                 /\ cache' = [cache EXCEPT ![p] = k]
                 /\ watch' = [watch EXCEPT ![p] = @ \cup {k}]
                 /\ res' = [res EXCEPT ![p][k] = <<"fresh", k>>]
                 /\ UNCHANGED late
            ELSE /\ cl' = CloseBy(cl, k, "neg", p)                  \* fresh.quic.CloseWithError(508, ...)
                 /\ und' = CloseU(und, cl, k)
                 /\ res' = [res EXCEPT ![p][k] = <<"reuse", cache[p]>>]
                 /\ UNCHANGED <<cache, watch, late>>
     /\ pc' = [pc EXCEPT ![p][k] = "done"]
     /\ UNCHANGED <<st, snap, ust, pre>>
     /\ (Mode = "full" => Emit([reached |-> <<peer[1], peer[2], own, Dir(p, k), branch>>]))
     /\ LogC("Decide", p, k, <<peer[1], peer[2], own, Dir(p, k), branch>>)

(* AcceptWithListener: time.Sleep(time.Second); q.CloseWithError(406, err) *)
LateClose(p, k) ==
  /\ <<p, k>> \in late
  /\ Gen => ~BusyNeg /\ ~\E q \in Peers, j \in Conns : PendingReap(q, j)
  /\ late' = late \ {<<p, k>>}
  /\ cl' = CloseBy(cl, k, "late", p)
  /\ und' = CloseU(und, cl, k)
  /\ UNCHANGED <<cache, pc, st, snap, res, watch, ust, pre>>
  /\ Log("LateClose", p, k)

(* handlePeer watcher + reapPeer (reaper.go:15-31).  In gen mode a Reap whose trigger is still held is
   the step at which the driver flushes the closer's datagrams. *)
Reap(p, k) ==
  /\ PendingReap(p, k)
  /\ watch' = [watch EXCEPT ![p] = @ \ {k}]
  /\ LET flushed == IF ClosedBy(k) # p THEN {j \in und : ClosedBy(j) = ClosedBy(k)} ELSE {}
         old == cache[p]
         reapIt == ~(Fix = "tiebreak" /\ old # k)      \* repair: reap only the entry of the closed connection
     IN /\ IF reapIt
           THEN /\ cache' = [cache EXCEPT ![p] = None]       \* LoadAndDelete(qKey): whatever is cached
                /\ cl' = CloseBy(cl, old, "reap", p)
                /\ und' = CloseU(und \ flushed, cl, old)
           ELSE /\ UNCHANGED <<cache, cl>>
                /\ und' = und \ flushed
        /\ ust' = IF ClosedBy(k) # p THEN {x \in ust : x[1] # ClosedBy(k)} ELSE ust
  /\ UNCHANGED <<pc, st, snap, res, late, pre>>
  /\ Log("Reap", p, k)

(* the holder of a silently dead connection finds out (idle timeout / failed keep-alive) *)
Notice(p) ==
  /\ cache[p] # None /\ cl[cache[p]] = <<"gone">>
  /\ cl' = CloseBy(cl, cache[p], "idle", p)
  /\ UNCHANGED <<cache, pc, st, snap, res, watch, late, und, ust, pre>>
  /\ Log("Notice", p, cache[p])

Next ==
  IF Gen /\ AnyReady
  THEN \E p \in Peers, k \in Conns : ReapReady(p, k) /\ Reap(p, k)
  ELSE \/ \E k \in Negs : Dial(k)
       \/ \E p \in Peers, k \in Negs : Read(p, k) \/ Decide(p, k) \/ LateClose(p, k)
       \/ \E p \in Peers, k \in Conns : Reap(p, k)
       \/ \E p \in Peers : Notice(p)

Spec == Init /\ [][Next]_vars

-------------------------------------------------------------------------------
(* The three clauses of C41 *)
Quiet == QuietNow

(* 1: the peers never end up caching different live connections for each other *)
NoSplit == Quiet => ~(Live(cache["A"]) /\ Live(cache["B"]) /\ cache["A"] # cache["B"])

(* 2: a cached connection that one peer reuses is never closed by the negotiation *)
ReuseNotClosed == \A p \in Peers, k \in Negs : res[p][k][1] = "reuse" => ~NegClosed(res[p][k][2])

(* 3: a peer caches a new connection only if the other peer caches the same one *)
CacheAgree == Quiet => \A p \in Peers : (cache[p] \in Negs /\ Live(cache[p])) => cache[Other(p)] = cache[p]

(* auxiliary: a watcher only ever runs for the cached connection (why reaping "whatever is cached" is
   harmless in the code as it is; a repair that replaces entries has to repair reapPeer too) *)
WatchIsCache == \A p \in Peers : \A k \in watch[p] : cache[p] = k \/ Fix = "tiebreak"

TypeOK == /\ cache \in [Peers -> Conns \cup {None}]
          /\ \A p \in Peers, k \in Negs : pc[p][k] \in {"idle", "read", "decide", "done"}
          /\ Gen \/ (und = {} /\ ust = {})

(* behaviour output for replay: a behaviour is complete when no action is enabled *)
Terminal == /\ QuietNow
            /\ \A k \in Negs : pc["A"][k] = "idle" => cache[Dialer(k)] # None        \* no Dial
            /\ \A p \in Peers : cache[p] # None => cl[cache[p]] # <<"gone">>          \* no Notice
Verdict == [c1 |-> NoSplit, c2 |-> ReuseNotClosed, c3 |-> CacheAgree]
EmitDone == (Gen /\ Terminal /\ hist # <<>>) => Emit([pre |-> pre, steps |-> hist, ok |-> Verdict])
===============================================================================
