SPECIFICATION Spec
CONSTANTS
  NTypes = 3
  NTargets = 2
INVARIANT ImplMeetsDecl Separation
CHECK_DEADLOCK FALSE
