---------------------------- MODULE Trace_BufPipe ----------------------------
(* C39, backward conformance: call histories recorded from the real util/bufconn pipe (drv/pipes, mode buf) are
   validated against the byte-stream rules of PipeRules (the same rules BufPipe.tla proves for the transcribed
   code).  trace.ndjson (written by checks/c39.py) holds several histories one after the other:
     {t:"begin", h, cap}                         start of history h, pipe created with BufferedPipe(cap)
     {t:"inv", g, k, n, d, e, rd}                goroutine g invokes call k:  write (d = bytes handed over),
                                                 read (n = len of the buffer), closeW / closeR (conn.Close of the
                                                 writer's / reader's end), setRD clrRD setWD clrWD (deadlines);
                                                 e / rd = the error class and the bytes the call later returned
                                                 (e = "pending": it never returned), copied here from its return
     {t:"ret", g}                                the call of goroutine g returned
     {t:"check"}                                 the driver saw no progress for a long time (far longer than any
                                                 deadline it sets): every call still pending is blocked
     {t:"end"}
   The order of the lines is the real-time order (one atomic log).  A history is accepted iff linearization
   points can be chosen (TLC searches: Decide steps between a call's inv and ret) such that
     - every Read returns the oldest unread bytes / EOF only after the writer closed and all was read / an error on a
       closed end / a timeout only with a deadline set                                   (ReadAllowed)
     - bytes enter the stream in the order they were handed to Write, a successful Write delivered everything, a
       failed one any prefix, nothing is accepted after the writer's own end closed   (PushAllowed, WriteEndAllowed)
     - at a "check" every pending call is legitimately blocked: pipe empty (read) / holding >= cap bytes (write),
       both ends open, no deadline set                                      (ReadBlockedLegit, WriteBlockedLegit)
   Bytes of a pending Write enter the abstract stream lazily (when a Read needs them, when the Write is decided,
   when the writer's end closes, at a check), which keeps the search small and loses no linearization.
   Each history is explored from its own initial state; acceptance = the "end" line is reached. *)
EXTENDS Integers, Sequences, FiniteSets, TLC, Json, PipeRules

CONSTANTS G,        \* goroutine ids are 1..G
          Only,     \* {} = all histories, else the set of history ids to explore
          Verbose   \* TRUE: report every consumed line (used to localise a rejection)

Trace == ndJsonDeserialize("trace.ndjson")
Emit(r) == PrintT("@@" \o ToJson(r))

VARIABLES l,      \* next line of Trace
          hid, cap,
          a,      \* abstract pipe (PipeRules)
          pend    \* per goroutine: the call in progress
tvars == <<l, hid, cap, a, pend>>

Idle == [k |-> "none", n |-> 0, d |-> <<>>, e |-> "", rd |-> <<>>, pushed |-> 0, dec |-> FALSE]
Rest(c) == Len(c.d) - c.pushed
CanPush(g) == pend[g].k = "write" /\ ~pend[g].dec /\ Rest(pend[g]) > 0
PushJ(aa, c, j) == [aa EXCEPT !.q = aa.q \o SubSeq(c.d, c.pushed + 1, c.pushed + j)]
Max(x, y) == IF x > y THEN x ELSE y

TraceInit ==
  \E i \in 1..Len(Trace) :
     /\ Trace[i].t = "begin" /\ (Only = {} \/ Trace[i].h \in Only)
     /\ l = i + 1 /\ hid = Trace[i].h /\ cap = Trace[i].cap
     /\ a = AbsInit /\ pend = [g \in 1..G |-> Idle]

Cur == Trace[l]
Note == IF Verbose THEN Emit([t |-> "at", h |-> hid, l |-> l]) ELSE TRUE

Inv ==
  /\ l <= Len(Trace) /\ Cur.t = "inv" /\ pend[Cur.g].k = "none"
  /\ pend' = [pend EXCEPT ![Cur.g] = [k |-> Cur.k, n |-> Cur.n, d |-> Cur.d, e |-> Cur.e, rd |-> Cur.rd,
                                       pushed |-> 0, dec |-> FALSE]]
  /\ l' = l + 1 /\ Note /\ UNCHANGED <<hid, cap, a>>

Ret ==
  /\ l <= Len(Trace) /\ Cur.t = "ret" /\ pend[Cur.g].k # "none" /\ pend[Cur.g].dec
  /\ pend' = [pend EXCEPT ![Cur.g] = Idle]
  /\ l' = l + 1 /\ Note /\ UNCHANGED <<hid, cap, a>>

(* linearization point of a Read: if it returned more than the stream holds, a pending Write supplies the rest now *)
DecideRead(g) ==
  LET c == pend[g]
      need == IF c.e = "ok" /\ Len(c.rd) > Len(a.q) THEN Len(c.rd) - Len(a.q) ELSE 0 IN
  /\ c.k = "read" /\ ~c.dec /\ c.e # "pending"
  /\ IF need = 0
       THEN /\ ReadAllowed(a, c.n, c.e, c.rd)
            /\ a' = AfterRead(a, c.rd)
            /\ pend' = [pend EXCEPT ![g].dec = TRUE]
       ELSE \E w \in 1..G :
            /\ CanPush(w) /\ Rest(pend[w]) >= need /\ PushAllowed(a)
            /\ LET a1 == PushJ(a, pend[w], need) IN
               /\ ReadAllowed(a1, c.n, c.e, c.rd)
               /\ a' = AfterRead(a1, c.rd)
            /\ pend' = [pend EXCEPT ![g].dec = TRUE, ![w].pushed = @ + need]
  /\ UNCHANGED <<l, hid, cap>>

(* end of a Write: a successful one has delivered everything, a failed one some prefix *)
DecideWrite(g) ==
  LET c == pend[g] IN
  /\ c.k = "write" /\ ~c.dec /\ c.e # "pending"
  /\ \E j \in (IF c.e = "ok" THEN {Rest(c)} ELSE 0..Rest(c)) :
       /\ j > 0 => PushAllowed(a)
       /\ LET a1 == PushJ(a, c, j) IN
          /\ WriteEndAllowed(a1, c.e, Len(c.d), c.pushed + j)
          /\ a' = a1
       /\ pend' = [pend EXCEPT ![g].dec = TRUE, ![g].pushed = @ + j]
  /\ UNCHANGED <<l, hid, cap>>

(* conn.Close of the writer's end: whatever a pending Write still delivers, it delivers before this point *)
DecideCloseW(g) ==
  /\ pend[g].k = "closeW" /\ ~pend[g].dec /\ pend[g].e # "pending"
  /\ \/ /\ a' = [a EXCEPT !.wc = TRUE]
        /\ pend' = [pend EXCEPT ![g].dec = TRUE]
     \/ \E w \in 1..G : /\ CanPush(w) /\ PushAllowed(a)
                        /\ \E j \in 1..Rest(pend[w]) :
                             /\ a' = [PushJ(a, pend[w], j) EXCEPT !.wc = TRUE]
                             /\ pend' = [pend EXCEPT ![g].dec = TRUE, ![w].pushed = @ + j]
  /\ UNCHANGED <<l, hid, cap>>

DecideCtl(g) ==
  LET c == pend[g] IN
  /\ c.k \in {"closeR", "setRD", "clrRD", "setWD", "clrWD"} /\ ~c.dec /\ c.e # "pending"
  /\ a' = CASE c.k = "closeR" -> [a EXCEPT !.rc = TRUE]
            [] c.k = "setRD"  -> [a EXCEPT !.rdl = TRUE]
            [] c.k = "clrRD"  -> [a EXCEPT !.rdl = FALSE]
            [] c.k = "setWD"  -> [a EXCEPT !.wdl = TRUE]
            [] c.k = "clrWD"  -> [a EXCEPT !.wdl = FALSE]
  /\ pend' = [pend EXCEPT ![g].dec = TRUE]
  /\ UNCHANGED <<l, hid, cap>>

(* no progress for a long time: whatever is still pending must be blocked legitimately (a blocked Write may first
   fill the pipe up to its capacity) *)
Check ==
  /\ l <= Len(Trace) /\ Cur.t = "check"
  /\ \A g \in 1..G : pend[g].k \in {"none", "read", "write"} /\ (pend[g].k # "none" => ~pend[g].dec)
  /\ LET W == {g \in 1..G : pend[g].k = "write"} IN
     /\ Cardinality(W) <= 1
     /\ \A g \in W : Rest(pend[g]) > 0 /\ Len(a.q) + Rest(pend[g]) >= cap
     /\ LET fill == [g \in 1..G |-> IF g \in W THEN Max(0, cap - Len(a.q)) ELSE 0]
            a1 == IF W = {} THEN a ELSE LET g == CHOOSE g \in W : TRUE IN PushJ(a, pend[g], fill[g]) IN
        /\ \A g \in W : (fill[g] > 0 => PushAllowed(a)) /\ WriteBlockedLegit(a1, cap, a1.wdl)
        /\ \A g \in 1..G : pend[g].k = "read" => ReadBlockedLegit(a1, a1.rdl)
        /\ a' = a1
        /\ pend' = [g \in 1..G |-> [pend[g] EXCEPT !.pushed = @ + fill[g]]]
  /\ l' = l + 1 /\ Note /\ UNCHANGED <<hid, cap>>

End ==
  /\ l <= Len(Trace) /\ Cur.t = "end"
  /\ Emit([t |-> "accept", h |-> hid])
  /\ l' = l + 1 /\ UNCHANGED <<hid, cap, a, pend>>

TraceNext ==
  \/ Inv \/ Ret \/ Check \/ End
  \/ \E g \in 1..G : DecideRead(g) \/ DecideWrite(g) \/ DecideCloseW(g) \/ DecideCtl(g)

TraceSpec == TraceInit /\ [][TraceNext]_tvars
TypeOK == l >= 1
=============================================================================
