SPECIFICATION Spec
CONSTANTS
  Keys <- Keys2
  HashOf <- Hash2
  H = 3
  Vals = {"v1", "v2"}
  Kids = {"c1", "c2"}
  Family = "contract"
  TTLs = {2}
  LeaseKeys = {}
  MaxNow = 0
INVARIANT TypeOK
CHECK_DEADLOCK FALSE
