SPECIFICATION RSpec
CONSTANTS
  L = 4
  FixPred = FALSE
  FixLeave = FALSE
  FixWrap = FALSE
  FixDead = FALSE
  FixAdopt = FALSE
  MaxTry = 2
  TrackCov = FALSE
  Goal = "none"
  MCLayout <- LayR4
  InitMembers = {1, 3, 4}
  Joiners = {2}
  Leavers = {3}
  MaxOps = 0
  Faults = FALSE
  OpKinds = {}
  MaxMembers = 0
  B = 3
  FixSelf = TRUE
INVARIANTS InvTerminates InvLookupCorrect
CHECK_DEADLOCK FALSE
