------------------------------ MODULE SqliteOpen ------------------------------
(* C24  Opening an existing SQLite database never damages its data.

   kv/sqlite3: New() = open two connections, migrate(writer), prepareStatements.  migrate (schema.go):
       uv = PRAGMA user_version
       uv = latest            -> nothing to do
       uv > latest            -> refuse ("newer than supported")
       uv = 0: all four v1 tables and an index NAMED idx_hash exist  -> legacy database of the previous (GORM)
                                implementation: stamp user_version = 1
               else any v1 table or an index named idx_hash exists   -> refuse ("unexpected partial sqlite schema")
               else                                                  -> fresh: run migrations/0001 (CREATE ... IF NOT
                                                                        EXISTS for the 4 tables and the index) and set
                                                                        user_version = 1 in one transaction
   prepareStatements then fails ("no such table") unless all four tables exist (the index is not needed for it).

   A configuration: which v1 tables exist, whether an index named idx_hash exists, user_version, whether the
   existing tables hold rows.  An index named idx_hash without the table key_trackers can only sit on some
   other table ("foreign").  The abstract database keeps: v1 tables present, the index (none | v1 | foreign),
   user_version, and which tables still hold their original rows.

   Decl (the property, DESIGN 4.0: "the file" = rows, schema objects, user_version):
       success => original rows still there, all v1 tables, idx_hash on key_trackers, user_version = latest
       refusal => nothing changed
   Family "cases": every configuration, with the outcome of the transcription (Impl) and the theorem
                   Impl satisfies Decl, except on Divergent configurations when Fixed = FALSE (the code as it is
                   accepts a database stamped user_version = latest whose idx_hash index is missing).
   Family "obs":   what the real sqlite3.New() did to each materialised database file (obs_sqlopen.ndjson written
                   by checks/c24.py from the dumps of drv/sqlopen) is judged by the same predicate. *)
EXTENDS Integers, Sequences, FiniteSets, TLC, Json

CONSTANTS Family,     \* "cases" | "obs"
          Latest,     \* the newest schema version the code knows (1: migrations/0001-initial-schema.sql)
          MaxUV,      \* user_version 0..MaxUV
          Fixed       \* FALSE: Impl transcribes the code as it is; TRUE: user_version = latest also requires the complete v1 schema

Emit(r) == PrintT("@@" \o ToJson(r))

T == {"key_trackers", "simple_entries", "prefix_entries", "lease_entries"}
Configs == [tables : SUBSET T, index : BOOLEAN, uv : 0..MaxUV, rows : BOOLEAN]

IdxOf(c) == IF ~c.index THEN "none" ELSE IF "key_trackers" \in c.tables THEN "v1" ELSE "foreign"
Db(c) == [tables |-> c.tables, idx |-> IdxOf(c), uv |-> c.uv, rowsIn |-> IF c.rows THEN c.tables ELSE {}]

-------------------------------------------------------------------------------
(* Impl: schema.go / kv.go transcribed *)
LooksLikeV1(d) == T \subseteq d.tables /\ d.idx # "none"          \* schemaLooksLikeV1: tableExists x 4, indexExists by name
HasAnyV1(d)    == d.tables \cap T # {} \/ d.idx # "none"          \* schemaHasAnyV1Objects
Apply1(d)      == [d EXCEPT !.tables = @ \cup T,                  \* CREATE TABLE IF NOT EXISTS x 4
                            !.idx = IF @ = "none" THEN "v1" ELSE @,  \* CREATE INDEX IF NOT EXISTS idx_hash
                            !.uv = 1]                             \* same transaction
Migrate(d) ==
  IF d.uv = Latest THEN [ok |-> (Fixed => LooksLikeV1(d) /\ d.idx = "v1"), db |-> d]
  ELSE IF d.uv > Latest THEN [ok |-> FALSE, db |-> d]
  ELSE IF d.uv = 0 /\ LooksLikeV1(d) THEN [ok |-> TRUE, db |-> [d EXCEPT !.uv = 1]]
  ELSE IF d.uv = 0 /\ HasAnyV1(d) THEN [ok |-> FALSE, db |-> d]
  ELSE [ok |-> TRUE, db |-> Apply1(d)]                            \* every migration with version > uv (there is one)
Prepare(d) == T \subseteq d.tables
Open(d) == LET m == Migrate(d) IN [ok |-> m.ok /\ Prepare(m.db), db |-> m.db]

-------------------------------------------------------------------------------
(* Decl *)
Decl(d0, r) ==
  IF r.ok THEN /\ r.db.rowsIn = d0.rowsIn /\ d0.tables \subseteq r.db.tables
               /\ T \subseteq r.db.tables /\ r.db.idx = "v1"
               /\ r.db.uv = Latest
  ELSE r.db = d0

Divergent(c) == c.uv = Latest /\ c.tables = T /\ ~c.index

Category(c) ==
  CASE c.uv > Latest -> "newer"
    [] c.uv = Latest /\ c.tables = T /\ c.index -> "migrated"
    [] c.uv = Latest /\ c.tables = T /\ ~c.index -> "migrated-without-index"
    [] c.uv = Latest -> "stamped-partial"
    [] c.uv = 0 /\ c.tables = {} /\ ~c.index -> "fresh"
    [] c.uv = 0 /\ c.tables = T /\ c.index -> "legacy"
    [] OTHER -> "partial"

-------------------------------------------------------------------------------
(* backward direction: the observations of the real code *)
ObsRecs == IF Family = "obs" THEN ndJsonDeserialize("obs_sqlopen.ndjson") ELSE <<>>
ToSet(s) == {s[i] : i \in 1..Len(s)}
ObsDecl(r) ==          \* r.o = [ok, tables (v1 tables present with their v1 columns), idx, uv, kept, same]
  IF r.o.ok THEN /\ r.o.kept                                   \* every original row present and readable through the store
                 /\ T \subseteq ToSet(r.o.tables) /\ r.o.idx = "v1"
                 /\ r.o.uv = Latest
  ELSE r.o.same                                                \* rows, schema objects and user_version as before
ObsAgrees(r) ==        \* does the transcription predict what the code did (informative, not the verdict)
  LET cc == [tables |-> ToSet(r.c.tables), index |-> r.c.index, uv |-> r.c.uv, rows |-> r.c.rows]
      m  == Open(Db(cc))
  IN m.ok = r.o.ok /\ m.db.tables \cap T = ToSet(r.o.tables) \cap T /\ m.db.idx = r.o.idx /\ m.db.uv = r.o.uv

VARIABLES c, done
vars == <<c, done>>

Cases == IF Family = "cases" THEN Configs ELSE 1..Len(ObsRecs)

Expected(x) ==
  IF Family = "cases"
  THEN LET r == Open(Db(x)) IN
       [model |-> [ok |-> r.ok, tables |-> r.db.tables, idx |-> r.db.idx, uv |-> r.db.uv],
        holds |-> Decl(Db(x), r), divergent |-> Divergent(x), category |-> Category(x)]
  ELSE [ok |-> ObsDecl(ObsRecs[x]), agrees |-> ObsAgrees(ObsRecs[x])]

Init == c \in Cases /\ done = FALSE
Next == done = FALSE /\ done' = TRUE /\ c' = c /\ Emit([c |-> c, e |-> Expected(c)])
Spec == Init /\ [][Next]_vars

(* the theorems (family cases) *)
ImplMeetsDecl ==
  Family = "cases" => (Decl(Db(c), Open(Db(c))) \/ (~Fixed /\ Divergent(c)))
DivergenceIsExact ==       \* ... and where the code as it is diverges it does so by accepting the database unchanged
  (Family = "cases" /\ ~Fixed /\ Divergent(c)) => (Open(Db(c)).ok /\ Open(Db(c)).db = Db(c) /\ ~Decl(Db(c), Open(Db(c))))
RefusalNeverWrites ==      \* a stronger form of the refusal half: a refused open performs no write at all on the way
  Family = "cases" => (~Open(Db(c)).ok => Migrate(Db(c)).db = Db(c))
WellFormedOpen ==          \* fresh, legacy and migrated databases open (not part of the property; keeps the model honest)
  (Family = "cases" /\ Category(c) \in {"fresh", "legacy", "migrated"}) => Open(Db(c)).ok
===============================================================================
