\* C40 with full-close streams (bufconn, closed TCP peer): writes to a stream whose application closed fail.
\* Every clause except EndToEnd holds; EndToEnd is checked separately (MC_BiPipe_fullclose_e2e.cfg).
SPECIFICATION Spec
CONSTANTS
  Pay <- Pay21
  Errors = TRUE
  CloseBreaksWrite = TRUE
  Variant = "code"
INVARIANTS InvInOrder InvDelivered InvBothClosed InvCompleted InvNoHalfOpen
CHECK_DEADLOCK FALSE
