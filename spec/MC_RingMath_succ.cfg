SPECIFICATION Spec
CONSTANTS
  M = 8
  W = 7
  B = 4
  MaxList = 4
  MaxLen = 5
  Family = "succ"
INVARIANT ImplMeetsDecl NoWrap
CHECK_DEADLOCK FALSE
