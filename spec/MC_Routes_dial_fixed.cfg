SPECIFICATION Spec
CONSTANTS
  Family = "dial"
  MaxRoutes = 3
  Fixed = TRUE
INVARIANT ImplMeetsDecl DivergenceIsExact SortIsLocalFirst
CHECK_DEADLOCK FALSE
