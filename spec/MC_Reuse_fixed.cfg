SPECIFICATION Spec
CONSTANTS
  Mode = "full"
  Fix = "tiebreak"
  TableFile = ""
  Pre = {"none", "both", "aOnly", "bOnly"}
INVARIANT TypeOK NoSplit ReuseNotClosed CacheAgree
CHECK_DEADLOCK FALSE
