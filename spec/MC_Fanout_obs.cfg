SPECIFICATION Spec
CONSTANTS
  MaxN = 0
  WaitAfterCancel = TRUE
  Family = "obs"
  KeepLog = FALSE
CHECK_DEADLOCK FALSE
