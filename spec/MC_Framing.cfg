SPECIFICATION Spec
CONSTANTS
  MaxFrames = 3
INVARIANT ImplMeetsDecl RoundTrip TailUntouched OverBoundNotDecoded NoPartialDelivery
CHECK_DEADLOCK FALSE
