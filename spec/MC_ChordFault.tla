--------------------------- MODULE MC_ChordFault ---------------------------
(* model-checking instance of ChordFault: the scenarios and the cells of C07 *)
EXTENDS ChordFault

\* four node positions 2 4 6 8, one key in front of each node: key i belongs to node i when all four are members
Lay == [npos |-> <<2, 4, 6, 8>>, kpos |-> <<1, 3, 5, 7>>]

MCScenarios == {
  \* join into a populated 3-node ring: the joiner takes key 3 from node 4, its predecessor is node 2
  [name |-> "join-populated",      lay |-> Lay, members |-> {1, 2, 4}, joiner |-> 3, leaver |-> 0],
  \* the same across the origin of the identifier circle: joiner 1 takes key 1 from node 2, its predecessor is node 4
  [name |-> "join-populated-wrap", lay |-> Lay, members |-> {2, 3, 4}, joiner |-> 1, leaver |-> 0],
  \* leave of a populated node whose successor has the larger identifier (own lock first, then the successor's)
  [name |-> "leave-populated",      lay |-> Lay, members |-> {1, 2, 4}, joiner |-> 0, leaver |-> 2],
  \* leave of the node with the largest identifier (successor's lock first, then the own)
  [name |-> "leave-populated-wrap", lay |-> Lay, members |-> {1, 2, 4}, joiner |-> 0, leaver |-> 4] }

RPCs == {"RequestToJoin", "FinishJoin-advisory", "FinishJoin-release", "RequestToLeave", "FinishLeave-advisory", "FinishLeave-release", "Import"}
ScenNames == {sc.name : sc \in MCScenarios}

MCCells ==
  \* the error kind only matters to the one caller that distinguishes retryable errors: the joiner's RequestToJoin
  {c \in [rpc : RPCs, mode : {"fail-before", "lose-response"}, occ : {"first", "every"}, err : {"deadline", "transport"}, scen : ScenNames] :
      c.err = "transport" => c.rpc = "RequestToJoin"}
  \cup [rpc : {"none"}, mode : {"fail-before"}, occ : {"first"}, err : {"deadline"}, scen : ScenNames]

\* quick tier: the cells in which the RPC occurs at all, "every occurrence" only for the calls a retry loop repeats
JoinRPCs == {"RequestToJoin", "FinishJoin-advisory", "FinishJoin-release", "Import"}
LeaveRPCs == {"RequestToLeave", "FinishLeave-advisory", "FinishLeave-release", "Import"}
IsJoinScen(nm) == \E sc \in MCScenarios : sc.name = nm /\ sc.joiner # 0
MCCellsQuick ==
  {c \in MCCells : \/ c.rpc = "none"
                   \/ /\ c.rpc \in (IF IsJoinScen(c.scen) THEN JoinRPCs ELSE LeaveRPCs)
                      /\ c.occ = "every" => c.rpc \in {"RequestToJoin", "RequestToLeave", "Import"}}

ASSUME \A sc \in MCScenarios : PrintT("@@" \o ToJson([t |-> "scen", name |-> sc.name, npos |-> sc.lay.npos, kpos |-> sc.lay.kpos,
                                                      members |-> sc.members, joiner |-> sc.joiner, leaver |-> sc.leaver]))
=============================================================================
