------------------------------- MODULE RingMath -------------------------------
(* Identifier arithmetic of spec/chord/chord.go: Between, ModuloSum, MakeSuccListBy{ID,Address}.
   Each Go function is transcribed ("Impl") next to the declarative statement of the property
   ("Decl"); TLC proves Impl = Decl on the whole small domain and emits every case together with
   the declarative answer.  The cases are replayed into the real Go functions by drv/ringmath
   (identifiers embedded into the 2^48 ring by monotone maps; Between only depends on the order). *)
EXTENDS Integers, Sequences, FiniteSets, TLC, Json

CONSTANTS M,        \* size of the small ring for Between
          W, B,     \* ModuloSum: W-bit machine words, ring of 2^B identifiers (B < W)
          MaxList,  \* C12: candidate lists up to this length
          MaxLen,   \* C12: maxLen 1..MaxLen
          Family    \* which case family this run enumerates: "between" | "sum" | "succ"

Emit(r) == PrintT("@@" \o ToJson(r))

-------------------------------------------------------------------------------
(* Between(low, target, high, inclusive), transcribed line by line *)
BetweenImpl(l, t, h, incl) ==
  IF h > l THEN (l < t /\ t < h) \/ (incl /\ t = h)
  ELSE l < t \/ t < h \/ (incl /\ t = h)

(* declarative: t lies on the clockwise open arc from l to h (the whole circle minus l when l = h),
   or t = h when the interval is right-closed *)
InArc(l, t, h, incl) ==
  LET d  == IF h = l THEN M ELSE (h - l) % M
      dt == (t - l) % M
  IN (dt > 0 /\ dt < d) \/ (incl /\ t = h)

(* order invariance: Between depends only on the relative order of its arguments, which is what
   lets a small ring stand for the 2^48 ring *)
Monotone(f, n) == \A i \in 0..n-1 : f[i] < f[i+1]
ASSUME OrderInvariant ==
  Family # "between" \/
  \A f \in [0..3 -> 0..M-1] : Monotone(f, 3) =>
     \A l, t, h \in 0..3, i \in BOOLEAN : BetweenImpl(f[l], f[t], f[h], i) = BetweenImpl(l, t, h, i)

BetweenCases == [l : 0..M-1, t : 0..M-1, h : 0..M-1, incl : BOOLEAN]

-------------------------------------------------------------------------------
(* ModuloSum(x, y) = (x % m + y % m) % m computed in W-bit wrapping arithmetic, m = 2^B *)
RECURSIVE Pow2(_)
Pow2(n) == IF n = 0 THEN 1 ELSE 2 * Pow2(n-1)
Wrap(x) == x % Pow2(W)
SumImpl(x, y) == Wrap(Wrap((x % Pow2(B)) + (y % Pow2(B))) % Pow2(B))
SumDecl(x, y) == (x + y) % Pow2(B)               \* mathematical integers
SumCases == [x : 0..Pow2(W)-1, y : 0..Pow2(W)-1]
ASSUME B < W

-------------------------------------------------------------------------------
(* C12.  Nodes are <<id, addr>>; Nil is a missing entry.  key = 1 dedups on id, key = 2 on address. *)
Nil == <<0, 0>>
Nodes == {<<1, 1>>, <<1, 2>>, <<2, 1>>, <<2, 2>>, <<3, 3>>}
Sym == Nodes \cup {Nil}

RECURSIVE Loop(_, _, _, _, _)
Loop(list, acc, seen, maxLen, key) ==         \* the for loop of MakeSuccListBy*
  IF list = <<>> THEN acc
  ELSE IF Len(acc) >= maxLen THEN acc           \* break
  ELSE LET s == Head(list) IN
       IF s = Nil \/ s[key] \in seen THEN Loop(Tail(list), acc, seen, maxLen, key)
       ELSE Loop(Tail(list), Append(acc, s), seen \cup {s[key]}, maxLen, key)
MakeImpl(imm, cands, maxLen, key) == Loop(cands, <<imm>>, {imm[key]}, maxLen, key)

(* the property, as a predicate over an arbitrary output *)
IsSubseq(out, cands) ==     \* out is an order-preserving subsequence of cands
  \E f \in [1..Len(out) -> 1..Len(cands)] :
     /\ \A i \in 1..Len(out) : cands[f[i]] = out[i]
     /\ \A i \in 1..Len(out)-1 : f[i] < f[i+1]
WellFormed(imm, cands, maxLen, key, out) ==
  /\ Len(out) >= 1 /\ out[1] = imm
  /\ \A i, j \in 1..Len(out) : i # j => out[i][key] # out[j][key]
  /\ \A i \in 1..Len(out) : out[i] # Nil
  /\ IsSubseq(Tail(out), cands)
  /\ Len(out) <= IF maxLen < 1 THEN 1 ELSE maxLen
(* and no admissible candidate is left out while there is room (what "skips missing entries" and
   "never exceeds" leave implicit: the list is filled greedily) *)
Greedy(imm, cands, maxLen, key, out) ==
  Len(out) < maxLen => \A i \in 1..Len(cands) :
      cands[i] # Nil => \E j \in 1..Len(out) : out[j][key] = cands[i][key]

SeqsUpTo(S, n) == UNION {[1..k -> S] : k \in 0..n}
SuccCases == [imm : {<<1, 1>>}, cands : SeqsUpTo(Sym, MaxList), maxLen : 1..MaxLen, key : {1, 2}]

-------------------------------------------------------------------------------
(* backward direction for C12: the lists the real functions returned (obs_succ.ndjson, written by the
   driver: {"c": case, "o": output}) are judged by the property predicate itself *)
ObsRecs == IF Family = "succ_obs" THEN ndJsonDeserialize("obs_succ.ndjson") ELSE <<>>

VARIABLES c, done
vars == <<c, done>>

Cases == CASE Family = "between" -> BetweenCases
           [] Family = "sum"     -> SumCases
           [] Family = "succ"    -> SuccCases
           [] Family = "succ_obs" -> 1..Len(ObsRecs)

Expected(x) == CASE Family = "between" -> InArc(x.l, x.t, x.h, x.incl)
                 [] Family = "sum"     -> SumDecl(x.x, x.y)
                 [] Family = "succ"    -> MakeImpl(x.imm, x.cands, x.maxLen, x.key)
                 [] Family = "succ_obs" -> LET r == ObsRecs[x] IN
                      [wf |-> WellFormed(r.c.imm, r.c.cands, r.c.maxLen, r.c.key, r.o),
                       greedy |-> Greedy(r.c.imm, r.c.cands, r.c.maxLen, r.c.key, r.o),
                       same |-> r.o = MakeImpl(r.c.imm, r.c.cands, r.c.maxLen, r.c.key)]

Init == c \in Cases /\ done = FALSE
Next == done = FALSE /\ done' = TRUE /\ c' = c /\ Emit([c |-> c, e |-> Expected(c)])
Spec == Init /\ [][Next]_vars

(* the theorems *)
ImplMeetsDecl ==
  CASE Family = "between" -> BetweenImpl(c.l, c.t, c.h, c.incl) = InArc(c.l, c.t, c.h, c.incl)
    [] Family = "sum"     -> SumImpl(c.x, c.y) = SumDecl(c.x, c.y)
    [] Family = "succ"    -> LET o == MakeImpl(c.imm, c.cands, c.maxLen, c.key) IN
                             /\ WellFormed(c.imm, c.cands, c.maxLen, c.key, o)
                             /\ Greedy(c.imm, c.cands, c.maxLen, c.key, o)
    [] Family = "succ_obs" -> TRUE
(* note: because 2^B divides 2^W even the naive (x + y) % m is right in wrapping arithmetic; the
   split form additionally never wraps, which is the other half of the property ("never overflow") *)
NoWrap == Family = "sum" => (c.x % Pow2(B)) + (c.y % Pow2(B)) < Pow2(W)
===============================================================================
