SPECIFICATION Spec
POSTCONDITION Report
CHECK_DEADLOCK FALSE
