SPECIFICATION TraceSpec
CONSTANTS
  L = 4
  FixPred = FALSE
  FixLeave = FALSE
  FixWrap = FALSE
  FixDead = FALSE
  FixAdopt = FALSE
  MaxTry = 10
  TrackCov = FALSE
  Goal = "none"
  MCLayout <- DummyLay
  InitMembers = {}
  Joiners = {}
  Leavers = {}
  MaxOps = 0
  Faults = FALSE
  OpKinds = {}
INVARIANT Consumed
CHECK_DEADLOCK FALSE
