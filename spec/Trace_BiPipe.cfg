\* C40: judge every recorded run of the real tun.Pipe with the monitor of BiPipeRules
SPECIFICATION Spec
INVARIANT TypeOK
CHECK_DEADLOCK FALSE
