-------------------------------- MODULE Errors --------------------------------
(* C14.  Chord errors across the RPC boundary (spec/chord/errors.go, spec/rpc/error.go, chord/server_rpc.go,
   chord/remote.go).  A case is (method, origin error, plain / wrapped in one of four shapes).  The code path is transcribed
   ("Impl": what the caller ends up holding), the property is the predicate Decl over an observation of the two
   sides.  Family "cases" enumerates the cases for the Go driver (drv/rpcerr: real twirp server/client);
   family "obs" reads the driver's observations back and judges each with Decl.  MC_Errors_design.cfg asks TLC
   whether the transcribed design satisfies Decl (a counterexample there is a lead, not a verdict). *)
EXTENDS Integers, Sequences, FiniteSets, TLC, Json

CONSTANTS Family,     \* "cases" | "design" | "obs"
          Repaired    \* TRUE: the code after the fix (wire message = message of the underlying DHT error / deadline; GetPredecessor wraps; ErrorMapper knows the deadline)

Emit(r) == PrintT("@@" \o ToJson(r))

(* errorDef(..., true) / errorDef(..., false) of spec/chord/errors.go *)
Retryable == {"ErrJoinInvalidState", "ErrJoinTransferFailure", "ErrJoinInvalidSuccessor", "ErrLeaveInvalidState",
              "ErrLeaveTransferFailure", "ErrKVStaleOwnership", "ErrKVPendingTransfer"}
Fatal     == {"ErrNodeGone", "ErrNodeNotStarted", "ErrNodeNoSuccessor", "ErrNodeNil", "ErrDuplicateJoinerID",
              "ErrKVSimpleConflict", "ErrKVPrefixConflict", "ErrKVLeaseConflict", "ErrKVLeaseExpired",
              "ErrKVLeaseInvalidTTL", "ErrKVHashFnChanged"}
Defined   == Retryable \cup Fatal
Origins   == Defined \cup {"deadline", "arbitrary", "lookalike"}   \* context.DeadlineExceeded, errors.New(...), and an unknown error whose
                                                                 \* TEXT ends with the text of a retryable DHT error / the deadline (flattened with %v)

(* which wrapper the handler of chord/server_rpc.go applies *)
KVMethods    == {"Put", "Get", "Delete", "PrefixAppend", "PrefixList", "PrefixContains", "PrefixRemove",
                 "Acquire", "Renew", "Release", "ListKeys"}                          \* rpc.WrapErrorKV
PlainMethods == {"Ping", "Notify", "FindSuccessor", "GetSuccessors", "RequestToJoin", "FinishJoin",
                 "RequestToLeave", "FinishLeave", "Import"}                          \* rpc.WrapError
BareMethods  == IF Repaired THEN {} ELSE {"GetPredecessor"}   \* (before the fix) returns err as is; the twirp server makes it an internal error
Methods      == KVMethods \cup PlainMethods \cup {"GetPredecessor"}

(* how the origin error is wrapped on its way to the handler: not at all; with one %w; as one of several errors joined with errors.Join;
   as the second of two %w in one fmt.Errorf; and (deadline only) inside an error type that declares itself to be the deadline through an
   Is method, as the timeout errors of package net do.  errors.Is / errors.As see through all of them, and the code uses only those. *)
Shapes(e) == {"single", "join", "two"} \cup (IF e = "deadline" THEN {"is"} ELSE {})
Cases == {[m |-> m, err |-> e, wrap |-> FALSE, shape |-> "plain"] : m \in Methods, e \in Origins}
         \cup UNION {{[m |-> m, err |-> e, wrap |-> TRUE, shape |-> sh] : sh \in Shapes(e)} : m \in Methods, e \in Origins}

-------------------------------------------------------------------------------
(* transcription *)
OriginRetry(c) == c.err \in Retryable \cup {"deadline"}      \* ErrorIsRetryable = errors.Is over retryableErrs: sees through %w
(* the message is the only thing that crosses the wire besides the code: err.Error() before the fix, the message of the
   underlying DHT error / deadline (errors.As / errors.Is through %w) after it *)
Msg(c)  == IF c.wrap /\ ~(Repaired /\ c.err \in Defined \cup {"deadline"}) THEN <<"context", c.err>> ELSE <<c.err>>
Code(c) == IF c.m \in BareMethods THEN "internal"
           ELSE IF OriginRetry(c) THEN "failed_precondition" ELSE "internal"
(* caller: twirp error(code, msg); RemoteNode applies ErrorMapper: errorStrMap[msg] if present, else the twirp error *)
Known == Defined \cup (IF Repaired THEN {"deadline"} ELSE {})
Mapped(c) == IF Len(Msg(c)) = 1 /\ Msg(c)[1] \in Known THEN Msg(c)[1] ELSE "twirp"
ImplObs(c) == [clientNil   |-> FALSE,
               clientIs    |-> Mapped(c) = c.err,
               clientRetry |-> Mapped(c) \in Retryable \cup {"deadline"},   \* a twirp error is neither a chord error nor context.DeadlineExceeded
               originRetry |-> OriginRetry(c)]

-------------------------------------------------------------------------------
(* the property, over an observation o = [clientNil, clientIs, clientRetry, originRetry] of both sides *)
SameOk(c, o)    == c.err \in Defined => o.clientIs            \* recognised as the same error
RetryOk(c, o)   == o.clientRetry = o.originRetry              \* retryable at the caller iff retryable at the origin
UnknownOk(c, o) == c.err \in {"arbitrary", "lookalike"} => ~o.clientRetry      \* unknown errors stay non-retryable
Decl(c, o) == ~o.clientNil /\ SameOk(c, o) /\ RetryOk(c, o) /\ UnknownOk(c, o)

-------------------------------------------------------------------------------
ObsRecs == IF Family = "obs" THEN ndJsonDeserialize("obs_errors.ndjson") ELSE <<>>

VARIABLES c, done
vars == <<c, done>>

CaseSet == IF Family = "obs" THEN 1..Len(ObsRecs) ELSE Cases

Expected(x) ==
  IF Family = "obs"
  THEN LET r == ObsRecs[x] IN
       [noError |-> r.o.clientNil, same |-> SameOk(r.c, r.o), retry |-> RetryOk(r.c, r.o), unknown |-> UnknownOk(r.c, r.o),
        ok |-> Decl(r.c, r.o), model |-> ImplObs(r.c)]
  ELSE [mustSame |-> x.err \in Defined, originRetry |-> OriginRetry(x), model |-> ImplObs(x)]

Init == c \in CaseSet /\ done = FALSE
Next == done = FALSE /\ done' = TRUE /\ c' = c /\ Emit([c |-> c, e |-> Expected(c)])
Spec == Init /\ [][Next]_vars

(* does the design, as transcribed, have the property?  (checked by MC_Errors_design.cfg only) *)
DesignHolds == Family = "design" => Decl(c, ImplObs(c))
===============================================================================
