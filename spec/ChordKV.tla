------------------------------- MODULE ChordKV -------------------------------
(* Membership + key/value ownership of the specter Chord ring:
     chord/local_membership.go  (Create, Join, RequestToJoin, FinishJoin, Leave, executeLeave, RequestToLeave, FinishLeave)
     chord/local_tasks.go       (stabilize, checkPredecessor)
     chord/local_chord.go       (Notify, transferKeysUpward/Downward, FindSuccessor as an over-approximation)
     chord/local_kv.go          (kvMiddleware: routing hop, state gate, surrogate forward, ownership test, local access)
     chord/node_state.go        (lifecycle word)
   One action per critical section / per gate-to-gate segment of the code (the gates are the
   verifhook.At points), written as a pair  <Name>En(s, args) / <Name>F(s, args)  over a state record s,
   so that the same definitions serve
     - exhaustive model checking (MC_ChordKV_*.cfg),
     - validation of recorded executions of the real LocalNode (Trace_ChordKV.tla: the expected
       successor state F(s, args) is compared with the logged one, step by step).
   Nodes are 1..N, keys 1..K; lay.npos / lay.kpos give their ranks on the identifier circle (the code
   only ever compares identifiers through Between, which is order-invariant: RingMath.tla).
   Finger tables are abstracted: a lookup may return whatever some live node could answer (ChordRing.tla
   models the finger algorithm itself). *)
EXTENDS Integers, Sequences, FiniteSets, TLC

CONSTANTS L,          \* successor list length (chord.ExtendedSuccessorEntries = 4)
          FixPred,    \* TRUE: RequestToJoin refuses (retryably) while the predecessor is nil or not pingable
          FixLeave,   \* TRUE: RequestToLeave refuses (retryably) unless the leaver is the node's predecessor
          FixWrap,    \* TRUE: stabilize cuts the new successor list after the node itself (entries past a full circle are dropped)
          FixDead,    \* TRUE: stabilize falls back to the nearest live finger / predecessor (or the node itself) when every node of its list has departed
          FixAdopt,   \* TRUE: stabilize adopts its successor's predecessor as new successor only once that node has a successor list of its own
                      \*       (a joining node is its successor's predecessor from the moment the join is granted, one round trip before it installs its list)
          MaxTry,     \* bound on join / leave attempts in the model (code: 10)
          TrackCov    \* TRUE: record in s.cov which branch of which action was taken (coverage goals; witnesses are replayed on the real code)

Nil == 0
Cov(s, tag) == IF TrackCov THEN [s EXCEPT !.cov = @ \cup {tag}] ELSE s

Between(low, t, high, incl) ==
  IF high > low THEN (low < t /\ t < high) \/ (incl /\ t = high)
  ELSE low < t \/ t < high \/ (incl /\ t = high)

-------------------------------------------------------------------------------
(* helpers over a state record s and a layout lay *)
NodesOf(lay) == 1..Len(lay.npos)
KeysOf(lay) == 1..Len(lay.kpos)
NB(lay, a, t, b, incl) == Between(lay.npos[a], lay.npos[t], lay.npos[b], incl)    \* node t in (a, b)/(a, b]
KB(lay, a, k, b, incl) == Between(lay.npos[a], lay.kpos[k], lay.npos[b], incl)    \* key k in (a, b)/(a, b]

Live(s, n)     == s.st[n] \in {"Joining", "Active", "Transferring", "Leaving"}    \* checkNodeState(false) = nil
Pingable(s, n) == s.st[n] \in {"Joining", "Active", "Transferring"}               \* checkNodeState(true) = nil
Hd(s, n) == IF s.succ[n] = <<>> THEN Nil ELSE s.succ[n][1]

EmptyVal == [v |-> 0, kids |-> {}]
Present(val) == val.v # 0 \/ val.kids # {}

(* MakeSuccListByID(imm, list, L) *)
RECURSIVE MkLoop(_, _, _)
MkLoop(list, acc, seen) ==
  IF list = <<>> \/ Len(acc) >= L THEN acc
  ELSE IF Head(list) = Nil \/ Head(list) \in seen THEN MkLoop(Tail(list), acc, seen)
  ELSE MkLoop(Tail(list), Append(acc, Head(list)), seen \cup {Head(list)})
MkList(imm, list) == MkLoop(list, <<imm>>, {imm})

-------------------------------------------------------------------------------
(* Notify(h, p): p tells h "I might be your predecessor".  Returns the new <<pred[h], sur[h]>>. *)
NotifyRes(s, h, p) ==
  LET prd == s.pred[h]
      adopt == <<p, IF p = h THEN Nil ELSE p>> IN
  IF ~Live(s, h) THEN <<prd, s.sur[h]>>
  ELSE IF prd # Nil /\ prd = p THEN <<prd, s.sur[h]>>
  ELSE IF prd = Nil THEN adopt
  ELSE IF Pingable(s, prd) THEN (IF NB(s.lay, prd, p, h, FALSE) THEN adopt ELSE <<prd, s.sur[h]>>)
  ELSE adopt

(* stabilize(): the new successor list (<<>> = nothing modified) *)
RECURSIVE StabList(_, _, _)
StabList(s, n, list) ==
  IF list = <<>> THEN <<>>
  ELSE LET h == Head(list) IN
       IF Live(s, h) THEN
            LET ns == s.pred[h] IN
            IF ns # Nil /\ NB(s.lay, n, ns, h, FALSE) /\ Live(s, ns) /\ (FixAdopt => s.succ[ns] # <<>>)
            THEN MkList(ns, s.succ[ns]) ELSE MkList(h, s.succ[h])
       ELSE StabList(s, n, Tail(list))

RECURSIVE CutAtSelf(_, _)
CutAtSelf(list, n) == IF list = <<>> THEN <<>> ELSE IF Head(list) = n THEN <<n>> ELSE <<Head(list)>> \o CutAtSelf(Tail(list), n)
(* the nodes a node still knows of besides its successor list: finger table (modelled in ChordRing as fing, observed in recorded
   runs as fset, absent in the plain membership model) and predecessor *)
FingerSet(s, n) == IF "fing" \in DOMAIN s THEN {s.fing[n][k] : k \in DOMAIN s.fing[n]} ELSE s.fset[n]
NearestLive(s, n) ==      \* nearestLiveNode(): first pingable node clockwise after n among fingers and predecessor, else n
  LET cands == {c \in (FingerSet(s, n) \cup {s.pred[n]}) \ {Nil, n} : Pingable(s, c)} IN
  IF cands = {} THEN n ELSE CHOOSE c \in cands : \A d \in cands \ {c} : ~NB(s.lay, n, d, c, FALSE)
(* stabilize() in two halves: the new list is computed from what the node reads (StabNewList), then installed and the new head
   notified (StabInstall).  The periodic task and an advisory (FinishJoin / FinishLeave) can run stabilize on one node at the
   same time: a round that computed its list before a join and installs it after the joiner's advisory undoes the advisory (lost
   update) - the node then has a stale successor until its next round.  StabRead / StabWrite are that round; StabilizeF is a round
   nobody interleaves with. *)
StabNewList(s, n) ==
  LET raw0 == StabList(s, n, s.succ[n])
      raw == IF raw0 = <<>> /\ FixDead /\ \A i \in 1..Len(s.succ[n]) : ~Live(s, s.succ[n][i]) THEN <<NearestLive(s, n)>> ELSE raw0
  IN IF FixWrap THEN CutAtSelf(raw, n) ELSE raw
StabInstall(s, n, nl) ==
  IF nl = <<>> THEN s
  ELSE LET s1 == [s EXCEPT !.succ[n] = nl]
           h == nl[1] IN
       IF Pingable(s1, n)          \* "don't re-notify our successor when we are leaving"
       THEN LET r == NotifyRes(s1, h, n) IN [s1 EXCEPT !.pred[h] = r[1], !.sur[h] = r[2]]
       ELSE s1
StabilizeF(s, n) == StabInstall(s, n, StabNewList(s, n))
StabReadEn(s, n) == Live(s, n) /\ s.succ[n] # <<>> /\ ~s.stb[n].on
StabReadF(s, n) == [s EXCEPT !.stb[n] = [on |-> TRUE, nl |-> StabNewList(s, n)]]
StabWriteEn(s, n) == s.stb[n].on
StabWriteF(s, n) == StabInstall([s EXCEPT !.stb[n] = [on |-> FALSE, nl |-> <<>>]], n, s.stb[n].nl)

CheckPredF(s, n) ==
  IF s.pred[n] # Nil /\ s.pred[n] # n /\ ~Pingable(s, s.pred[n]) THEN [Cov(s, "checkpred-cleared") EXCEPT !.pred[n] = Nil] ELSE s

(* key hand-over: Export at "from", Import at "to" (simple value overwritten, children merged), RemoveKeys at "from" *)
MoveKeys(store, from, to, ks) ==
  [store EXCEPT ![to]   = [k \in DOMAIN store[to] |-> IF k \in ks
                              THEN [v |-> store[from][k].v, kids |-> store[to][k].kids \cup store[from][k].kids]
                              ELSE store[to][k]],
                ![from] = [k \in DOMAIN store[from] |-> IF k \in ks THEN EmptyVal ELSE store[from][k]]]

-------------------------------------------------------------------------------
(* Create(): Inactive -> Joining, successors = <<self>>, stabilize (notifies itself: pred = self), Active *)
CreateEn(s, n) == s.st[n] = "Inactive"
CreateF(s, n) == LET s1 == [s EXCEPT !.st[n] = "Joining", !.succ[n] = <<n>>]
                     s2 == StabilizeF(s1, n) IN [s2 EXCEPT !.st[n] = "Active"]

(* ---- JOIN of j (jpc: idle -> req -> atx -> granted -> installed -> stabilized -> adv -> act -> rel -> done | failing -> failed) *)
JoinStartEn(s, j) == s.jpc[j] = "idle" /\ s.st[j] = "Inactive"
JoinStartF(s, j) == [s EXCEPT !.st[j] = "Joining", !.jpc[j] = "req"]

(* routing of RequestToJoin: any node whose own FindSuccessor(j) names itself may end up handling it *)
HandlesJoin(s, x, j) ==
  /\ x # j /\ Live(s, x)
  /\ \/ s.pred[x] # Nil /\ NB(s.lay, s.pred[x], j, x, TRUE)
     \/ Hd(s, x) = x
     \/ \E z \in NodesOf(s.lay) : Live(s, z) /\ Hd(s, z) = x /\ NB(s.lay, z, j, x, TRUE)   \* a finger hop answered "my successor"
JoinRouteEn(s, j, x) == s.jpc[j] = "req" /\ HandlesJoin(s, x, j)
JoinRouteF(s, j, x) == [s EXCEPT !.jpc[j] = "atx", !.jx[j] = x]

(* the critical section of RequestToJoin at x = jx[j] (surrogateMu + predecessorMu held) *)
JoinLockOutcome(s, j) ==
  LET x == s.jx[j] IN
  IF s.st[x] # "Active" THEN "refused"                                            \* ErrJoinInvalidState
  ELSE IF FixPred /\ s.pred[x] # x /\ (s.pred[x] = Nil \/ ~Pingable(s, s.pred[x])) THEN "refused"
  ELSE IF s.pred[x] = Nil THEN "panic"                                            \* nil dereference (defect)
  ELSE IF ~NB(s.lay, s.pred[x], j, x, FALSE) THEN "refused"                       \* ErrJoinInvalidSuccessor
  ELSE "granted"
JoinLockEn(s, j) == s.jpc[j] = "atx"
JoinLockWhy(s, j) ==      \* which branch of the critical section is taken (coverage tag)
  LET x == s.jx[j] IN
  IF s.st[x] # "Active" THEN "join-refused-busy"
  ELSE IF FixPred /\ s.pred[x] # x /\ (s.pred[x] = Nil \/ ~Pingable(s, s.pred[x])) THEN "join-refused-pred-unsettled"
  ELSE IF s.pred[x] = Nil THEN "join-panic"
  ELSE IF ~NB(s.lay, s.pred[x], j, x, FALSE) THEN      \* (-with-keys: the node that joined in between holds keys the refused joiner will own)
       "join-refused-wrong-successor" \o (IF s.pred[s.pred[x]] # Nil /\ \E k \in KeysOf(s.lay) : Present(s.store[s.pred[x]][k]) /\ KB(s.lay, s.pred[s.pred[x]], k, j, TRUE)
                                          THEN "-with-keys" ELSE "")
  ELSE IF \E k \in KeysOf(s.lay) : Present(s.store[x][k]) /\ KB(s.lay, s.pred[x], k, j, TRUE) THEN "join-granted-with-keys"
  ELSE "join-granted-no-keys"
JoinLockF(s0, j) ==
  LET s == Cov(s0, JoinLockWhy(s0, j))
      x == s.jx[j]
      o == JoinLockOutcome(s, j) IN
  IF o = "granted" THEN
     LET p == s.pred[x]
         moved == {k \in KeysOf(s.lay) : Present(s.store[x][k]) /\ KB(s.lay, p, k, j, TRUE)} IN
     [s EXCEPT !.store = MoveKeys(s.store, x, j, moved),
               !.pred[x] = j, !.sur[x] = j, !.st[x] = "Transferring",
               !.jp[j] = p, !.jsl[j] = MkList(x, s.succ[x]), !.jpc[j] = "granted"]
  ELSE IF o = "panic" THEN [s EXCEPT !.jpc[j] = "failing", !.bad = @ \cup {"nilpred-panic"}]
  ELSE IF s.jtry[j] + 1 >= MaxTry THEN [s EXCEPT !.jpc[j] = "failing", !.jtry[j] = @ + 1]
  ELSE [s EXCEPT !.jpc[j] = "req", !.jtry[j] = @ + 1]

(* The lock word.  nodeState.Transition loads the word and compare-and-swaps the whole of it (state and transition counter); the
   specification keeps a lock acquisition atomic, which is what NodeState.tla (C13) establishes for Transition as a linearizable
   operation.  Its linearization point lies anywhere between the load and the compare-and-swap: an acquisition whose load preceded a
   complete lock cycle of another operation fails although the node is Active again when it resumes - it is linearized at a moment
   when the node was locked.  The *Early variants are the refused outcomes taken regardless of the present state; trace validation
   admits them only for a step that resumed from the gate after the load (ns:loaded) and only if the recorded states since that load
   show the target node locked (field early of the trace line, computed from the log). *)
JoinLockEarlyF(s0, j) ==
  LET s == Cov(s0, "join-refused-busy-early") IN
  IF s.jtry[j] + 1 >= MaxTry THEN [s EXCEPT !.jpc[j] = "failing", !.jtry[j] = @ + 1]
  ELSE [s EXCEPT !.jpc[j] = "req", !.jtry[j] = @ + 1]

(* an attempt that fails during routing (retryable or not) *)
JoinRouteFailEn(s, j) == s.jpc[j] = "req"
JoinRouteFailF(s, j, fatal) ==
  IF fatal \/ s.jtry[j] + 1 >= MaxTry THEN [s EXCEPT !.jpc[j] = "failing", !.jtry[j] = @ + 1]
  ELSE [s EXCEPT !.jtry[j] = @ + 1]

JoinFailEn(s, j) == s.jpc[j] = "failing"                   \* Join(): executeJoin returned an error: back to Inactive
JoinFailF(s, j) == [s EXCEPT !.st[j] = "Inactive", !.jpc[j] = "failed"]

JoinInstallEn(s, j) == s.jpc[j] = "granted"
JoinInstallF(s, j) == [s EXCEPT !.succ[j] = s.jsl[j], !.pred[j] = s.jp[j], !.jpc[j] = "installed"]

JoinStabEn(s, j) == s.jpc[j] = "installed"                 \* startTasks: stabilize()
JoinStabF(s, j) == [StabilizeF(s, j) EXCEPT !.jpc[j] = "stabilized"]

JoinFixEn(s, j) == s.jpc[j] = "stabilized"                 \* startTasks: fixFinger() (fingers are abstracted)
JoinFixF(s, j) == [s EXCEPT !.jpc[j] = "adv"]

JoinAdvisoryEn(s, j) == s.jpc[j] = "adv"                   \* predecessor.FinishJoin(true, false): no state check
JoinAdvisoryF(s, j) == [StabilizeF(s, s.jp[j]) EXCEPT !.jpc[j] = "act"]

JoinActiveEn(s, j) == s.jpc[j] = "act"
JoinActiveF(s, j) == [s EXCEPT !.st[j] = "Active", !.jpc[j] = "rel"]

JoinReleaseEn(s, j) == s.jpc[j] = "rel"                    \* successors[0].FinishJoin(false, true)
JoinReleaseF(s, j, lost) ==
  LET x == s.jsl[j][1] IN
  IF ~lost /\ s.st[x] = "Transferring" THEN [s EXCEPT !.st[x] = "Active", !.jpc[j] = "done"]
  ELSE [s EXCEPT !.jpc[j] = "done"]

(* ---- LEAVE of l (lpc: idle -> try -> read -> lock2 -> locked -> adv -> left -> rel -> done | failed) *)
LeaveStartEn(s, l) == s.lpc[l] = "idle" /\ s.st[l] \in {"Joining", "Active", "Transferring"}
LeaveStartF(s, l) == [s EXCEPT !.lpc[l] = "try"]

(* RequestToLeave at the successor sc *)
SuccGrantsLeave(s, sc, l) == s.st[sc] = "Active" /\ (FixLeave => s.pred[sc] = l)
(* executeLeave, first part: the leaver reads its predecessor and successor pointers.  The locks are taken afterwards with these
   (possibly outdated) values: the window in which a join between the leaver and its successor slips through unless the successor
   checks that the leaver is its predecessor (FixLeave) *)
LeaveRetry(s, l) == IF s.ltry[l] + 1 >= MaxTry THEN [s EXCEPT !.lpc[l] = "failed", !.ltry[l] = @ + 1]
                    ELSE [s EXCEPT !.lpc[l] = "try", !.ltry[l] = @ + 1]
HoldsKeys(s, l) == (IF \E k \in KeysOf(s.lay) : Present(s.store[l][k]) THEN "-with-keys" ELSE "") \o (IF s.lok[l] THEN "-stale-read" ELSE "")
LeaveReadEn(s, l) == s.lpc[l] = "try"
LeaveReadF(s, l) ==
  LET p == s.pred[l]  sc == Hd(s, l) IN
  IF p = Nil \/ sc = Nil THEN LeaveRetry(Cov(s, "leave-no-neighbour"), l)
  ELSE IF p = l /\ sc = l THEN [Cov(s, "leave-alone") EXCEPT !.lpc[l] = "adv", !.lp[l] = l, !.ls[l] = l]     \* alone: nothing to lock or move
  ELSE [Cov(s, IF sc = l THEN "leave-own-successor-with-predecessor" \o HoldsKeys(s, l) ELSE "leave-read")     \* (a joiner has been admitted, the list not yet refreshed)
          EXCEPT !.lpc[l] = "read", !.lp[l] = p, !.ls[l] = sc, !.lok[l] = (s.pred[sc] = l)]     \* lok (ghost): the successor still named the leaver as predecessor when it was read

(* first lock (asymmetric order by identifier: the successor's lock first when the leaver has the larger id) *)
LeaveFirstEn(s, l) == s.lpc[l] = "read"
LeaveFirstF(s, l) ==
  LET sc == s.ls[l] IN
  IF s.lay.npos[l] > s.lay.npos[sc] THEN                                            \* successor first
       (IF SuccGrantsLeave(s, sc, l) THEN [Cov(s, "leave1-succfirst-granted") EXCEPT !.st[sc] = "Transferring", !.lpc[l] = "lock2"]
        ELSE LeaveRetry(Cov(s, IF s.st[sc] = "Active" THEN "leave1-succfirst-refused-not-predecessor" \o HoldsKeys(s, l) ELSE "leave1-succfirst-refused-busy"), l))
  ELSE (IF s.st[l] = "Active" THEN [Cov(s, "leave1-selffirst-granted") EXCEPT !.st[l] = "Leaving", !.lpc[l] = "lock2"]
        ELSE LeaveRetry(Cov(s, "leave1-selffirst-refused-busy"), l))
(* both parts in one scheduler segment (no gate between them) *)
LeaveReadFirstF(s, l) == LET s1 == LeaveReadF(s, l) IN IF s1.lpc[l] = "read" THEN LeaveFirstF(s1, l) ELSE s1

LeaveSecondEn(s, l) == s.lpc[l] = "lock2"
LeaveSecondF(s, l) ==
  LET sc == s.ls[l] IN
  IF s.lay.npos[l] > s.lay.npos[sc] THEN
       (IF s.st[l] = "Active" THEN [Cov(s, "leave2-succfirst-granted") EXCEPT !.st[l] = "Leaving", !.lpc[l] = "locked"]
        ELSE LeaveRetry([Cov(s, "leave2-succfirst-refused-self-busy") EXCEPT !.st[sc] = IF @ = "Transferring" THEN "Active" ELSE @, !.lpc[l] = "try"], l))
  ELSE (IF SuccGrantsLeave(s, sc, l) THEN [Cov(s, "leave2-selffirst-granted") EXCEPT !.st[sc] = "Transferring", !.lpc[l] = "locked"]
        ELSE LeaveRetry([Cov(s, IF s.st[sc] = "Active" THEN "leave2-selffirst-refused-not-predecessor" \o HoldsKeys(s, l) ELSE "leave2-selffirst-refused-succ-busy")
                         EXCEPT !.st[l] = "Active", !.lpc[l] = "try"], l))

LeaveFirstEarlyF(s, l) == LeaveRetry(Cov(s, "leave1-refused-busy-early"), l)
LeaveSecondEarlyF(s, l) ==
  LET sc == s.ls[l] IN
  IF s.lay.npos[l] > s.lay.npos[sc] THEN
       LeaveRetry([Cov(s, "leave2-succfirst-refused-self-busy-early") EXCEPT !.st[sc] = IF @ = "Transferring" THEN "Active" ELSE @, !.lpc[l] = "try"], l)
  ELSE LeaveRetry([Cov(s, "leave2-selffirst-refused-succ-busy-early") EXCEPT !.st[l] = "Active", !.lpc[l] = "try"], l)

LeaveTransferEn(s, l) == s.lpc[l] = "locked"           \* transferKeysDownward under surrogateMu; surrogate = self
LeaveTransferF(s, l) ==
  LET sc == s.ls[l]
      ks == {k \in KeysOf(s.lay) : Present(s.store[l][k])} IN
  [Cov(s, IF ks = {} THEN "leave-transfer-no-keys" ELSE "leave-transfer-with-keys") EXCEPT !.store = MoveKeys(s.store, l, sc, ks), !.sur[l] = l, !.lpc[l] = "adv"]

LeaveAdvisoryEn(s, l) == s.lpc[l] = "adv"              \* pre.FinishLeave(true, false) unless pre = self
LeaveAdvisoryF(s, l) ==
  IF s.lp[l] # l THEN [StabilizeF(s, s.lp[l]) EXCEPT !.lpc[l] = "left"] ELSE [s EXCEPT !.lpc[l] = "left"]

LeaveLeftEn(s, l) == s.lpc[l] = "left"
LeaveLeftF(s, l) == [s EXCEPT !.st[l] = "Left", !.lpc[l] = "rel"]

LeaveReleaseEn(s, l) == s.lpc[l] = "rel"               \* succ.FinishLeave(false, true) unless succ = self
LeaveReleaseF(s, l, lost) ==
  LET sc == s.ls[l] IN
  IF sc # l /\ ~lost /\ s.st[sc] = "Transferring" THEN [s EXCEPT !.st[sc] = "Active", !.lpc[l] = "done"]
  ELSE [s EXCEPT !.lpc[l] = "done"]

(* ---- background maintenance *)
StabilizeEn(s, n) == Live(s, n) /\ s.succ[n] # <<>>
CheckPredEn(s, n) == Live(s, n)

(* ---- client KV operations through kvMiddleware.  An operation is at node "at"; one action per hop. *)
(* what FindSuccessor(key) issued at a may return (sound over-approximation of any finger table) *)
LookupSet(s, a, k) ==
  IF s.pred[a] # Nil /\ KB(s.lay, s.pred[a], k, a, TRUE) THEN {a}
  ELSE IF Hd(s, a) # Nil /\ KB(s.lay, a, k, Hd(s, a), TRUE) THEN {Hd(s, a)}
  ELSE {Hd(s, z) : z \in {z \in NodesOf(s.lay) : Live(s, z) /\ Hd(s, z) # Nil /\ KB(s.lay, z, k, Hd(s, z), TRUE)}}
       \cup {z \in NodesOf(s.lay) : Live(s, z) /\ s.pred[z] # Nil /\ KB(s.lay, s.pred[z], k, z, TRUE)}

(* ErrNodeNoSuccessor (not retryable): the lookup is handed to a live node that has no successor list yet and does not own the key.  Such a
   node is on the route when some live node names it as its first successor: a joiner that its future predecessor adopted in a stabilize
   round between the grant of the join and the installation of the joiner's list.  (LookupSet abstracts the hops of a lookup; this is the one
   hop at which it can die.) *)
NoSuccHazard(s, a, k) ==
  /\ ~(s.pred[a] # Nil /\ KB(s.lay, s.pred[a], k, a, TRUE))
  /\ ~(Hd(s, a) # Nil /\ KB(s.lay, a, k, Hd(s, a), TRUE))
  /\ \E z \in NodesOf(s.lay) : LET j == Hd(s, z) IN
        /\ Live(s, z) /\ j # Nil /\ j # z /\ Live(s, j) /\ s.succ[j] = <<>>
        /\ (z = a \/ ~KB(s.lay, a, k, z, TRUE))           \* z lies before the key on the way from a
        /\ ~KB(s.lay, z, k, j, TRUE)
        /\ ~(s.pred[j] # Nil /\ KB(s.lay, s.pred[j], k, j, TRUE))

(* the decision taken under surrogateMu.RLock at node a for key k: "stale" | <<"fwd", node>> | "local" *)
LocalDecision(s, a, k) ==
  IF s.st[a] # "Active" THEN "stale"
  ELSE IF s.sur[a] # Nil /\ KB(s.lay, a, k, s.sur[a], TRUE) THEN "fwd"
  ELSE IF s.pred[a] # Nil /\ ~KB(s.lay, s.pred[a], k, a, TRUE) THEN "stale"
  ELSE "local"

(* effect of a local store access; returns <<new value, reply>>, reply = <<tag, simple value, children>> *)
Apply(val, kind, arg) ==
  CASE kind = "put"    -> <<[val EXCEPT !.v = arg], <<"ok", 0, {}>> >>
    [] kind = "delete" -> <<[val EXCEPT !.v = 0], <<"ok", 0, {}>> >>
    [] kind = "get"    -> <<val, <<"val", val.v, {}>> >>
    [] kind = "append" -> IF arg \in val.kids THEN <<val, <<"conflict", 0, {}>> >>
                          ELSE <<[val EXCEPT !.kids = @ \cup {arg}], <<"ok", 0, {}>> >>
    [] kind = "remove" -> <<[val EXCEPT !.kids = @ \ {arg}], <<"ok", 0, {}>> >>
    [] kind = "list"   -> <<val, <<"kids", 0, val.kids>> >>

LocalAccessF(s, a, k, kind, arg) ==
  LET r == Apply(s.store[a][k], kind, arg)
      split == s.store[a][k] # s.cur[k]       \* the node serving the key does not hold its latest data
  IN [s EXCEPT !.store[a][k] = r[1], !.cur[k] = r[1],
               !.bad = IF split THEN @ \cup {IF kind \in {"get", "list"} THEN "staleread" ELSE "splitwrite"} ELSE @]

-------------------------------------------------------------------------------
(* properties, as predicates over a state record *)
Members(s) == {n \in NodesOf(s.lay) : s.st[n] \in {"Active", "Transferring"}}
Holders(s, k) == {n \in NodesOf(s.lay) : Present(s.store[n][k])}
SingleCopy(s) == \A k \in KeysOf(s.lay) : Cardinality(Holders(s, k)) <= 1                           \* C05 (every state)
NoLoss(s) == \A k \in KeysOf(s.lay) : Present(s.cur[k]) => \E n \in NodesOf(s.lay) : s.store[n][k] = s.cur[k]   \* C03
NoGhost(s) == \A k \in KeysOf(s.lay), n \in NodesOf(s.lay) : Present(s.store[n][k]) => s.store[n][k] = s.cur[k] \* C03: nothing deleted reappears
JoinsAt(s, x) == {j \in NodesOf(s.lay) : s.jpc[j] \in {"granted", "installed", "stabilized", "adv", "act", "rel"} /\ s.jsl[j] # <<>> /\ s.jsl[j][1] = x}
LeavesAt(s, x) == {l \in NodesOf(s.lay) : s.lpc[l] \in {"locked", "adv", "left", "rel"} /\ (s.ls[l] = x \/ l = x) /\ s.ls[l] # l}
OneMembershipOp(s) == \A x \in NodesOf(s.lay) : Cardinality(JoinsAt(s, x)) + Cardinality(LeavesAt(s, x)) <= 1     \* C06
(* C06 on the pointers alone (no protocol counters): a joiner that has installed the answer of its successor and is still Joining
   holds that successor's membership lock - the successor is Transferring until the joiner, by then Active, releases it *)
JoinLockHeld(s) == \A j \in NodesOf(s.lay) :
   (s.st[j] = "Joining" /\ s.succ[j] # <<>> /\ s.succ[j][1] # j) => s.st[s.succ[j][1]] = "Transferring"
Quiet(s) == \A n \in NodesOf(s.lay) : s.jpc[n] \in {"idle", "done", "failed"} /\ s.lpc[n] \in {"idle", "done", "failed"}
NoStuck(s) == Quiet(s) => \A n \in NodesOf(s.lay) : s.st[n] \in {"Inactive", "Active", "Left"}                 \* C06 / C07
RECURSIVE PrevMember(_, _, _)
PrevMember(lay, S, n) ==      \* the member with the largest rank below n (cyclically)
  LET below == {m \in S : lay.npos[m] < lay.npos[n]} IN
  IF below # {} THEN CHOOSE m \in below : \A o \in below : lay.npos[o] <= lay.npos[m]
  ELSE CHOOSE m \in S : \A o \in S : lay.npos[o] <= lay.npos[m]
RingSettled(s) == \A n \in Members(s) : s.pred[n] = PrevMember(s.lay, Members(s), n)
Placement(s) == (Quiet(s) /\ RingSettled(s)) =>                                                           \* C05 (quiescent)
     \A n \in Members(s), k \in KeysOf(s.lay) : Present(s.store[n][k]) => KB(s.lay, s.pred[n], k, n, TRUE)
Reachable(s) == (Quiet(s) /\ RingSettled(s)) =>                                                           \* C03 (quiescent)
     \A k \in KeysOf(s.lay) : Present(s.cur[k]) =>
        \E n \in Members(s) : s.store[n][k] = s.cur[k] /\ KB(s.lay, s.pred[n], k, n, TRUE)
NoBad(s) == s.bad = {}

-------------------------------------------------------------------------------
(* the model-checking instance: one state variable *)
CONSTANTS MCLayout, InitMembers, Joiners, Leavers, MaxOps, Faults, OpKinds
(* two switches of the model-checking instance ride on OpKinds (so the many configurations need no further constant):
   "stab"    - also explore stabilize rounds that interleave with other steps (StabRead / StabWrite);
   "fwdlock" - the forward to the surrogate is made while surrogateMu is still read-locked (the code before its repair);
   "nosucc"  - a lookup that can be handed to a live node without successor list ends with the non-retryable ErrNodeNoSuccessor *)
SplitStab == "stab" \in OpKinds
FwdUnderLock == "fwdlock" \in OpKinds
ClientKinds == {k \in OpKinds : k \in {"put", "get", "delete", "append", "remove", "list"}}

(* ---- Three-phase rounds, fingerprints, crashes (pseudo-members "fp", "fplate", "crash<n>", "flap<n>" of OpKinds).
   A stabilize round is compute (gate stab:computed) / install / notify (gate stn:notify).  The node remembers a fingerprint of the list it
   installed last (succListHash) and installs a computed list only if its fingerprint differs; list and fingerprint are written together,
   under successorsMu.  Two rounds of one node can overlap (periodic round, advisory round, a slow earlier round).  With "fplate" the
   fingerprint is written at the end of the round, after the Notify call - the variant TLC must refute: a stale round that installs last and
   a correct round that remembers last leave the node with a list one step behind and the fingerprint of the right one, and no later round
   installs anything.  The hazard needs a stale list that differs from the installed one, i.e. nodes that crash ("crash<n>": stop answering
   without the leave protocol) or do not answer for a while ("flap<n>"). *)
UseFp == "fp" \in OpKinds
FpLate == "fplate" \in OpKinds
Crashers == {n \in NodesOf(MCLayout) : ("crash" \o ToString(n)) \in OpKinds}
Flappers == {n \in NodesOf(MCLayout) : ("flap" \o ToString(n)) \in OpKinds}
S3ReadEn(x, n) == Live(x, n) /\ x.succ[n] # <<>> /\ ~x.stb[n].on
S3ReadF(x, n) == [x EXCEPT !.stb[n] = [on |-> TRUE, nl |-> StabNewList(x, n)]]
S3InstallEn(x, n) == x.stb[n].on /\ ~x.stn[n].on
S3InstallF(x, n) ==
  LET nl == x.stb[n].nl
      ch == nl # <<>> /\ nl # x.fp[n]
      x1 == [x EXCEPT !.stb[n] = [on |-> FALSE, nl |-> <<>>], !.stn[n] = [on |-> TRUE, nl |-> nl, ch |-> ch]] IN
  IF ~ch THEN x1
  ELSE IF FpLate THEN [x1 EXCEPT !.succ[n] = nl] ELSE [x1 EXCEPT !.succ[n] = nl, !.fp[n] = nl]
(* a second round of the same node that computes and installs without pausing while an earlier round still sits between its two steps *)
S3ReadInstallEn(x, n) == Live(x, n) /\ x.succ[n] # <<>> /\ x.stb[n].on /\ ~x.stn[n].on
S3ReadInstallF(x, n) ==
  LET held == x.stb[n]
      y == S3InstallF([x EXCEPT !.stb[n] = [on |-> TRUE, nl |-> StabNewList(x, n)]], n) IN
  [y EXCEPT !.stb[n] = held]
S3NotifyEn(x, n) == x.stn[n].on
S3NotifyF(x, n) ==
  LET r == x.stn[n]
      x1 == [x EXCEPT !.stn[n] = [on |-> FALSE, nl |-> <<>>, ch |-> FALSE]]
      x2 == IF r.nl # <<>> /\ Pingable(x1, n)
            THEN LET h == r.nl[1]  res == NotifyRes(x1, h, n) IN [x1 EXCEPT !.pred[h] = res[1], !.sur[h] = res[2]]
            ELSE x1 IN
  IF FpLate /\ r.ch THEN [x2 EXCEPT !.fp[n] = r.nl] ELSE x2
(* the earlier round goes on (install, notify, end) while the later one sits before its Notify call *)
S3InstallNotifyEn(x, n) == x.stb[n].on /\ x.stn[n].on
S3InstallNotifyF(x, n) ==
  LET held == x.stn[n]
      y == S3NotifyF(S3InstallF([x EXCEPT !.stn[n] = [on |-> FALSE, nl |-> <<>>, ch |-> FALSE]], n), n) IN
  [y EXCEPT !.stn[n] = held]
CrashEn(x, n) == n \in Crashers /\ x.st[n] = "Active"
CrashF(x, n) == [x EXCEPT !.st[n] = "Left"]
MuteEn(x, n) == n \in Flappers /\ x.st[n] = "Active" /\ n \notin x.mut /\ x.jtry[n] = 0
MuteF(x, n) == [x EXCEPT !.st[n] = "Left", !.mut = @ \cup {n}, !.jtry[n] = 1]        \* (jtry of a member is unused: marks "has been away once")
UnmuteEn(x, n) == n \in x.mut
UnmuteF(x, n) == [x EXCEPT !.st[n] = "Active", !.mut = @ \ {n}]
(* a maintenance fixpoint: nothing is in progress and a further round of any node changes nothing *)
RoundChangesNothing(x, n) ==
  LET nl == StabNewList(x, n) IN
  /\ (nl = <<>> \/ nl = x.fp[n] \/ nl = x.succ[n])
  /\ (nl # <<>> /\ Pingable(x, n)) => LET h == nl[1]  res == NotifyRes(x, h, n) IN res[1] = x.pred[h] /\ res[2] = x.sur[h]
RoundsFix(x) == /\ x.mut = {} /\ \A n \in NodesOf(x.lay) : ~x.stb[n].on /\ ~x.stn[n].on
               /\ \A n \in NodesOf(x.lay) : (Live(x, n) /\ x.succ[n] # <<>>) => (RoundChangesNothing(x, n) /\ CheckPredF(x, n) = x)
FirstSuccCorrect(x) == \A n \in Members(x) : x.succ[n] # <<>> /\ PrevMember(x.lay, Members(x), x.succ[n][1]) = n /\ x.succ[n][1] \in Members(x)

VARIABLES s, ops      \* ops: client operations [kind, k, arg, at, hops, st, r]
vars == <<s, ops>>

SortedMembers(lay, S) == LET RECURSIVE Go(_, _)
                             Go(R, acc) == IF R = {} THEN acc ELSE
                                LET m == CHOOSE x \in R : \A y \in R : lay.npos[x] <= lay.npos[y] IN Go(R \ {m}, Append(acc, m))
                         IN Go(S, <<>>)
RECURSIVE NextK(_, _, _, _)
NextK(lay, S, n, cnt) ==     \* the cnt members following n, cyclically (may include n when the ring is small)
  IF cnt = 0 THEN <<>>
  ELSE LET above == {m \in S : lay.npos[m] > lay.npos[n]}
           nx == IF above # {} THEN CHOOSE m \in above : \A o \in above : lay.npos[m] <= lay.npos[o]
                 ELSE CHOOSE m \in S : \A o \in S : lay.npos[m] <= lay.npos[o]
       IN <<nx>> \o NextK(lay, S, nx, cnt - 1)

InitState(lay, members) ==
  LET N == NodesOf(lay) IN
  [lay |-> lay,
   st |-> [n \in N |-> IF n \in members THEN "Active" ELSE "Inactive"],
   pred |-> [n \in N |-> IF n \in members THEN PrevMember(lay, members, n) ELSE Nil],
   succ |-> [n \in N |-> IF n \in members THEN MkList(NextK(lay, members, n, 1)[1], Tail(NextK(lay, members, n, L))) ELSE <<>>],
   sur |-> [n \in N |-> Nil],
   fset |-> [n \in N |-> {}],
   fp |-> [n \in N |-> <<>>],                                \* the list whose fingerprint the node remembers (succListHash), see "Three-phase rounds"
   stn |-> [n \in N |-> [on |-> FALSE, nl |-> <<>>, ch |-> FALSE]],   \* a stabilize round between installing its list and notifying the new head
   mut |-> {},                                               \* nodes that do not answer for the moment (they come back)
   stb |-> [n \in N |-> [on |-> FALSE, nl |-> <<>>]],     \* a stabilize round between computing its list and installing it       \* recorded runs: the nodes named by the finger table (re-synchronised from the log, never computed)
   store |-> [n \in N |-> [k \in KeysOf(lay) |-> EmptyVal]],
   cur |-> [k \in KeysOf(lay) |-> EmptyVal],
   jpc |-> [n \in N |-> "idle"], jx |-> [n \in N |-> Nil], jp |-> [n \in N |-> Nil], jsl |-> [n \in N |-> <<>>],
   jtry |-> [n \in N |-> 0],
   lpc |-> [n \in N |-> "idle"], lp |-> [n \in N |-> Nil], ls |-> [n \in N |-> Nil], ltry |-> [n \in N |-> 0], lok |-> [n \in N |-> FALSE],
   bad |-> {}, cov |-> {}]

Init == s = InitState(MCLayout, InitMembers) /\ ops = <<>>

Membership ==
  \/ \E j \in Joiners :
       \/ JoinStartEn(s, j) /\ s' = JoinStartF(s, j)
       \/ \E x \in NodesOf(s.lay) : JoinRouteEn(s, j, x) /\ s' = JoinRouteF(s, j, x)
       \/ JoinLockEn(s, j) /\ s' = JoinLockF(s, j)
       \/ JoinFailEn(s, j) /\ s' = JoinFailF(s, j)
       \/ JoinInstallEn(s, j) /\ s' = JoinInstallF(s, j)
       \/ JoinStabEn(s, j) /\ s' = JoinStabF(s, j)
       \/ JoinFixEn(s, j) /\ s' = JoinFixF(s, j)
       \/ JoinAdvisoryEn(s, j) /\ s' = JoinAdvisoryF(s, j)
       \/ JoinActiveEn(s, j) /\ s' = JoinActiveF(s, j)
       \/ JoinReleaseEn(s, j) /\ \E lost \in (IF Faults THEN BOOLEAN ELSE {FALSE}) : s' = JoinReleaseF(s, j, lost)
  \/ \E l \in Leavers :
       \/ LeaveStartEn(s, l) /\ s' = LeaveStartF(s, l)
       \/ LeaveReadEn(s, l) /\ s' = LeaveReadF(s, l)
       \/ LeaveFirstEn(s, l) /\ s' = LeaveFirstF(s, l)
       \/ LeaveSecondEn(s, l) /\ s' = LeaveSecondF(s, l)
       \/ LeaveTransferEn(s, l) /\ s' = LeaveTransferF(s, l)
       \/ LeaveAdvisoryEn(s, l) /\ s' = LeaveAdvisoryF(s, l)
       \/ LeaveLeftEn(s, l) /\ s' = LeaveLeftF(s, l)
       \/ LeaveReleaseEn(s, l) /\ \E lost \in (IF Faults THEN BOOLEAN ELSE {FALSE}) : s' = LeaveReleaseF(s, l, lost)

Maintenance ==
  \E n \in NodesOf(s.lay) :
     \/ ~UseFp /\ StabilizeEn(s, n) /\ s' = StabilizeF(s, n) /\ s' # s
     \/ CheckPredEn(s, n) /\ s' = CheckPredF(s, n) /\ s' # s
     \/ UseFp /\ S3ReadEn(s, n) /\ s' = S3ReadF(s, n)
     \/ UseFp /\ S3InstallEn(s, n) /\ s' = S3InstallF(s, n)
     \/ UseFp /\ S3ReadInstallEn(s, n) /\ s' = S3ReadInstallF(s, n)
     \/ UseFp /\ S3InstallNotifyEn(s, n) /\ s' = S3InstallNotifyF(s, n)
     \/ UseFp /\ S3NotifyEn(s, n) /\ s' = S3NotifyF(s, n)
     \/ UseFp /\ CrashEn(s, n) /\ s' = CrashF(s, n)
     \/ UseFp /\ MuteEn(s, n) /\ s' = MuteF(s, n)
     \/ UseFp /\ UnmuteEn(s, n) /\ s' = UnmuteF(s, n)
     \/ SplitStab /\ StabReadEn(s, n) /\ s' = StabReadF(s, n)
     \/ SplitStab /\ StabWriteEn(s, n) /\ s' = StabWriteF(s, n)

OpStart ==
  /\ Len(ops) < MaxOps
  /\ \E e \in {n \in NodesOf(s.lay) : s.st[n] = "Active"}, k \in KeysOf(s.lay), kind \in ClientKinds :
       ops' = Append(ops, [kind |-> kind, k |-> k, arg |-> Len(ops) + 1, at |-> e, hops |-> 0, held |-> {}, st |-> "run", r |-> <<"none", 0, {}>>])
  /\ UNCHANGED s

OpStep(i) ==
  /\ ops[i].st = "run"
  /\ LET o == ops[i]  a == o.at  k == o.k IN
     IF o.hops > 4 THEN ops' = [ops EXCEPT ![i].st = "looped"] /\ UNCHANGED s
     ELSE IF ~Live(s, a) THEN     \* ErrNodeGone at a hop is mapped to the retryable stale-ownership error
          ops' = [ops EXCEPT ![i].st = IF s.st[a] = "Inactive" THEN "notstarted" ELSE "stale"] /\ UNCHANGED s
     ELSE IF "nosucc" \in OpKinds /\ NoSuccHazard(s, a, k)      \* (pessimistic routing: whenever the lookup can die, it does)
          THEN ops' = [ops EXCEPT ![i].st = "nosucc"] /\ UNCHANGED s
     ELSE \E r \in LookupSet(s, a, k) :
          IF r # a THEN ops' = [ops EXCEPT ![i].at = r, ![i].hops = o.hops + 1] /\ UNCHANGED s
          ELSE IF a \in o.held THEN ops' = [ops EXCEPT ![i].st = "relock"] /\ UNCHANGED s     \* second surrogateMu.RLock of one call chain
          ELSE LET d == LocalDecision(s, a, k) IN
               IF d = "stale" THEN ops' = [ops EXCEPT ![i].st = "stale"] /\ UNCHANGED s
               ELSE IF d = "fwd" THEN ops' = [ops EXCEPT ![i].at = s.sur[a], ![i].hops = o.hops + 1,
                                                           ![i].held = IF FwdUnderLock THEN @ \cup {a} ELSE @] /\ UNCHANGED s
               ELSE /\ s' = LocalAccessF(s, a, k, o.kind, o.arg)
                    /\ ops' = [ops EXCEPT ![i].st = "ok", ![i].r = Apply(s.store[a][k], o.kind, o.arg)[2]]

Next == \/ (Membership /\ UNCHANGED ops)
        \/ (Maintenance /\ UNCHANGED ops)
        \/ OpStart
        \/ \E i \in 1..Len(ops) : OpStep(i)

Spec == Init /\ [][Next]_vars

(* invariants of the model-checking instance *)
InvSingleCopy == SingleCopy(s)
InvNoLoss == NoLoss(s)
InvNoGhost == NoGhost(s)
InvOneOp == OneMembershipOp(s)
InvJoinLockHeld == JoinLockHeld(s)
InvNoStuck == NoStuck(s)
InvPlacement == Placement(s)
InvReachable == Reachable(s)
InvNoBad == NoBad(s)
CONSTANT Goal
InvGoalUnreached == ~(Goal \in s.cov)          \* coverage goal: its "counterexample" is a witness behaviour
(* C04: a read linearizes at its local access, where it must see the last linearized write: tag "staleread" in bad *)
(* C01 / C02 with overlapping rounds and crashed nodes: at a maintenance fixpoint every member's first successor is the next member *)
InvNoWrongFixpoint == (UseFp /\ Quiet(s) /\ RoundsFix(s)) => FirstSuccCorrect(s)
InvNoNonRetryable == \A i \in 1..Len(ops) : ops[i].st \notin {"notstarted", "looped", "nosucc"}
(* the forward to the surrogate is made while surrogateMu is read-locked; if the call chain returns to the same node it read-locks
   again: with a writer (RequestToJoin, Notify, Leave, Import) queued in between, both wait for ever *)
InvNoRelock == \A i \in 1..Len(ops) : ops[i].st # "relock"
===============================================================================
