SPECIFICATION Spec
CONSTANTS
  Mode = "gen"
  Fix = "none"
  TableFile = ""
  Pre = {"none", "both", "aOnly", "bOnly"}
INVARIANT EmitDone
CHECK_DEADLOCK FALSE
