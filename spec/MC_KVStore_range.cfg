SPECIFICATION Spec
CONSTANTS
  Keys <- Keys3
  HashOf <- Hash3
  H = 3
  Vals = {"v1"}
  Kids = {"c1"}
  Family = "range"
  TTLs = {2}
  LeaseKeys = {3}
  MaxNow = 0
INVARIANT TypeOK
CHECK_DEADLOCK FALSE
