\* C07: all cells (RPC x fault mode x occurrence x error kind x scenario) in one run; the outcome of every quiescent state is emitted
SPECIFICATION FSpec
CONSTANTS
  L = 4
  FixPred = TRUE
  FixLeave = TRUE
  FixWrap = TRUE
  FixDead = TRUE
  FixAdopt = TRUE
  MaxTry = 3
  TrackCov = FALSE
  Goal = "none"
  MCLayout <- Lay
  InitMembers = {}
  Joiners = {}
  Leavers = {}
  MaxOps = 0
  Faults = TRUE
  OpKinds = {}
  Scenarios <- MCScenarios
  CellSet <- MCCells
  MaintAny = TRUE
INVARIANTS InvEmitOutcome InvFNoLoss InvFNoGhost
CHECK_DEADLOCK FALSE
