SPECIFICATION Spec
CONSTANTS
  Family = "obs"
  MaxLen = 4

CHECK_DEADLOCK FALSE
