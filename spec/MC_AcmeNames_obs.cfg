SPECIFICATION Spec
CONSTANTS
  RejectIP = TRUE
  Family = "obs"
  MaxLen = 4

CHECK_DEADLOCK FALSE
