SPECIFICATION Spec
CONSTANTS
  Family = "bits"
  MaxBits = 26
  ByteVals = {0, 1, 15, 16, 127, 128, 255}
  Expires = 600
  Delta = 5
  Difficulty = 8
  MaxStamp = 14
  MaxSolve = 16
INVARIANT ImplMeetsDecl
CHECK_DEADLOCK FALSE
