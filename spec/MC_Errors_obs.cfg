SPECIFICATION Spec
CONSTANTS
  Family = "obs"
  Repaired = TRUE
CHECK_DEADLOCK FALSE
