SPECIFICATION Spec
CONSTANTS
  Family = "obs"
CHECK_DEADLOCK FALSE
