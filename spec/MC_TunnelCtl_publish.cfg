SPECIFICATION Spec
CONSTANTS
  Family = "publish"
  MaxSucc = 4
  Menu = "small"
  MaxLevel = 3
  SimDepth = 10
INVARIANT ModelStepOK TypeOK
CHECK_DEADLOCK FALSE
