SPECIFICATION Spec
CONSTANTS
  Family = "files"
  PathSet = "sibling"
  NVal = 2
  NInst = 2
  NNames = 2
  TTL = 2
  MaxT = 6
  HistLen = 10
INVARIANT FilesSane
CHECK_DEADLOCK FALSE
