-------------------------------- MODULE Framing -------------------------------
(* C38.  spec/rpc/rpc.go Send / Receive / BoundedReceive: length-prefixed framing on a byte stream.

   A stream is  Frame(1) \o ... \o Frame(n) \o tail  possibly cut short inside its last frame, where
   Frame(j) = 4-byte big-endian length \o payload.  A case fixes, per frame, a size class and the bound the
   reader uses for it (none = Receive; lt / eq / gt = BoundedReceive with a bound below / equal to / above the
   payload size), the number of trailing bytes and where the stream is truncated.  The reader performs one
   read per frame, in order, and stops after the first failure.

   Model sizes are small (0, 2, 5 bytes, byte values are distinct so that a misplaced read shows); the driver
   (harness/drv/c38framing) uses real protocol messages of every framed type with real sizes and places the
   bounds and the cuts relative to those.  "Recv" transcribes receive(); "Outcome"/"Decl*" state the property;
   TLC checks the transcription against the statement on every layout and emits the statement's expectation:
   per read its kind and the exact stream position afterwards, as a symbolic position
   <<j, "end">> (end of frame j), <<j, "hdr">> (end of the length prefix of frame j), <<0, "eos">>. *)
EXTENDS Integers, Sequences, FiniteSets, TLC, Json

CONSTANTS MaxFrames

Emit(r) == PrintT("@@" \o ToJson(r))

SizeClasses == {"z", "s", "l"}
SizeOf(sz) == CASE sz = "z" -> 0 [] sz = "s" -> 2 [] sz = "l" -> 5
Bounds  == {"none", "lt", "eq", "gt"}
Tails   == {0, 1, 3}
Truncs  == {"none", "h0", "h1", "h3", "p0", "pmid", "pm1"}
   \* h<k>: only k bytes of the last frame's length prefix are present (h0: the stream ends where that frame would start)
   \* p0: prefix complete, payload missing; pmid: payload cut in the middle; pm1: last payload byte missing

NoBound == -1
BoundOf(fr) == CASE fr.bd = "none" -> NoBound
                 [] fr.bd = "lt"   -> SizeOf(fr.sz) - 1
                 [] fr.bd = "eq"   -> SizeOf(fr.sz)
                 [] fr.bd = "gt"   -> SizeOf(fr.sz) + 1

FrameSpecs == {fr \in [sz : SizeClasses, bd : Bounds] : fr.bd = "lt" => SizeOf(fr.sz) > 0}
SeqsFromTo(S, a, b) == UNION {[1..k -> S] : k \in a..b}
TruncOK(frames, tr) ==
  LET n == SizeOf(frames[Len(frames)].sz) IN
  CASE tr \in {"none", "h0", "h1", "h3"} -> TRUE
    [] tr \in {"p0", "pm1"}              -> n >= 1
    [] tr = "pmid"                       -> n >= 3
Cases == {x \in [frames : SeqsFromTo(FrameSpecs, 1, MaxFrames), tail : Tails, trunc : Truncs] :
             /\ TruncOK(x.frames, x.trunc)
             /\ (x.trunc # "none" => x.tail = 0)}

-------------------------------------------------------------------------------
(* the byte stream of a case *)
Payload(j, n) == [k \in 1..n |-> 10 * j + k]
Header(n)     == <<0, 0, 0, n>>                          \* big endian, model sizes < 256
Frame(j, n)   == Header(n) \o Payload(j, n)
TailBytes(n)  == [k \in 1..n |-> 200 + k]

RECURSIVE Concat(_, _)
Concat(frames, j) == IF j > Len(frames) THEN <<>> ELSE Frame(j, SizeOf(frames[j].sz)) \o Concat(frames, j + 1)

RECURSIVE StartOf(_, _)
StartOf(frames, j) == IF j = 1 THEN 0 ELSE StartOf(frames, j - 1) + 4 + SizeOf(frames[j-1].sz)    \* bytes before frame j

CutAt(c) ==
  LET L  == Len(c.frames)
      st == StartOf(c.frames, L)
      n  == SizeOf(c.frames[L].sz)
  IN CASE c.trunc = "h0"   -> st
       [] c.trunc = "h1"   -> st + 1
       [] c.trunc = "h3"   -> st + 3
       [] c.trunc = "p0"   -> st + 4
       [] c.trunc = "pmid" -> st + 4 + (n \div 2)
       [] c.trunc = "pm1"  -> st + 4 + n - 1
Stream(c) ==
  LET full == Concat(c.frames, 1) \o TailBytes(c.tail)
  IN IF c.trunc = "none" THEN full ELSE SubSeq(full, 1, CutAt(c))

-------------------------------------------------------------------------------
(* transcription of receive(stream, rr, checker).  pos = bytes consumed so far.  io.ReadFull consumes whatever is
   there when the stream ends early. *)
Recv(s, pos, bound) ==
  LET avail == Len(s) - pos IN
  IF avail < 4 THEN [k |-> "short", pos |-> Len(s), msg |-> <<>>, decoded |-> FALSE]
  ELSE LET ms == s[pos+1] * 16777216 + s[pos+2] * 65536 + s[pos+3] * 256 + s[pos+4] IN
       IF bound # NoBound /\ ~(ms <= bound) THEN [k |-> "big", pos |-> pos + 4, msg |-> <<>>, decoded |-> FALSE]
       ELSE IF avail - 4 < ms THEN [k |-> "short", pos |-> Len(s), msg |-> <<>>, decoded |-> FALSE]
       ELSE [k |-> "ok", pos |-> pos + 4 + ms, msg |-> SubSeq(s, pos + 5, pos + 4 + ms), decoded |-> TRUE]

RECURSIVE Reads(_, _, _, _)
Reads(s, pos, frames, j) ==
  IF j > Len(frames) THEN <<>>
  ELSE LET r == Recv(s, pos, BoundOf(frames[j])) IN
       IF r.k = "ok" THEN <<r>> \o Reads(s, r.pos, frames, j + 1) ELSE <<r>>
Run(c) == Reads(Stream(c), 0, c.frames, 1)

-------------------------------------------------------------------------------
(* the statement, per read j (reached only if all earlier reads succeeded) *)
Last(c) == Len(c.frames)
HeaderPresent(c, j)  == j < Last(c) \/ c.trunc \in {"none", "p0", "pmid", "pm1"}
PayloadPresent(c, j) == j < Last(c) \/ c.trunc = "none"
TooLong(c, j) == BoundOf(c.frames[j]) # NoBound /\ SizeOf(c.frames[j].sz) > BoundOf(c.frames[j])

Outcome(c, j) ==
  IF ~HeaderPresent(c, j) THEN [k |-> "short", at |-> <<0, "eos">>]
  ELSE IF TooLong(c, j) THEN [k |-> "big", at |-> <<j, "hdr">>]        \* rejected; nothing behind the prefix is read
  ELSE IF ~PayloadPresent(c, j) THEN [k |-> "short", at |-> <<0, "eos">>]
  ELSE [k |-> "ok", at |-> <<j, "end">>]                               \* exactly the frame is consumed

RECURSIVE Expect(_, _)
Expect(c, j) == IF j > Last(c) THEN <<>>
                ELSE LET o == Outcome(c, j) IN IF o.k = "ok" THEN <<o>> \o Expect(c, j + 1) ELSE <<o>>

PosOf(c, at) == CASE at[2] = "eos" -> Len(Stream(c))
                  [] at[2] = "hdr" -> StartOf(c.frames, at[1]) + 4
                  [] at[2] = "end" -> StartOf(c.frames, at[1]) + 4 + SizeOf(c.frames[at[1]].sz)

VARIABLES c, done
vars == <<c, done>>

Init == c \in Cases /\ done = FALSE
Next == done = FALSE /\ done' = TRUE /\ c' = c /\ Emit([c |-> c, e |-> Expect(c, 1)])
Spec == Init /\ [][Next]_vars

(* theorems about the transcription *)
ImplMeetsDecl ==
  LET R == Run(c)
      E == Expect(c, 1)
  IN /\ Len(R) = Len(E)
     /\ \A j \in 1..Len(R) : R[j].k = E[j].k /\ R[j].pos = PosOf(c, E[j].at)
RoundTrip ==            \* a delivered message is the payload that was framed, byte for byte
  LET R == Run(c) IN \A j \in 1..Len(R) : R[j].k = "ok" => R[j].msg = Payload(j, SizeOf(c.frames[j].sz))
TailUntouched ==        \* after n successful reads the next reader finds exactly the trailing bytes
  LET R == Run(c) s == Stream(c) IN
  (Len(R) = Last(c) /\ R[Len(R)].k = "ok") => SubSeq(s, R[Len(R)].pos + 1, Len(s)) = TailBytes(c.tail)
OverBoundNotDecoded ==  \* a frame longer than the bound is rejected, its payload neither read nor decoded
  LET R == Run(c) IN \A j \in 1..Len(R) :
     (HeaderPresent(c, j) /\ TooLong(c, j)) =>
        R[j].k = "big" /\ ~R[j].decoded /\ R[j].pos = StartOf(c.frames, j) + 4
NoPartialDelivery ==    \* a truncated frame is never delivered
  LET R == Run(c) IN \A j \in 1..Len(R) : ~PayloadPresent(c, j) => R[j].k # "ok"
===============================================================================
