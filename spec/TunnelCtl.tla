------------------------------- MODULE TunnelCtl -------------------------------
(* Control plane of the tunnel server, tun/server/{client_rpc,acme_rpc,keyless_rpc,resolve}.go:
   who may call which RPC (C25), what publish / unpublish / release do to the route table kept in
   the DHT and to whom (C26), which gateway endpoints a client is offered (C51).

   Every part has the code's decision logic transcribed ("...Impl") next to the property written as
   a predicate over an arbitrary observation ("...Decl").  TLC proves Impl |= Decl on the whole
   generated space (INVARIANTs), emits the cases / behaviours that harness/drv/tunctl runs through
   the real tun/server.Server (real twirp server, real handlers, real kv/memory store), and - for
   the stateful part - judges the recorded steps of the real server with the Decl predicates
   (family publish_obs).

   Families (constant Family):
     gating       case table: service method x caller class x body class          (C25)
     getnodes     case table: successor list x missing destination records         (C51)
     publish      state graph, every edge printed once (BFS, bounded by MaxLevel)  (C26)
     publish_sim  the same machine under -simulate, behaviours printed             (C26)
     publish_obs  recorded steps of the real server judged by the predicates       (C26)
     race_obs     outcomes of two requests racing on the real server, judged as
                  "one before the other" by the same predicates (operations: TunnelRace)  (C26)   *)
EXTENDS Integers, Sequences, FiniteSets, TLC, Json, TunnelCtlMethods

CONSTANTS Family,
          MaxSucc,     \* getnodes: successor lists up to this length
          Menu,        \* publish: "small" | "full" menu of requested server lists
          MaxLevel,    \* publish: edges are generated from states of BFS level <= MaxLevel
          SimDepth     \* publish_sim: length of a behaviour

Emit(r) == PrintT("@@" \o ToJson(r))
Min(a, b) == IF a < b THEN a ELSE b
ToSet(s) == {s[i] : i \in 1..Len(s)}
SeqsUpTo(S, n) == UNION {[1..k -> S] : k \in 0..n}

-------------------------------------------------------------------------------
(* C25 gating.
   Caller classes (how the stream delegation of the request looks):
     nodeleg      no delegation in the context (handler reached without the transport)
     nocert       delegation without a verified client certificate
     mal_parts    certificate subject without the three ':'-separated parts
     mal_two      "v1:<id>" (two parts)
     mal_ver      unknown version tag
     mal_id       non-numeric client id (ExtractCertificateIdentity panics in util.Must)
     unreg_v1     well-formed v1 subject, token never registered
     unreg_v2     well-formed v2 subject, never registered
     unreg_empty  v1 subject with an empty token
     reg_v1       registered v1 client
     reg_old      registered client whose stored record predates PKI (no address / rendezvous flag):
                  the hook rewrites the record
     reg_v2       registered v2 client                                                          *)
NoCertClasses  == {"nodeleg", "nocert", "mal_parts", "mal_two", "mal_ver", "mal_id"}
UnregClasses   == {"unreg_v1", "unreg_v2", "unreg_empty"}
RegClasses     == {"reg_v1", "reg_old", "reg_v2"}
CallerClasses  == NoCertClasses \cup UnregClasses \cup RegClasses
(* request bodies: empty; aimed at a registered victim's hostname / custom hostname (valid proof of work);
   "self": aimed at a hostname and a custom-hostname binding that the store attributes to the caller's own
   token (for a never-registered token: stale entries without a client record); random junk; oversized *)
BodyClasses    == {"empty", "victim", "self", "junk", "big"}

(* extractAuthenticated(ctx) *)
ExtractImpl(cls) ==
  CASE cls = "nodeleg" -> "internal"
    [] cls = "nocert"  -> "unauthenticated"
    [] cls \in {"mal_parts", "mal_two", "mal_ver"} -> "unauthenticated"
    [] cls = "mal_id"  -> "panic"                  \* recovered by the http middleware: 500
    [] OTHER           -> "identity"

(* verifyClientIdentity (twirp RequestRouted hook); the switch is on the bare method name.
   fault: what the DHT does to the hook's lookup of the caller's client record: none | retry (a retryable error on every
   attempt of the retry wrapper: the key's owner is in a membership change) | fatal (another error) *)
HookImplF(m, cls, fault) ==
  IF cls = "nodeleg" THEN "internal"
  ELSE IF m.name \in {"Ping", "RegisterIdentity"} THEN "pass"
  ELSE LET x == ExtractImpl(cls) IN
       IF x # "identity" THEN x
       ELSE IF fault # "none" THEN "unauthenticated" \* getClientByToken fails: the caller is not verified as registered
       ELSE IF cls \in RegClasses THEN "pass"       \* getClientByToken finds a record
       ELSE "unauthenticated"
HookImpl(m, cls) == HookImplF(m, cls, "none")

(* the handlers: Ping needs nothing, every other handler starts with extractAuthenticated *)
HandlerImpl(m, cls) ==
  IF m.name = "Ping" THEN "handled"
  ELSE LET x == ExtractImpl(cls) IN IF x = "identity" THEN "handled" ELSE x

(* a request of class nodeleg cannot come through the transport (the http server attaches the
   delegation to every connection); it is the handler invoked with a bare context *)
GateImplF(m, cls, fault) ==
  IF cls = "nodeleg" THEN HandlerImpl(m, cls)
  ELSE LET h == HookImplF(m, cls, fault) IN IF h = "pass" THEN HandlerImpl(m, cls) ELSE h
GateImpl(m, cls) == GateImplF(m, cls, "none")

RefusedImpl(m, cls, fault) == GateImplF(m, cls, fault) # "handled"
(* the DHT is written only by handlers that ran, and by the hook's upgrade of an old record *)
MayWriteImpl(m, cls, fault) == GateImplF(m, cls, fault) = "handled" \/ (cls = "reg_old" /\ HookImplF(m, cls, fault) = "pass")

(* the statement *)
Exempt(m) == m.svc = "TunnelService" /\ m.name \in {"Ping", "RegisterIdentity"}
MustRefuse(m, cls) == ~Exempt(m) /\ cls \notin RegClasses

GatingCases == [m : MethodRecs, cls : CallerClasses, body : BodyClasses, fault : {"none"}]
               \cup [m : MethodRecs, cls : UnregClasses \cup RegClasses, body : {"victim", "self"}, fault : {"retry", "fatal"}]
GatingExpected(x) == [mustRefuse |-> MustRefuse(x.m, x.cls), impl |-> GateImplF(x.m, x.cls, x.fault)]
GatingHolds(x) == MustRefuse(x.m, x.cls) => (RefusedImpl(x.m, x.cls, x.fault) /\ ~MayWriteImpl(x.m, x.cls, x.fault))

-------------------------------------------------------------------------------
(* C51 GetNodes.  Ring nodes are <<id, chord address>>; address 1 is the asked node itself; virtual
   nodes of one physical node share the address.  missing = addresses whose destination record
   (/destination/chord/<address>) is absent.  The answer is given as the sequence of addresses whose
   record's tunnel endpoint was returned. *)
GNNil  == <<0, 0>>
GNSelf == <<1, 1>>
GNSym  == {GNNil, <<2, 1>>, <<3, 2>>, <<4, 2>>, <<5, 3>>, <<6, 4>>}
GNAddrs == 1..4

(* chord.MakeSuccListByAddress(s.Chord, successors, tun.NumRedundantLinks) *)
RECURSIVE GNLoop(_, _, _, _)
GNLoop(list, acc, seen, maxLen) ==
  IF list = <<>> THEN acc
  ELSE IF Len(acc) >= maxLen THEN acc
  ELSE LET s == Head(list) IN
       IF s = GNNil \/ s[2] \in seen THEN GNLoop(Tail(list), acc, seen, maxLen)
       ELSE GNLoop(Tail(list), Append(acc, s), seen \cup {s[2]}, maxLen)
GNImpl(x) ==
  LET l == GNLoop(x.succ, <<GNSelf>>, {GNSelf[2]}, 3) IN
  IF \E i \in 1..Len(l) : l[i][2] \in x.missing THEN [ok |-> FALSE, nodes |-> <<>>]
  ELSE [ok |-> TRUE, nodes |-> [i \in 1..Len(l) |-> l[i][2]]]

(* the statement: the physical nodes in ring order starting with the node itself *)
RECURSIVE FirstOcc(_, _, _)
FirstOcc(list, acc, seen) ==
  IF list = <<>> THEN acc
  ELSE IF Head(list) = GNNil \/ Head(list)[2] \in seen THEN FirstOcc(Tail(list), acc, seen)
  ELSE FirstOcc(Tail(list), Append(acc, Head(list)[2]), seen \cup {Head(list)[2]})
GNWant(x) == LET phys == FirstOcc(<<GNSelf>> \o x.succ, <<>>, {}) IN SubSeq(phys, 1, Min(3, Len(phys)))
GNDecl(x, out) ==
  LET want == GNWant(x) IN
  IF \E i \in 1..Len(want) : want[i] \in x.missing THEN ~out.ok
  ELSE /\ out.ok
       /\ Len(out.nodes) = Len(want) /\ Len(out.nodes) <= 3
       /\ out.nodes[1] = GNSelf[2]
       /\ ToSet(out.nodes) = ToSet(want)            \* hence pairwise distinct physical nodes
GNCases == [succ : SeqsUpTo(GNSym, MaxSucc), missing : SUBSET GNAddrs]
GNExpected(x) == LET want == GNWant(x) IN
  [ok |-> ~(\E i \in 1..Len(want) : want[i] \in x.missing), nodes |-> want]

-------------------------------------------------------------------------------
(* C26 publish / unpublish / release.
   Clients A and B are registered.  Hostnames: g1, g2 are handed out by GenerateHostname (in this
   order; a released one never comes back), x1 is a custom hostname bound by AcmeValidate.
   Requested servers are symbols with a tunnel address; n3 and n3b share an address (two identities
   claiming the same endpoint), a5 has no destination record.  "hold" / "unhold" is the environment
   taking the client's lease (another server working for the same client). *)
Clients == {"A", "B"}
GenNames == <<"g1", "g2">>
CustomNames == {"x1"}
Hosts == ToSet(GenNames) \cup CustomNames
HoldClients == {"A"}
AddrOf == [n1 |-> "a1", n2 |-> "a2", n3 |-> "a3", n3b |-> "a3", n4 |-> "a4", n5 |-> "a5"]
HasRecord(a) == a # "a5"
NoRoute == [client |-> "none", server |-> "none"]
MutOps == {"publish", "unpublish", "release"}

Lists ==
  IF Menu = "small" THEN
    { <<>>, <<"n1">>, <<"n2", "n1">>, <<"n3", "n3b">>, <<"n1", "n2", "n3">>, <<"n1", "n2", "n3", "n4">>,
      <<"n1", "n5">>, <<"n3b", "n2", "n1", "n3">> }
  ELSE
    { <<>>, <<"n1">>, <<"n2">>, <<"n1", "n1">>, <<"n2", "n1">>, <<"n3", "n3b">>, <<"n3b", "n1">>,
      <<"n1", "n2", "n3">>, <<"n3", "n2", "n1">>, <<"n1", "n2", "n3", "n3b">>, <<"n1", "n2", "n3", "n4">>,
      <<"n5">>, <<"n1", "n5">>, <<"n4", "n3b", "n2">>, <<"n3b", "n2", "n1", "n3">>, <<"n4", "n4", "n4", "n4">> }

(* uniqueNodes: first occurrence of every address *)
RECURSIVE DedupLoop(_, _, _)
DedupLoop(l, acc, seen) ==
  IF l = <<>> THEN acc
  ELSE LET a == AddrOf[Head(l)] IN
       IF a \in seen THEN DedupLoop(Tail(l), acc, seen)
       ELSE DedupLoop(Tail(l), Append(acc, a), seen \cup {a})
Dedup(l) == DedupLoop(l, <<>>, {})

InitSt == [hostnames |-> [c \in Clients |-> {}],
           routes    |-> [h \in Hosts |-> [i \in 1..3 |-> NoRoute]],
           extra     |-> [h \in Hosts |-> 0],        \* routes stored beyond slot 3 (never, in the model)
           custom    |-> [h \in Hosts |-> "none"],
           held      |-> [c \in Clients |-> FALSE],
           used      |-> 0]

Call(op, c, h, l) == [op |-> op, c |-> c, h |-> h, servers |-> l]

(* how states are printed (and how the driver prints the projected DHT content):
   h hostnames per client, r routes per hostname as <<client, server>> x 3, x extra slots, c custom binding,
   l lease held, u generated names used *)
Compact(s) == [h |-> s.hostnames,
               r |-> [n \in Hosts |-> [i \in 1..3 |-> <<s.routes[n][i].client, s.routes[n][i].server>>]],
               x |-> s.extra, c |-> s.custom, l |-> s.held, u |-> s.used]

(* ---- the handlers, transcribed; each returns [out, st] ---- *)
GenerateF(s, c, h) ==          \* PrefixAppend(hostnames(token), fresh name); no lease
  [out |-> "ok", st |-> [s EXCEPT !.hostnames[c] = @ \cup {h}, !.used = @ + 1]]

ValidateF(s, c, h) ==          \* checkAcme + (DNS answer is right in this world) + save + PrefixAppend
  IF s.custom[h] \notin {"none", c} THEN [out |-> "invalid", st |-> s]
  ELSE [out |-> "ok", st |-> [s EXCEPT !.custom[h] = c, !.hostnames[c] = @ \cup {h}]]

PublishF(s, c, h, l) ==
  LET d == Dedup(l) IN
  IF Len(d) > 3 THEN [out |-> "invalid", st |-> s]
  ELSE IF Len(d) < 1 THEN [out |-> "invalid", st |-> s]
  ELSE IF s.held[c] THEN [out |-> "lease", st |-> s]
  ELSE IF h \notin s.hostnames[c] THEN [out |-> "denied", st |-> s]
  ELSE IF \E i \in 1..Len(d) : ~HasRecord(d[i]) THEN [out |-> "nodest", st |-> s]
  ELSE [out |-> "ok",
        st |-> [s EXCEPT !.routes[h] = [i \in 1..3 |-> IF i <= Len(d) THEN [client |-> c, server |-> d[i]] ELSE @[i]]]]

UnadvertiseOut(s, c, h) ==
  IF s.held[c] THEN "lease" ELSE IF h \notin s.hostnames[c] THEN "denied" ELSE "ok"

UnpublishF(s, c, h) ==
  LET o == UnadvertiseOut(s, c, h) IN
  IF o # "ok" THEN [out |-> o, st |-> s]
  ELSE [out |-> "ok", st |-> [s EXCEPT !.routes[h] = [i \in 1..3 |-> NoRoute]]]

ReleaseF(s, c, h) ==
  LET o == UnadvertiseOut(s, c, h) IN
  IF o # "ok" THEN [out |-> o, st |-> s]
  ELSE [out |-> "ok", st |-> [s EXCEPT !.routes[h] = [i \in 1..3 |-> NoRoute],
                                       !.hostnames[c] = @ \ {h},
                                       !.custom[h] = "none"]]

Apply(s, call) ==
  CASE call.op = "generate"  -> GenerateF(s, call.c, call.h)
    [] call.op = "validate"  -> ValidateF(s, call.c, call.h)
    [] call.op = "publish"   -> PublishF(s, call.c, call.h, call.servers)
    [] call.op = "unpublish" -> UnpublishF(s, call.c, call.h)
    [] call.op = "release"   -> ReleaseF(s, call.c, call.h)
    [] call.op = "hold"      -> [out |-> "ok", st |-> [s EXCEPT !.held[call.c] = TRUE]]
    [] call.op = "unhold"    -> [out |-> "ok", st |-> [s EXCEPT !.held[call.c] = FALSE]]

Calls(s) ==
  (IF s.used < Len(GenNames) THEN {Call("generate", c, GenNames[s.used + 1], <<>>) : c \in Clients} ELSE {})
  \cup {Call("validate", c, h, <<>>) : c \in Clients, h \in CustomNames}
  \cup {Call("publish", c, h, l) : c \in Clients, h \in Hosts, l \in Lists}
  \cup {Call(op, c, h, <<>>) : op \in {"unpublish", "release"}, c \in Clients, h \in Hosts}
  \cup {Call("hold", c, "-", <<>>) : c \in {x \in HoldClients : ~s.held[x]}}
  \cup {Call("unhold", c, "-", <<>>) : c \in {x \in HoldClients : s.held[x]}}

(* simulation: leave out requests that concern a hostname nobody has (they stay in the BFS family) *)
SimCalls(s) == {k \in Calls(s) : k.op \notin MutOps \/ \E c \in Clients : k.h \in s.hostnames[c]}

(* ---- the statement, over an arbitrary step pre --call/ok--> post ---- *)
OnlyOwner(pre, call, ok) ==
  (call.op \in MutOps /\ ok) => call.h \in pre.hostnames[call.c]

PublishStores(pre, call, ok, post) ==
  (call.op = "publish" /\ ok) =>
    LET d == Dedup(call.servers)
        k == Min(Len(d), 3)
        r == post.routes[call.h] IN
    /\ k >= 1
    /\ \A i \in 1..k : r[i].client = call.c /\ r[i].server \in ToSet(d)
    /\ \A i, j \in 1..k : i # j => r[i].server # r[j].server
    /\ post.extra[call.h] = 0                       \* nothing beyond the three slots
    (* slots k+1..3: what an earlier publish left there is not judged (DESIGN 4.0) - it may stay or be
       cleared - but this publish stores routes for the k distinct servers only *)
    /\ \A i \in (k+1)..3 : r[i] = pre.routes[call.h][i] \/ r[i] = NoRoute

ReleaseRemoves(call, ok, post) ==
  (call.op = "release" /\ ok) =>
    /\ \A i \in 1..3 : post.routes[call.h][i] = NoRoute
    /\ post.extra[call.h] = 0
    /\ call.h \notin post.hostnames[call.c]
    /\ post.custom[call.h] = "none"

(* "clients can only publish or remove hostnames they own": whatever the outcome, a request leaves
   alone every hostname that was not registered to the caller (generate / validate excepted for
   the hostname they create) *)
NoForeignEffect(pre, call, post) ==
  \A h \in Hosts :
    (h \notin pre.hostnames[call.c] /\ ~(call.op \in {"generate", "validate"} /\ call.h = h)) =>
      /\ post.routes[h] = pre.routes[h]
      /\ post.extra[h] = pre.extra[h]
      /\ post.custom[h] = pre.custom[h]
      /\ \A c \in Clients : (h \in post.hostnames[c]) = (h \in pre.hostnames[c])

StepVerdict(pre, call, ok, post) ==
  [onlyOwner |-> OnlyOwner(pre, call, ok),
   stores    |-> PublishStores(pre, call, ok, post),
   releases  |-> ReleaseRemoves(call, ok, post),
   foreign   |-> NoForeignEffect(pre, call, post)]
StepOK(pre, call, ok, post) ==
  LET v == StepVerdict(pre, call, ok, post) IN v.onlyOwner /\ v.stores /\ v.releases /\ v.foreign

-------------------------------------------------------------------------------
(* recorded steps of the real server.  obs_tunctl_states.ndjson: the distinct projections of the DHT content the
   driver printed, in the Compact layout (sets as lists; without l and u); obs_tunctl.ndjson: the distinct steps
   {"pre": index, "call": .., "ok": bool, "post": index} *)
ObsStates == IF Family \in {"publish_obs", "race_obs"} THEN ndJsonDeserialize("obs_tunctl_states.ndjson") ELSE <<>>
ObsRecs   == IF Family = "publish_obs" THEN ndJsonDeserialize("obs_tunctl.ndjson") ELSE <<>>
ObsView(o) == [hostnames |-> [c \in Clients |-> ToSet(o.h[c])],
               routes |-> [n \in Hosts |-> [i \in 1..3 |-> [client |-> o.r[n][i][1], server |-> o.r[n][i][2]]]],
               extra |-> o.x, custom |-> o.c]
ObsViews == [i \in 1..Len(ObsStates) |-> ObsView(ObsStates[i])]

(* racing requests (drv/tunctl race; the operations themselves are validated against TunnelRace): two requests a, b ran at
   the same time from the projected content pre and left post.  The statement is read per request: the outcome must be
   that of a before b or of b before a, every step of the chain satisfying the predicates above.  obs_race.ndjson:
   {"pre": index, "post": index, "a": call, "aok": bool, "b": call, "bok": bool}.  The content between the two requests
   was not observed: candidates are pre, post, what the transcribed handler makes of pre, and those with the routes of the
   hostname taken from post / cleared. *)
RaceRecs == IF Family = "race_obs" THEN ndJsonDeserialize("obs_race.ndjson") ELSE <<>>
FullSt(v) == [hostnames |-> v.hostnames, routes |-> v.routes, extra |-> v.extra, custom |-> v.custom,
              held |-> [c \in Clients |-> FALSE], used |-> 0]
ViewOf(sf) == [hostnames |-> sf.hostnames, routes |-> sf.routes, extra |-> sf.extra, custom |-> sf.custom]
MidCands(pre, post, first) ==
  LET m == ViewOf(Apply(FullSt(pre), first).st)
      h == first.h IN
  {pre, post, m, [pre EXCEPT !.routes[h] = post.routes[h]], [pre EXCEPT !.routes[h] = [i \in 1..3 |-> NoRoute]],
   [m EXCEPT !.routes[h] = post.routes[h]]}
Chain(pre, x, xok, y, yok, post) ==
  \E mid \in MidCands(pre, post, x) : StepOK(pre, x, xok, mid) /\ StepOK(mid, y, yok, post)
RaceVerdict(r) ==
  LET pre == ObsViews[r.pre]  post == ObsViews[r.post] IN
  [ab |-> Chain(pre, r.a, r.aok, r.b, r.bok, post), ba |-> Chain(pre, r.b, r.bok, r.a, r.aok, post)]

-------------------------------------------------------------------------------
VARIABLES c,      \* case tables: the case; publish families: unused ("-")
          done,   \* case tables: emitted
          st,     \* publish families: the state record
          hist    \* publish_sim: the behaviour so far
vars == <<c, done, st, hist>>

IsTable == Family \in {"gating", "getnodes", "publish_obs", "race_obs"}

Cases == CASE Family = "gating"      -> GatingCases
           [] Family = "getnodes"    -> GNCases
           [] Family = "publish_obs" -> 1..Len(ObsRecs)
           [] Family = "race_obs"    -> 1..Len(RaceRecs)
           [] OTHER                  -> {"-"}

Expected(x) ==
  CASE Family = "gating"      -> GatingExpected(x)
    [] Family = "getnodes"    -> GNExpected(x)
    [] Family = "publish_obs" -> LET r == ObsRecs[x] IN StepVerdict(ObsViews[r.pre], r.call, r.ok, ObsViews[r.post])
    [] Family = "race_obs"    -> RaceVerdict(RaceRecs[x])

Init == /\ c \in Cases
        /\ done = FALSE
        /\ st = InitSt
        /\ hist = <<>>

TableNext == /\ IsTable /\ done = FALSE /\ done' = TRUE
             /\ UNCHANGED <<c, st, hist>>
             /\ Emit([c |-> c, e |-> Expected(c)])

GraphNext == /\ Family = "publish" /\ TLCGet("level") <= MaxLevel
             /\ \E k \in Calls(st) :
                  LET r == Apply(st, k) IN
                  /\ st' = r.st
                  /\ Emit([lvl |-> TLCGet("level"), from |-> Compact(st), call |-> k, out |-> r.out,
                           to |-> IF r.st = st THEN <<>> ELSE Compact(r.st)])
             /\ UNCHANGED <<c, done, hist>>

SimNext == /\ Family = "publish_sim"
           /\ \/ /\ Len(hist) < SimDepth
                 /\ \E k \in SimCalls(st) :
                      LET r == Apply(st, k) IN
                      /\ st' = r.st
                      /\ hist' = Append(hist, [call |-> k, out |-> r.out, to |-> Compact(r.st)])
                 /\ UNCHANGED <<c, done>>
              \/ /\ Len(hist) = SimDepth /\ done = FALSE      \* the only successor: printed once per behaviour
                 /\ done' = TRUE
                 /\ Emit([walk |-> hist])
                 /\ UNCHANGED <<c, st, hist>>

Next == TableNext \/ GraphNext \/ SimNext
Spec == Init /\ [][Next]_vars

(* ---- theorems (INVARIANTs) ---- *)
ImplMeetsDecl ==
  CASE Family = "gating"   -> GatingHolds(c)
    [] Family = "getnodes" -> GNDecl(c, GNImpl(c))
    [] OTHER -> TRUE

(* every transition of the model satisfies the statement (checked on the successor relation) *)
ModelStepOK ==
  Family \in {"publish", "publish_sim"} =>
    \A k \in Calls(st) : LET r == Apply(st, k) IN StepOK(st, k, r.out = "ok", r.st)

(* consistency of the table itself *)
TypeOK ==
  Family \in {"publish", "publish_sim"} =>
    /\ \A h \in Hosts : st.custom[h] # "none" => h \in st.hostnames[st.custom[h]]
    /\ \A h \in Hosts : Cardinality({x \in Clients : h \in st.hostnames[x]}) <= 1
    /\ \A h \in Hosts, i \in 1..3 : st.routes[h][i] # NoRoute => HasRecord(st.routes[h][i].server)
===============================================================================
