SPECIFICATION Spec
CONSTANTS
  Family = "cases"
  Latest = 1
  MaxUV = 2
  Fixed = TRUE
INVARIANT ImplMeetsDecl RefusalNeverWrites WellFormedOpen
CHECK_DEADLOCK FALSE
