SPECIFICATION Spec
CONSTANTS
  Family = "hist"
  MaxHist = 3
  Skew = 60000
  Floor = 1000
  Extra = {}
INVARIANT ImplMeetsDecl DeclImpliesSticky
CHECK_DEADLOCK FALSE
