SPECIFICATION Spec2
CONSTANTS
  Keys <- CKeys
  HashOf <- CHash
  H = 3
  Vals = {"v1", "v2"}
  Kids = {"c1", "c2"}
  Family = "contract"
  TTLs = {2}
  LeaseKeys = {}
  MaxNow = 0
INVARIANT ModelConsistent
CHECK_DEADLOCK FALSE
