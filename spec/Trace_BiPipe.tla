---------------------------- MODULE Trace_BiPipe ----------------------------
(* C40, backward conformance: runs of the real tun.Pipe over instrumented streams (drv/pipes, mode bipipe) are judged
   by the monitor of BiPipeRules, the same one BiPipe.tla is model-checked against.  obs_bipipe.ndjson (written by
   checks/c40.py) has one record per run:  {ev: [ {k, s, d, e}, ... ]}  in the real-time order of one atomic log.
   Every run is one case; the verdict on each clause of the property is emitted. *)
EXTENDS Integers, Sequences, TLC, Json, BiPipeRules

Runs == ndJsonDeserialize("obs_bipipe.ndjson")
Emit(r) == PrintT("@@" \o ToJson(r))

VARIABLES c, done
vars == <<c, done>>
Init == c \in 1..Len(Runs) /\ done = FALSE
Next == ~done /\ done' = TRUE /\ c' = c /\ Emit([c |-> c, e |-> Verdict(Fold(Runs[c].ev))])
Spec == Init /\ [][Next]_vars
TypeOK == c >= 1
=============================================================================
