\* C39 liveness on a small instance: once an end is closed no call stays blocked (woken goroutines scheduled fairly)
SPECIFICATION FairSpec
CONSTANTS
  Caps = {1, 2}
  Data <- Data3
  MaxReadLen = 2
  MaxReads = 3
  Deadlines = FALSE
  TimerRace = FALSE
  Variant = "code"
INVARIANTS OutcomesOK NoLostWakeup
PROPERTY ReleasedByClose
CHECK_DEADLOCK FALSE
