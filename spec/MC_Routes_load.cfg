SPECIFICATION Spec
CONSTANTS
  Family = "load"
  MaxRoutes = 0
  Fixed = FALSE
INVARIANT ImplMeetsDecl DivergenceIsExact SortIsLocalFirst
CHECK_DEADLOCK FALSE
