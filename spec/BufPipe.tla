------------------------------- MODULE BufPipe -------------------------------
(* One direction of util/bufconn/bufconn.go (type pipe), transcribed:
     ring buffer  buf/len(buf)/r/w  with  empty() = (r == len(buf)),  full() = (r < len(buf) && r == w),
     Write = chunk loop that waits on wwait while full, Read waits on rwait while empty,
     Close (the reader's conn.Close -> pipe.Close), closeWrite (the writer's conn.Close -> pipe.closeWrite),
     SetReadDeadline / SetWriteDeadline and their timer functions.
   The mutex makes every stretch of Read/Write between two Cond.Wait calls atomic, so one TLA+ step is one such
   stretch.  Condition variables are sets of parked goroutines: Wait adds the caller, Signal removes one member,
   Broadcast removes all; a parked goroutine continues (re-evaluates its loop) only after it has been removed.
   The abstract pipe state `abs` (PipeRules) is carried as a ghost: every push, every Read result and every Write
   result of the transcribed code is checked against the rules at the step where it happens (ok stays TRUE).
   Properties (INVARIANTS): OutcomesOK, Refines (ring contents = abstract FIFO), Fifo, NoLostWakeup, BlockedLegit;
   temporal (small cfg): ReleasedByClose.
   Variant: "code" = as written; the others are deliberately broken twins used to show the invariants are not
   vacuous ("lostwake": Read does not signal the writer; "noeofsignal": closeWrite does not wake readers;
   "wrap": the reader's wrap-around test is off by one).
   TimerRace = TRUE splits a timer firing into "timer popped" and "timer function got the mutex": Stop() in
   SetReadDeadline cannot cancel a popped timer, so a stale timeout can be delivered after the deadline was
   cleared (a lead that is reported, not judged: see checks/c39.py). *)
EXTENDS Integers, Sequences, FiniteSets, TLC, PipeRules

CONSTANTS Caps,        \* set of ring capacities explored (1..3)
          Data,        \* the bytes the writer hands to Write, in order, e.g. <<1,2,3,4>>
          MaxReadLen,  \* a Read asks for 1..MaxReadLen bytes
          MaxReads,    \* number of Read calls
          Deadlines,   \* BOOLEAN: SetRead/WriteDeadline and timer firings are part of the model
          TimerRace,   \* BOOLEAN: see above
          Variant

Min(x, y) == IF x < y THEN x ELSE y
Data3 == <<1, 2, 3>>            \* values for Data in the .cfg files (tuples cannot be written there)
Data4 == <<1, 2, 3, 4>>
Data5 == <<1, 2, 3, 4, 5>>

VARIABLES cap,    \* capacity of this run
          p,      \* the pipe struct: buf, blen = len(buf), r, w, closed, wclosed, rto, wto
          rwait, wwait,   \* goroutines parked on p.rwait / p.wwait
          wst,    \* writer goroutine: pc ("idle" | "wait"), b = rest of the current Write, len, pushed, todo
          rst,    \* reader goroutine: pc ("idle" | "wait"), want, calls
          dl,     \* timers: rarmed/warmed (AfterFunc pending), rfiring/wfiring (popped, waiting for the mutex), budgets
          abs, ok, sent, got, res   \* ghosts: abstract pipe, outcome verdict, bytes accepted, bytes read, last results
vars == <<cap, p, rwait, wwait, wst, rst, dl, abs, ok, sent, got, res>>

Empty(pp) == pp.r = pp.blen
Full(pp) == pp.r < pp.blen /\ pp.r = pp.w

Slice(pp, lo, hi) == [i \in 1..(hi - lo) |-> pp.buf[lo + i - 1]]       \* buf[lo:hi]
RingSeq(pp) ==
  IF Empty(pp) THEN <<>>
  ELSE IF pp.r < pp.w THEN Slice(pp, pp.r, pp.w)
  ELSE Slice(pp, pp.r, pp.blen) \o Slice(pp, 0, pp.w)

-------------------------------------------------------------------------------
(* func (p *pipe) Write: the loop from its top until it returns or calls wwait.Wait() *)
RECURSIVE WLoop(_, _, _, _, _)
WLoop(c, pp, b, pushed, sig) ==
  LET out(rs) == [p |-> pp, b |-> b, pushed |-> pushed, sig |-> sig, res |-> rs] IN
  IF b = <<>> THEN out("ok")
  ELSE IF pp.closed \/ pp.wclosed THEN out("closed")
  ELSE IF ~Full(pp) THEN
    LET wasEmpty == Empty(pp)
        end == IF pp.w < pp.r THEN pp.r ELSE c
        x == Min(end - pp.w, Len(b))
        nb == [i \in 0..c-1 |-> IF i >= pp.w /\ i < pp.w + x THEN b[i - pp.w + 1] ELSE pp.buf[i]]
        w1 == pp.w + x
        bl == IF w1 > pp.blen THEN w1 ELSE pp.blen
        w2 == IF w1 = c THEN 0 ELSE w1
    IN WLoop(c, [pp EXCEPT !.buf = nb, !.blen = bl, !.w = w2], SubSeq(b, x + 1, Len(b)), pushed \o SubSeq(b, 1, x),
             sig \/ wasEmpty)
  ELSE IF pp.wto THEN out("timeout")
  ELSE out("wait")

(* func (p *pipe) Read: one pass of its loop *)
RLoop(c, pp, want) ==
  IF pp.closed THEN [p |-> pp, d |-> <<>>, sig |-> FALSE, res |-> "closed"]
  ELSE IF ~Empty(pp) THEN
    LET wasFull == Full(pp)
        n == Min(want, pp.blen - pp.r)
        d == Slice(pp, pp.r, pp.r + n)
        r1 == pp.r + n
        wrapAt == IF Variant = "wrap" THEN c - 1 ELSE c
        p2 == IF r1 = wrapAt THEN [pp EXCEPT !.r = 0, !.blen = pp.w] ELSE [pp EXCEPT !.r = r1]
    IN [p |-> p2, d |-> d, sig |-> wasFull /\ Variant # "lostwake", res |-> "ok"]
  ELSE IF pp.wclosed THEN [p |-> pp, d |-> <<>>, sig |-> FALSE, res |-> "eof"]
  ELSE IF pp.rto THEN [p |-> pp, d |-> <<>>, sig |-> FALSE, res |-> "timeout"]
  ELSE [p |-> pp, d |-> <<>>, sig |-> FALSE, res |-> "wait"]

Signal(S) == IF S = {} THEN {S} ELSE {S \ {g} : g \in S}      \* the possible sets after Cond.Signal

-------------------------------------------------------------------------------
Init ==
  /\ cap \in Caps
  /\ p = [buf |-> [i \in 0..cap-1 |-> 0], blen |-> 0, r |-> 0, w |-> 0,
          closed |-> FALSE, wclosed |-> FALSE, rto |-> FALSE, wto |-> FALSE]
  /\ rwait = {} /\ wwait = {}
  /\ wst = [pc |-> "idle", b |-> <<>>, len |-> 0, pushed |-> 0, todo |-> Data]
  /\ rst = [pc |-> "idle", want |-> 0, calls |-> 0]
  /\ dl = [rarmed |-> FALSE, warmed |-> FALSE, rfiring |-> 0, wfiring |-> 0, rset |-> 0, wset |-> 0, rclr |-> 0, wclr |-> 0]
  /\ abs = AbsInit /\ ok = TRUE /\ sent = <<>> /\ got = <<>>
  /\ res = [r |-> "none", w |-> "none"]

(* the writer runs its loop (first entry of a call, or continuation after a wake-up) *)
WRun(b0, len0, pushed0, todo1) ==
  LET o == WLoop(cap, p, b0, <<>>, FALSE)
      a1 == [abs EXCEPT !.q = abs.q \o o.pushed]
      np == pushed0 + Len(o.pushed) IN
  /\ p' = o.p
  /\ abs' = a1
  /\ sent' = sent \o o.pushed
  /\ \E S \in (IF o.sig THEN Signal(rwait) ELSE {rwait}) : rwait' = S
  /\ IF o.res = "wait"
       THEN /\ wst' = [pc |-> "wait", b |-> o.b, len |-> len0, pushed |-> np, todo |-> todo1]
            /\ wwait' = wwait \cup {"W"}
            /\ ok' = (ok /\ (o.pushed = <<>> \/ PushAllowed(abs)))
            /\ res' = res
       ELSE /\ wst' = [pc |-> "idle", b |-> <<>>, len |-> 0, pushed |-> 0, todo |-> todo1]
            /\ wwait' = wwait
            /\ ok' = (ok /\ (o.pushed = <<>> \/ PushAllowed(abs)) /\ WriteEndAllowed(a1, o.res, len0, np))
            /\ res' = [res EXCEPT !.w = o.res]
  /\ UNCHANGED <<cap, rst, dl, got>>

WCall == /\ wst.pc = "idle" /\ wst.todo # <<>>
         /\ \E k \in 1..Len(wst.todo) :
              WRun(SubSeq(wst.todo, 1, k), k, 0, SubSeq(wst.todo, k + 1, Len(wst.todo)))
WWake == /\ wst.pc = "wait" /\ "W" \notin wwait
         /\ WRun(wst.b, wst.len, wst.pushed, wst.todo)

RRun(want, calls1) ==
  LET o == RLoop(cap, p, want) IN
  /\ p' = o.p
  /\ \E S \in (IF o.sig THEN Signal(wwait) ELSE {wwait}) : wwait' = S
  /\ IF o.res = "wait"
       THEN /\ rst' = [pc |-> "wait", want |-> want, calls |-> calls1]
            /\ rwait' = rwait \cup {"R"}
            /\ UNCHANGED <<abs, ok, got, res>>
       ELSE /\ rst' = [pc |-> "idle", want |-> 0, calls |-> calls1]
            /\ rwait' = rwait
            /\ ok' = (ok /\ ReadAllowed(abs, want, o.res, o.d))
            /\ abs' = AfterRead(abs, o.d)
            /\ got' = got \o o.d
            /\ res' = [res EXCEPT !.r = o.res]
  /\ UNCHANGED <<cap, wst, dl, sent>>

RCall == /\ rst.pc = "idle" /\ rst.calls < MaxReads
         /\ \E n \in 1..MaxReadLen : RRun(n, rst.calls + 1)
RWake == /\ rst.pc = "wait" /\ "R" \notin rwait
         /\ RRun(rst.want, rst.calls)

(* conn.Close of the writer's end: pipe.closeWrite;  of the reader's end: pipe.Close *)
CloseW == /\ ~p.wclosed
          /\ p' = [p EXCEPT !.wclosed = TRUE]
          /\ rwait' = (IF Variant = "noeofsignal" THEN rwait ELSE {}) /\ wwait' = {}
          /\ abs' = [abs EXCEPT !.wc = TRUE]
          /\ UNCHANGED <<cap, wst, rst, dl, ok, sent, got, res>>
CloseR == /\ ~p.closed
          /\ p' = [p EXCEPT !.closed = TRUE]
          /\ rwait' = {} /\ wwait' = {}
          /\ abs' = [abs EXCEPT !.rc = TRUE]
          /\ UNCHANGED <<cap, wst, rst, dl, ok, sent, got, res>>

(* SetReadDeadline(t), t # 0: rtimer.Stop(); rtimedout = false; rtimer = AfterFunc(...).   t = 0: no new timer. *)
SetRD == /\ Deadlines /\ dl.rset < 1
         /\ p' = [p EXCEPT !.rto = FALSE]
         /\ dl' = [dl EXCEPT !.rarmed = TRUE, !.rset = @ + 1]
         /\ abs' = [abs EXCEPT !.rdl = TRUE]
         /\ UNCHANGED <<cap, rwait, wwait, wst, rst, ok, sent, got, res>>
ClrRD == /\ Deadlines /\ dl.rclr < 1 /\ dl.rset > 0
         /\ p' = [p EXCEPT !.rto = FALSE]
         /\ dl' = [dl EXCEPT !.rarmed = FALSE, !.rclr = @ + 1]
         /\ abs' = [abs EXCEPT !.rdl = FALSE]
         /\ UNCHANGED <<cap, rwait, wwait, wst, rst, ok, sent, got, res>>
RTimerRun == /\ p' = [p EXCEPT !.rto = TRUE] /\ rwait' = {}       \* the AfterFunc body
PopRD == /\ dl.rarmed /\ TimerRace
         /\ dl' = [dl EXCEPT !.rarmed = FALSE, !.rfiring = @ + 1]
         /\ UNCHANGED <<cap, p, rwait, wwait, wst, rst, abs, ok, sent, got, res>>
FireRD == /\ IF TimerRace THEN dl.rfiring > 0 /\ dl' = [dl EXCEPT !.rfiring = @ - 1]
                          ELSE dl.rarmed /\ dl' = [dl EXCEPT !.rarmed = FALSE]
          /\ RTimerRun
          /\ UNCHANGED <<cap, wwait, wst, rst, abs, ok, sent, got, res>>

SetWD == /\ Deadlines /\ dl.wset < 1
         /\ p' = [p EXCEPT !.wto = FALSE]
         /\ dl' = [dl EXCEPT !.warmed = TRUE, !.wset = @ + 1]
         /\ abs' = [abs EXCEPT !.wdl = TRUE]
         /\ UNCHANGED <<cap, rwait, wwait, wst, rst, ok, sent, got, res>>
ClrWD == /\ Deadlines /\ dl.wclr < 1 /\ dl.wset > 0
         /\ p' = [p EXCEPT !.wto = FALSE]
         /\ dl' = [dl EXCEPT !.warmed = FALSE, !.wclr = @ + 1]
         /\ abs' = [abs EXCEPT !.wdl = FALSE]
         /\ UNCHANGED <<cap, rwait, wwait, wst, rst, ok, sent, got, res>>
PopWD == /\ dl.warmed /\ TimerRace
         /\ dl' = [dl EXCEPT !.warmed = FALSE, !.wfiring = @ + 1]
         /\ UNCHANGED <<cap, p, rwait, wwait, wst, rst, abs, ok, sent, got, res>>
FireWD == /\ IF TimerRace THEN dl.wfiring > 0 /\ dl' = [dl EXCEPT !.wfiring = @ - 1]
                          ELSE dl.warmed /\ dl' = [dl EXCEPT !.warmed = FALSE]
          /\ p' = [p EXCEPT !.wto = TRUE] /\ wwait' = {}
          /\ UNCHANGED <<cap, rwait, wst, rst, abs, ok, sent, got, res>>

Next == WCall \/ WWake \/ RCall \/ RWake \/ CloseW \/ CloseR
        \/ SetRD \/ ClrRD \/ PopRD \/ FireRD \/ SetWD \/ ClrWD \/ PopWD \/ FireWD

Spec == Init /\ [][Next]_vars
FairSpec == Spec /\ WF_vars(RWake) /\ WF_vars(WWake)

-------------------------------------------------------------------------------
(* every result the code produced was allowed by the byte-stream rules at the step it was produced *)
OutcomesOK == ok
(* the ring buffer holds exactly the accepted, unread bytes, in order; the flags agree *)
Refines == /\ abs.q = RingSeq(p) /\ abs.wc = p.wclosed /\ abs.rc = p.closed
           /\ Len(abs.q) <= cap /\ p.r >= 0 /\ p.r <= p.blen /\ p.blen <= cap /\ p.w >= 0 /\ p.w < cap
(* bytes read so far + bytes in flight = bytes accepted so far, and what was accepted is what was handed over, in order
   (with the explored writer no write is retried after a failure, so `sent` is a subsequence made of call prefixes) *)
Fifo == got \o abs.q = sent
(* a parked goroutine is parked only while its wait condition still holds: no lost wake-up, closes and expired
   deadlines release every waiter *)
NoLostWakeup ==
  /\ "R" \in rwait => rst.pc = "wait" /\ Empty(p) /\ ~p.closed /\ ~p.wclosed /\ ~p.rto
  /\ "W" \in wwait => wst.pc = "wait" /\ Full(p) /\ ~p.closed /\ ~p.wclosed /\ ~p.wto
(* the same, in terms of the abstract rules used to judge recorded histories *)
BlockedLegit ==
  /\ "R" \in rwait => ReadBlockedLegit(abs, p.rto)
  /\ "W" \in wwait => WriteBlockedLegit(abs, cap, p.wto)
(* end of stream was reported only after everything accepted had been read *)
EofAfterDrain == res.r = "eof" => got = sent /\ p.wclosed
(* once an end has been closed no call stays blocked (under fair scheduling of the woken goroutines) *)
ReleasedByClose ==
  /\ [](p.closed \/ p.wclosed => <>(rst.pc # "wait"))
  /\ [](p.closed \/ p.wclosed => <>(wst.pc # "wait"))
=============================================================================
