--------------------------------- MODULE Retry ---------------------------------
(* C15.  The retrying KV wrapper of spec/chord/retry.go (WrapRetryKV over avast/retry-go).
   A case is (KV method, configured attempts A, scripted outcomes of the underlying calls 1..A+1).
   Impl transcribes the retry.DoWithData loop under the options the wrapper sets (Attempts, RetryIf(ErrorIsRetryable),
   LastErrorOnly(true)); Decl is the property as a predicate over an observed result
   [calls, res, at]: number of underlying calls, "ok" | "err", and which call's value / error came back.
   TLC proves Decl(Impl) for every case and emits, per case, the set of results Decl allows; drv/retrykv runs
   the real wrapper over a scripted stub node. *)
EXTENDS Integers, Sequences, FiniteSets, TLC, Json

CONSTANT MaxAttempts

Emit(r) == PrintT("@@" \o ToJson(r))

Outcomes == {"ok", "retryable", "fatal"}
ValueMethods == {"Get", "PrefixList", "Acquire", "Renew", "ListKeys"}      \* the result carries the number of the call that produced it
ErrOnlyMethods == {"Put", "Delete", "PrefixAppend", "PrefixContains", "PrefixRemove", "Release"}
Methods == ValueMethods \cup ErrOnlyMethods

Cases == UNION {[m : Methods, attempts : {a}, seq : [1..a+1 -> Outcomes]] : a \in 1..MaxAttempts}

-------------------------------------------------------------------------------
(* retry.DoWithData, config.attempts = A > 0, lastErrorOnly: n counts retries, call number n+1 *)
RECURSIVE Loop(_, _, _)
Loop(seq, A, n) ==
  LET o == seq[n+1] IN
  IF o = "ok" THEN [calls |-> n+1, res |-> "ok", at |-> n+1]                  \* return t, nil
  ELSE IF o # "retryable" THEN [calls |-> n+1, res |-> "err", at |-> n+1]      \* !retryIf(err): break; errorLog.Unwrap() = last
  ELSE IF n = A-1 THEN [calls |-> n+1, res |-> "err", at |-> n+1]              \* attempts used up
  ELSE Loop(seq, A, n+1)
Impl(x) == LET r == Loop(x.seq, x.attempts, 0) IN
           IF r.res = "ok" /\ x.m \notin ValueMethods THEN [r EXCEPT !.at = 0] ELSE r

(* the property *)
Decl(x, r) ==
  /\ r.calls \in 1..x.attempts                                      \* at most the configured number of attempts
  /\ \A k \in 1..r.calls-1 : x.seq[k] = "retryable"                 \* re-issued only after a retryable error
                                                                    \* (hence: a non-retryable error ends the call at once)
  /\ IF x.seq[r.calls] = "ok"
     THEN r.res = "ok" /\ (x.m \in ValueMethods => r.at = r.calls)  \* the first success (all earlier calls failed)
     ELSE r.res = "err" /\ r.at = r.calls                           \* the last error
Results(x) == [calls : 1..x.attempts+1, res : {"ok", "err"}, at : 0..x.attempts+1]
Allowed(x) == {r \in Results(x) : Decl(x, r)}

(* not demanded by the statement, recorded only: the wrapper does use its attempts *)
Stop(x) == IF \E k \in 1..x.attempts : x.seq[k] # "retryable"
           THEN CHOOSE k \in 1..x.attempts : x.seq[k] # "retryable" /\ \A j \in 1..k-1 : x.seq[j] = "retryable"
           ELSE x.attempts

VARIABLES c, done
vars == <<c, done>>
Init == c \in Cases /\ done = FALSE
Next == done = FALSE /\ done' = TRUE /\ c' = c /\ Emit([c |-> c, e |-> [allowed |-> Allowed(c), full |-> Stop(c)]])
Spec == Init /\ [][Next]_vars

ImplMeetsDecl == Decl(c, Impl(c))
ImplUsesAttempts == Impl(c).calls = Stop(c)
===============================================================================
