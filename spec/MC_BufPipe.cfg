\* C39 exhaustive: capacities 1..3, 4 bytes in every chunking, reads of 1..3 bytes, close of either end and
\* read/write deadlines (set, fire, clear) at any point
SPECIFICATION Spec
CONSTANTS
  Caps = {1, 2, 3}
  Data <- Data4
  MaxReadLen = 3
  MaxReads = 5
  Deadlines = TRUE
  TimerRace = FALSE
  Variant = "code"
INVARIANTS OutcomesOK Refines Fifo NoLostWakeup BlockedLegit EofAfterDrain
CHECK_DEADLOCK FALSE
