SPECIFICATION Spec
CONSTANTS
  MaxN = 3
  WaitAfterCancel = TRUE
  Family = "design"
  KeepLog = FALSE
INVARIANT ReturnAfterAll Aligned HistoryAccepted
CHECK_DEADLOCK FALSE
