SPECIFICATION Spec
CONSTANTS
  Family = "obs"
  Latest = 1
  MaxUV = 2
  Fixed = FALSE
CHECK_DEADLOCK FALSE
