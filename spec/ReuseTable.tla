------------------------------ MODULE ReuseTable ------------------------------
(* The cache-state decision table of overlay/reuse.go (reuseConnection), transcribed cell by cell.
   One end of a negotiation knows
     own : what it found in its cache under the read lock: "in" / "out" (direction of the cached
           entry) or "none",
     dir : its own direction on the connection being negotiated ("in" = accepted, "out" = dialed),
   sends  Status(own, dir)  to the peer, receives the peer's status <<ps, pd>> and decides under the
   write lock.  Outcome of a cell:
     "err"         return an "invalid state" error (an accepting end closes the new connection ~1 s later)
     "reuse"       return the cached connection, leave the new one alone
     "reuse-close" close the new connection (508) and return the cached one
     "recheck"     load the cache again under the write lock: something cached now => close the new
                   connection and return the cached one, else store the new connection and return it *)
EXTENDS Integers, Sequences, FiniteSets, TLC, Json

Emit(r) == PrintT("@@" \o ToJson(r))

States == {"CACHED", "FRESH"}
Dirs   == {"in", "out"}
Owns   == {"in", "out", "none"}
Opp(d) == IF d = "in" THEN "out" ELSE "in"

(* reuse.go:71-88 *)
Status(own, dir) == IF own # "none" THEN <<"CACHED", own>> ELSE <<"FRESH", dir>>

(* reuse.go:109-232, in the order of the source; the comments are the comments of the source *)
Cell(ps, pd, own, dir) ==
  CASE ps = "CACHED" /\ pd = "in"  /\ own = "in"                   -> "err"          \* other: cached incoming, us: cached incoming
    [] ps = "CACHED" /\ pd = "in"  /\ own = "out"                  -> "reuse-close"  \* other: cached incoming, us: cached outgoing
    [] ps = "CACHED" /\ pd = "in"  /\ own = "none" /\ dir = "in"   -> "err"          \* other: cached incoming, us: new incoming
    [] ps = "CACHED" /\ pd = "in"  /\ own = "none" /\ dir = "out"  -> "err"          \* other: cached incoming, us: new outgoing
    [] ps = "CACHED" /\ pd = "out" /\ own = "in"                   -> "reuse"        \* other: cached outgoing, us: cached incoming
    [] ps = "CACHED" /\ pd = "out" /\ own = "out"                  -> "err"          \* other: cached outgoing, us: cached outgoing
    [] ps = "CACHED" /\ pd = "out" /\ own = "none" /\ dir = "in"   -> "err"          \* other: cached outgoing, us: new incoming
    [] ps = "CACHED" /\ pd = "out" /\ own = "none" /\ dir = "out"  -> "err"          \* other: cached outgoing, us: new outgoing
    [] ps = "FRESH"  /\ pd = "in"  /\ own = "in"                   -> "err"          \* other: new incoming, us: cached incoming
    [] ps = "FRESH"  /\ pd = "in"  /\ own = "out"                  -> "err"          \* other: new incoming, us: cached outgoing
    [] ps = "FRESH"  /\ pd = "in"  /\ own = "none" /\ dir = "in"   -> "err"          \* other: new incoming, us: new incoming
    [] ps = "FRESH"  /\ pd = "in"  /\ own = "none" /\ dir = "out"  -> "recheck"      \* other: new incoming, us: new outgoing
    [] ps = "FRESH"  /\ pd = "out" /\ own = "in"                   -> "err"          \* other: new outgoing, us: cached incoming
    [] ps = "FRESH"  /\ pd = "out" /\ own = "out"                  -> "err"          \* other: new outgoing, us: cached outgoing
    [] ps = "FRESH"  /\ pd = "out" /\ own = "none" /\ dir = "in"   -> "recheck"      \* other: new outgoing, us: new incoming
    [] ps = "FRESH"  /\ pd = "out" /\ own = "none" /\ dir = "out"  -> "err"          \* other: new outgoing, us: new outgoing

(* The 16 cells of the task statement: peer status (4) x own cache/direction (4).  For a cached end the
   outcome does not depend on dir (the source does not look at it), both values are enumerated. *)
CellCases == [ps : States, pd : Dirs, own : Owns, dir : Dirs]

(* What the table is for, declaratively: the two ends of ONE connection (opposite directions), each
   deciding from the other's status, reach compatible verdicts:
     - one errs iff the other errs; one goes to the store/recheck branch iff the other does;
     - if they reuse, both reuse, they hold entries of opposite direction (the two ends of one cached
       connection) and exactly one of them closes the new connection. *)
Compatible(ownP, dirP, ownQ) ==
  LET dirQ == Opp(dirP)
      sp == Status(ownP, dirP)
      sq == Status(ownQ, dirQ)
      rp == Cell(sq[1], sq[2], ownP, dirP)
      rq == Cell(sp[1], sp[2], ownQ, dirQ)
      Reuses(r) == r \in {"reuse", "reuse-close"}
  IN /\ (rp = "err") = (rq = "err")
     /\ (rp = "recheck") = (rq = "recheck")
     /\ Reuses(rp) = Reuses(rq)
     /\ Reuses(rp) => /\ ownP # "none" /\ ownQ = Opp(ownP)
                      /\ (rp = "reuse-close") # (rq = "reuse-close")
     /\ (rp = "recheck") => ownP = "none" /\ ownQ = "none"

ASSUME TableCompatible == \A ownP \in Owns, ownQ \in Owns, dirP \in Dirs : Compatible(ownP, dirP, ownQ)
===============================================================================
