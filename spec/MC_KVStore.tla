---- MODULE MC_KVStore ----
EXTENDS KVStore
\* two keys, one a prefix of the other, colliding hashes (rank 2 of 3)
Keys2 == << <<"a">>, <<"a", "b">> >>
Hash2 == <<2, 2>>
\* three keys at ranks 1, 2, 2 (two collide), bounds 0..3
Keys3 == << <<"a">>, <<"a", "b">>, <<"b">> >>
Hash3 == <<1, 2, 2>>
====
