SPECIFICATION Spec
CONSTANTS
  Family = "locks"
  PathSet = "shared"
  NVal = 2
  NInst = 2
  NNames = 1
  TTL = 2
  MaxT = 6
  HistLen = 0
INVARIANT Mutex
CHECK_DEADLOCK FALSE
