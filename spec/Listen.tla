-------------------------------- MODULE Listen --------------------------------
(* C47.  cmd/internal/listen ParseAddresses(proto, base, overrides): normalisation of listen address
   lists.  Entries are abstract tokens; the driver (harness/drv/c47listen) turns every token into
   several concrete strings (different IPv4/IPv6 literals, ports, host names, kinds of white space).

     v4a, v4b  two different IPv4 host:port strings (in some concretisations the same host with
               different ports, so that "duplicate" can only mean "same address string")
     v4ap      v4a surrounded by white space: equal to v4a after trimming
     v6        an IPv6 [host]:port
     host      a DNS name with a port (never the Fly host; some concretisations are near misses)
     fly       fly-global-services:port
     wild      :port (empty host)
     blank     empty or white space only

   "Impl" transcribes the loop of ParseAddresses, "Decl" is the statement of the property; TLC checks
   Impl = Decl on every pair of lists and emits Decl as the expectation. *)
EXTENDS Integers, Sequences, FiniteSets, TLC, Json

CONSTANTS MaxBase, MaxOvr,     \* longest base / override list
          Small                \* ... paired with lists of at most Small entries on the other side

Emit(r) == PrintT("@@" \o ToJson(r))

Tokens == {"v4a", "v4b", "v4ap", "v6", "host", "fly", "wild", "blank"}

(* what trimming makes of a token: "" stands for the empty string *)
Trim(t) == CASE t = "blank" -> ""
             [] t = "v4ap"  -> "v4a"
             [] OTHER       -> t

(* classification of a trimmed, non-empty entry *)
IsIP(t)   == t \in {"v4a", "v4b", "v6"}
Family(t) == CASE t \in {"v4a", "v4b"} -> "4"
               [] t = "v6"             -> "6"
               [] t = "fly"            -> "4"      \* the Fly host is forced to IPv4
               [] t = "wild"           -> ""       \* no IP family: the unspecific network
               [] OTHER                -> "?"
Acceptable(t) == IsIP(t) \/ t = "fly" \/ t = "wild"   \* empty host or IP literal or the Fly host

-------------------------------------------------------------------------------
(* transcription *)
RECURSIVE Coalesce(_)
Coalesce(s) == IF s = <<>> THEN <<>>
               ELSE LET v == Trim(Head(s)) IN
                    IF v = "" THEN Coalesce(Tail(s)) ELSE <<v>> \o Coalesce(Tail(s))

RECURSIVE Loop(_, _, _)
Loop(addrs, seen, out) ==
  IF addrs = <<>> THEN [kind |-> "list", out |-> out]
  ELSE LET a == Head(addrs) IN
       IF a \in seen THEN Loop(Tail(addrs), seen, out)
       ELSE IF ~Acceptable(a) THEN [kind |-> "error", out |-> <<>>]
       ELSE Loop(Tail(addrs), seen \cup {a}, Append(out, <<a, Family(a)>>))

Impl(base, ovr) ==
  LET b == Coalesce(base)
      o == Coalesce(ovr)
      addrs == IF Len(o) > 0 THEN o ELSE b
  IN IF Len(addrs) = 0 THEN [kind |-> "error", out |-> <<>>] ELSE Loop(addrs, {}, <<>>)

-------------------------------------------------------------------------------
(* the statement *)
NonBlank(s) == SelectSeq(s, LAMBDA t : Trim(t) # "")
TrimAll(s)  == [i \in 1..Len(s) |-> Trim(s[i])]
Effective(base, ovr) ==        \* a non-empty override list replaces the base list
  IF NonBlank(ovr) # <<>> THEN TrimAll(NonBlank(ovr)) ELSE TrimAll(NonBlank(base))

(* out is eff without its repeated entries, first occurrences in their original order *)
IsDedupOf(out, eff) ==
  /\ \A i, j \in 1..Len(out) : i # j => out[i] # out[j]
  /\ {out[i] : i \in 1..Len(out)} = {eff[i] : i \in 1..Len(eff)}
  /\ \A i, j \in 1..Len(out) : i < j =>
        (CHOOSE k \in 1..Len(eff) : eff[k] = out[i] /\ \A m \in 1..k-1 : eff[m] # out[i])
      < (CHOOSE k \in 1..Len(eff) : eff[k] = out[j] /\ \A m \in 1..k-1 : eff[m] # out[j])

RECURSIVE Dedup(_, _)
Dedup(s, seen) == IF s = <<>> THEN <<>>
                  ELSE IF Head(s) \in seen THEN Dedup(Tail(s), seen)
                  ELSE <<Head(s)>> \o Dedup(Tail(s), seen \cup {Head(s)})

(* kind "empty": nothing to listen on -- the statement does not say what happens, any answer without
   addresses is accepted; kind "error": a non-IP host other than the Fly host is present and must be
   rejected; kind "list": the normalised list with the network suffix of every address *)
Decl(base, ovr) ==
  LET eff == Effective(base, ovr) IN
  IF eff = <<>> THEN [kind |-> "empty", out |-> <<>>]
  ELSE IF \E i \in 1..Len(eff) : ~Acceptable(eff[i]) THEN [kind |-> "error", out |-> <<>>]
  ELSE LET d == Dedup(eff, {}) IN
       [kind |-> "list", out |-> [i \in 1..Len(d) |-> <<d[i], Family(d[i])>>]]

-------------------------------------------------------------------------------
SeqsUpTo(S, n) == UNION {[1..k -> S] : k \in 0..n}
Min(a, b) == IF a < b THEN a ELSE b
Cases == [base : SeqsUpTo(Tokens, MaxBase), ovr : SeqsUpTo(Tokens, Min(Small, MaxOvr))]
         \cup [base : SeqsUpTo(Tokens, Min(Small, MaxBase)), ovr : SeqsUpTo(Tokens, MaxOvr)]

VARIABLES c, done
vars == <<c, done>>

Init == c \in Cases /\ done = FALSE
Next == done = FALSE /\ done' = TRUE /\ c' = c /\ Emit([c |-> c, e |-> Decl(c.base, c.ovr)])
Spec == Init /\ [][Next]_vars

(* the theorems: the transcribed loop meets the statement ... *)
ImplMeetsDecl ==
  LET i == Impl(c.base, c.ovr)
      d == Decl(c.base, c.ovr)
  IN IF d.kind = "empty" THEN i.kind = "error" ELSE i = d
(* ... and the recursive Dedup used to state it is the declarative "first occurrences, original order" *)
DedupIsDeclarative ==
  LET eff == Effective(c.base, c.ovr) IN IsDedupOf(Dedup(eff, {}), eff)
===============================================================================
