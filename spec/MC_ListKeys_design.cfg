SPECIFICATION Spec
CONSTANTS
  Family = "design"
  MaxN = 4
  EmptyKey = FALSE
  DesignKeys = 2
INVARIANT ImplMeetsDecl
CHECK_DEADLOCK FALSE
