SPECIFICATION Spec
CONSTANTS
  Family = "publish_obs"
  MaxSucc = 4
  Menu = "small"
  MaxLevel = 3
  SimDepth = 10
INVARIANT ImplMeetsDecl
CHECK_DEADLOCK FALSE

