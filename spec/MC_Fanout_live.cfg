SPECIFICATION FairSpec
CONSTANTS
  MaxN = 2
  WaitAfterCancel = TRUE
  Family = "design"
  KeepLog = FALSE
PROPERTY Terminates
CHECK_DEADLOCK FALSE
