------------------------------- MODULE BiPipe -------------------------------
(* spec/tun/pipe.go:  Pipe(src, dst) starts two copiers (io.CopyBuffer in each direction); when its copy ends,
   each copier calls Close on the stream it was writing to and then on the stream it was reading from, sends a
   non-nil error to the (buffered) channel, and a third goroutine closes the channel when both copiers are done.
   Streams are modelled by what the copiers can observe: side s offers the bytes its application wrote (inq),
   then blocks, or reports end of stream / an error once the application finished; Close makes every later (and
   every blocked) Read or Write on that stream fail; a broken stream fails its Writes.
   cbw = TRUE models full-close streams (bufconn, a TCP peer that called close()): once the application behind
   stream s has closed, Writes to s fail.  cbw = FALSE: the peer only finished its sending half, Writes to it keep
   working.  Both kinds are explored (CloseModes).
   Every step feeds its events to the monitor of BiPipeRules (variable sm); TLC checks the clauses of the property
   on every terminated behaviour (InOrder on every state), and that a run in which a side ended does terminate.
   Variant: "code" as written; broken twins: "oneclose" (the stream that was written to is not closed),
   "noclose_on_err" (a copy error skips the closes), "nocompletion" (the channel is never closed). *)
EXTENDS Integers, Sequences, FiniteSets, TLC, BiPipeRules

CONSTANTS Pay,               \* <<bytes application 1 writes, bytes application 2 writes>>
          Errors,            \* BOOLEAN: streams may end with an error / have failing Writes
          CloseModes,        \* subset of BOOLEAN: the values of cbw explored, see above
          Variant

Pay21 == << <<1, 2>>, <<11>> >>          \* values for Pay (tuples cannot be written in a .cfg)
Pay22 == << <<1, 2>>, <<11, 12>> >>
Pay32 == << <<1, 2, 3>>, <<11, 12>> >>

VARIABLES pend,    \* [side -> bytes its application has still to write]
          inq,     \* [side -> bytes readable from the stream]
          ended,   \* [side -> "no" | "eof" | "err"]   the application finished
          wbroken, \* [side -> BOOLEAN]                 Writes to the stream fail
          closed,  \* [side -> BOOLEAN]                 Pipe called Close on the stream
          cp,      \* [copier -> [pc, chunk, err]]      copier c reads side c and writes side 3-c
          chClosed,\* the channel returned by Pipe is closed
          nerr,    \* errors sent to the channel
          cbw,     \* this run's kind of streams
          sm       \* the monitor of BiPipeRules, updated with every event
vars == <<pend, inq, ended, wbroken, closed, cp, chClosed, nerr, cbw, sm>>

Ev(k, s, d, e) == [k |-> k, s |-> s, d |-> d, e |-> e]
Log(es) == sm' = FoldFrom(sm, es)          \* the step produces the events es

Init ==
  /\ pend = [s \in {1, 2} |-> Pay[s]]
  /\ inq = [s \in {1, 2} |-> <<>>]
  /\ ended = [s \in {1, 2} |-> "no"]
  /\ wbroken = [s \in {1, 2} |-> FALSE]
  /\ closed = [s \in {1, 2} |-> FALSE]
  /\ cp = [c \in {1, 2} |-> [pc |-> "read", chunk |-> <<>>, err |-> FALSE]]
  /\ chClosed = FALSE /\ nerr = 0 /\ sm = S0 /\ cbw \in CloseModes

(* the applications *)
AWrite(s) ==
  /\ ended[s] = "no" /\ pend[s] # <<>> /\ ~closed[s]
  /\ \E k \in {1, Len(pend[s])} :
       /\ inq' = [inq EXCEPT ![s] = @ \o SubSeq(pend[s], 1, k)]
       /\ pend' = [pend EXCEPT ![s] = SubSeq(@, k + 1, Len(@))]
       /\ Log(<<Ev("awrite", s, SubSeq(pend[s], 1, k), "ok")>>)
  /\ UNCHANGED <<ended, wbroken, closed, cp, chClosed, nerr, cbw>>
AEnd(s) ==
  /\ ended[s] = "no"
  /\ \E e \in (IF Errors THEN {"eof", "err"} ELSE {"eof"}) :
       /\ ended' = [ended EXCEPT ![s] = e]
       /\ Log(<<Ev("aclose", s, <<>>, e)>>)
  /\ UNCHANGED <<pend, inq, wbroken, closed, cp, chClosed, nerr, cbw>>
ABreak(s) ==
  /\ Errors /\ ~wbroken[s]
  /\ wbroken' = [wbroken EXCEPT ![s] = TRUE]
  /\ Log(<<Ev("abreak", s, <<>>, "err")>>)
  /\ UNCHANGED <<pend, inq, ended, closed, cp, chClosed, nerr, cbw>>

(* copier c: io.CopyBuffer(dst, src) *)
Src(c) == c
Dst(c) == 3 - c
Goto(c, pc, chunk, err) == cp' = [cp EXCEPT ![c] = [pc |-> pc, chunk |-> chunk, err |-> err]]

Read(c) ==
  LET s == Src(c) IN
  /\ cp[c].pc = "read"
  /\ IF closed[s] THEN
          /\ Log(<<Ev("read", s, <<>>, "err")>>) /\ Goto(c, "closeT", <<>>, TRUE) /\ inq' = inq
     ELSE IF inq[s] # <<>> THEN
          \E k \in 1..Len(inq[s]) :
             /\ Log(<<Ev("read", s, SubSeq(inq[s], 1, k), "ok")>>)
             /\ inq' = [inq EXCEPT ![s] = SubSeq(@, k + 1, Len(@))]
             /\ Goto(c, "write", SubSeq(inq[s], 1, k), FALSE)
     ELSE /\ ended[s] # "no"
          /\ Log(<<Ev("read", s, <<>>, ended[s])>>)
          /\ Goto(c, "closeT", <<>>, ended[s] = "err") /\ inq' = inq
  /\ UNCHANGED <<pend, ended, wbroken, closed, chClosed, nerr, cbw>>

Write(c) ==
  LET t == Dst(c)
      fails == closed[t] \/ wbroken[t] \/ (cbw /\ ended[t] # "no") IN
  /\ cp[c].pc = "write"
  /\ IF fails
       THEN /\ Log(<<Ev("write", t, <<>>, "err")>>) /\ Goto(c, "closeT", <<>>, TRUE)
       ELSE /\ Log(<<Ev("write", t, cp[c].chunk, "ok"), Ev("aread", t, cp[c].chunk, "ok")>>)
            /\ Goto(c, "read", <<>>, FALSE)
  /\ UNCHANGED <<pend, inq, ended, wbroken, closed, chClosed, nerr, cbw>>

(* src.Close() in pipe(): the stream that was written to; dst.Close(): the stream that was read from.
   The application behind a stream that gets closed sees the end of its input. *)
DoClose(c, t, nextpc, skip) ==
  /\ IF skip THEN closed' = closed /\ sm' = sm
     ELSE /\ closed' = [closed EXCEPT ![t] = TRUE]
          /\ Log(<<Ev("close", t, <<>>, "ok")>> \o (IF closed[t] THEN <<>> ELSE <<Ev("aread", t, <<>>, "eof")>>))
  /\ cp' = [cp EXCEPT ![c].pc = nextpc]
CloseT(c) ==
  /\ cp[c].pc = "closeT"
  /\ DoClose(c, Dst(c), "closeS", Variant = "oneclose" \/ (Variant = "noclose_on_err" /\ cp[c].err))
  /\ UNCHANGED <<pend, inq, ended, wbroken, chClosed, nerr, cbw>>
CloseS(c) ==
  /\ cp[c].pc = "closeS"
  /\ DoClose(c, Src(c), "done", Variant = "noclose_on_err" /\ cp[c].err)
  /\ nerr' = nerr + (IF cp[c].err THEN 1 ELSE 0)
  /\ UNCHANGED <<pend, inq, ended, wbroken, chClosed, cbw>>

Complete ==
  /\ cp[1].pc = "done" /\ cp[2].pc = "done" /\ ~chClosed /\ Variant # "nocompletion"
  /\ chClosed' = TRUE
  /\ Log(<<Ev("done", 0, <<>>, "ok")>>)
  /\ UNCHANGED <<pend, inq, ended, wbroken, closed, cp, nerr, cbw>>

Copier(c) == Read(c) \/ Write(c) \/ CloseT(c) \/ CloseS(c)
Next == (\E s \in {1, 2} : AWrite(s) \/ AEnd(s) \/ ABreak(s)) \/ (\E c \in {1, 2} : Copier(c)) \/ Complete
Spec == Init /\ [][Next]_vars
FairSpec == Spec /\ WF_vars(Copier(1)) /\ WF_vars(Copier(2)) /\ WF_vars(Complete)

-------------------------------------------------------------------------------
SideEnded == sm.fe # <<>>
Terminated == chClosed \/ (Variant = "nocompletion" /\ cp[1].pc = "done" /\ cp[2].pc = "done")

InvInOrder == InOrder(sm)
InvDelivered == Terminated => Delivered(sm)
InvBothClosed == Terminated => BothClosed(sm)
InvCompleted == Terminated => Completed(sm)
InvEndToEnd == (Terminated /\ ~cbw) => EndToEnd(sm)       \* half-close peers: the end-to-end clause holds
InvEndToEndAll == Terminated => EndToEnd(sm)               \* ... for full-close streams it does not (lead, see cfg)
(* once a side has ended the pipe terminates: both copiers finish and completion is reported *)
Terminates == SideEnded ~> chClosed
(* nothing is left half-done in a state where no copier can move *)
InvNoHalfOpen == (cp[1].pc = "done" /\ cp[2].pc = "done") => closed[1] /\ closed[2]
=============================================================================
