------------------------------ MODULE ChordRing ------------------------------
(* Finger tables and lookups on top of ChordKV's membership model:
     chord/local_chord.go   FindSuccessor, closestPrecedingNode
     chord/local_tasks.go   fixFinger / fixK
   The state record s of ChordKV is extended with  fing[n][k], k in 1..B  (B model fingers; under the
   scaled embedding id = pos * 2^(48-B) + 1 the real finger 48-B+k is model finger k and the real
   fingers 1..48-B all have the target of model finger 1).  Positions are 0..2^B-1.
   Properties: C09 Terminates (no lookup forwards to itself for ever), C01 LookupCorrect on a correct
   ring, C02 convergence of predecessor / successor list / fingers after churn. *)
EXTENDS ChordKV, Json

CONSTANTS B,         \* model finger count; ring of 2^B positions
          FixSelf    \* TRUE: FindSuccessor forwards to the successor when no finger precedes the key

RECURSIVE P2(_)
P2(n) == IF n = 0 THEN 1 ELSE 2 * P2(n - 1)
M == P2(B)
Gone == -1
Diverge == -2

PB(lay, a, pos, b, incl) == Between(lay.npos[a], pos, lay.npos[b], incl)    \* position in (a, b) / (a, b]
Target(x, n, k) == (x.lay.npos[n] + P2(k - 1)) % M

(* closestPrecedingNode(key): fingers scanned from the highest down; falls back to the node itself *)
Closest(x, n, key) ==
  LET cands == {k \in 1..B : x.fing[n][k] # Nil /\ Between(x.lay.npos[n], x.lay.npos[x.fing[n][k]], key, FALSE)} IN
  IF cands = {} THEN n ELSE x.fing[n][CHOOSE k \in cands : \A o \in cands : k >= o]

RECURSIVE Find(_, _, _, _)
Find(x, n, key, fuel) ==
  IF ~Live(x, n) THEN Gone
  ELSE IF x.pred[n] # Nil /\ PB(x.lay, x.pred[n], key, n, TRUE) THEN n
  ELSE IF Hd(x, n) = Nil THEN Gone
  ELSE IF PB(x.lay, n, key, Hd(x, n), TRUE) THEN Hd(x, n)
  ELSE LET c == Closest(x, n, key) IN
       IF c = n THEN (IF FixSelf THEN (IF fuel = 0 THEN Diverge ELSE Find(x, Hd(x, n), key, fuel - 1)) ELSE Diverge)
       ELSE IF fuel = 0 THEN Diverge
       ELSE Find(x, c, key, fuel - 1)
Lookup(x, n, key) == Find(x, n, key, 3 * Cardinality(NodesOf(x.lay)) + B)

(* fixFinger(): k = 1..B in order, each lookup sees the entries already refreshed; failures are skipped *)
RECURSIVE FixFrom(_, _, _)
FixFrom(x, n, k) ==
  IF k > B THEN x
  ELSE LET f == Lookup(x, n, Target(x, n, k)) IN
       FixFrom(IF f \in NodesOf(x.lay) THEN [x EXCEPT !.fing[n][k] = f] ELSE x, n, k + 1)
FixFingerF(x, n) == FixFrom(x, n, 1)

-------------------------------------------------------------------------------
(* oracles *)
RECURSIVE OwnerOf(_, _, _)
OwnerOf(lay, S, pos) ==       \* first member at or clockwise after pos
  LET at == {m \in S : lay.npos[m] >= pos} IN
  IF at # {} THEN CHOOSE m \in at : \A o \in at : lay.npos[m] <= lay.npos[o]
  ELSE CHOOSE m \in S : \A o \in S : lay.npos[m] <= lay.npos[o]
TrueSuccList(lay, S, n) == MkList(NextK(lay, S, n, 1)[1], Tail(NextK(lay, S, n, L)))
RingCorrect(x) ==
  LET S == Members(x) IN
  \A n \in S : /\ x.pred[n] = PrevMember(x.lay, S, n)
               /\ x.succ[n] = TrueSuccList(x.lay, S, n)
               /\ \A k \in 1..B : x.fing[n][k] = OwnerOf(x.lay, S, Target(x, n, k))
Terminates(x) == \A n \in NodesOf(x.lay), key \in 0..(M - 1) : Live(x, n) => Lookup(x, n, key) # Diverge      \* C09
LookupCorrect(x) == RingCorrect(x) =>                                                                           \* C01
   \A n \in Members(x), key \in 0..(M - 1) : Lookup(x, n, key) = OwnerOf(x.lay, Members(x), key)

-------------------------------------------------------------------------------
(* model-checking instance *)
RingInit(lay, members) ==
  LET base == InitState(lay, members) IN
  base @@ [fing |-> [n \in NodesOf(lay) |-> [k \in 1..B |->
             IF n \in members THEN OwnerOf(lay, members, (lay.npos[n] + P2(k - 1)) % M) ELSE Nil]]]

RInit == s = RingInit(MCLayout, InitMembers) /\ ops = <<>>

TasksStarted(x, n) == x.jpc[n] \notin {"req", "atx", "granted", "failing", "installed"}
RMaint ==
  \E n \in NodesOf(s.lay) :
     /\ Live(s, n) /\ s.succ[n] # <<>> /\ TasksStarted(s, n)
     /\ \/ s' = StabilizeF(s, n)
        \/ s' = CheckPredF(s, n)
        \/ s' = FixFingerF(s, n)
     /\ s' # s
(* Create fills every finger with the node itself; a joiner starts with empty fingers *)
RJoinFix(j) == JoinFixEn(s, j) /\ s' = JoinFixF(FixFingerF(s, j), j)
RJoinAdvisory(j) == JoinAdvisoryEn(s, j) /\ s' = FixFingerF(JoinAdvisoryF(s, j), s.jp[j])
RLeaveAdvisory(l) == LeaveAdvisoryEn(s, l) /\ s' = (IF s.lp[l] # l THEN FixFingerF(LeaveAdvisoryF(s, l), s.lp[l]) ELSE LeaveAdvisoryF(s, l))

RMembership ==
  \/ \E j \in Joiners :
       \/ JoinStartEn(s, j) /\ s' = JoinStartF(s, j)
       \/ \E x \in NodesOf(s.lay) : JoinRouteEn(s, j, x) /\ s' = JoinRouteF(s, j, x)
       \/ JoinLockEn(s, j) /\ s' = JoinLockF(s, j)
       \/ JoinFailEn(s, j) /\ s' = JoinFailF(s, j)
       \/ JoinInstallEn(s, j) /\ s' = JoinInstallF(s, j)
       \/ JoinStabEn(s, j) /\ s' = JoinStabF(s, j)
       \/ RJoinFix(j)
       \/ RJoinAdvisory(j)
       \/ JoinActiveEn(s, j) /\ s' = JoinActiveF(s, j)
       \/ JoinReleaseEn(s, j) /\ s' = JoinReleaseF(s, j, FALSE)
  \/ \E l \in Leavers :
       \/ LeaveStartEn(s, l) /\ s' = LeaveStartF(s, l)
       \/ LeaveReadEn(s, l) /\ s' = LeaveReadF(s, l)
       \/ LeaveFirstEn(s, l) /\ s' = LeaveFirstF(s, l)
       \/ LeaveSecondEn(s, l) /\ s' = LeaveSecondF(s, l)
       \/ LeaveTransferEn(s, l) /\ s' = LeaveTransferF(s, l)
       \/ RLeaveAdvisory(l)
       \/ LeaveLeftEn(s, l) /\ s' = LeaveLeftF(s, l)
       \/ LeaveReleaseEn(s, l) /\ s' = LeaveReleaseF(s, l, FALSE)

RNext == (RMembership \/ RMaint) /\ UNCHANGED ops
RSpec == RInit /\ [][RNext]_vars
RFairSpec == RSpec /\ WF_vars(RMembership /\ UNCHANGED ops) /\ \A n \in NodesOf(MCLayout) :
                WF_vars(Live(s, n) /\ s' = StabilizeF(s, n) /\ s' # s /\ UNCHANGED ops)
             /\ WF_vars(Live(s, n) /\ s' = CheckPredF(s, n) /\ s' # s /\ UNCHANGED ops)
             /\ WF_vars(Live(s, n) /\ TasksStarted(s, n) /\ s.succ[n] # <<>> /\ s' = FixFingerF(s, n) /\ s' # s /\ UNCHANGED ops)

(* ---- C01 table: every member set of positions (up to MaxMembers), the correct ring for it, every (start, key) lookup *)
CONSTANT MaxMembers
REmit(r) == PrintT("@@" \o ToJson(r))
RECURSIVE SortedSeq(_)
SortedSeq(S) == IF S = {} THEN <<>> ELSE LET m == CHOOSE x \in S : \A y \in S : x <= y IN <<m>> \o SortedSeq(S \ {m})
TableInit == /\ ops = <<>>
             /\ \E S \in SUBSET (0..(M - 1)) : S # {} /\ Cardinality(S) <= MaxMembers /\
                   s = RingInit([npos |-> SortedSeq(S), kpos |-> <<>>], 1..Cardinality(S))
TableNext == /\ ops = <<>> /\ ops' = <<1>> /\ s' = s
             /\ REmit([c |-> [pos |-> s.lay.npos],
                       e |-> [owner |-> [key \in 1..M |-> s.lay.npos[OwnerOf(s.lay, Members(s), key - 1)]]]])
TableSpec == TableInit /\ [][TableNext]_vars
(* hop bound: a lookup on a correct ring needs at most one hop per member *)
RECURSIVE Hops(_, _, _, _)
Hops(x, n, key, fuel) ==
  IF fuel = 0 THEN 99
  ELSE IF x.pred[n] # Nil /\ PB(x.lay, x.pred[n], key, n, TRUE) THEN 0
  ELSE IF PB(x.lay, n, key, Hd(x, n), TRUE) THEN 0
  ELSE LET c == Closest(x, n, key) IN 1 + Hops(x, IF c = n THEN Hd(x, n) ELSE c, key, fuel - 1)
InvHopBound == RingCorrect(s) => \A n \in Members(s), key \in 0..(M - 1) : Hops(s, n, key, 20) <= Cardinality(Members(s))

InvTerminates == Terminates(s)
(* coverage goals (checks/c09.py): states in which a lookup asked at a node of the given lifecycle state reaches the branch
   "no finger precedes the key" (Closest = the node itself).  TLC's shortest path to such a state is a directed scenario:
   it is replayed on real nodes and followed by lookups from every live node for every position. *)
SelfFwd(x, n, key) ==
  /\ Live(x, n)
  /\ ~(x.pred[n] # Nil /\ PB(x.lay, x.pred[n], key, n, TRUE))
  /\ Hd(x, n) # Nil /\ ~PB(x.lay, n, key, Hd(x, n), TRUE)
  /\ Closest(x, n, key) = n
NoSelfFwdIn(st) == ~(\E n \in NodesOf(s.lay), key \in 0..(M - 1) : s.st[n] = st /\ SelfFwd(s, n, key))
InvNoSelfFwdActive == NoSelfFwdIn("Active")
InvNoSelfFwdJoining == NoSelfFwdIn("Joining")
InvNoSelfFwdTransferring == NoSelfFwdIn("Transferring")
InvNoSelfFwdLeaving == NoSelfFwdIn("Leaving")
InvLookupCorrect == LookupCorrect(s)
ChurnDone == \A n \in NodesOf(s.lay) : (n \in Joiners => s.jpc[n] \in {"done", "failed"}) /\ (n \in Leavers => s.lpc[n] \in {"done", "failed"})
Converges == <>[](ChurnDone /\ RingCorrect(s))
(* a member whose successor list names departed nodes only must be able to repair it: without the fallback of stabilize such a
   state is a dead end of convergence (stabilize learns about the ring through the live entries of the list alone).  C02 *)
AllLeft(x, n) == x.succ[n] # <<>> /\ \A i \in 1..Len(x.succ[n]) : x.st[x.succ[n][i]] = "Left"
NoDeadEnd(x) == \A n \in Members(x) : AllLeft(x, n) => ~AllLeft(StabilizeF(x, n), n)
InvNoDeadEnd == NoDeadEnd(s)
=============================================================================
