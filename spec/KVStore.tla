------------------------------- MODULE KVStore -------------------------------
(* Reference model of the chord.KVProvider contract (spec/chord/kv.go) that the memory, append-only-log and
   SQLite backends implement: simple values (an empty value is absent), prefix children (a set: duplicate
   appends conflict, removes are idempotent, independent of the simple keyspace), leases (token = expiry
   instant), key listings by prefix and by hash range, export / import / removal of keys.
   Every method is an operator  Do(st, op) -> [st |-> next state, ret |-> reply];  Next applies every
   operation of the configured family to every reachable state and emits the edge, so TLC's breadth-first
   search yields each (state, operation) pair exactly once: one implementation test per transition. *)
EXTENDS Integers, Sequences, FiniteSets, TLC, Json

CONSTANTS Keys,      \* sequence of key names, each a sequence of characters, e.g. << <<"a">>, <<"a","b">> >>
          HashOf,    \* sequence: hash rank of Keys[i] (ranks 1..H; equal ranks = colliding hashes)
          H,         \* number of hash ranks; range bounds are 0..H
          Vals,      \* set of non-empty values, e.g. {"v1", "v2"}
          Kids,      \* set of children, e.g. {"c1", "c2"}
          Family,    \* "contract" (C16) | "range" (C17) | "lease" (C19)
          TTLs,      \* lease: TTLs in half seconds, e.g. {1, 2, 3, 4}
          MaxNow,    \* lease: clock bound in half seconds
          LeaseKeys  \* range family: keys (indices) on which leases are taken

Emit(r) == PrintT("@@" \o ToJson(r))
KI == 1..Len(Keys)
None == ""

Between(low, t, high, incl) ==
  IF high > low THEN (low < t /\ t < high) \/ (incl /\ t = high)
  ELSE low < t \/ t < high \/ (incl /\ t = high)
InRange(lo, hi, h) == lo = hi \/ Between(lo, h, hi, TRUE)     \* (lo, hi] on the circle, everything when lo = hi

HasData(st, i) == st.simple[i] # None \/ st.kids[i] # {} \/ st.lease[i] # 0
IsPrefixOf(p, k) == Len(p) <= Len(k) /\ SubSeq(k, 1, Len(p)) = p
KindsOf(st, i) == (IF st.simple[i] # None THEN {"SIMPLE"} ELSE {}) \cup (IF st.kids[i] # {} THEN {"PREFIX"} ELSE {})
                  \cup (IF st.lease[i] # 0 THEN {"LEASE"} ELSE {})

Empty == [simple |-> [i \in KI |-> None], kids |-> [i \in KI |-> {}], lease |-> [i \in KI |-> 0], now |-> 0]

(* lease helpers: time in half seconds; a TTL is truncated to whole seconds and must be at least one *)
TruncTTL(t) == (t \div 2) * 2
Tok(x) == x          \* token = expiry instant

Do(st, op) ==
  LET i == op.k IN
  CASE op.m = "put"      -> [st |-> [st EXCEPT !.simple[i] = op.v], ret |-> [e |-> "ok"]]
    [] op.m = "get"      -> [st |-> st, ret |-> [e |-> "ok", v |-> st.simple[i]]]
    [] op.m = "delete"   -> [st |-> [st EXCEPT !.simple[i] = None], ret |-> [e |-> "ok"]]
    [] op.m = "append"   -> IF op.c \in st.kids[i] THEN [st |-> st, ret |-> [e |-> "prefix-conflict"]]
                            ELSE [st |-> [st EXCEPT !.kids[i] = @ \cup {op.c}], ret |-> [e |-> "ok"]]
    [] op.m = "remove"   -> [st |-> [st EXCEPT !.kids[i] = @ \ {op.c}], ret |-> [e |-> "ok"]]
    [] op.m = "contains" -> [st |-> st, ret |-> [e |-> "ok", b |-> op.c \in st.kids[i]]]
    [] op.m = "list"     -> [st |-> st, ret |-> [e |-> "ok", l |-> st.kids[i]]]
    [] op.m = "listkeys" -> [st |-> st, ret |-> [e |-> "ok",
                               ks |-> {<<Keys[j], kd>> : j \in {j \in KI : IsPrefixOf(op.p, Keys[j])}, kd \in {"SIMPLE", "PREFIX", "LEASE"}}
                                      \cap UNION {{<<Keys[j], kd>> : kd \in KindsOf(st, j)} : j \in KI}]]
    [] op.m = "rangekeys" -> [st |-> st, ret |-> [e |-> "ok", ks |-> {Keys[j] : j \in {j \in KI : HasData(st, j) /\ InRange(op.lo, op.hi, HashOf[j])}}]]
    [] op.m = "removekeys" -> [st |-> [st EXCEPT !.simple = [j \in KI |-> IF j \in op.ks THEN None ELSE @[j]],
                                                 !.kids = [j \in KI |-> IF j \in op.ks THEN {} ELSE @[j]],
                                                 !.lease = [j \in KI |-> IF j \in op.ks THEN 0 ELSE @[j]]], ret |-> [e |-> "ok"]]
    (* export the keys op.ks and import them into an EMPTY store of backend op.into: the reply is the content of that store *)
    [] op.m = "xfer"     -> [st |-> st, ret |-> [e |-> "ok",
                               simple |-> [j \in KI |-> IF j \in op.ks THEN st.simple[j] ELSE None],
                               kids |-> [j \in KI |-> IF j \in op.ks THEN st.kids[j] ELSE {}],
                               lease |-> [j \in KI |-> IF j \in op.ks THEN st.lease[j] ELSE 0],
                               listed |-> {Keys[j] : j \in {j \in op.ks : HasData(st, j)}}]]      \* RangeKeys(0,0) of the destination
    (* leases *)
    [] op.m = "tick"     -> [st |-> [st EXCEPT !.now = @ + op.d], ret |-> [e |-> "ok"]]
    [] op.m = "acquire"  -> IF TruncTTL(op.ttl) < 2 THEN [st |-> st, ret |-> [e |-> "invalid-ttl"]]
                            ELSE IF st.lease[i] > st.now THEN [st |-> st, ret |-> [e |-> "lease-conflict"]]
                            ELSE [st |-> [st EXCEPT !.lease[i] = st.now + TruncTTL(op.ttl)], ret |-> [e |-> "ok", tok |-> "new"]]
    [] op.m = "renew"    -> IF TruncTTL(op.ttl) < 2 THEN [st |-> st, ret |-> [e |-> "invalid-ttl"]]
                            ELSE IF st.lease[i] = 0 \/ st.now > st.lease[i] \/ op.tok # "cur" THEN [st |-> st, ret |-> [e |-> "lease-expired"]]
                            ELSE [st |-> [st EXCEPT !.lease[i] = st.now + TruncTTL(op.ttl)], ret |-> [e |-> "ok", tok |-> "new"]]
    [] op.m = "release"  -> IF st.lease[i] = 0 \/ op.tok # "cur" THEN [st |-> st, ret |-> [e |-> "lease-expired"]]
                            ELSE [st |-> [st EXCEPT !.lease[i] = 0], ret |-> [e |-> "ok"]]

(* operation alphabets per family.  Lease tokens are symbolic: "cur" = the token of the current grant,
   "stale" = a token of an earlier grant, "forged" = a number never issued, "zero" = 0. *)
ContractOps ==
  [m : {"put"}, k : KI, v : Vals \cup {None}] \cup [m : {"get", "delete", "list"}, k : KI]
  \cup [m : {"append", "remove", "contains"}, k : KI, c : Kids]
  \cup [m : {"listkeys"}, p : {<<>>, <<"b">>, <<"a", "b", "c">>} \cup UNION {{SubSeq(Keys[j], 1, n) : n \in 1..Len(Keys[j])} : j \in KI}]
RangeOps ==
  [m : {"put"}, k : KI, v : Vals \cup {None}] \cup [m : {"delete"}, k : KI] \cup [m : {"append"}, k : KI, c : Kids]
  \cup [m : {"rangekeys"}, lo : 0..H, hi : 0..H] \cup [m : {"removekeys", "xfer"}, ks : SUBSET KI]
  \cup [m : {"acquire"}, k : LeaseKeys, ttl : {4}] \cup [m : {"release"}, k : LeaseKeys, tok : {"cur"}]      \* lease-only keys must be listed and transferred too
LeaseOps ==
  [m : {"acquire"}, k : {1}, ttl : TTLs] \cup [m : {"renew"}, k : {1}, ttl : TTLs, tok : {"cur", "stale", "forged", "zero"}]
  \cup [m : {"release"}, k : {1}, tok : {"cur", "stale", "forged", "zero"}] \cup [m : {"tick"}, d : {1, 3}]
Ops == CASE Family = "contract" -> ContractOps [] Family = "range" -> RangeOps [] Family = "lease" -> LeaseOps

VARIABLE st
Init == st = Empty
(* "now = expiry" is left out of the generated space: the backends compare with > / >= one nanosecond apart there *)
Admissible(s, op) ==
  /\ (op.m = "tick" => s.now + op.d <= MaxNow)
  /\ (op.m \in {"acquire", "renew"} => (s.lease[op.k] = 0 \/ s.now # s.lease[op.k]))
  /\ (op.m \in {"renew", "release"} /\ op.tok = "stale" => TRUE)
Next == \E op \in Ops : Admissible(st, op) /\
          LET r == Do(st, op) IN st' = r.st /\ Emit([from |-> st, op |-> op, ret |-> r.ret, to |-> r.st])
Spec == Init /\ [][Next]_st

(* contract invariants checked on the reference model itself *)
TypeOK == /\ \A i \in KI : st.simple[i] \in Vals \cup {None} /\ st.kids[i] \subseteq Kids
Independent ==     \* the simple and prefix keyspaces of a key never influence each other: by construction of Do
  TRUE
=============================================================================
