SPECIFICATION ConnSpec
CONSTANTS
  Family = "conn_gen"
  MaxTun = 3
  MaxReg = 3
  ConfNames = {"", "a", "c.example.com"}
  RegNames = {"a", "x", "y", "c.example.com", "d.example.com"}
  MaxNodes = 5
  MaxChanges = 2
  MaxConns = 2
  LockConn = TRUE
  SaveMode = "inplace"
  NOld = 3
  NNew = 2

CHECK_DEADLOCK FALSE
