------------------------------- MODULE AcmeDns --------------------------------
(* The ACME DNS responder: acme/dns.go (ServeDNS, readQuery, isImmediate, answer, answerTXT) together with the
   writer of the records it serves, acme/solver.go (ChordSolver.Present / CleanUp).

   A case is one query against one storage state.  The code is transcribed ("Impl") next to the statement of the
   property as a predicate over an arbitrary response ("Decl"); TLC checks Impl against Decl on every case and emits
   the case with what the declaration requires.  harness/drv/acmedns builds the storage state through the real
   solver, sends the query to the real ServeDNS and reports the response in the vocabulary used here. *)
EXTENDS Integers, Sequences, FiniteSets, TLC, Json

Emit(r) == PrintT("@@" \o ToJson(r))

(* query names, for the zone Z and a challenge label L (the token-specific label of a custom hostname):
     zone      Z                       label     L.Z                    labelmix  L.Z in mixed letter case
     managed   managed.Z (the label of the managed domains, holding the value "vm")
     nsname    the name server's own name, one label below Z (static A / AAAA records, no challenges)
     deep2     a.L.Z      deep3  a.b.L.Z     (more than one label below the zone)
     suffix    xZ  (ends with the characters of Z, is not below it)     lblsuffix  L.xZ
     outside   L.<another domain> *)
QNames == {"zone", "label", "labelmix", "managed", "nsname", "deep2", "deep3", "suffix", "lblsuffix", "outside"}
QTypes == {"TXT", "NS", "SOA", "A", "AAAA", "CNAME", "ANY"}
(* storage of label L: two challenges, each never presented / presented / presented and cleaned up again, plus
   optionally an empty value; fail: the storage read fails *)
ChalStates == {"absent", "present", "removed"}
Cases == [q : QNames, t : QTypes, c1 : ChalStates, c2 : ChalStates, empty : BOOLEAN, fail : BOOLEAN]

Below1(q)   == q \in {"label", "labelmix", "managed", "nsname"}        \* exactly one label below the zone
Deeper(q)   == q \in {"deep2", "deep3"}
Foreign(q)  == q \in {"suffix", "lblsuffix", "outside"}
Stored(x, q) ==                       \* the non-empty values currently stored for the label of q
  CASE q \in {"label", "labelmix"} -> {v \in {"c1", "c2"} : x[v] = "present"}
    [] q = "managed" -> {"vm"}
    [] OTHER -> {}
Static(q, t) ==                       \* the static records
  CASE q = "zone" /\ t \in {"NS", "SOA"} -> {t}
    [] q = "nsname" /\ t \in {"A", "AAAA"} -> {t}
    [] OTHER -> {}

-------------------------------------------------------------------------------
(* the code, transcribed.  isImmediate: the lower-cased name ends with the characters of the zone and has at most
   one more dot-separated part - true for suffix and lblsuffix as well; answerTXT reads the storage for the text in
   front of the first occurrence of the zone's characters (nothing for the zone itself) *)
Immediate(q) == q \in {"zone", "label", "labelmix", "managed", "nsname", "suffix", "lblsuffix"}
ReadsStorage(q) == q \in {"label", "labelmix", "managed", "nsname", "suffix", "lblsuffix"}
Impl(x) ==
  IF ~Immediate(x.q) THEN [rcode |-> "NXDOMAIN", aa |-> TRUE, soa |-> TRUE, answers |-> {}]
  ELSE IF x.t = "ANY" THEN [rcode |-> "NOTIMP", aa |-> TRUE, soa |-> FALSE, answers |-> {}]
  ELSE LET st   == Static(x.q, x.t)
           sf   == x.t = "TXT" /\ ReadsStorage(x.q) /\ x.fail
           txt  == IF x.t = "TXT" /\ ~sf THEN Stored(x, x.q) ELSE {}
           rr   == st \cup txt
           rc   == IF sf THEN "SERVFAIL" ELSE IF rr = {} THEN "NXDOMAIN" ELSE "NOERROR"
       IN [rcode |-> rc, aa |-> TRUE, soa |-> rc = "NXDOMAIN", answers |-> rr]

-------------------------------------------------------------------------------
(* the statement, as constraints on a response [rcode, aa, soa, answers] *)
RCodes == {"NOERROR", "NXDOMAIN", "SERVFAIL", "NOTIMP", "REFUSED", "FORMERR"}
AllowedAnswers(x) ==
  IF x.t = "TXT" /\ Below1(x.q) /\ ~x.fail THEN Stored(x, x.q)      \* exactly the non-empty stored values
  ELSE IF x.t = "TXT" THEN {}                                      \* nothing for other names, nothing from a failed read
  ELSE Static(x.q, x.t)                                            \* static records, and nothing else
AllowedRCodes(x) ==
  IF Deeper(x.q) THEN (IF x.t = "ANY" THEN {"NXDOMAIN", "NOTIMP"} ELSE {"NXDOMAIN"})
  ELSE IF Foreign(x.q) THEN RCodes                                 \* not the zone's business: only "no answers" is required
  ELSE IF x.t = "ANY" THEN {"NOTIMP"}
  ELSE IF x.t = "TXT" /\ Below1(x.q) /\ x.fail THEN {"SERVFAIL"}
  ELSE IF AllowedAnswers(x) # {} THEN {"NOERROR"}
  ELSE RCodes \ {"NOTIMP"}                                         \* no data: the statement leaves the code free
NeedAuthSOA(x) == Deeper(x.q) /\ x.t # "ANY"                       \* authoritative name error with the SOA
Decl(x, out) ==
  /\ out.answers = AllowedAnswers(x)
  /\ out.rcode \in AllowedRCodes(x)
  /\ NeedAuthSOA(x) => (out.aa /\ out.soa)
  /\ (Deeper(x.q) /\ out.rcode = "NXDOMAIN") => (out.aa /\ out.soa)

-------------------------------------------------------------------------------
VARIABLES c, done
vars == <<c, done>>
Expected(x) == [answers |-> AllowedAnswers(x), rcodes |-> AllowedRCodes(x),
                authsoa |-> NeedAuthSOA(x), authsoa_if_nx |-> Deeper(x.q), impl |-> Impl(x).rcode]
Init == c \in Cases /\ done = FALSE
Next == done = FALSE /\ done' = TRUE /\ c' = c /\ Emit([c |-> c, e |-> Expected(c)])
Spec == Init /\ [][Next]_vars

ImplMeetsDecl == Decl(c, Impl(c))
===============================================================================
