SPECIFICATION TSpec
CONSTANTS
  Keys <- TKeys
  HashOf <- THash
  H = 2
  Vals = {"v1", "v2", "v3", "v4"}
  Kids = {"c1", "c2"}
  Family = "contract"
  TTLs = {2}
  LeaseKeys = {}
  MaxNow = 0
POSTCONDITION Report
CHECK_DEADLOCK FALSE
