SPECIFICATION Spec
CONSTANTS
  Family = "race_obs"
  MaxSucc = 4
  Menu = "small"
  MaxLevel = 3
  SimDepth = 10
INVARIANT ImplMeetsDecl
CHECK_DEADLOCK FALSE

