\* C40 exhaustive: payloads in both directions, every chunking, either application finishing first (cleanly or with
\* an error), streams with failing writes; both kinds of peers (writes to a finished peer keep working / fail).
\* The end-to-end clause is required for half-close peers only (see MC_BiPipe_fullclose_e2e.cfg).
SPECIFICATION Spec
CONSTANTS
  Pay <- Pay21
  Errors = TRUE
  CloseModes = {TRUE, FALSE}
  Variant = "code"
INVARIANTS InvInOrder InvDelivered InvBothClosed InvCompleted InvEndToEnd InvNoHalfOpen
CHECK_DEADLOCK FALSE
