SPECIFICATION GenSpec
CONSTANTS
  Keys = {"k", "p"}
  Children = {"c", "d"}
  Vals = {"1", "2"}
  MaxHist = 7
  SkipOnlyAtTail = FALSE
  MaxCrash = 2
  SkipConflictOnReplay = FALSE
INVARIANTS EmitHistory
CHECK_DEADLOCK FALSE
