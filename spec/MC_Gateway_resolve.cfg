SPECIFICATION Spec
CONSTANTS
  Family = "resolve"
  Variant = "repaired"
  Depth = 0
INVARIANT ImplMeetsDecl
CHECK_DEADLOCK FALSE
