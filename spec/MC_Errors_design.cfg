SPECIFICATION Spec
CONSTANTS
  Family = "design"
  Repaired = TRUE
INVARIANT DesignHolds
CHECK_DEADLOCK FALSE
