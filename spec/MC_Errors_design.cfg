SPECIFICATION Spec
CONSTANTS
  Family = "design"
INVARIANT DesignHolds
CHECK_DEADLOCK FALSE
