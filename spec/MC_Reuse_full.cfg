SPECIFICATION Spec
CONSTANTS
  Mode = "full"
  Fix = "none"
  TableFile = ""
  Pre = {"none", "both", "aOnly", "bOnly"}
INVARIANT TypeOK WatchIsCache NoSplit CacheAgree
CHECK_DEADLOCK FALSE
