------------------------------- MODULE CertStore -------------------------------
(* C49.  acme/storage.go: ChordStorage = certmagic storage (Store/Load/Delete/Exists/Stat/List) plus
   Lock/Unlock over leases of the DHT.

   Family "files": a file store over path-like keys.  Keys are sequences of name tokens (the driver joins
   them with "/").  Several storage instances share one store.  The whole state graph is enumerated and
   every edge is printed with the result the file store gives; checks/c49.py turns the edges into a
   covering walk which drv/certstore executes on real ChordStorage instances over a real DHT node.
       load    -> the last stored value, or "absent"
       exists  -> whether a value is stored
       stat    -> existence and the stored value (the driver checks size and terminal flag)
       delete  -> afterwards absent
       list    -> non-recursive: the immediate children of a directory (files and sub-directories, full
                  keys), each once.  Directories exist only while they contain a file.

   Family "locks": lock = lease.  Time is a counter; a holder that is alive renews before its lease runs
   out; a holder that died (Abandon) keeps the lease until it expires.  TLC checks Mutex on every reachable
   state and prints behaviours (hist) which the driver executes with the real clock; the hold intervals it
   records are judged by family "lock_obs" (NoOverlap, evaluated by TLC on the recorded numbers). *)
EXTENDS Integers, Sequences, FiniteSets, TLC, Json

CONSTANTS Family,     \* "files" | "locks" | "lock_obs"
          PathSet,    \* which key set (see PathSeqOf)
          NVal,       \* values 1..NVal
          NInst,      \* storage instances 1..NInst
          NNames,     \* locks: 1 or 2 lock names
          TTL, MaxT,  \* locks: lease duration and time bound in ticks
          HistLen     \* locks: length of the printed behaviours

Emit(r) == PrintT("@@" \o ToJson(r))
Inst == 1..NInst

-------------------------------------------------------------------------------
(* keys *)
PathSeqOf(ps) ==
  CASE ps = "shared"  -> << <<"d", "a">>, <<"d", "b", "c">>, <<"e">> >>            \* shared directory prefix d
    [] ps = "sibling" -> << <<"d", "a">>, <<"d2", "e">> >>                          \* a sibling whose NAME extends the listed one
    [] ps = "filedir" -> << <<"d", "a">>, <<"d", "a", "x">>, <<"d", "b">> >>             \* a name that is a key and a directory at once
    [] ps = "deep"    -> << <<"d", "a">>, <<"d", "b", "c">>, <<"d", "b", "d">>, <<"e", "f">>, <<"g">> >>
PathSeq == PathSeqOf(PathSet)
NP == Len(PathSeq)
IsPrefix(p, q) == Len(p) <= Len(q) /\ SubSeq(q, 1, Len(p)) = p
(* directories that may be listed: every proper ancestor of a key, the root, and one that never exists *)
Dirs == UNION {{SubSeq(PathSeq[i], 1, n) : n \in 0..Len(PathSeq[i]) - 1} : i \in 1..NP} \cup {<<"nodir">>}
DirSeq == CHOOSE s \in [1..Cardinality(Dirs) -> Dirs] : \A i, j \in 1..Cardinality(Dirs) : i # j => s[i] # s[j]

(* the file store: val[i] = 0 (absent) or the stored value of key i *)
Children(val, dir) ==
  {SubSeq(PathSeq[i], 1, Len(dir) + 1) : i \in {j \in 1..NP : val[j] # 0 /\ IsPrefix(dir, PathSeq[j]) /\ Len(PathSeq[j]) > Len(dir)}}

FileOps ==      [k : {"store"}, i : Inst, p : 1..NP, v : 1..NVal]
           \cup [k : {"load", "delete", "exists", "stat"}, i : Inst, p : 1..NP]
           \cup [k : {"list"}, i : Inst, d : 1..Cardinality(Dirs)]
After(val, op) == CASE op.k = "store"  -> [val EXCEPT ![op.p] = op.v]
                    [] op.k = "delete" -> [val EXCEPT ![op.p] = 0]
                    [] OTHER           -> val
Result(val, op) == CASE op.k = "store"  -> [ok |-> TRUE]
                     [] op.k = "delete" -> [ok |-> TRUE]
                     [] op.k = "load"   -> [v |-> val[op.p]]                    \* 0 = absent
                     [] op.k = "exists" -> [b |-> val[op.p] # 0]
                     [] op.k = "stat"   -> [v |-> val[op.p]]
                     [] op.k = "list"   -> [l |-> Children(val, DirSeq[op.d])]

-------------------------------------------------------------------------------
(* locks *)
Names == IF NNames = 1 THEN {"L"} ELSE {"L", "da"}

VARIABLES val,       \* files
          now,       \* locks: clock
          lease,     \* locks: lease[n] = expiry of the lease stored in the DHT (0: free); the token IS the expiry
          hold,      \* locks: hold[i][n] = "no" | "alive" (holds and renews) | "dead" (died holding it)
          hexp,      \* locks: hexp[i][n] = expiry of the token instance i got last
          req,       \* locks: pending Lock calls <<i, n>>
          hist, c, done
vars == <<val, now, lease, hold, hexp, req, hist, c, done>>

Rec(r) == IF HistLen > 0 THEN Append(hist, r) ELSE hist      \* HistLen = 0: exhaustive check without history
Valid(n) == lease[n] > now                                  \* the lease in the DHT is taken
Holds(i, n) == hold[i][n] = "alive" \/ (hold[i][n] = "dead" /\ hexp[i][n] > now)

(* Lock(n) by instance i.  On a free (or expired) lease the call returns at once; otherwise it polls.  A second
   caller is not admitted while somebody else is already polling for the same name: which of two polling callers
   wins is up to the timers, a schedule could not say *)
Request(i, n) == /\ <<i, n>> \notin req /\ hold[i][n] = "no"
                 /\ \A j \in Inst : <<j, n>> \notin req
                 /\ IF Valid(n)
                    THEN /\ req' = req \cup {<<i, n>>}
                         /\ UNCHANGED <<lease, hold, hexp>>
                    ELSE /\ lease' = [lease EXCEPT ![n] = now + TTL]
                         /\ hold' = [hold EXCEPT ![i][n] = "alive"]
                         /\ hexp' = [hexp EXCEPT ![i][n] = now + TTL]
                         /\ UNCHANGED req
                 /\ UNCHANGED now
                 /\ hist' = Rec([a |-> "request", i |-> i, n |-> n, busy |-> Valid(n)])
Acquire(i, n) == /\ <<i, n>> \in req /\ ~Valid(n)            \* KV.Acquire succeeds only on a free or expired lease
                 /\ req' = req \ {<<i, n>>}
                 /\ lease' = [lease EXCEPT ![n] = now + TTL]
                 /\ hold' = [hold EXCEPT ![i][n] = "alive"]
                 /\ hexp' = [hexp EXCEPT ![i][n] = now + TTL]
                 /\ UNCHANGED now
                 /\ hist' = Rec([a |-> "acquire", i |-> i, n |-> n, busy |-> FALSE])
Release(i, n) == /\ hold[i][n] = "alive"
                 /\ hold' = [hold EXCEPT ![i][n] = "no"]
                 /\ lease' = IF lease[n] = hexp[i][n] THEN [lease EXCEPT ![n] = 0] ELSE lease   \* KV.Release is a CAS on the token
                 /\ UNCHANGED <<hexp, req, now>>
                 /\ hist' = Rec([a |-> "release", i |-> i, n |-> n, busy |-> FALSE])
Abandon(i, n) == /\ hold[i][n] = "alive"                     \* the holder dies: no renewal, no release
                 /\ hold' = [hold EXCEPT ![i][n] = "dead"]
                 /\ UNCHANGED <<lease, hexp, req, now>>
                 /\ hist' = Rec([a |-> "abandon", i |-> i, n |-> n, busy |-> FALSE])
Renew(i, n) == /\ hold[i][n] = "alive" /\ lease[n] = hexp[i][n] /\ lease[n] > now /\ lease[n] < now + TTL
               /\ lease' = [lease EXCEPT ![n] = now + TTL]
               /\ hexp' = [hexp EXCEPT ![i][n] = now + TTL]
               /\ UNCHANGED <<hold, req, now, hist>>
Tick == /\ now < MaxT
        /\ \A i \in Inst, n \in Names : hold[i][n] = "alive" => hexp[i][n] > now + 1     \* a live holder renews in time
        /\ now' = now + 1
        /\ UNCHANGED <<lease, hold, hexp, req, hist>>

(* while one instance holds a lock no other instance obtains it until it is unlocked or its lease expires *)
Mutex == Family = "locks" => \A n \in Names : Cardinality({i \in Inst : Holds(i, n)}) <= 1

-------------------------------------------------------------------------------
(* lock_obs: the hold intervals drv/certstore recorded with the real clock, judged by the property.
   obs_locks.ndjson: one record per behaviour: [iv |-> sequence of [i, n, from, to]] in microseconds. *)
ObsLocks == IF Family = "lock_obs" THEN ndJsonDeserialize("obs_locks.ndjson") ELSE <<>>
Overlaps(iv) == {<<x, y>> \in (1..Len(iv)) \X (1..Len(iv)) :
                    /\ x < y /\ iv[x].n = iv[y].n /\ iv[x].i # iv[y].i
                    /\ iv[x].from < iv[y].to /\ iv[y].from < iv[x].to}

-------------------------------------------------------------------------------
Init == /\ val = [i \in 1..NP |-> 0]
        /\ now = 0 /\ lease = [n \in Names |-> 0] /\ req = {} /\ hist = <<>>
        /\ hold = [i \in Inst |-> [n \in Names |-> "no"]] /\ hexp = [i \in Inst |-> [n \in Names |-> 0]]
        /\ done = FALSE
        /\ c \in (IF Family = "lock_obs" THEN 1..Len(ObsLocks) ELSE {0})

NextFiles == \E op \in FileOps :
               /\ val' = After(val, op)
               /\ Emit([s |-> val, op |-> op, r |-> Result(val, op), t |-> val'])
               /\ UNCHANGED <<now, lease, hold, hexp, req, hist, c, done>>
NextLocks == /\ (HistLen > 0 => Len(hist) < HistLen)
             /\ \/ \E i \in Inst, n \in Names : Request(i, n) \/ Acquire(i, n) \/ Release(i, n) \/ Abandon(i, n)
                \/ \E i \in Inst, n \in Names : Renew(i, n)
                \/ Tick
             /\ UNCHANGED <<val, c, done>>
NextObs == /\ ~done /\ done' = TRUE
           /\ Emit([c |-> c, e |-> [overlaps |-> Overlaps(ObsLocks[c].iv)]])
           /\ UNCHANGED <<val, now, lease, hold, hexp, req, hist, c>>
Next == CASE Family = "files" -> NextFiles
          [] Family = "locks" -> NextLocks
          [] Family = "lock_obs" -> NextObs
Spec == Init /\ [][Next]_vars

(* files: what the statement says, as invariants of the reference model itself *)
FilesSane ==
  Family = "files" =>
    \A d \in 1..Cardinality(Dirs) :
       LET ch == Children(val, DirSeq[d]) IN
       /\ \A x \in ch : Len(x) = Len(DirSeq[d]) + 1 /\ IsPrefix(DirSeq[d], x)
       /\ \A j \in 1..NP : (val[j] # 0 /\ IsPrefix(DirSeq[d], PathSeq[j]) /\ Len(PathSeq[j]) > Len(DirSeq[d]))
                             => \E x \in ch : IsPrefix(x, PathSeq[j])

Header == Family # "files" \/ Emit([paths |-> PathSeq, dirs |-> DirSeq])
ASSUME Header

EmitHist == (Family = "locks" /\ HistLen > 0 /\ Len(hist) = HistLen) => Emit([steps |-> hist])
===============================================================================
