-------------------------------- MODULE Routes --------------------------------
(* Gateway side of the tunnel server: tun/server/route_cache.go (routeCacheLoader) and
   tun/server/server.go (DialClient, getConn, handleProxyConn).

   Family "load" (C28): every combination of per-slot lookup outcomes of the three redundant route
   slots.  Family "dial" (C27): every route set of size 0..MaxRoutes with a per-route connection
   outcome, crossed with the outcome of the lookup itself.

   For both families the code is transcribed ("...Impl") next to the declarative statement of the
   property ("...Decl", a predicate over an arbitrary outcome).  TLC checks Impl against Decl on every
   case and emits each case together with what the *declaration* allows; the cases are replayed into
   the real loader / the real DialClient by harness/drv/routes and judged against the declaration. *)
EXTENDS Integers, Sequences, FiniteSets, TLC, Json

CONSTANTS Family,      \* "load" | "dial"
          MaxRoutes,   \* dial: route sets of size 0..MaxRoutes (<= 3 slots)
          Fixed        \* FALSE: DialImpl transcribes the code as it is; TRUE: with the repaired fallback

Emit(r) == PrintT("@@" \o ToJson(r))
Slots == 1..3

-------------------------------------------------------------------------------
(* The loader's ordering step.  Go: sort.SliceStable(filtered, func(i, j) bool { return local(filtered[i]) })
   - for fewer than 20 elements that is an insertion sort calling less(j, j-1), i.e. "element j is local".
   s is a sequence of route names, L the set of routes that go through the local node. *)
Swap(s, i, j) == [s EXCEPT ![i] = s[j], ![j] = s[i]]
RECURSIVE Sink(_, _, _)
Sink(s, j, L) == IF j > 1 /\ s[j] \in L THEN Sink(Swap(s, j, j-1), j-1, L) ELSE s
RECURSIVE InsSort(_, _, _)
InsSort(s, i, L) == IF i > Len(s) THEN s ELSE InsSort(Sink(s, i, L), i+1, L)
LocalFirstImpl(s, L) == InsSort(s, 2, L)

(* declarative: no route through a remote node precedes a route through the local node
   (the order among local routes and among remote routes is left free, DESIGN 4.0) *)
LocalFirst(s, L) == \A i, j \in 1..Len(s) : (i < j /\ s[j] \in L) => s[i] \in L
SeqSet(s) == {s[i] : i \in 1..Len(s)}
NoDup(s) == \A i, j \in 1..Len(s) : i # j => s[i] # s[j]

-------------------------------------------------------------------------------
(* C28.  A slot outcome: "L" a route whose tunnel server is this node, "R" a route through another node,
   "E" empty value, "X" the KV read failed, "U" a stored value that does not decode.  *)
SlotOutcomes == {"L", "R", "E", "X", "U"}
LoadCases == [Slots -> SlotOutcomes]
IsRoute(o) == o \in {"L", "R"}
IsEmpty(o) == o = "E"
IsFail(o)  == o \in {"X", "U"}

(* routeCacheLoader, transcribed: count not-found and errors, classify, filter, sort *)
RECURSIVE Filter(_, _)
Filter(sl, i) == IF i > 3 THEN <<>> ELSE (IF IsRoute(sl[i]) THEN <<i>> ELSE <<>>) \o Filter(sl, i+1)
LoadImpl(sl) ==
  LET numNotFound == Cardinality({i \in Slots : IsEmpty(sl[i])})
      numError    == Cardinality({i \in Slots : IsFail(sl[i])})
      Loc         == {i \in Slots : sl[i] = "L"}
  IN IF numNotFound = 3 THEN [class |-> "notfound", routes |-> <<>>, ttl |-> "negative"]
     ELSE IF numError = 3 THEN [class |-> "lookupfailed", routes |-> <<>>, ttl |-> "failed"]
     ELSE [class |-> "routes", routes |-> LocalFirstImpl(Filter(sl, 1), Loc), ttl |-> "positive"]

(* the statement: not-found iff every slot is empty, lookup-failed iff every slot failed, otherwise
   exactly the decoded routes, local ones first; the cache time is the one of the class *)
LoadClass(sl) == IF \A i \in Slots : IsEmpty(sl[i]) THEN "notfound"
                 ELSE IF \A i \in Slots : IsFail(sl[i]) THEN "lookupfailed" ELSE "routes"
TTLOf(class) == CASE class = "notfound" -> "negative" [] class = "lookupfailed" -> "failed" [] OTHER -> "positive"
TTLRank(t) == CASE t = "failed" -> 1 [] t = "negative" -> 2 [] t = "positive" -> 3
ASSUME TTLOrder == TTLRank("failed") < TTLRank("negative") /\ TTLRank("negative") < TTLRank("positive")
LoadDecl(sl, out) ==
  LET Loc == {i \in Slots : sl[i] = "L"} IN
  /\ out.class = LoadClass(sl)
  /\ out.ttl = TTLOf(out.class)
  /\ out.class = "routes" =>
       /\ SeqSet(out.routes) = {i \in Slots : IsRoute(sl[i])}
       /\ NoDup(out.routes)
       /\ LocalFirst(out.routes, Loc)
  /\ out.class # "routes" => out.routes = <<>>
LoadExpected(sl) ==
  [class |-> LoadClass(sl), ttl |-> TTLOf(LoadClass(sl)),
   routes |-> IF LoadClass(sl) = "routes" THEN {i \in Slots : IsRoute(sl[i])} ELSE {},
   locals |-> {i \in Slots : sl[i] = "L"}]

-------------------------------------------------------------------------------
(* C27.  Per-route outcome of the attempt to reach the route's client.
   through the local node:  Lok    direct stream opened, link frame accepted
                            Lnd    the client is not connected (transport.ErrNoDirect)
                            Lerr   any other dial error
                            Lsend  stream opened but the link frame cannot be written
   through a remote node:   Rok    remote node answers STATUS_OK (its client stream is open)
                            Rnd    remote node answers NO_DIRECT
                            Rerr   remote node answers UNKNOWN_ERROR (its dial failed otherwise)
                            Rwrong remote node is not the route's tunnel server (UNKNOWN_ERROR)
                            Rdial  the proxy stream to the remote node cannot be opened
                            Rdnd   ... cannot be opened for want of an address (ErrNoDirect) *)
LocalOutcomes  == {"Lok", "Lnd", "Lerr", "Lsend"}
RemoteOutcomes == {"Rok", "Rnd", "Rerr", "Rwrong", "Rdial", "Rdnd"}
RouteOutcomes  == LocalOutcomes \cup RemoteOutcomes
IsOk(o)       == o \in {"Lok", "Rok"}
IsNoDirect(o) == o \in {"Lnd", "Rnd", "Rdnd"}       \* tun.IsNoDirect(err)
SeqsUpTo(S, n) == UNION {[1..k -> S] : k \in 0..n}
(* lookup: "ok" the remaining slots are empty; "partial" one remaining slot fails instead (only if there
   is one); "fail" every slot fails (the route outcomes are then irrelevant: one case) *)
DialCases == [lookup : {"ok", "partial"}, routes : SeqsUpTo(RouteOutcomes, MaxRoutes)]
             \cup {[lookup |-> "fail", routes |-> <<>>]}

(* DialClient, transcribed.  Routes are named by their index in c.routes. *)
RECURSIVE Loop(_, _, _, _)
Loop(c, order, k, noRoute) ==
  IF k > Len(order)
  THEN [kind |-> IF noRoute THEN "notconnected"
                 ELSE IF Fixed /\ Len(order) > 0 THEN "notconnected" ELSE "notfound", client |-> 0]
  ELSE LET o == c.routes[order[k]] IN
       IF IsOk(o) THEN [kind |-> "conn", client |-> order[k]]
       ELSE Loop(c, order, k+1, noRoute \/ IsNoDirect(o))
DialImpl(c) ==
  IF c.lookup = "fail" THEN [kind |-> "lookupfailed", client |-> 0]
  ELSE LET Loc    == {i \in 1..Len(c.routes) : c.routes[i] \in LocalOutcomes}
           order  == LocalFirstImpl([i \in 1..Len(c.routes) |-> i], Loc)
       IN Loop(c, order, 1, FALSE)

(* the statement *)
OkRoutes(c) == {i \in 1..Len(c.routes) : IsOk(c.routes[i])}
LocalOk(c)  == {i \in OkRoutes(c) : c.routes[i] \in LocalOutcomes}
Allowed(c) ==   \* clients that may be handed the connection: a reachable one, a local one if there is any
  IF LocalOk(c) # {} THEN LocalOk(c) ELSE OkRoutes(c)
DialDecl(c, out) ==
  IF c.lookup = "fail" THEN out.kind \notin {"conn"}                 \* nothing is known about H: any error
  ELSE IF Len(c.routes) = 0
       THEN (IF c.lookup = "ok" THEN out.kind = "notfound" ELSE out.kind \in {"notfound", "lookupfailed"})
       ELSE IF OkRoutes(c) # {} THEN out.kind = "conn" /\ out.client \in Allowed(c)
            ELSE out.kind = "notconnected"
DialExpected(c) ==
  [kinds |-> IF c.lookup = "fail" THEN {"notfound", "notconnected", "lookupfailed", "error"}
             ELSE IF Len(c.routes) = 0
                  THEN (IF c.lookup = "ok" THEN {"notfound"} ELSE {"notfound", "lookupfailed"})
                  ELSE IF OkRoutes(c) # {} THEN {"conn"} ELSE {"notconnected"},
   clients |-> IF c.lookup = "fail" THEN {} ELSE Allowed(c),
   locals |-> {i \in 1..Len(c.routes) : c.routes[i] \in LocalOutcomes}]

(* DESIGN section 6 #10: where the code as it is leaves the statement - routes exist, none connects and
   none of the failures is of the no-direct kind: the fallback answers "notfound" *)
Divergent(c) == /\ c.lookup # "fail" /\ Len(c.routes) > 0 /\ OkRoutes(c) = {}
                /\ \A i \in 1..Len(c.routes) : ~IsNoDirect(c.routes[i])

-------------------------------------------------------------------------------
VARIABLES c, done
vars == <<c, done>>

Cases == CASE Family = "load" -> LoadCases
           [] Family = "dial" -> DialCases
Expected(x) == CASE Family = "load" -> LoadExpected(x)
                 [] Family = "dial" -> DialExpected(x)

Init == c \in Cases /\ done = FALSE
Next == done = FALSE /\ done' = TRUE /\ c' = c /\ Emit([c |-> c, e |-> Expected(c)])
Spec == Init /\ [][Next]_vars

(* the theorems *)
ImplMeetsDecl ==
  CASE Family = "load" -> LoadDecl(c, LoadImpl(c))
    [] Family = "dial" -> DialDecl(c, DialImpl(c)) \/ (~Fixed /\ Divergent(c))
(* ... and the divergence is real in the transcription: without the repair the cell is answered "notfound" *)
DivergenceIsExact ==
  Family = "dial" => (Divergent(c) => DialImpl(c).kind = (IF Fixed THEN "notconnected" ELSE "notfound"))
(* the sort transcription puts local routes first whatever the slot outcomes *)
SortIsLocalFirst ==
  Family = "load" => LET Loc == {i \in Slots : c[i] = "L"} IN LocalFirst(LoadImpl(c).routes, Loc)
===============================================================================
