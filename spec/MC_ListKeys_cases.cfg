SPECIFICATION Spec
CONSTANTS
  Family = "cases"
  MaxN = 4
  EmptyKey = FALSE
  DesignKeys = 3
\* INVARIANT CasesConsistent
CHECK_DEADLOCK FALSE
