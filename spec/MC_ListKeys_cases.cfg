SPECIFICATION Spec
CONSTANTS
  Family = "cases"
  MaxN = 4
  EmptyKey = FALSE
  DesignKeys = 2
INVARIANT CasesConsistent
CHECK_DEADLOCK FALSE
