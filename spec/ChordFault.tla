------------------------------ MODULE ChordFault ------------------------------
(* C07 — membership under RPC faults.  ChordKV (chord/local_membership.go, local_chord.go, local_tasks.go,
   local_kv.go) with the RPCs of the join and leave protocols made fallible:

     RequestToJoin            joiner -> (contacted node ->) successor       executeJoin, retried while retryable
     Import                   successor -> joiner (transferKeysUpward)  /  leaver -> successor (transferKeysDownward)
     FinishJoin-advisory      joiner -> predecessor      FinishJoin(true, false)
     FinishJoin-release       joiner -> successor        FinishJoin(false, true)
     RequestToLeave           leaver -> successor        executeLeave, Leave() retries on every error
     FinishLeave-advisory     leaver -> predecessor      FinishLeave(true, false)
     FinishLeave-release      leaver -> successor        FinishLeave(false, true), also on the error paths of executeLeave

   Two fault modes per call:
     fail-before    the request is lost: nothing happens at the callee, the caller sees an error;
     lose-response  the callee handles the request (its whole handler runs), the caller sees an error.
   The caller's reaction is the code's: a join attempt that fails with a retryable error (an expired deadline is
   one, a broken connection is not) is repeated up to MaxTry times and then given up (node back to Inactive);
   a leave attempt is repeated on every error, and after the last one the node simply stays; the conclusion
   calls (advisory / release) are sent once and an error is only logged.
   There is NO timeout on the membership lock (state Transferring) in the code, and none here.

   One model-checking run covers all cells: the cell (RPC, mode, first/every occurrence, error kind, scenario)
   is chosen in the initial state and never changes.  For every reachable state in which the operation has
   finished and no maintenance step (stabilize, checkPredecessor) changes anything any more, the outcome
   — lifecycle state of every node, where every key is stored, which acknowledged keys are still served —
   is emitted.  The set of outcomes per cell is the model's PREDICTION for that cell; checks/c07.py runs each
   cell on real LocalNodes over the fault-injecting RPC fabric and compares. *)
EXTENDS ChordKV, Json

CONSTANTS Scenarios,      \* set of [name, lay, members, joiner, leaver] (0 = none)
          CellSet,        \* set of [rpc, mode, occ, err, scen]; scen is a scenario name
          MaintAny        \* TRUE: stabilize / checkPredecessor interleave with the operation at every step (the design);
                          \* FALSE: they run only once the operation has returned (the schedule of the driver's plain runs)

VARIABLES cell,           \* the cell of this behaviour
          hit             \* calls of the cell's RPC so far (saturates at 2)
fvars == <<s, ops, cell, hit>>

Emit(r) == PrintT("@@" \o ToJson(r))

ScenOf(name) == CHOOSE sc \in Scenarios : sc.name = name
ScenTable == [nm \in {sc.name : sc \in Scenarios} |-> ScenOf(nm)]       \* constant: evaluated once
Scen == ScenTable[cell.scen]

(* the populated ring: every key is stored, with an acknowledged value, at its owner *)
Val1 == [v |-> 1, kids |-> {}]
PopInit(sc) ==
  LET b == InitState(sc.lay, sc.members) IN
  [b EXCEPT !.store = [n \in NodesOf(sc.lay) |-> [k \in KeysOf(sc.lay) |->
                          IF n \in sc.members /\ KB(sc.lay, PrevMember(sc.lay, sc.members, n), k, n, TRUE) THEN Val1 ELSE EmptyVal]],
            !.cur = [k \in KeysOf(sc.lay) |-> Val1]]
InitTable == [nm \in {sc.name : sc \in Scenarios} |-> PopInit(ScenOf(nm))]       \* constant: evaluated once

-------------------------------------------------------------------------------
(* fault selection *)
Mode(rpc) == IF cell.rpc = rpc /\ (cell.occ = "every" \/ hit = 0) THEN cell.mode ELSE "ok"
Bumped(called) == IF cell.rpc \in called /\ hit < 2 THEN hit + 1 ELSE hit     \* called: the RPCs this step performed
Fatal == cell.err = "transport"     \* the joiner does not retry a broken connection; every other caller does not care

(* Import(keys) handled at "to", answer lost: the copies exist at both ends *)
CopyKeys(store, from, to, ks) ==
  [store EXCEPT ![to] = [k \in DOMAIN store[to] |-> IF k \in ks
                             THEN [v |-> store[from][k].v, kids |-> store[to][k].kids \cup store[from][k].kids]
                             ELSE store[to][k]]]

-------------------------------------------------------------------------------
(* JOIN *)
JoinAttemptFailed(t, j, fatal) ==
  IF fatal \/ t.jtry[j] + 1 >= MaxTry THEN [t EXCEPT !.jpc[j] = "failing", !.jtry[j] = @ + 1]
  ELSE [t EXCEPT !.jpc[j] = "req", !.jtry[j] = @ + 1]

(* one attempt: RequestToJoin reaches x = jx[j]; inside its critical section x calls Import at the joiner *)
FJoinLock(j) ==
  /\ JoinLockEn(s, j)
  /\ LET x == s.jx[j]
         mr == Mode("RequestToJoin")
         o == JoinLockOutcome(s, j)
         p == s.pred[x]
         moved == IF o = "granted" THEN {k \in KeysOf(s.lay) : Present(s.store[x][k]) /\ KB(s.lay, p, k, j, TRUE)} ELSE {}
         imports == mr # "fail-before" /\ moved # {}          \* transferKeysUpward calls Import only when there are keys
         mi == IF imports THEN Mode("Import") ELSE "ok"
         t == JoinLockF(s, j) IN
     /\ s' = IF mr = "fail-before" THEN JoinAttemptFailed(s, j, Fatal)
             ELSE IF mi = "fail-before" THEN JoinAttemptFailed(s, j, FALSE)      \* ErrJoinTransferFailure; x reverted to Active
             ELSE IF mi = "lose-response" THEN JoinAttemptFailed([s EXCEPT !.store = CopyKeys(s.store, x, j, moved)], j, FALSE)
             ELSE IF mr = "lose-response" THEN
                     (IF o = "granted"      \* x is locked, has handed its keys over and points to j; j never learns
                      THEN JoinAttemptFailed([t EXCEPT !.jp[j] = s.jp[j], !.jsl[j] = s.jsl[j], !.jpc[j] = "atx"], j, Fatal)
                      ELSE IF Fatal THEN [t EXCEPT !.jpc[j] = "failing"] ELSE t)
             ELSE t
     /\ hit' = Bumped({"RequestToJoin"} \cup (IF imports THEN {"Import"} ELSE {}))

FJoinAdvisory(j) ==
  /\ JoinAdvisoryEn(s, j)
  /\ s' = IF Mode("FinishJoin-advisory") = "fail-before" THEN [s EXCEPT !.jpc[j] = "act"] ELSE JoinAdvisoryF(s, j)
  /\ hit' = Bumped({"FinishJoin-advisory"})

FJoinRelease(j) ==
  /\ JoinReleaseEn(s, j)
  /\ s' = JoinReleaseF(s, j, Mode("FinishJoin-release") = "fail-before")
  /\ hit' = Bumped({"FinishJoin-release"})

(* a retry after the predecessor has already adopted the joiner as its successor (stabilize saw the pointer the lost
   grant left behind): the lookup for the joiner's identifier now ends at the joiner itself, RequestToJoin answers
   ErrDuplicateJoinerID, which is not retryable *)
FJoinDupEn(t, j) == t.jpc[j] = "req" /\ \E z \in NodesOf(t.lay) \ {j} : Live(t, z) /\ Hd(t, z) = j

JoinSteps(j) ==
  \/ FJoinLock(j) \/ FJoinAdvisory(j) \/ FJoinRelease(j)
  \/ /\ UNCHANGED hit
     /\ \/ JoinStartEn(s, j) /\ s' = JoinStartF(s, j)
        \/ FJoinDupEn(s, j) /\ s' = JoinRouteFailF(s, j, TRUE)
        \/ \E x \in NodesOf(s.lay) : JoinRouteEn(s, j, x) /\ s' = JoinRouteF(s, j, x)
        \/ JoinFailEn(s, j) /\ s' = JoinFailF(s, j)
        \/ JoinInstallEn(s, j) /\ s' = JoinInstallF(s, j)
        \/ JoinStabEn(s, j) /\ s' = JoinStabF(s, j)
        \/ JoinFixEn(s, j) /\ s' = JoinFixF(s, j)
        \/ JoinActiveEn(s, j) /\ s' = JoinActiveF(s, j)

-------------------------------------------------------------------------------
(* LEAVE *)
(* RequestToLeave(l) at sc under mode m: <<state afterwards, the leaver believes it holds the lock>> *)
ReqLeave(t, sc, l, m) ==
  LET g == SuccGrantsLeave(t, sc, l)
      t1 == IF g THEN [t EXCEPT !.st[sc] = "Transferring"] ELSE t IN
  IF m = "fail-before" THEN <<t, FALSE>> ELSE IF m = "lose-response" THEN <<t1, FALSE>> ELSE <<t1, g>>
(* FinishLeave(false, true) at sc under mode m *)
RelLeave(t, sc, m) == IF m # "fail-before" /\ t.st[sc] = "Transferring" THEN [t EXCEPT !.st[sc] = "Active"] ELSE t

SuccFirst(t, l, sc) == t.lay.npos[l] > t.lay.npos[sc]      \* asymmetric lock order by identifier

FLeaveFirst(l) ==
  /\ LeaveFirstEn(s, l)
  /\ LET sc == s.ls[l] IN
     IF SuccFirst(s, l, sc) THEN
        LET r == ReqLeave(s, sc, l, Mode("RequestToLeave")) IN
        /\ s' = IF r[2] THEN [r[1] EXCEPT !.lpc[l] = "lock2"] ELSE LeaveRetry(r[1], l)
        /\ hit' = Bumped({"RequestToLeave"})
     ELSE s' = LeaveFirstF(s, l) /\ UNCHANGED hit

FLeaveSecond(l) ==
  /\ LeaveSecondEn(s, l)
  /\ LET sc == s.ls[l] IN
     IF SuccFirst(s, l, sc) THEN        \* local lock second; if it fails the successor is released again
        IF s.st[l] = "Active" THEN s' = LeaveSecondF(s, l) /\ UNCHANGED hit
        ELSE /\ s' = LeaveRetry([RelLeave(s, sc, Mode("FinishLeave-release")) EXCEPT !.lpc[l] = "try"], l)
             /\ hit' = Bumped({"FinishLeave-release"})
     ELSE LET r == ReqLeave(s, sc, l, Mode("RequestToLeave")) IN
          /\ s' = IF r[2] THEN [r[1] EXCEPT !.lpc[l] = "locked"]
                  ELSE LeaveRetry([r[1] EXCEPT !.st[l] = "Active", !.lpc[l] = "try"], l)
          /\ hit' = Bumped({"RequestToLeave"})

(* transferKeysDownward: Import at the successor; on an error the leaver unlocks itself, releases the successor, retries *)
FLeaveTransfer(l) ==
  /\ LeaveTransferEn(s, l)
  /\ LET sc == s.ls[l]
         ks == {k \in KeysOf(s.lay) : Present(s.store[l][k])}
         mi == IF ks # {} THEN Mode("Import") ELSE "ok" IN
     IF mi = "ok" THEN s' = LeaveTransferF(s, l) /\ hit' = Bumped(IF ks # {} THEN {"Import"} ELSE {})
     ELSE LET t1 == IF mi = "lose-response" THEN [s EXCEPT !.store = CopyKeys(s.store, l, sc, ks)] ELSE s
              t2 == RelLeave([t1 EXCEPT !.st[l] = "Active"], sc, Mode("FinishLeave-release")) IN
          /\ s' = LeaveRetry([t2 EXCEPT !.lpc[l] = "try"], l)
          /\ hit' = Bumped({"Import", "FinishLeave-release"})

FLeaveAdvisory(l) ==
  /\ LeaveAdvisoryEn(s, l)
  /\ IF s.lp[l] # l
     THEN /\ s' = IF Mode("FinishLeave-advisory") = "fail-before" THEN [s EXCEPT !.lpc[l] = "left"] ELSE LeaveAdvisoryF(s, l)
          /\ hit' = Bumped({"FinishLeave-advisory"})
     ELSE s' = LeaveAdvisoryF(s, l) /\ UNCHANGED hit

FLeaveRelease(l) ==
  /\ LeaveReleaseEn(s, l)
  /\ IF s.ls[l] # l
     THEN /\ s' = LeaveReleaseF(s, l, Mode("FinishLeave-release") = "fail-before")
          /\ hit' = Bumped({"FinishLeave-release"})
     ELSE s' = LeaveReleaseF(s, l, FALSE) /\ UNCHANGED hit

LeaveSteps(l) ==
  \/ FLeaveFirst(l) \/ FLeaveSecond(l) \/ FLeaveTransfer(l) \/ FLeaveAdvisory(l) \/ FLeaveRelease(l)
  \/ /\ UNCHANGED hit
     /\ \/ LeaveStartEn(s, l) /\ s' = LeaveStartF(s, l)
        \/ LeaveReadEn(s, l) /\ s' = LeaveReadF(s, l)
        \/ LeaveLeftEn(s, l) /\ s' = LeaveLeftF(s, l)

-------------------------------------------------------------------------------
OpFinished(t) == /\ Scen.joiner # 0 => t.jpc[Scen.joiner] \in {"done", "failed"}
                 /\ Scen.leaver # 0 => t.lpc[Scen.leaver] \in {"done", "failed"}

FMaintenance ==
  /\ UNCHANGED hit
  /\ MaintAny \/ OpFinished(s)
  /\ \E n \in NodesOf(s.lay) :
        \/ StabilizeEn(s, n) /\ s' = StabilizeF(s, n) /\ s' # s
        \/ CheckPredEn(s, n) /\ s' = CheckPredF(s, n) /\ s' # s

FInit == /\ cell \in CellSet
         /\ hit = 0
         /\ ops = <<>>
         /\ s = InitTable[cell.scen]

FNext == /\ UNCHANGED <<cell, ops>>
         /\ \/ (Scen.joiner # 0 /\ JoinSteps(Scen.joiner))
            \/ (Scen.leaver # 0 /\ LeaveSteps(Scen.leaver))
            \/ FMaintenance

FSpec == FInit /\ [][FNext]_fvars

-------------------------------------------------------------------------------
(* what the property speaks about, at quiescence *)
MaintFix(t) == \A n \in NodesOf(t.lay) : /\ StabilizeEn(t, n) => StabilizeF(t, n) = t
                                         /\ CheckPredEn(t, n) => CheckPredF(t, n) = t
Quiescent(t) == Quiet(t) /\ OpFinished(t) /\ MaintFix(t)

(* an acknowledged key is served: some node that answers requests holds its current value and accepts the key as its own *)
Served(t, k) == \E z \in NodesOf(t.lay) : t.st[z] = "Active" /\ t.store[z][k] = t.cur[k] /\ LocalDecision(t, z, k) = "local"
Stuck(t) == {n \in NodesOf(t.lay) : t.st[n] \notin {"Inactive", "Active", "Left"}}
Unserved(t) == {k \in KeysOf(t.lay) : Present(t.cur[k]) /\ ~Served(t, k)}
Lost(t) == {k \in KeysOf(t.lay) : Present(t.cur[k]) /\ ~\E n \in NodesOf(t.lay) : t.store[n][k] = t.cur[k]}
C07Holds(t) == Quiescent(t) => (Stuck(t) = {} /\ Unserved(t) = {})

Outcome(t) == [t |-> "outcome", cell |-> cell, fired |-> (hit > 0),
               st |-> t.st,
               holders |-> [k \in KeysOf(t.lay) |-> Holders(t, k)],
               unserved |-> Unserved(t), lost |-> Lost(t), stuck |-> Stuck(t)]

(* always true; emits the prediction *)
InvEmitOutcome == Quiescent(s) => Emit(Outcome(s))
(* holds in every cell: a stored copy of an acknowledged value exists somewhere and nothing else is stored *)
InvFNoLoss == NoLoss(s)
InvFNoGhost == NoGhost(s)
===============================================================================
