--------------------------- MODULE Trace_TunnelRace ---------------------------
(* Recorded DHT operations of racing PublishTunnel / UnpublishTunnel / ReleaseTunnel requests on the real handlers
   (drv/tunctl race: every operation of a marked request passes the gate of the fake node and is recorded with its
   result) validated against TunnelRace: every recorded operation must be the enabled action of its request, with the
   result the specification gives (Acquire conflict <=> the lease is taken, PrefixContains <=> registered), every
   request must return the specification's outcome, and the projected DHT content at the end must be the
   specification's state.  Runs are concatenated (reset lines); a run with an unexplained line is reported and skipped. *)
EXTENDS TunnelRace, Json

Trace == ndJsonDeserialize("trace.ndjson")
VARIABLES l, ok, bad
tvars == <<s, s0, l, ok, bad>>
Emit(r) == PrintT("@@" \o ToJson(r))

TInit == /\ l = 1 /\ ok = TRUE /\ bad = <<>>
         /\ s = InitS(<<"publish">>, FALSE, NoRoutes, FALSE) /\ s0 = Abs(s)

ToRoutes(q) == [i \in Slots |-> q[i]]
Pick(ev, st) ==        \* the slot the event acts on: logged for put / del, any outstanding one for look
  IF ev.a \in {"put", "del"} THEN ev.i
  ELSE IF ev.a = "look" /\ ev.r \in Reqs(st) /\ st.todo[ev.r] # {} THEN CHOOSE i \in st.todo[ev.r] : \A j \in st.todo[ev.r] : i <= j
  ELSE 1
ResOK(ev, st) ==
  CASE ev.a = "acq" -> (ev.res = "ok") = (st.lease = 0) /\ ev.res \in {"ok", "conflict"}
    [] ev.a = "chk" -> (ev.res = "true") = st.reg /\ ev.res \in {"true", "false"}
    [] OTHER        -> ev.res = "ok"
Explained(ev, st) ==
  CASE ev.t = "op"  -> ev.a \in Acts /\ En(st, ev.r, ev.a, Pick(ev, st)) /\ ResOK(ev, st)
    [] ev.t = "ret" -> ev.r \in Reqs(st) /\ st.pc[ev.r] = "done" /\ (ev.res = "true") = (st.out[ev.r] = "ok")
    [] ev.t = "end" -> Done(st) /\ Abs(st) = [reg |-> ev.reg, custom |-> ev.custom, routes |-> ToRoutes(ev.routes)]
    [] OTHER        -> FALSE

Step ==
  /\ l <= Len(Trace)
  /\ LET ev == Trace[l] IN
     IF ev.t = "reset"
     THEN /\ s' = InitS(ev.kinds, ev.reg, ToRoutes(ev.routes), ev.custom)
          /\ s0' = [reg |-> ev.reg, custom |-> ev.custom, routes |-> ToRoutes(ev.routes)]
          /\ ok' = TRUE /\ bad' = bad
     ELSE IF ~ok THEN UNCHANGED <<s, s0, ok, bad>>              \* the rest of a run that went off the specification
     ELSE IF ~Explained(ev, s) THEN /\ ok' = FALSE /\ bad' = Append(bad, l) /\ UNCHANGED <<s, s0>>
     ELSE /\ s' = IF ev.t = "op" THEN F(s, ev.r, ev.a, Pick(ev, s)) ELSE s
          /\ UNCHANGED <<s0, ok, bad>>
  /\ l' = l + 1
TSpec == TInit /\ [][Step]_tvars

(* every validated run also satisfies the statement on the specification's side *)
RunLinearizable == (ok /\ Done(s)) => LinearizableFrom(s0, s)
Report == l = Len(Trace) + 1 => Emit([t |-> "verdict", lines |-> Len(Trace), bad |-> bad])
=============================================================================
