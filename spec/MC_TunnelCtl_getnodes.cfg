SPECIFICATION Spec
CONSTANTS
  Family = "getnodes"
  MaxSucc = 4
  Menu = "small"
  MaxLevel = 3
  SimDepth = 10
INVARIANT ImplMeetsDecl
CHECK_DEADLOCK FALSE

