----------------------------- MODULE SqliteCrash -----------------------------
(* Oracle of C23 (the SQLite store keeps every committed operation across a crash).  The histories that the check runs on
   the real store (drv/sqlcrash) are read from sqlcrash_hist.ndjson; for every history TLC evaluates the reference model of
   the KV contract (operator Do of KVStore) and emits, for every prefix of the history, the reply of its last operation and
   the projection of the store a reopen must show: simple value, children and lease of every key and the two key listings
   ListKeys("") and RangeKeys(0, 0) that the contract derives from that content.
   The crash property itself is decided on the observations:  a recovered projection p of a run that was killed after `acked`
   acknowledgements of a history h of n operations is legal iff  \E j \in acked..n : p = Prefix(h, j)  (Legal below; the check
   evaluates it over the emitted prefix projections). *)
EXTENDS KVStore

Hists == ndJsonDeserialize("sqlcrash_hist.ndjson")        \* one line per history: [ops |-> <<op, ...>>]

CKeys == << <<"a">>, <<"a", "b">>, <<"b">> >>             \* "a" is a prefix of "ab"
CHash == <<1, 2, 2>>                                      \* only RangeKeys(0, 0) = everything is used

SetOf(s) == {s[i] : i \in DOMAIN s}

(* one operation of a history: the KV contract plus Import (simple value overwritten, children united: kv/sqlite3 provider.go,
   same meaning as the import of the append-only log in AOF.tla), a lease held for an hour on a clock that does not move, and
   "reopen" = clean Close followed by New, which must not change the content *)
Step(s, op) ==
  CASE op.m = "import"     -> [st |-> [s EXCEPT !.simple = [j \in KI |-> IF j \in SetOf(op.ks) THEN op.v ELSE @[j]],
                                                !.kids = [j \in KI |-> IF j \in SetOf(op.ks) THEN @[j] \cup SetOf(op.cs) ELSE @[j]]],
                               ret |-> [e |-> "ok"]]
    [] op.m = "removekeys" -> Do(s, [m |-> "removekeys", ks |-> SetOf(op.ks)])
    [] op.m = "acquire"    -> Do(s, [m |-> "acquire", k |-> op.k, ttl |-> 2])
    [] op.m = "release"    -> Do(s, [m |-> "release", k |-> op.k, tok |-> "cur"])
    [] op.m \in {"reopen", "importfill", "removefill"} -> [st |-> s, ret |-> [e |-> "ok"]]
    [] OTHER               -> Do(s, op)

Proj(s) == [simple |-> s.simple, kids |-> s.kids, lease |-> [i \in KI |-> s.lease[i] # 0],
            listed |-> Do(s, [m |-> "listkeys", p |-> <<>>]).ret.ks,
            ranged |-> Do(s, [m |-> "rangekeys", lo |-> 0, hi |-> 0]).ret.ks]

(* "its key listings stay consistent with its stored data": a key is listed with a kind iff it holds data of that kind *)
Consistent(p) ==
  /\ p.listed = UNION {{<<Keys[j], "SIMPLE">> : x \in {1} \cap (IF p.simple[j] # None THEN {1} ELSE {})}
                       \cup {<<Keys[j], "PREFIX">> : x \in {1} \cap (IF p.kids[j] # {} THEN {1} ELSE {})}
                       \cup {<<Keys[j], "LEASE">> : x \in {1} \cap (IF p.lease[j] THEN {1} ELSE {})} : j \in KI}
  /\ p.ranged = {Keys[j] : j \in {j \in KI : p.simple[j] # None \/ p.kids[j] # {} \/ p.lease[j]}}

(* bulk operations: one Import of n filler keys (keys of their own, outside Keys) and one RemoveKeys of n filler keys; each is one
   operation of the history, so a recovered store holds all of a bulk import's keys or none, and none or all of a removed range.
   The filler keys are projected to their number. *)
FillAfter(f, op) == CASE op.m = "importfill" -> IF op.n > f THEN op.n ELSE f
                      [] op.m = "removefill" -> IF op.n >= f THEN 0 ELSE f - op.n
                      [] OTHER -> f

RECURSIVE Run(_, _, _, _, _)
Run(ops, i, s, f, acc) == IF i > Len(ops) THEN acc
                          ELSE LET r == Step(s, ops[i])
                                   nf == FillAfter(f, ops[i])
                               IN Run(ops, i + 1, r.st, nf, Append(acc, [ret |-> r.ret.e, proj |-> [fill |-> nf] @@ Proj(r.st)]))

Prefixes(h) == Run(h.ops, 1, Empty, 0, <<[ret |-> "", proj |-> [fill |-> 0] @@ Proj(Empty)]>>)     \* index j+1 = after j operations
Legal(p, h, acked) == \E j \in acked..Len(h.ops) : p = Prefixes(h)[j + 1].proj

VARIABLES c, done
Init2 == st = Empty /\ c \in 1..Len(Hists) /\ done = FALSE
Next2 == ~done /\ done' = TRUE /\ UNCHANGED <<c, st>> /\ Emit([i |-> c, pre |-> Prefixes(Hists[c])])
Spec2 == Init2 /\ [][Next2]_<<c, done, st>>
(* the reference model keeps its own listings consistent in every prefix state of every history *)
ModelConsistent == done \/ LET pre == Prefixes(Hists[c]) IN \A j \in 1..Len(pre) : Consistent(pre[j].proj)
=============================================================================
