\* C40 lead: with full-close streams (bufconn, closed TCP peer) the side that finishes first can lose bytes it wrote,
\* because the failing write of the opposite direction tears both streams down.  Expected: InvEndToEndAll is
\* violated (replayed on the real tun.Pipe over bufconn by drv/pipes, scenario family "revloss").
SPECIFICATION Spec
CONSTANTS
  Pay <- Pay21
  Errors = FALSE
  CloseModes = {TRUE}
  Variant = "code"
INVARIANTS InvEndToEndAll
CHECK_DEADLOCK FALSE
