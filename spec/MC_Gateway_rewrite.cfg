SPECIFICATION Spec
CONSTANTS
  Family = "rewrite"
  Variant = "repaired"
  Depth = 0
INVARIANT ImplMeetsDecl
CHECK_DEADLOCK FALSE
