---- MODULE MC_ChordRing ----
EXTENDS ChordRing
\* B = 3: positions 0..7; four nodes at 1, 3, 4, 6
LayR4 == [npos |-> <<1, 3, 4, 6>>, kpos |-> <<>>]
\* B = 4: positions 0..15; five nodes
LayR5 == [npos |-> <<1, 4, 6, 9, 14>>, kpos |-> <<>>]
====
