------------------------------- MODULE ListKeys -------------------------------
(* C10  Ring-wide key listing returns exactly the stored keys.

   chord/local_kv.go LocalNode.ListKeys(prefix), asked at any node of a stable ring:
     1. walk:   next := self; loop { next := FindSuccessor(next.ID()+1); if next = self { append self; stop }
                                      if next already seen { error "ring is unstable" }; append next }
     2. fanout: every collected node lists its own store with the direct-target context; the answers are
                concatenated (a node asked twice contributes twice).
   per-store listing (kv/memory/kv.go, kv/sqlite3/provider.go): for every key that has the prefix, one entry
   per kind of data it holds, in the order SIMPLE, PREFIX, LEASE.

   "Impl" below transcribes 1 + 2 on an abstract stable ring (nodes 1..n in ring order, FindSuccessor(id+1) =
   the next node: that is C01; every key is stored at exactly one node: that is C05).  "Decl" is the property:
   the multiset of (key, kind) pairs with that prefix whose kind is present, each exactly once, nothing else.

   Family "design": TLC proves Impl = Decl (as bags) for every ring size, every placement of the keys on the
                    nodes, every asking node, every content assignment and every prefix.
   Family "cases":  TLC enumerates ring size x content assignment and emits the declarative answer for every
                    prefix; drv/listkeys builds each case as a real ring and asks every node.
   Keys and prefixes are sequences of one-letter strings (TLC cannot take strings apart). *)
EXTENDS Integers, Sequences, FiniteSets, Bags, TLC, Json

CONSTANTS Family,        \* "design" | "cases"
          MaxN,          \* ring sizes 1..MaxN
          EmptyKey,      \* BOOLEAN: also store the empty key
          DesignKeys     \* how many of the keys the design family places (its state space is n^keys * n * 8^keys)

Emit(r) == PrintT("@@" \o ToJson(r))

KeySeq == <<  <<"a">>, <<"a", "b">>, <<"a", "b", "c">>, <<"b">>, <<>>  >>
NKeys == IF EmptyKey THEN 5 ELSE 4
Keys == {KeySeq[i] : i \in 1..NKeys}
Prefixes == { <<>>, <<"a">>, <<"a", "b">>, <<"a", "b", "c">>, <<"b">>, <<"c">> }
Kinds == {"SIMPLE", "PREFIX", "LEASE"}

IsPrefix(p, k) == Len(p) <= Len(k) /\ SubSeq(k, 1, Len(p)) = p

-------------------------------------------------------------------------------
(* the property *)
DeclSet(K, content, p) == {x \in K \X Kinds : IsPrefix(p, x[1]) /\ x[2] \in content[x[1]]}
DeclBag(K, content, p) == SetToBag(DeclSet(K, content, p))          \* every pair exactly once

-------------------------------------------------------------------------------
(* the implementation on an abstract stable ring of n nodes *)
Succ(n, i) == (i % n) + 1                     \* FindSuccessor(ModuloSum(i.ID(), 1)) on a stable ring

RECURSIVE Walk(_, _, _, _, _)
Walk(n, self, next, acc, seen) ==
  LET nx == Succ(n, next) IN
  IF nx = self THEN [ok |-> TRUE, nodes |-> Append(acc, self)]
  ELSE IF nx \in seen THEN [ok |-> FALSE, nodes |-> acc]            \* "ring is unstable"
  ELSE Walk(n, self, nx, Append(acc, nx), seen \cup {nx})

(* one store: keys it holds x kinds present, filtered by prefix; a store lists a (key, kind) once *)
StoreList(K, own, content, node, p) ==
  SetToBag({x \in K \X Kinds : own[x[1]] = node /\ IsPrefix(p, x[1]) /\ x[2] \in content[x[1]]})

RECURSIVE Concat(_, _, _, _, _)
Concat(K, own, content, nodes, p) ==
  IF nodes = <<>> THEN EmptyBag
  ELSE StoreList(K, own, content, Head(nodes), p) (+) Concat(K, own, content, Tail(nodes), p)

Impl(K, n, own, content, self, p) ==
  LET w == Walk(n, self, self, <<>>, {}) IN
  [ok |-> w.ok, bag |-> IF w.ok THEN Concat(K, own, content, w.nodes, p) ELSE EmptyBag]

-------------------------------------------------------------------------------
DKeys == {KeySeq[i] : i \in 1..DesignKeys}

DesignCases == UNION {[n : {n}, own : [DKeys -> 1..n], self : 1..n, content : [DKeys -> SUBSET Kinds]] : n \in 1..MaxN}
TableCases  == [n : 1..MaxN, content : [Keys -> SUBSET Kinds]]

VARIABLES c, done
vars == <<c, done>>

Cases == IF Family = "design" THEN DesignCases ELSE TableCases

CaseJson(x)  == [n |-> x.n, content |-> {[k |-> k, kinds |-> x.content[k]] : k \in Keys}]
Expected(x)  == {[p |-> p, ks |-> DeclSet(Keys, x.content, p)] : p \in Prefixes}

Init == c \in Cases /\ done = FALSE
Next == /\ done = FALSE /\ done' = TRUE /\ c' = c
        /\ IF Family = "cases" THEN Emit([c |-> CaseJson(c), e |-> Expected(c)]) ELSE TRUE
Spec == Init /\ [][Next]_vars

(* theorem (family design): walk + fan-out returns exactly the declared multiset, from every node *)
ImplMeetsDecl ==
  Family = "design" =>
    \A p \in Prefixes :
      LET r == Impl(DKeys, c.n, c.own, c.content, c.self, p) IN
      r.ok /\ r.bag = DeclBag(DKeys, c.content, p)

(* family cases: the emitted expectation is what the implementation model answers for a spread placement
   (key i on node i mod n), and it only ever shrinks when the prefix grows *)
RoundRobin(n) == [k \in Keys |-> ((CHOOSE i \in 1..NKeys : KeySeq[i] = k) % n) + 1]
CasesConsistent ==
  Family = "cases" =>
    /\ \A p \in Prefixes : \A self \in 1..c.n :
         Impl(Keys, c.n, RoundRobin(c.n), c.content, self, p).bag = DeclBag(Keys, c.content, p)
    /\ \A p, q \in Prefixes : IsPrefix(p, q) => DeclSet(Keys, c.content, q) \subseteq DeclSet(Keys, c.content, p)
    /\ DeclSet(Keys, c.content, <<>>) = {x \in Keys \X Kinds : x[2] \in c.content[x[1]]}
===============================================================================
