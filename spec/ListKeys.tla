------------------------------- MODULE ListKeys -------------------------------
(* C10  Ring-wide key listing returns exactly the stored keys.

   chord/local_kv.go LocalNode.ListKeys(prefix), asked at any node of a stable ring:
     1. walk:   next := self; loop { next := FindSuccessor(next.ID()+1); if next = self { append self; stop }
                                      if next already seen { error "ring is unstable" }; append next }
     2. fanout: every collected node lists its own store with the direct-target context; the answers are
                concatenated (a node asked twice contributes twice).
   per-store listing (kv/memory/kv.go, kv/sqlite3/provider.go): for every key that has the prefix, one entry
   per kind of data it holds, in the order SIMPLE, PREFIX, LEASE.

   "Impl" below transcribes 1 + 2 on an abstract stable ring (nodes 1..n in ring order, FindSuccessor(id+1) =
   the next node: that is C01; every key is stored at exactly one node: that is C05).  "Decl" is the property:
   the multiset of (key, kind) pairs with that prefix whose kind is present, each exactly once, nothing else.

   Family "design": TLC proves Impl = Decl (as bags) for every ring size, every placement of the keys on the
                    nodes, every asking node, every content assignment and every prefix.
   Family "cases":  TLC enumerates every content assignment and emits the declarative answer for every prefix
                    (the answer does not depend on the ring); checks/c10.py crosses them with ring sizes 1..MaxN
                    and node ids, drv/listkeys builds each one as a real ring and asks every node.
   Keys and prefixes are sequences of one-letter strings (TLC cannot take strings apart); keys are referred to
   by their index in KeySeq. *)
EXTENDS Integers, Sequences, FiniteSets, Bags, TLC, Json

CONSTANTS Family,        \* "design" | "cases"
          MaxN,          \* ring sizes 1..MaxN
          EmptyKey,      \* BOOLEAN: also store the empty key
          DesignKeys     \* how many of the keys the design family places (its state space is n^keys * n * 8^keys)

Emit(r) == PrintT("@@" \o ToJson(r))

KeySeq == <<  <<"a">>, <<"a", "b">>, <<"a", "b", "c">>, <<"b">>, <<>>  >>
NKeys == IF EmptyKey THEN 5 ELSE 4
Prefixes == { <<>>, <<"a">>, <<"a", "b">>, <<"a", "b", "c">>, <<"b">>, <<"c">> }
Kinds == {"SIMPLE", "PREFIX", "LEASE"}

IsPrefix(p, k) == Len(p) <= Len(k) /\ SubSeq(k, 1, Len(p)) = p
WithPrefix == [p \in Prefixes |-> {i \in 1..Len(KeySeq) : IsPrefix(p, KeySeq[i])}]     \* constant table

-------------------------------------------------------------------------------
(* the property.  K = number of keys in play, content[i] = the kinds of data key i holds *)
DeclSet(K, content, p) == {x \in (WithPrefix[p] \cap 1..K) \X Kinds : x[2] \in content[x[1]]}
DeclBag(K, content, p) == SetToBag(DeclSet(K, content, p))          \* every pair exactly once

-------------------------------------------------------------------------------
(* the implementation on an abstract stable ring of n nodes *)
Succ(n, i) == (i % n) + 1                     \* FindSuccessor(ModuloSum(i.ID(), 1)) on a stable ring

RECURSIVE Walk(_, _, _, _, _)
Walk(n, self, next, acc, seen) ==
  LET nx == Succ(n, next) IN
  IF nx = self THEN [ok |-> TRUE, nodes |-> Append(acc, self)]
  ELSE IF nx \in seen THEN [ok |-> FALSE, nodes |-> acc]            \* "ring is unstable"
  ELSE Walk(n, self, nx, Append(acc, nx), seen \cup {nx})

(* one store: keys it holds x kinds present, filtered by prefix; a store lists a (key, kind) once *)
StoreList(K, own, content, node, p) ==
  SetToBag({x \in (WithPrefix[p] \cap 1..K) \X Kinds : own[x[1]] = node /\ x[2] \in content[x[1]]})

RECURSIVE Concat(_, _, _, _, _)
Concat(K, own, content, nodes, p) ==
  IF nodes = <<>> THEN EmptyBag
  ELSE StoreList(K, own, content, Head(nodes), p) (+) Concat(K, own, content, Tail(nodes), p)

Impl(K, n, own, content, self, p) ==
  LET w == Walk(n, self, self, <<>>, {}) IN
  [ok |-> w.ok, bag |-> IF w.ok THEN Concat(K, own, content, w.nodes, p) ELSE EmptyBag]

-------------------------------------------------------------------------------
DesignCases == UNION {[n : {n}, own : [1..DesignKeys -> 1..n], self : 1..n, content : [1..DesignKeys -> SUBSET Kinds]] : n \in 1..MaxN}
TableCases  == [content : [1..NKeys -> SUBSET Kinds]]

VARIABLES c, done
vars == <<c, done>>

Cases == IF Family = "design" THEN DesignCases ELSE TableCases

CaseJson(x)  == [content |-> [i \in 1..NKeys |-> [k |-> KeySeq[i], kinds |-> x.content[i]]]]
Expected(x)  == {[p |-> p, ks |-> {<<KeySeq[y[1]], y[2]>> : y \in DeclSet(NKeys, x.content, p)}] : p \in Prefixes}

Init == c \in Cases /\ done = FALSE
Next == /\ done = FALSE /\ done' = TRUE /\ c' = c
        /\ IF Family = "cases" THEN Emit([c |-> CaseJson(c), e |-> Expected(c)]) ELSE TRUE
Spec == Init /\ [][Next]_vars

(* theorem (family design): walk + fan-out returns exactly the declared multiset, from every node *)
ImplMeetsDecl ==
  (Family = "design" /\ done) =>
    \A p \in Prefixes :
      LET r == Impl(DesignKeys, c.n, c.own, c.content, c.self, p) IN
      r.ok /\ r.bag = DeclBag(DesignKeys, c.content, p)

(* family cases: the emitted expectation is what the implementation model answers on the largest ring for a
   spread placement (key i on node i mod n), and it only ever shrinks when the prefix grows *)
RoundRobin(n) == [i \in 1..NKeys |-> (i % n) + 1]
CasesConsistent ==
  (Family = "cases" /\ done) =>
    /\ \A p \in Prefixes :
         Impl(NKeys, MaxN, RoundRobin(MaxN), c.content, 1, p).bag = DeclBag(NKeys, c.content, p)
    /\ \A p, q \in Prefixes : IsPrefix(p, q) => DeclSet(NKeys, c.content, q) \subseteq DeclSet(NKeys, c.content, p)
    /\ DeclSet(NKeys, c.content, <<>>) = {x \in (1..NKeys) \X Kinds : x[2] \in c.content[x[1]]}
===============================================================================
