SPECIFICATION RFairSpec
CONSTANTS
  L = 4
  FixPred = TRUE
  FixLeave = TRUE
  FixWrap = TRUE
  FixDead = TRUE
  FixAdopt = TRUE
  MaxTry = 3
  TrackCov = FALSE
  Goal = "none"
  MCLayout <- LayR4
  InitMembers = {1, 3, 4}
  Joiners = {2}
  Leavers = {3}
  MaxOps = 0
  Faults = FALSE
  OpKinds = {}
  MaxMembers = 0
  B = 3
  FixSelf = TRUE
INVARIANTS InvTerminates InvLookupCorrect
PROPERTY Converges
CHECK_DEADLOCK FALSE
