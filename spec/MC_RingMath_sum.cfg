SPECIFICATION Spec
CONSTANTS
  M = 8
  W = 7
  B = 4
  MaxList = 0
  MaxLen = 1
  Family = "sum"
INVARIANT ImplMeetsDecl NoWrap
CHECK_DEADLOCK FALSE
