-------------------------------- MODULE Router --------------------------------
(* C42.  spec/transport/router.go StreamRouter: dispatch of incoming streams to registered handlers.

   A registration table is
     virt  \subseteq Types \X Targets   handlers registered for (stream type, virtual node)   HandleChord(kind, node, h)
     phys  \subseteq Types              node-wide handlers per type                           HandleChord(kind, nil, h)
     tun   \subseteq Types              handlers for client streams per type                  HandleTunnel(kind, h)
   An incoming stream is <<src, type, target>>: src = "chord" (inter-node, addressed to virtual node `target`)
   or src = "tunnel" (client stream; target is the peer and plays no role).  Incoming targets range over
   Targets, one node nobody registered for, and ids outside the identifier space aliasing the registered ones;
   incoming types over Types plus one type without any handler.

   "Impl" transcribes acceptChord/acceptTunnel (nested maps: type -> (node -> handler)); "Decl" is the statement.
   A handler is named <<"v", type, target>>, <<"p", type>>, <<"t", type>>; <<"closed">> = no handler, stream closed.
   One case = one registration table; the expectation lists the outcome of every incoming stream. *)
EXTENDS Integers, Sequences, FiniteSets, TLC, Json

CONSTANTS NTypes, NTargets

Emit(r) == PrintT("@@" \o ToJson(r))

Types   == 1..NTypes
Targets == 1..NTargets
InTargets == 1..(4*NTargets+1)      \* NTargets+1: a virtual node without any registration; beyond: ids outside the 48-bit
                                    \* identifier space whose low bits equal a registered node's (the driver builds m<<48 | id)
InTypes == 1..NTypes+1              \* NTypes+1: a stream type nobody registers a handler for

Closed == <<"closed">>

-------------------------------------------------------------------------------
(* transcription.  virtualChordHandlers: kind -> map(node id -> handler); the inner map exists as soon as
   one virtual handler of that kind was registered *)
InnerMapExists(virt, k) == \E t \in Targets : <<k, t>> \in virt
ImplChord(virt, phys, k, t) ==
  IF InnerMapExists(virt, k)
  THEN IF <<k, t>> \in virt THEN <<"v", k, t>>                 \* prioritize specific virtual node handler
       ELSE IF k \in phys THEN <<"p", k>> ELSE Closed          \* fallback to root handler
  ELSE IF k \in phys THEN <<"p", k>> ELSE Closed               \* otherwise physical node handler
ImplTunnel(tun, k) == IF k \in tun THEN <<"t", k>> ELSE Closed

(* the statement *)
Decl(reg, src, k, t) ==
  IF src = "chord"
  THEN CASE <<k, t>> \in reg.virt -> <<"v", k, t>>        \* handler for its type and target virtual node
         [] <<k, t>> \notin reg.virt /\ k \in reg.phys -> <<"p", k>>   \* node-wide handler for that type
         [] OTHER -> Closed
  ELSE IF k \in reg.tun THEN <<"t", k>> ELSE Closed

Impl(reg, src, k, t) == IF src = "chord" THEN ImplChord(reg.virt, reg.phys, k, t) ELSE ImplTunnel(reg.tun, k)

-------------------------------------------------------------------------------
Incoming == {<<"chord", k, t>> : k \in InTypes, t \in InTargets} \cup {<<"tunnel", k, NTargets+1>> : k \in InTypes}

NIn == 4*NTargets+1
IncomingSeq ==
  [i \in 1..((NTypes+1) * NIn) |-> <<"chord", ((i-1) \div NIn) + 1, ((i-1) % NIn) + 1>>]
  \o [i \in 1..(NTypes+1) |-> <<"tunnel", i, NTargets+1>>]
ASSUME {IncomingSeq[i] : i \in 1..Len(IncomingSeq)} = Incoming

Cases == [virt : SUBSET (Types \X Targets), phys : SUBSET Types, tun : SUBSET Types]

VARIABLES c, done
vars == <<c, done>>

Expected(reg) == [i \in 1..Len(IncomingSeq) |->
                    LET x == IncomingSeq[i] IN [src |-> x[1], kind |-> x[2], target |-> x[3], h |-> Decl(reg, x[1], x[2], x[3])]]

Init == c \in Cases /\ done = FALSE
Next == done = FALSE /\ done' = TRUE /\ c' = c /\ Emit([c |-> c, e |-> Expected(c)])
Spec == Init /\ [][Next]_vars

ImplMeetsDecl == \A x \in Incoming : Impl(c, x[1], x[2], x[3]) = Decl(c, x[1], x[2], x[3])
(* tables are independent: chord streams never reach client handlers and vice versa *)
Separation == \A x \in Incoming : LET h == Decl(c, x[1], x[2], x[3]) IN
                 (x[1] = "chord" => h[1] \in {"v", "p", "closed"}) /\ (x[1] = "tunnel" => h[1] \in {"t", "closed"})
===============================================================================
