\* C40 liveness: once a side has ended the pipe terminates (both copiers finish, completion is reported), for both
\* kinds of streams; copiers and the completion goroutine scheduled fairly
SPECIFICATION FairSpec
CONSTANTS
  Pay <- Pay21
  Errors = FALSE
  CloseModes = {TRUE, FALSE}
  Variant = "code"
INVARIANTS InvInOrder InvNoHalfOpen
PROPERTY Terminates
CHECK_DEADLOCK FALSE
