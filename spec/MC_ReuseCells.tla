----------------------------- MODULE MC_ReuseCells -----------------------------
(* Case enumeration for the binding of the decision table (C41): every cell once, with the status the
   end must send and the outcome it must reach when nothing changes its cache between the read phase
   and the decision ("recheck" then stores).  drv/reuse drives each cell on a real overlay.QUIC against
   a scripted QUIC peer. *)
EXTENDS ReuseTable

VARIABLES c, done
vars == <<c, done>>

Expected(x) ==
  LET r == Cell(x.ps, x.pd, x.own, x.dir) IN
  [status |-> Status(x.own, x.dir),
   out    |-> IF r = "recheck" THEN "store" ELSE r]

Init == c \in CellCases /\ done = FALSE
Next == done = FALSE /\ done' = TRUE /\ c' = c /\ Emit([c |-> c, e |-> Expected(c)])
Spec == Init /\ [][Next]_vars

(* a cached end never stores, an end that stores was not cached, statuses are well-formed *)
CellSane ==
  LET r == Cell(c.ps, c.pd, c.own, c.dir) IN
  /\ r \in {"err", "reuse", "reuse-close", "recheck"}
  /\ (r = "recheck") => c.own = "none" /\ c.ps = "FRESH" /\ c.pd = Opp(c.dir)
  /\ (r \in {"reuse", "reuse-close"}) => c.own # "none" /\ c.ps = "CACHED" /\ c.pd = Opp(c.own)
===============================================================================
