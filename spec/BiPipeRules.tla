----------------------------- MODULE BiPipeRules -----------------------------
(* C40: the property of tun.Pipe(a, b), stated as a monitor over the event log of one run: a summary that is
   updated event by event (Upd) and the clauses of the property as predicates over the summary.  The same monitor
   judges
     - the behaviours of the model BiPipe.tla (it carries the summary as a variable; TLC checks the clauses), and
     - the runs recorded from the real tun.Pipe over instrumented streams (Trace_BiPipe.tla folds the recorded log).
   Events (records with fields k, s, d, e; s = side 1 or 2, 0 where it does not apply):
     read   s d e   Pipe's Read on stream s returned bytes d with class e ("ok" | "eof" | "err")
     write  s d e   Pipe's Write on stream s accepted bytes d (the first n of what it was given), class "ok" | "err"
     close  s       Pipe called Close on stream s
     done           the channel returned by Pipe was closed (completion)
     awrite s d     the application behind stream s wrote d (bytes Pipe can read from s)
     aread  s d e   the application behind stream s read d (bytes Pipe wrote to s), class e ("eof"/"err": it saw the end)
     aclose s  e    the application behind stream s finished: closed its end ("eof") / broke ("err")
     abreak s       stream s itself is broken from now on (an error-returning stream): its Write fails
   "Side s ends" = a Read on s reports eof/err, or a Write to s fails.  The statement, clause by clause:
     InOrder    at every moment what was written to one side is a prefix of what was read from the other
     Delivered  if the first side to end does so by its Read ending, everything read from it was written to the other
                (unless the Write to the other stream failed)
     BothClosed once a side has ended, Close is called on both streams (after that moment)
     Completed  ... and completion is reported, after both streams were closed
     EndToEnd   (application events, no broken stream) if application s is the first to finish and application o
                reads until it sees the end before closing, o received exactly what s wrote before finishing, and
                did see the end *)
EXTENDS Integers, Sequences

Other(s) == 3 - s
IsPre(x, y) == Len(x) <= Len(y) /\ \A i \in 1..Len(x) : x[i] = y[i]
Both(v) == [s \in {1, 2} |-> v]

S0 == [rd |-> Both(<<>>), wr |-> Both(<<>>),      \* bytes read from / written to each stream by Pipe
       inorder |-> TRUE,
       fe |-> <<>>,                                 \* first ending: <<kind, side>>
       ca |-> Both(FALSE),                          \* Close(s) called after the first ending
       cl |-> Both(FALSE),                          \* Close(s) called at all
       dn |-> <<>>,                                 \* completion reported: <<both streams were closed before>>
       aw |-> Both(<<>>), ar |-> Both(<<>>),        \* application writes (until the first aclose) / reads
       fa |-> <<>>,                                 \* first application to finish: <<side, class>>
       se |-> Both(FALSE),                          \* application s saw the end of its input
       imp |-> Both(FALSE),                         \* application s finished without having seen the end
       hr |-> Both(FALSE),                          \* application s reads are recorded
       wf |-> Both(FALSE),                          \* a Write to stream s failed
       dirty |-> FALSE]                             \* a stream broke / an application ended with an error

Upd(m, e) ==
  LET s == e.s
      ends == e.e # "ok" /\ m.fe = <<>> IN
  CASE e.k = "read" ->
         LET m1 == [m EXCEPT !.rd[s] = @ \o e.d, !.fe = IF ends THEN <<"read", s>> ELSE @] IN
         [m1 EXCEPT !.inorder = @ /\ IsPre(m1.wr[Other(s)], m1.rd[s])]
    [] e.k = "write" ->
         LET m1 == [m EXCEPT !.wr[s] = @ \o e.d, !.fe = IF ends THEN <<"write", s>> ELSE @, !.wf[s] = @ \/ e.e # "ok"] IN
         [m1 EXCEPT !.inorder = @ /\ IsPre(m1.wr[s], m1.rd[Other(s)])]
    [] e.k = "close" -> [m EXCEPT !.cl[s] = TRUE, !.ca[s] = @ \/ m.fe # <<>>]
    [] e.k = "done" -> [m EXCEPT !.dn = IF @ = <<>> THEN <<m.cl[1] /\ m.cl[2]>> ELSE @]
    [] e.k = "awrite" -> [m EXCEPT !.aw[s] = IF m.fa = <<>> THEN @ \o e.d ELSE @]
    [] e.k = "aread" -> [m EXCEPT !.ar[s] = @ \o e.d, !.hr[s] = TRUE, !.se[s] = @ \/ e.e # "ok"]
    [] e.k = "aclose" -> [m EXCEPT !.fa = IF @ = <<>> THEN <<s, e.e>> ELSE @, !.imp[s] = @ \/ ~m.se[s],
                                   !.dirty = @ \/ e.e # "eof"]
    [] e.k = "abreak" -> [m EXCEPT !.dirty = TRUE]
    [] OTHER -> m

RECURSIVE FoldFrom(_, _)
FoldFrom(m, h) == IF h = <<>> THEN m ELSE FoldFrom(Upd(m, Head(h)), Tail(h))
Fold(h) == FoldFrom(S0, h)

InOrder(m) == m.inorder
(* a Read may hand over its last bytes together with the ending (io.Reader allows it): they are delivered too, unless the Write of
   exactly those bytes fails (then the other stream is broken, which is an ending of its own) *)
Delivered(m) == (m.fe # <<>> /\ m.fe[1] = "read") => (m.wr[Other(m.fe[2])] = m.rd[m.fe[2]] \/ m.wf[Other(m.fe[2])])
BothClosed(m) == m.fe # <<>> => m.ca[1] /\ m.ca[2]
Completed(m) == m.fe # <<>> => m.dn = <<TRUE>>
EndToEnd(m) ==
  m.fa # <<>> =>
    LET s == m.fa[1]
        o == Other(s) IN
    (~m.dirty /\ m.hr[o] /\ ~m.imp[o]) => m.ar[o] = m.aw[s] /\ m.se[o]

Verdict(m) == [inorder |-> InOrder(m), delivered |-> Delivered(m), closed |-> BothClosed(m),
               completed |-> Completed(m), endtoend |-> EndToEnd(m),
               fe |-> m.fe, fa |-> m.fa]
RunOK(m) == InOrder(m) /\ Delivered(m) /\ BothClosed(m) /\ Completed(m) /\ EndToEnd(m)
=============================================================================
