SPECIFICATION Spec
CONSTANTS
  Family = "publish_sim"
  MaxSucc = 4
  Menu = "small"
  MaxLevel = 3
  SimDepth = 10
INVARIANT TypeOK
CHECK_DEADLOCK FALSE

