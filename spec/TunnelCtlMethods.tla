--------------------------- MODULE TunnelCtlMethods ---------------------------
(* The methods of protocol.TunnelService and protocol.KeylessService.
   This file is the committed default (the method set of the repository at the time of writing).
   checks/c25.py REGENERATES it in its scratch copy from what harness/drv/tunctl enumerates by Go
   reflection over the two service interfaces, so a method added later is gated by the model (and
   exercised on the real server) without anybody editing the specification. *)
MethodRecs == {
  [svc |-> "TunnelService", name |-> "Ping"],
  [svc |-> "TunnelService", name |-> "RegisterIdentity"],
  [svc |-> "TunnelService", name |-> "GetNodes"],
  [svc |-> "TunnelService", name |-> "GenerateHostname"],
  [svc |-> "TunnelService", name |-> "RegisteredHostnames"],
  [svc |-> "TunnelService", name |-> "PublishTunnel"],
  [svc |-> "TunnelService", name |-> "UnpublishTunnel"],
  [svc |-> "TunnelService", name |-> "ReleaseTunnel"],
  [svc |-> "TunnelService", name |-> "AcmeInstruction"],
  [svc |-> "TunnelService", name |-> "AcmeValidate"],
  [svc |-> "KeylessService", name |-> "GetCertificate"],
  [svc |-> "KeylessService", name |-> "Sign"] }
===============================================================================
