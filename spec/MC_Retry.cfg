SPECIFICATION Spec
CONSTANTS
  MaxAttempts = 3
INVARIANT ImplMeetsDecl ImplUsesAttempts
CHECK_DEADLOCK FALSE
