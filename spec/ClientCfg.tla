------------------------------- MODULE ClientCfg -------------------------------
(* The tunnel client's configuration handling (tun/client):
     tunnel.go      SyncConfigTunnels (hostname assignment), RebuildTunnels, tunnelRemovalWrapper,
                    closeOutdatedProxies, diffTunnels
     reload.go      doReload
     config.go      buildRouter, writeFile
     client.go      handleIncomingDelegation (route load, then proxy load-or-create)
     proxy.go       getHTTPProxy (proxies.LoadOrStoreLazy), forwardStream
     connection.go  getConnectedNodes          rtt/rtt.go  Instrumentation.Snapshot
   Seven families (constant Family):
     "sync"      C43  case table: tunnel lists x registered-hostname sets; SyncImpl (the loop as coded) is
                      proved to satisfy SyncDecl (the statement); every case is emitted for the real code
     "sync_obs"  C43  what the real SyncConfigTunnels produced is judged by SyncDecl
     "nodes"     C50  case table: connected nodes (in address order) x measurement kind per node;
                      NodesImpl (first three + stable sort as coded) is proved to satisfy NodesDecl
     "nodes_obs" C50  the lists the real getConnectedNodes returned are judged by NodesDecl
     "conn" / "conn_gen"
                 C44  state machine: configuration changes (invalidate proxies | rebuild router) racing with
                      connections (load route | load-or-create proxy); invariant CurrentTarget
     "save"      C45  state machine: the file steps of one configuration save + Crash; invariant OldOrNew
     "save_obs"  C45  the file operations recorded (strace) from the real Config.writeFile are replayed on
                      the same file model; every boundary is classified old / new / neither
   The case-table families share the variables c, done; the two state machines have their own
   variables; variables a family does not use stay at their initial dummy value. *)
EXTENDS Integers, Sequences, FiniteSets, TLC, Json

CONSTANTS Family,
          MaxTun, MaxReg,                 \* C43: tunnel lists up to MaxTun, registered sets up to MaxReg
          ConfNames, RegNames,            \* C43: hostnames a user may have configured ("" = none) / the gateway may report
          MaxNodes,                       \* C50: connected nodes 0..MaxNodes
          MaxChanges, MaxConns, LockConn, \* C44: bounds; LockConn = TRUE models the connection path holding
                                          \*      configMu.RLock across route load + proxy load-or-create
          SaveMode, NOld, NNew            \* C45: "inplace" (as coded: O_TRUNC + writes) | "inplace_notrunc" |
                                          \*      "rename" (temp file, rename over); chunks of the old/new file

Emit(r) == PrintT("@@" \o ToJson(r))
Range(f) == {f[i] : i \in DOMAIN f}
SeqsUpTo(S, n) == UNION {[1..k -> S] : k \in 0..n}
SubsetsUpTo(S, n) == {X \in SUBSET S : Cardinality(X) <= n}
Min(a, b) == IF a < b THEN a ELSE b
RECURSIVE SetToSeq(_)
SetToSeq(S) == IF S = {} THEN <<>> ELSE LET x == CHOOSE y \in S : TRUE IN <<x>> \o SetToSeq(S \ {x})

-------------------------------------------------------------------------------
(* C43  SyncConfigTunnels.  A tunnel is [tg |-> has a target, hn |-> configured hostname ("" = none)].
   Hostnames are atoms; IsDotted stands for strings.Contains(hostname, ".") (custom domains). *)
DottedNames == {"c.example.com", "d.example.com"}
IsDotted(h) == h \in DottedNames
Fresh == <<"g1", "g2", "g3", "g4">>                                \* answers of GenerateHostname, in order
TunKinds == [tg : BOOLEAN, hn : ConfNames]

(* the code: available = registered, dot-free, not a key of inused; then one pass over the tunnels *)
Inused(tun) == {tun[i].hn : i \in 1..Len(tun)}
Available(tun, regSeq) == SelectSeq(regSeq, LAMBDA h : ~IsDotted(h) /\ h \notin Inused(tun))
(* fail: the GenerateHostname calls (numbered 1, 2, .. in the order they are made) that the gateway fails; the tunnel then stays
   without a hostname.  ncall counts the calls, nreq the successful ones (they return Fresh[1], Fresh[2], ..) *)
RECURSIVE Assign(_, _, _, _, _, _, _)
Assign(tun, i, avail, nreq, ncall, fail, acc) ==
  IF i > Len(tun) THEN [out |-> acc, gen |-> SubSeq(Fresh, 1, nreq), nfail |-> ncall - nreq]
  ELSE LET t == tun[i] IN
       IF ~t.tg \/ t.hn # "" THEN Assign(tun, i + 1, avail, nreq, ncall, fail, Append(acc, t.hn))
       ELSE IF avail # <<>> THEN Assign(tun, i + 1, Tail(avail), nreq, ncall, fail, Append(acc, Head(avail)))
       ELSE IF (ncall + 1) \in fail THEN Assign(tun, i + 1, avail, nreq, ncall + 1, fail, Append(acc, ""))
       ELSE Assign(tun, i + 1, avail, nreq + 1, ncall + 1, fail, Append(acc, Fresh[nreq + 1]))
SyncImplF(tun, regSeq, fail) == Assign(tun, 1, Available(tun, regSeq), 0, 0, fail, <<>>)
SyncImpl(tun, regSeq) == SyncImplF(tun, regSeq, {})

(* the statement, over an arbitrary outcome: out[i] = hostname of tunnel i afterwards, gen = the hostnames
   newly requested from the gateway during the sync *)
SyncDeclF(tun, reg, out, gen, nfail) ==       \* nfail = failed GenerateHostname calls: that many tunnels may stay without a hostname
  LET N == Len(tun)
      Conf == {tun[i].hn : i \in 1..N} \ {""}
      Asg == {i \in 1..N : tun[i].hn = "" /\ out[i] # ""}        \* hostnames the sync assigned
      Avail == {h \in reg : ~IsDotted(h) /\ h \notin Conf}
      GenSet == Range(gen)
      Used == {out[i] : i \in Asg}
  IN [len      |-> Len(out) = N,
      kept     |-> Len(out) = N /\ \A i \in 1..N : tun[i].hn # "" => out[i] = tun[i].hn,
      has      |-> Len(out) = N /\ Cardinality({i \in 1..N : tun[i].tg /\ out[i] = ""}) <= nfail,
      distinct |-> Len(out) = N /\ (\A i, j \in Asg : i # j => out[i] # out[j]) /\ (\A i \in Asg : out[i] \notin Conf),
      source   |-> Len(out) = N /\ \A i \in Asg : out[i] \in Avail \cup GenSet,     \* only dot-free registered, unused
      reuse    |-> Len(out) = N /\ ((gen # <<>> \/ nfail > 0) => Avail \subseteq Used)]   \* reuse before requesting
SyncDecl(tun, reg, out, gen) == SyncDeclF(tun, reg, out, gen, 0)
AllTrue(r) == \A k \in DOMAIN r : r[k]

SyncCases == [tun : SeqsUpTo(TunKinds, MaxTun), reg : SubsetsUpTo(RegNames, MaxReg), fail : {{}}]
             \cup {x \in [tun : SeqsUpTo(TunKinds, MaxTun), reg : SubsetsUpTo(RegNames, MaxReg), fail : {{1}, {2}, {1, 2}, {1, 3}}] :
                     SyncImplF(x.tun, SetToSeq(x.reg), x.fail).nfail > 0}      \* only where a failing call is really made

-------------------------------------------------------------------------------
(* C50  getConnectedNodes.  A case is the sequence of measurement kinds of the connected nodes in address
   order (the order connections.Range yields).  Kinds: no measurement; only measurements older than the
   10 s window; recent average 10 / 20 / 30; "mix" = an old sample of 1 and a recent sample of 25. *)
NodeKinds == {"none", "stale", "f10", "f20", "f30", "mix", "s2", "s4"}      \* s2 / s4: recent averages 10.2 and 10.4 (less than a millisecond apart)
Recent(k) == k \notin {"none", "stale"}
Avg(k) == CASE k = "f10" -> 100 [] k = "f20" -> 200 [] k = "f30" -> 300 [] k = "mix" -> 250 [] k = "s2" -> 102 [] k = "s4" -> 104 [] OTHER -> 0     \* tenths

(* the comparator of sort.SliceStable, transcribed *)
Less(ks, i, j) ==
  LET lok == Recent(ks[i])  rok == Recent(ks[j]) IN
  IF lok /\ ~rok THEN TRUE
  ELSE IF ~lok /\ rok THEN FALSE
  ELSE Avg(ks[i]) < Avg(ks[j])
RECURSIVE InsertSt(_, _, _)
InsertSt(ks, x, sorted) ==             \* stable insertion: x goes after everything it is not less than
  IF sorted = <<>> THEN <<x>>
  ELSE LET last == sorted[Len(sorted)] IN
       IF Less(ks, x, last) THEN Append(InsertSt(ks, x, SubSeq(sorted, 1, Len(sorted) - 1)), last)
       ELSE Append(sorted, x)
RECURSIVE SortSt(_, _, _)
SortSt(ks, todo, acc) == IF todo = <<>> THEN acc ELSE SortSt(ks, Tail(todo), InsertSt(ks, Head(todo), acc))
NodesImpl(ks) == SortSt(ks, [i \in 1..Min(3, Len(ks)) |-> i], <<>>)

(* the statement over an arbitrary returned list of node indices *)
NodesDecl(ks, out) ==
  [atmost3  |-> Len(out) <= 3,
   members  |-> (\A i \in 1..Len(out) : out[i] \in 1..Len(ks)) /\ (\A i, j \in 1..Len(out) : i # j => out[i] # out[j]),
   measured |-> (\A i \in 1..Len(out) : out[i] \in 1..Len(ks)) /\
                \A i, j \in 1..Len(out) : (i < j /\ Recent(ks[out[j]])) => Recent(ks[out[i]]),
   ascending |-> (\A i \in 1..Len(out) : out[i] \in 1..Len(ks)) /\
                \A i, j \in 1..Len(out) : (i < j /\ Recent(ks[out[i]]) /\ Recent(ks[out[j]])) => Avg(ks[out[i]]) <= Avg(ks[out[j]])]

NodesCases == SeqsUpTo(NodeKinds, MaxNodes)

-------------------------------------------------------------------------------
(* C45 (recorded): the file operations of one real save, abstracted by the recorder: files are named,
   the old configuration file is the single chunk 0, the k-th write of the save carries chunk k at chunk
   position `at` of its file.  ops[j] = [op, f, g, at, id, trunc, creat]. *)
Absent == <<-1>>
OldC == <<0>>
WriteAt(content, i, v) ==
  IF content = Absent THEN Absent
  ELSE IF i <= Len(content) THEN [content EXCEPT ![i] = v] ELSE Append(content, v)
ApplyOp(d, o) ==
  CASE o.op = "open"     -> IF o.trunc /\ d[o.f] # Absent THEN [d EXCEPT ![o.f] = <<>>]
                            ELSE IF d[o.f] = Absent /\ o.creat THEN [d EXCEPT ![o.f] = <<>>] ELSE d
    [] o.op = "write"    -> [d EXCEPT ![o.f] = WriteAt(d[o.f], o.at, o.id)]
    [] o.op = "truncate" -> IF d[o.f] = Absent THEN d ELSE [d EXCEPT ![o.f] = <<>>]
    [] o.op = "rename"   -> IF d[o.f] = Absent THEN d ELSE [d EXCEPT ![o.g] = d[o.f], ![o.f] = Absent]
    [] o.op = "unlink"   -> [d EXCEPT ![o.f] = Absent]
    [] OTHER             -> d                       \* fsync, close
RECURSIVE DiskAfter(_, _, _)
DiskAfter(d, ops, k) == IF k = 0 THEN d ELSE ApplyOp(DiskAfter(d, ops, k - 1), ops[k])
Classify(content, newc) == IF content = OldC THEN "old" ELSE IF content = newc THEN "new" ELSE "neither"
SaveClasses(run) ==
  LET files == {"cfg"} \cup {run.ops[j].f : j \in 1..Len(run.ops)} \cup {run.ops[j].g : j \in 1..Len(run.ops)}
      d0 == [f \in files |-> IF f = "cfg" THEN OldC ELSE Absent]
      newc == [k \in 1..run.nwrites |-> k]
  IN [k \in 1..Len(run.ops) + 1 |-> Classify(DiskAfter(d0, run.ops, k - 1)["cfg"], newc)]

-------------------------------------------------------------------------------
(* observations read back (backward conformance) *)
SyncObs  == IF Family = "sync_obs"  THEN ndJsonDeserialize("obs_sync.ndjson")  ELSE <<>>
NodesObs == IF Family = "nodes_obs" THEN ndJsonDeserialize("obs_nodes.ndjson") ELSE <<>>
SaveObs  == IF Family = "save_obs"  THEN ndJsonDeserialize("obs_save.ndjson")  ELSE <<>>

VARIABLES c, done,                                   \* case tables
          cfg, router, proxy, hk, chg, nchg, conns, hist, fin,   \* C44
          disk, spc, wi, crashed                     \* C45
tabvars  == <<c, done>>
connvars == <<cfg, router, proxy, hk, chg, nchg, conns, hist, fin>>
savevars == <<disk, spc, wi, crashed>>
vars == <<tabvars, connvars, savevars>>

TabIdle  == c = 0 /\ done = TRUE
ConnIdle == cfg = 0 /\ router = 0 /\ proxy = 0 /\ hk = 0 /\ chg = 0 /\ nchg = 0 /\ conns = <<>> /\ hist = <<>> /\ fin = TRUE
SaveIdle == disk = 0 /\ spc = "off" /\ wi = 0 /\ crashed = FALSE

Cases == CASE Family = "sync"      -> SyncCases
           [] Family = "sync_obs"  -> 1..Len(SyncObs)
           [] Family = "nodes"     -> NodesCases
           [] Family = "nodes_obs" -> 1..Len(NodesObs)
           [] Family = "save_obs"  -> 1..Len(SaveObs)
           [] OTHER -> {}

Expected(x) ==
  CASE Family = "sync"      -> SyncImplF(x.tun, SetToSeq(x.reg), x.fail)
    [] Family = "sync_obs"  -> LET r == SyncObs[x] IN SyncDeclF(r.c.tun, Range(r.c.reg), r.o.out, r.o.gen, r.o.nfail)
    [] Family = "nodes"     -> NodesImpl(x)
    [] Family = "nodes_obs" -> LET r == NodesObs[x] IN NodesDecl(r.c, r.o)
    [] Family = "save_obs"  -> SaveClasses(SaveObs[x])

TabInit == c \in Cases /\ done = FALSE /\ ConnIdle /\ SaveIdle
TabNext == done = FALSE /\ done' = TRUE /\ c' = c /\ Emit([c |-> c, e |-> Expected(c)])
           /\ UNCHANGED <<connvars, savevars>>
Spec == TabInit /\ [][TabNext]_vars

(* the theorems of the case tables: the loop as coded meets the statement (for every order in which the
   registered hostnames may be reported: the statement does not depend on it) *)
ImplMeetsDecl ==
  done \/        \* (evaluated once per case, on the initial state)
  CASE Family = "sync"  -> LET r == SyncImplF(c.tun, SetToSeq(c.reg), c.fail) IN AllTrue(SyncDeclF(c.tun, c.reg, r.out, r.gen, r.nfail))
    [] Family = "nodes" -> AllTrue(NodesDecl(c, NodesImpl(c)))
    [] OTHER -> TRUE

-------------------------------------------------------------------------------
(* C44.  Hostnames h1, h2; a configured value t1 / t2 stands for (target, options) of the tunnel; None = not
   configured.  hk[h] = "http" (connections go through the cached reverse proxy of the hostname) or "tcp"
   (forwardStream dials the loaded route directly).
   A change = RebuildTunnels | doReload | tunnelRemovalWrapper: under configMu.Lock
        ChgClose  diff := diffTunnels(old, new); closeOutdatedProxies(diff)       -- gate "client:*:closed" --
        ChgBuild  Tunnels := new; buildRouter(diff)
   A connection = handleIncomingDelegation, without any lock:
        ConnLoad  u, ok := router.Load(hostname)                                  -- gate "client:conn:routed" --
        ConnProxy !ok: close | http: proxies.LoadOrStoreLazy(hostname, proxy for u) and forward | tcp: dial u
   With LockConn the two connection steps are one critical section excluded by a change (ConnLocked). *)
Hosts == {"h1", "h2"}
Targets == {"t1", "t2"}
None == "none"
CfgSpace == [Hosts -> Targets \cup {None}]
Diff(old, new) == {h \in Hosts : old[h] # None /\ old[h] # new[h]}      \* changed or removed (diffTunnels)

H(r) == hist' = IF Family = "conn_gen" THEN Append(hist, r) ELSE hist   \* (the exhaustive check carries no history)
Unfinished(cs) == [i \in 1..Len(cs) |-> IF cs[i].pc = "done" THEN cs[i] ELSE [cs[i] EXCEPT !.quiet = FALSE]]

ConnInit == /\ cfg \in CfgSpace /\ router = cfg /\ proxy = [h \in Hosts |-> None]
            /\ hk \in [Hosts -> {"http", "tcp"}]
            /\ chg = [pc |-> "idle", new |-> cfg, diff |-> {}]
            /\ nchg = 0 /\ conns = <<>> /\ fin = FALSE
            /\ hist = <<[a |-> "init", cfg |-> cfg, hk |-> hk]>>
            /\ TabIdle /\ SaveIdle

ChgClose(kind, new) ==
  /\ ~fin /\ chg.pc = "idle" /\ nchg < MaxChanges /\ new # cfg
  /\ kind = "remove" => \E h \in Hosts : cfg[h] # None /\ new = [cfg EXCEPT ![h] = None]
  /\ LockConn => \A i \in 1..Len(conns) : conns[i].pc = "done"
  /\ LET d == Diff(cfg, new) IN
       /\ proxy' = [h \in Hosts |-> IF h \in d THEN None ELSE proxy[h]]
       /\ chg' = [pc |-> "closed", new |-> new, diff |-> d]
  /\ conns' = Unfinished(conns)
  /\ nchg' = nchg + 1
  /\ H([a |-> "chg_close", kind |-> kind, new |-> new])
  /\ UNCHANGED <<cfg, router, hk, fin>>

ChgBuild ==
  /\ ~fin /\ chg.pc = "closed"
  /\ router' = [h \in Hosts |-> IF chg.new[h] # None THEN chg.new[h]
                                 ELSE IF h \in chg.diff THEN None ELSE router[h]]
  /\ cfg' = chg.new
  /\ chg' = [chg EXCEPT !.pc = "idle"]
  /\ H([a |-> "chg_build"])
  /\ UNCHANGED <<proxy, hk, nchg, conns, fin>>

NewConn(h, pc, got) == [h |-> h, pc |-> pc, route |-> router[h], quiet |-> chg.pc = "idle", want |-> cfg[h], got |-> got]
Outcome(h, route) ==     \* what the connection is forwarded with, and the proxy cache afterwards
  IF route = None THEN [got |-> "dropped", px |-> proxy]
  ELSE IF hk[h] = "tcp" THEN [got |-> route, px |-> proxy]
  ELSE IF proxy[h] = None THEN [got |-> route, px |-> [proxy EXCEPT ![h] = route]]
  ELSE [got |-> proxy[h], px |-> proxy]

ConnLoad(h) ==
  /\ ~fin /\ ~LockConn /\ Len(conns) < MaxConns
  /\ conns' = Append(conns, NewConn(h, "routed", "pending"))
  /\ H([a |-> "conn_load", i |-> Len(conns) + 1, h |-> h])
  /\ UNCHANGED <<cfg, router, proxy, hk, chg, nchg, fin>>

ConnProxy(i) ==
  /\ ~fin /\ conns[i].pc = "routed"
  /\ LET o == Outcome(conns[i].h, conns[i].route) IN
       /\ proxy' = o.px
       /\ conns' = [conns EXCEPT ![i].pc = "done", ![i].got = o.got]
  /\ H([a |-> "conn_proxy", i |-> i])
  /\ UNCHANGED <<cfg, router, hk, chg, nchg, fin>>

ConnLocked(h) ==
  /\ ~fin /\ LockConn /\ chg.pc = "idle" /\ Len(conns) < MaxConns
  /\ LET o == Outcome(h, router[h]) IN
       /\ proxy' = o.px
       /\ conns' = Append(conns, NewConn(h, "done", o.got))
  /\ H([a |-> "conn_locked", i |-> Len(conns) + 1, h |-> h])
  /\ UNCHANGED <<cfg, router, hk, chg, nchg, fin>>

Judged(cn) == cn.pc = "done" /\ cn.quiet
WantObs(cn) == IF cn.want = None THEN "dropped" ELSE cn.want

(* a complete behaviour is emitted once (behaviour generation for the replay into the real client) *)
Finish ==
  /\ Family = "conn_gen"
  /\ ~fin /\ chg.pc = "idle" /\ conns # <<>> /\ \A i \in 1..Len(conns) : conns[i].pc = "done"
  /\ fin' = TRUE
  /\ Emit([c |-> hist,
           e |-> [i \in 1..Len(conns) |-> [got |-> conns[i].got, judged |-> Judged(conns[i]), want |-> WantObs(conns[i])]]])
  /\ UNCHANGED <<cfg, router, proxy, hk, chg, nchg, conns, hist>>

(* which entry point makes the change does not matter to the state (only to the replay): the exhaustive check uses one *)
ChangeKinds == IF Family = "conn_gen" THEN {"rebuild", "reload", "remove"} ELSE {"rebuild"}
ConnNext == /\ \/ \E k \in ChangeKinds, new \in CfgSpace : ChgClose(k, new)
               \/ ChgBuild
               \/ \E h \in Hosts : ConnLoad(h) \/ ConnLocked(h)
               \/ \E i \in 1..Len(conns) : ConnProxy(i)
               \/ Finish
            /\ UNCHANGED <<tabvars, savevars>>
ConnSpec == ConnInit /\ [][ConnNext]_vars
ConnView == <<cfg, router, proxy, hk, chg, nchg, conns, fin>>

(* C44: a connection whose handling overlaps no change is forwarded with what is configured for its
   hostname at that time, and is not forwarded if the hostname is not configured *)
CurrentTarget == \A i \in 1..Len(conns) : Judged(conns[i]) => conns[i].got = WantObs(conns[i])
(* the router and the proxy cache never disagree with the configuration while no change is running
   (what the repair has to establish; violated by the design as coded) *)
CacheCoherent == chg.pc = "idle" /\ (\A i \in 1..Len(conns) : conns[i].pc = "done") =>
                   \A h \in Hosts : router[h] = cfg[h] /\ (proxy[h] # None => proxy[h] = cfg[h])

-------------------------------------------------------------------------------
(* C45 (design).  The configuration file as a sequence of chunks: Old = <<-1..-NOld>>, New = <<1..NNew>>.
   One save: open (truncating or not, or a fresh temp file), NNew writes, sync, (rename,) close.  Crash may
   happen at any boundary; what is on disk afterwards is what a restarted client reads. *)
OldF == [i \in 1..NOld |-> 0 - i]
NewF == [i \in 1..NNew |-> i]
SaveInit == /\ disk = [cfg |-> OldF, tmp |-> Absent] /\ spc = "open" /\ wi = 1 /\ crashed = FALSE
            /\ TabIdle /\ ConnIdle
SvOpen == /\ spc = "open" /\ spc' = "write"
          /\ disk' = CASE SaveMode = "inplace" -> [disk EXCEPT !.cfg = <<>>]
                       [] SaveMode = "inplace_notrunc" -> disk
                       [] SaveMode = "rename" -> [disk EXCEPT !.tmp = <<>>]
          /\ UNCHANGED <<wi, crashed>>
SvWrite == /\ spc = "write" /\ wi <= NNew
           /\ disk' = IF SaveMode = "rename" THEN [disk EXCEPT !.tmp = WriteAt(disk.tmp, wi, NewF[wi])]
                      ELSE [disk EXCEPT !.cfg = WriteAt(disk.cfg, wi, NewF[wi])]
           /\ wi' = wi + 1 /\ UNCHANGED <<spc, crashed>>
SvSync == /\ spc = "write" /\ wi > NNew /\ spc' = (IF SaveMode = "rename" THEN "rename" ELSE "close")
          /\ UNCHANGED <<disk, wi, crashed>>
SvRename == /\ spc = "rename" /\ disk' = [cfg |-> disk.tmp, tmp |-> Absent] /\ spc' = "close"
            /\ UNCHANGED <<wi, crashed>>
SvClose == /\ spc = "close" /\ spc' = "done" /\ UNCHANGED <<disk, wi, crashed>>
Crash == /\ spc \notin {"off", "crashed"} /\ spc' = "crashed" /\ crashed' = TRUE /\ UNCHANGED <<disk, wi>>
SaveNext == (SvOpen \/ SvWrite \/ SvSync \/ SvRename \/ SvClose \/ Crash) /\ UNCHANGED <<tabvars, connvars>>
SaveSpec == SaveInit /\ [][SaveNext]_vars

OldOrNew == crashed => disk.cfg \in {OldF, NewF}          \* C45
SavedIsNew == spc = "done" => disk.cfg = NewF
===============================================================================
