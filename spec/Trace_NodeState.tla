--------------------------- MODULE Trace_NodeState ---------------------------
(* Validation of recorded concurrent histories of the real nodeState (drv/nodestate) against the sequential meaning of
   the lifecycle word: a register updated by compare-and-swap.  Events carry a global sequence number taken from one
   atomic counter at invocation and at return, so their order is consistent with real time.
   A successful Transition(exp, nxt) must linearize at a point of its interval where the state is exp; a failed one is
   legal if at some point of its interval the state differs from exp or another thread's successful swap took place
   (the implementation's CAS is on the whole word); Set always succeeds.  At the end of a history Get() must be the last
   linearized state and History() the initial state followed by the successful transitions in linearization order. *)
EXTENDS Integers, Sequences, FiniteSets, TLC, Json

Trace == ndJsonDeserialize("trace.ndjson")
VARIABLES l, cur, wins, pend, resp, hit
vars == <<l, cur, wins, pend, resp, hit>>
Emit(r) == PrintT("@@" \o ToJson(r))
None == [op |-> "none"]

Init == l = 1 /\ cur = "Inactive" /\ wins = <<>> /\ pend = <<>> /\ resp = <<>> /\ hit = <<>> /\ TLCSet(1, 0)

Threads == DOMAIN pend
Advance == l' = l + 1 /\ TLCSet(1, IF TLCGet(1) > l THEN TLCGet(1) ELSE l)

Reset == /\ Trace[l].e = "reset"
         /\ \A t \in Threads : pend[t] = None
         /\ cur' = Trace[l].init /\ wins' = <<>>
         /\ pend' = [t \in 1..Trace[l].threads |-> None]
         /\ resp' = [t \in 1..Trace[l].threads |-> "none"]
         /\ hit' = [t \in 1..Trace[l].threads |-> FALSE]
         /\ Advance
Inv == /\ Trace[l].e = "inv"
       /\ LET t == Trace[l].t IN
          /\ pend[t] = None
          /\ pend' = [pend EXCEPT ![t] = [op |-> Trace[l].op, exp |-> Trace[l].exp, nxt |-> Trace[l].nxt]]
          /\ resp' = [resp EXCEPT ![t] = "none"]
          /\ hit' = [hit EXCEPT ![t] = FALSE]
       /\ UNCHANGED <<cur, wins>> /\ Advance
(* internal linearization step of thread t *)
Lin(t) == /\ pend[t] # None /\ resp[t] = "none"
          /\ LET c == pend[t] IN
             IF c.op = "S" \/ cur = c.exp
             THEN /\ cur' = c.nxt /\ wins' = Append(wins, c.nxt)
                  /\ resp' = [resp EXCEPT ![t] = "ok"]
                  /\ hit' = [u \in Threads |-> IF u # t /\ pend[u] # None /\ resp[u] = "none" THEN TRUE ELSE hit[u]]
             ELSE /\ resp' = [resp EXCEPT ![t] = "fail"] /\ UNCHANGED <<cur, wins, hit>>
          /\ UNCHANGED <<l, pend>>
(* a failed attempt whose swap was beaten by a concurrent successful one *)
Beaten(t) == /\ pend[t] # None /\ resp[t] = "none" /\ hit[t] /\ pend[t].op = "T"
             /\ resp' = [resp EXCEPT ![t] = "fail"] /\ UNCHANGED <<l, cur, wins, pend, hit>>
Ret == /\ Trace[l].e = "ret"
       /\ LET t == Trace[l].t IN
          /\ resp[t] = (IF Trace[l].ok THEN "ok" ELSE "fail")
          /\ pend' = [pend EXCEPT ![t] = None]
       /\ UNCHANGED <<cur, wins, resp, hit>> /\ Advance
Final == /\ Trace[l].e = "final"
         /\ \A t \in Threads : pend[t] = None
         /\ Trace[l].get = cur
         /\ Trace[l].hist = <<Trace[l].init>> \o wins
         /\ UNCHANGED <<cur, wins, pend, resp, hit>> /\ Advance

Next == l <= Len(Trace) /\ (Reset \/ Inv \/ Ret \/ Final \/ \E t \in Threads : Lin(t) \/ Beaten(t))
Spec == Init /\ [][Next]_vars
(* acceptance: the high-water mark of consumed lines equals the length of the trace *)
Report == Emit([t |-> "hwm", reached |-> TLCGet(1), lines |-> Len(Trace)])
=============================================================================
