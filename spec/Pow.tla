---------------------------------- MODULE Pow ----------------------------------
(* C31.  Proof-of-work acceptance (spec/pow/pow.go VerifySolution, util/hashcash Verify / verifyBits / Solve).
   Families:
     "bits"   verifyBits, transcribed byte-wise, against "the first `bits` bits of the hash are zero" on
              4-byte prefixes over ByteVals for bits 0..MaxBits (TLC proves equality, Go verifyBits is run on every case);
     "accept" acceptance <=> conjunction of the six conditions of the statement: every combination of
              (signature, difficulty, subject, zero bits) x expiry offsets on both sides of "expired" and of the
              window edges; drv/pow concretises each combination into a real signed stamp;
     "stamp"  real stamps whose SHA-256 has exactly bits-1 / exactly bits / more than bits leading zero bits, through the
              real Parse + Verify and VerifySolution;
     "solve"  solver round trip per difficulty. *)
EXTENDS Integers, Sequences, FiniteSets, TLC, Json

CONSTANTS Family,       \* "bits" | "small" (= accept + stamp + solve); every case carries its family in `fam`
          MaxBits,      \* "bits": 0..MaxBits
          ByteVals,     \* "bits": byte values of the prefix
          Expires,      \* "accept": Parameters.Expires in seconds
          Delta,        \* "accept": distance from the edges in seconds (absorbs clock granularity: stamps carry whole seconds)
          Difficulty,   \* "accept": required difficulty
          MaxStamp,     \* "stamp": difficulties 0..MaxStamp
          MaxSolve      \* "solve": difficulties 0..MaxSolve

Emit(r) == PrintT("@@" \o ToJson(r))

RECURSIVE Sorted(_)
Sorted(S) == IF S = {} THEN <<>> ELSE LET m == CHOOSE x \in S : \A y \in S : x <= y IN <<m>> \o Sorted(S \ {m})
SetToSeqC31 == Sorted(ByteVals)

Pow2(n) == <<1, 2, 4, 8, 16, 32, 64, 128, 256>>[n + 1]      \* n in 0..8

-------------------------------------------------------------------------------
(* verifyBits(hash[:n], bits, n) with n as computed by its callers Verify and Solve *)
NBytes(bits) == (bits \div 8) + (IF bits % 8 > 0 THEN 1 ELSE 0)

RECURSIVE VBLoop(_, _, _, _)
VBLoop(hash, bits, i, n) ==                       \* for i := range n   (i is 1-based here)
  IF i > n THEN FALSE                             \* fell out of the loop: return false
  ELSE IF bits > 8
       THEN IF hash[i] # 0 THEN FALSE ELSE VBLoop(hash, bits - 8, i + 1, n)
       ELSE LET pad == 8 - bits IN
            IF hash[i] \div Pow2(pad) = 0 THEN TRUE ELSE VBLoop(hash, bits, i + 1, n)
VerifyBitsImpl(p, bits) ==
  LET n == NBytes(bits) IN
  IF bits = 0 THEN TRUE ELSE VBLoop(SubSeq(p, 1, n), bits, 1, n)

(* declarative: bit k (0 = most significant bit of byte 1) of the prefix *)
Bit(p, k) == (p[(k \div 8) + 1] \div Pow2(7 - (k % 8))) % 2
LeadingZerosAtLeast(p, bits) == \A k \in 0..bits-1 : Bit(p, k) = 0

(* one case = (bits, n, first two bytes); it stands for the 49 prefixes completed by Tails (packed to keep TLC's output short) *)
BV == SetToSeqC31
Tails == [i \in 1..(Len(BV) * Len(BV)) |-> <<BV[((i - 1) \div Len(BV)) + 1], BV[((i - 1) % Len(BV)) + 1]>>]
BitCases == [fam : {"bits"}, bits : 0..MaxBits, n : 0..4, hi : [1..2 -> ByteVals], tails : {Tails}]
BitsOk(x) == x.n = NBytes(x.bits)
Prefix(x, i) == x.hi \o x.tails[i]

-------------------------------------------------------------------------------
(* VerifySolution: the order of the checks in pow.go / hashcash.Verify.  A case fixes the six abstract conditions;
   `zeros` is "the stamp hash has at least `required difficulty` leading zero bits" (the code counts against the
   difficulty written in the stamp, which is the same number once the difficulty check has passed). *)
NoExpiry == 0 - 100000000                   \* the stamp carries no expiry at all (empty field): it has no "not expired", no window
Offsets == {0 - 2*Expires - Delta, 0 - 2*Expires + Delta, 0 - Delta, Delta, Expires, 2*Expires - Delta, 2*Expires + Delta, NoExpiry}
Abs(x) == IF x < 0 THEN 0 - x ELSE x
Fresh(off)  == off > 0 /\ off # NoExpiry     \* has not expired (expiry lies `off` seconds after the check)
Window(off) == Abs(off) <= 2 * Expires /\ off # NoExpiry      \* expires within the allowed window (pow.go: |now - exp| <= 2 * Expires; a zero expiry is refused)

AcceptCases == [fam : {"accept"}, sig : BOOLEAN, diff : BOOLEAN, subj : BOOLEAN, zeros : BOOLEAN, off : Offsets, d : {Difficulty}, expires : {Expires}]

AcceptImpl(x) ==
  IF ~x.sig THEN "signature"                   \* ed25519.Verify(pub_key, solution, signature)
  ELSE IF ~x.diff THEN "difficulty"            \* hc.Difficulty != p.Difficulty
  ELSE IF ~Window(x.off) THEN "window"         \* time.Since(exp).Abs() > 2 * Expires
  ELSE IF ~Fresh(x.off) THEN "expired"         \* hashcash.Verify: ExpiresAt before now
  ELSE IF ~x.subj THEN "subject"
  ELSE IF ~x.zeros THEN "solution"
  ELSE "accept"
AcceptDecl(x) == x.sig /\ x.diff /\ Fresh(x.off) /\ Window(x.off) /\ x.subj /\ x.zeros

-------------------------------------------------------------------------------
StampCases == {x \in [fam : {"stamp"}, bits : 0..MaxStamp, rel : {-1, 0, 1}] : x.bits + x.rel >= 0}   \* leading zeros = bits + rel (rel 1: or more)
SolveCases == [fam : {"solve"}, d : 0..MaxSolve]

VARIABLES c, done
vars == <<c, done>>

Cases == CASE Family = "bits"   -> {x \in BitCases : BitsOk(x)}
           [] Family = "small"  -> AcceptCases \cup StampCases \cup SolveCases      \* one TLC run for the three small families

Expected(x) == CASE x.fam = "bits"   -> [i \in 1..Len(x.tails) |-> LeadingZerosAtLeast(Prefix(x, i), x.bits)]
                 [] x.fam = "accept" -> [accept |-> AcceptDecl(x), fresh |-> Fresh(x.off), window |-> Window(x.off)]
                 [] x.fam = "stamp"  -> x.rel >= 0
                 [] x.fam = "solve"  -> TRUE       \* a proof the solver produced is accepted

Init == c \in Cases /\ done = FALSE
Next == done = FALSE /\ done' = TRUE /\ c' = c /\ Emit([c |-> c, e |-> Expected(c)])
Spec == Init /\ [][Next]_vars

ImplMeetsDecl ==
  CASE c.fam = "bits"   -> \A i \in 1..Len(c.tails) :
                               VerifyBitsImpl(Prefix(c, i), c.bits) = LeadingZerosAtLeast(Prefix(c, i), c.bits)
    [] c.fam = "accept" -> (AcceptImpl(c) = "accept") = AcceptDecl(c)
    [] OTHER -> TRUE
(* all 2^6 combinations of the six conditions occur among the accept cases *)
ASSUME Family = "small" =>
  \A f \in [1..6 -> BOOLEAN] : \E x \in AcceptCases :
     <<x.sig, x.diff, Fresh(x.off), Window(x.off), x.subj, x.zeros>> = f
===============================================================================
