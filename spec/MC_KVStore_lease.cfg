SPECIFICATION Spec
CONSTANTS
  Keys <- Keys2
  HashOf <- Hash2
  H = 3
  Vals = {"v1", "v2"}
  Kids = {"c1", "c2"}
  Family = "lease"
  TTLs = {1, 2, 3, 4}
  LeaseKeys = {}
  MaxNow = 8
INVARIANT TypeOK
CHECK_DEADLOCK FALSE
