------------------------------ MODULE PipeRules ------------------------------
(* C39: what "a faithful byte stream" allows, as constant-level rules over an abstract pipe state
     a = [q   : bytes accepted from the writer and not yet handed to the reader (FIFO),
          wc  : the writer's end has been closed,
          rc  : the reader's end has been closed,
          rdl : a read deadline is set,   wdl : a write deadline is set]
   The rules are shared by
     - BufPipe.tla        the transcription of util/bufconn/bufconn.go; TLC proves that every outcome the
                          ring-buffer / condition-variable code can produce is allowed by these rules, and
     - Trace_BufPipe.tla  validation of call histories recorded from the real bufconn pipe: TLC searches for
                          linearization points of the recorded calls under which every outcome is allowed.
   Nothing here mentions the ring buffer, its capacity handling or condition variables: an implementation
   that keeps the property passes whatever its internals are.
   Error classes: "ok", "eof", "closed" (io.ErrClosedPipe), "timeout" (net.Error with Timeout()), "other". *)
EXTENDS Integers, Sequences

PrefixOf(s, t) == Len(s) <= Len(t) /\ \A i \in 1..Len(s) : s[i] = t[i]
DropN(s, n) == SubSeq(s, n + 1, Len(s))

AbsInit == [q |-> <<>>, wc |-> FALSE, rc |-> FALSE, rdl |-> FALSE, wdl |-> FALSE]

(* A Read asking for at most n bytes that takes effect in state a may report (e, d):
   - data: between 1 and n bytes, exactly the oldest unread bytes, and only while the reader's own end is open
     (a zero-byte success is a no-op and is tolerated);
   - end of stream: only when the writer has closed and everything accepted has been read;
   - any failure when the reader's own end is closed ("reads on a closed end fail");
   - a timeout only while a read deadline is set. *)
ReadAllowed(a, n, e, d) ==
  \/ e = "ok" /\ d = <<>>
  \/ e = "ok" /\ d # <<>> /\ ~a.rc /\ Len(d) <= n /\ PrefixOf(d, a.q)
  \/ e = "eof" /\ d = <<>> /\ a.wc /\ a.q = <<>>
  \/ e \in {"closed", "eof", "other"} /\ d = <<>> /\ a.rc
  \/ e = "timeout" /\ d = <<>> /\ a.rdl
AfterRead(a, d) == [a EXCEPT !.q = DropN(a.q, Len(d))]

(* A Write hands bytes to the pipe one after the other, in order; a byte can be accepted only while the writer's
   own end is open ("writes on a closed end fail": a non-empty write invoked after the close cannot succeed). *)
PushAllowed(a) == ~a.wc
AfterPush(a, byte) == [a EXCEPT !.q = Append(a.q, byte)]

(* A Write of len bytes of which `pushed` were accepted may end with e:
   - success only if every byte was accepted;
   - closed/other only if one of the two ends is closed;  - timeout only while a write deadline is set.
   A failed write may have delivered any prefix (the code reports n = 0 for it; the count is not judged). *)
WriteEndAllowed(a, e, len, pushed) ==
  \/ e = "ok" /\ pushed = len
  \/ e \in {"closed", "other"} /\ (a.wc \/ a.rc)
  \/ e = "timeout" /\ a.wdl

(* A call may stay blocked only while nothing can release it: a Read needs an empty pipe, a Write a pipe holding at
   least cap bytes, both ends open and no expired deadline ("no call blocks forever once the other end closes",
   "deadlines unblock waiting calls"). *)
ReadBlockedLegit(a, expired) == a.q = <<>> /\ ~a.wc /\ ~a.rc /\ ~expired
WriteBlockedLegit(a, cap, expired) == Len(a.q) >= cap /\ ~a.wc /\ ~a.rc /\ ~expired
=============================================================================
