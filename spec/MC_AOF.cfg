SPECIFICATION Spec
CONSTANTS
  Keys = {"k"}
  Children = {"c", "d"}
  Vals = {"1"}
  MaxHist = 4
  SkipOnlyAtTail = FALSE
  MaxCrash = 2
  SkipConflictOnReplay = FALSE
INVARIANTS RecoverOK PrefixState CleanRestart TailLoss
CHECK_DEADLOCK FALSE
