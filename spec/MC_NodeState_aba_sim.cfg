SPECIFICATION Spec
CONSTANTS
  Thread = {"t1", "t2", "t3"}
  States <- MCStatesABA
  Script <- MCScriptABA
VIEW view
INVARIANTS OneWinnerPerWord GetIsLast HistoryComplete EmitAtQuiescence
CHECK_DEADLOCK FALSE
