SPECIFICATION Spec
CONSTANTS
  Family = "cases"
  Repaired = TRUE
CHECK_DEADLOCK FALSE
