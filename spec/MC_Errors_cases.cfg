SPECIFICATION Spec
CONSTANTS
  Family = "cases"
CHECK_DEADLOCK FALSE
