SPECIFICATION Spec
CONSTANTS
  MaxN = 2
  WaitAfterCancel = TRUE
  Family = "design"
  KeepLog = TRUE
INVARIANT ReturnAfterAll Aligned HistoryAccepted
CHECK_DEADLOCK FALSE
