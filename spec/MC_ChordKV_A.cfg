\* leave of b, then join of c at d (the leaver's successor); current design (FixPred = FALSE)
SPECIFICATION Spec
CONSTANTS
  L = 4
  FixPred = FALSE
  FixLeave = FALSE
  FixWrap = FALSE
  FixDead = FALSE
  FixAdopt = FALSE
  MaxTry = 2
  TrackCov = FALSE
  Goal = "none"
  MCLayout <- Lay4
  InitMembers = {1, 2, 4}
  Joiners = {3}
  Leavers = {2}
  MaxOps = 2
  Faults = FALSE
  OpKinds = {"put", "get"}
INVARIANTS InvSingleCopy InvNoLoss InvNoGhost InvOneOp InvNoStuck InvPlacement InvReachable InvNoBad InvNoNonRetryable
CHECK_DEADLOCK FALSE
