SPECIFICATION Spec
CONSTANTS
  Family = "admin"
  Variant = "repaired"
  Depth = 0
INVARIANT ImplMeetsDecl
CHECK_DEADLOCK FALSE
