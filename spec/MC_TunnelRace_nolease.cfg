SPECIFICATION Spec
CONSTANTS
  HoldLease = FALSE
  K = 2
  KindSeqs <- Pairs
  InitRoutes <- BothRoutes
INVARIANT Linearizable LeaseFreed TypeOK
CHECK_DEADLOCK FALSE
