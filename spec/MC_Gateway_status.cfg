SPECIFICATION Spec
CONSTANTS
  Family = "status"
  Variant = "repaired"
  Depth = 0
INVARIANT ImplMeetsDecl
CHECK_DEADLOCK FALSE
