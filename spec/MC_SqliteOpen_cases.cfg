SPECIFICATION Spec
CONSTANTS
  Family = "cases"
  Latest = 1
  MaxUV = 2
  Fixed = FALSE
INVARIANT ImplMeetsDecl DivergenceIsExact RefusalNeverWrites WellFormedOpen
CHECK_DEADLOCK FALSE
