---------------------------- MODULE MC_TunnelRace ----------------------------
EXTENDS TunnelRace
KindsAll == {"publish", "unpublish", "release"}
Pairs == [1..2 -> KindsAll]
Triples == [1..3 -> KindsAll]
PairsAndTriples == Pairs \cup Triples
BothRoutes == {NoRoutes, OldRoutes}
==============================================================================
