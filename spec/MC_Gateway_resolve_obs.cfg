SPECIFICATION Spec
CONSTANTS
  Family = "resolve_obs"
  Variant = "repaired"
  Depth = 0
INVARIANT ImplMeetsDecl
CHECK_DEADLOCK FALSE
