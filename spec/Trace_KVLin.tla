----------------------------- MODULE Trace_KVLin -----------------------------
(* C18: validation of recorded CONCURRENT histories of a real storage backend (drv/kvconc: memory, append-only log, SQLite)
   as linearizable histories of the KV contract.  Every key is a sequential object with three independent parts, taken from the
   reference model KVStore (operator Do): a simple value register, a set of children in which a duplicate append conflicts,
   and a lease (here: the identity of the token that holds it, 0 = free; leases do not expire inside a history).
   Events carry a number from one atomic counter drawn at invocation and at return, so their order is consistent with real time;
   the trace lists them in that order.  Between two events every pending call may take its internal linearization step Lin(t):
   it is enabled only if the sequential reply at that instant is the reply the call really returned (the invocation line carries
   it), and then applies the sequential effect.  A call may return only after its linearization step.  Besides the sequential
   replies one more completion is legal (DESIGN 4.0): Put / Delete answering ErrKVSimpleConflict WITHOUT effect, provided another
   Put / Delete of the same key overlaps the call (the memory backend writes with compare-and-swap).  Nothing else: in particular
   no other error, no second successful append of a child that is present, no second acquisition of a lease that is held, and
   no read that misses an acknowledged write.
   PrefixList is judged child by child (each child's presence or absence in the reply must be explained at some instant of the
   call): the statement speaks about individual appends, and a backend may iterate a concurrent set.
   Acceptance: the trace is linearizable iff some behaviour consumes every line (high-water mark = number of lines). *)
EXTENDS KVStore

Trace == ndJsonDeserialize("kvlin_trace.ndjson")
TKeys == << <<"a">>, <<"b">> >>
THash == <<1, 2>>

VARIABLES l,      \* next trace line
          pend,   \* thread -> pending call [op, ret] or NoCall
          lin,    \* thread -> has its pending call taken effect?
          sub,    \* thread -> children already explained of a pending PrefixList
          hit     \* thread -> did another simple write of the same key overlap the pending simple write?
vars == <<l, st, pend, lin, sub, hit>>
NoCall == [op |-> [m |-> "none"]]
SetOf(s) == {s[i] : i \in DOMAIN s}

TInit == l = 1 /\ st = Empty /\ pend = <<>> /\ lin = <<>> /\ sub = <<>> /\ hit = <<>> /\ TLCSet(1, 0)
Threads == DOMAIN pend
Advance == l' = l + 1 /\ TLCSet(1, IF TLCGet(1) > l THEN TLCGet(1) ELSE l)
IsSimpleWrite(c) == c.op.m \in {"put", "delete"}

Reset == /\ Trace[l].e = "reset"
         /\ \A t \in Threads : pend[t] = NoCall
         /\ st' = Empty
         /\ pend' = [t \in 1..Trace[l].threads |-> NoCall]
         /\ lin' = [t \in 1..Trace[l].threads |-> FALSE]
         /\ sub' = [t \in 1..Trace[l].threads |-> {}]
         /\ hit' = [t \in 1..Trace[l].threads |-> FALSE]
         /\ Advance

Inv == /\ Trace[l].e = "inv"
       /\ LET t == Trace[l].t
              c == [op |-> Trace[l].op, ret |-> Trace[l].ret]
              over == IF IsSimpleWrite(c) THEN {u \in Threads \ {t} : pend[u] # NoCall /\ IsSimpleWrite(pend[u]) /\ pend[u].op.k = c.op.k} ELSE {} IN
          /\ pend[t] = NoCall
          /\ pend' = [pend EXCEPT ![t] = c]
          /\ lin' = [lin EXCEPT ![t] = FALSE]
          /\ sub' = [sub EXCEPT ![t] = {}]
          /\ hit' = [u \in Threads |-> IF u = t THEN over # {} ELSE IF u \in over THEN TRUE ELSE hit[u]]
       /\ UNCHANGED st /\ Advance

(* the sequential object: reply and effect of call c in state s; the lease part carries token identities *)
SeqObj(s, c) ==
  LET k == c.op.k IN
  CASE c.op.m = "acquire" -> IF s.lease[k] = 0 THEN [st |-> [s EXCEPT !.lease[k] = c.ret.tok], ret |-> [e |-> "ok", tok |-> c.ret.tok]]
                             ELSE [st |-> s, ret |-> [e |-> "lease-conflict", tok |-> 0]]
    [] c.op.m = "renew"   -> IF c.op.tok # 0 /\ s.lease[k] = c.op.tok THEN [st |-> [s EXCEPT !.lease[k] = c.ret.tok], ret |-> [e |-> "ok", tok |-> c.ret.tok]]
                             ELSE [st |-> s, ret |-> [e |-> "lease-expired", tok |-> 0]]
    [] c.op.m = "release" -> IF c.op.tok # 0 /\ s.lease[k] = c.op.tok THEN [st |-> [s EXCEPT !.lease[k] = 0], ret |-> [e |-> "ok"]]
                             ELSE [st |-> s, ret |-> [e |-> "lease-expired"]]
    [] c.op.m = "lget"    -> [st |-> s, ret |-> [e |-> "ok", tok |-> s.lease[k]]]
    [] OTHER              -> Do(s, c.op)

Same(c, r) ==          \* the observed reply of c equals the sequential reply r
  /\ c.ret.e = r.e
  /\ c.op.m = "get" => c.ret.v = r.v
  /\ c.op.m = "contains" => c.ret.b = r.b
  /\ c.op.m \in {"acquire", "renew", "lget"} => c.ret.tok = r.tok
  /\ c.op.m \in {"acquire", "renew"} /\ r.e = "ok" => c.ret.tok # 0

Lin(t) == /\ pend[t] # NoCall /\ ~lin[t] /\ pend[t].op.m # "list"
          /\ LET r == SeqObj(st, pend[t]) IN Same(pend[t], r.ret) /\ st' = r.st
          /\ lin' = [lin EXCEPT ![t] = TRUE]
          /\ UNCHANGED <<l, pend, sub, hit>>
(* PrefixList: one step per child *)
LinList(t, ch) == /\ pend[t] # NoCall /\ pend[t].op.m = "list" /\ pend[t].ret.e = "ok" /\ ch \notin sub[t]
                  /\ SetOf(pend[t].ret.l) \subseteq Kids
                  /\ (ch \in st.kids[pend[t].op.k]) = (ch \in SetOf(pend[t].ret.l))
                  /\ sub' = [sub EXCEPT ![t] = @ \cup {ch}]
                  /\ lin' = [lin EXCEPT ![t] = (sub[t] \cup {ch} = Kids)]
                  /\ UNCHANGED <<l, st, pend, hit>>
Ret == /\ Trace[l].e = "ret"
       /\ LET t == Trace[l].t IN
          /\ pend[t] # NoCall
          /\ \/ lin[t]
             \/ ~lin[t] /\ IsSimpleWrite(pend[t]) /\ pend[t].ret.e = "simple-conflict" /\ hit[t]      \* refused, no effect
          /\ pend' = [pend EXCEPT ![t] = NoCall]
       /\ UNCHANGED <<st, lin, sub, hit>> /\ Advance

TNext == l <= Len(Trace) /\ (Reset \/ Inv \/ Ret \/ \E t \in Threads : Lin(t) \/ \E ch \in Kids : LinList(t, ch))
TSpec == TInit /\ [][TNext]_vars
Report == Emit([t |-> "hwm", reached |-> TLCGet(1), lines |-> Len(Trace)])
=============================================================================
