SPECIFICATION Spec
CONSTANTS
  Mode = "gen"
  Fix = "none"
  TableFile = ""
  Pre = {"none", "both", "aOnly", "bOnly"}
INVARIANT TypeOK ReuseNotClosed
CHECK_DEADLOCK FALSE
