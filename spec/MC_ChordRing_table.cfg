SPECIFICATION TableSpec
CONSTANTS
  L = 4
  FixPred = TRUE
  FixLeave = TRUE
  FixWrap = FALSE
  FixDead = FALSE
  FixAdopt = FALSE
  MaxTry = 2
  TrackCov = FALSE
  Goal = "none"
  MCLayout <- LayR4
  InitMembers = {}
  Joiners = {}
  Leavers = {}
  MaxOps = 0
  Faults = FALSE
  OpKinds = {}
  MaxMembers = 8
  B = 3
  FixSelf = TRUE
INVARIANTS InvLookupCorrect InvTerminates InvHopBound
CHECK_DEADLOCK FALSE
