--------------------------------- MODULE AOF ---------------------------------
(* The append-only-log store, kv/aof/{kv,log,mutation}.go over github.com/tidwall/wal:
   a mutation is  appended to the log  ->  applied to the in-memory state  ->  (if the state rejects it: rolled back by
   TruncateBack, which wal implements as write <seg>.END.TEMP, rename to .END, remove segment, rename .END to segment)
   ->  acknowledged.  Crash anywhere; recovery = wal load (an .END file wins over the segment) + replay of every entry,
   where an entry whose application fails aborts the open (unless SkipConflictOnReplay models the repaired replay).
   Properties: C20 recovery succeeds and yields the state of a prefix of the issued mutations containing every
   acknowledged one (rejected mutations have no effect); C21 a clean stop/reopen is the identity; C22 losing or tearing
   the unsynced tail yields an error or a prefix state.  The module also generates the histories that are run on the real
   store under the file-system recorder. *)
EXTENDS Integers, Sequences, FiniteSets, TLC, Json

CONSTANTS Keys, Children, Vals, MaxHist, SkipConflictOnReplay,
          SkipOnlyAtTail,   \* variant: replay tolerates the rejected entry only when it is the last one of the log
          MaxCrash          \* number of crash / recover cycles explored
Emit(r) == PrintT("@@" \o ToJson(r))

Muts == [t : {"put"}, k : Keys, v : Vals] \cup [t : {"del"}, k : Keys]
        \cup [t : {"app"}, k : Keys, c : Children] \cup [t : {"rem"}, k : Keys, c : Children]
        \cup [t : {"imp"}, k : Keys, v : Vals \cup {""}, c : Children \cup {""}] \cup [t : {"rmk"}, k : Keys]
        \* imp: Import of one key; v = "" an empty simple value (it overwrites the stored one), c = "" no children in the transfer
EmptySt == [s |-> [k \in Keys |-> ""], ch |-> [k \in Keys |-> {}]]
(* apply returns <<new state, accepted>>; only a duplicate PrefixAppend is rejected *)
Apply(m, st) ==
  CASE m.t = "put" -> <<[st EXCEPT !.s[m.k] = m.v], TRUE>>
    [] m.t = "del" -> <<[st EXCEPT !.s[m.k] = ""], TRUE>>
    [] m.t = "app" -> IF m.c \in st.ch[m.k] THEN <<st, FALSE>> ELSE <<[st EXCEPT !.ch[m.k] = @ \cup {m.c}], TRUE>>
    [] m.t = "rem" -> <<[st EXCEPT !.ch[m.k] = @ \ {m.c}], TRUE>>
    [] m.t = "imp" -> <<[st EXCEPT !.s[m.k] = m.v, !.ch[m.k] = @ \cup (IF m.c = "" THEN {} ELSE {m.c})], TRUE>>      \* simple overwritten (also by an empty value), children merged
    [] m.t = "rmk" -> <<[st EXCEPT !.s[m.k] = "", !.ch[m.k] = {}], TRUE>>
RECURSIVE Fold(_, _)
Fold(seq, st) == IF seq = <<>> THEN st ELSE Fold(Tail(seq), Apply(seq[1], st)[1])
RECURSIVE ReplayFrom(_, _, _)
ReplayFrom(seq, st, last) ==      \* last = TRUE iff seq holds the tail of the log
  IF seq = <<>> THEN <<st, TRUE>>
  ELSE LET r == Apply(seq[1], st)
           tolerated == SkipConflictOnReplay /\ (~SkipOnlyAtTail \/ Len(seq) = 1) IN
       IF r[2] \/ tolerated THEN ReplayFrom(Tail(seq), r[1], last) ELSE <<st, FALSE>>
Replay(seq, st) == ReplayFrom(seq, st, TRUE)

VARIABLES seg,      \* entries in the tail segment file
          endf,     \* the <segment>.END file written by TruncateBack: [there, c]
          segthere, \* FALSE between remove(segment) and rename(.END -> segment)
          mem, pc, cur, issued, acked, att, crashed, rec, ncrash
vars == <<seg, endf, segthere, mem, pc, cur, issued, acked, att, crashed, rec, ncrash>>
Init == /\ seg = <<>> /\ endf = [there |-> FALSE, c |-> <<>>] /\ segthere = TRUE /\ mem = EmptySt /\ pc = "idle"
        /\ cur = "none" /\ issued = <<>> /\ acked = <<>> /\ att = <<>> /\ crashed = FALSE /\ rec = "none" /\ ncrash = 0
Issue == /\ ~crashed /\ pc = "idle" /\ Len(att) < MaxHist
         /\ \E m \in Muts : cur' = m /\ issued' = Append(issued, m)
         /\ pc' = "append" /\ UNCHANGED <<seg, endf, segthere, mem, acked, att, crashed, rec, ncrash>>
AppendLog == /\ ~crashed /\ pc = "append" /\ seg' = Append(seg, cur) /\ pc' = "apply"
             /\ UNCHANGED <<endf, segthere, mem, cur, issued, acked, att, crashed, rec, ncrash>>
ApplyMem == /\ ~crashed /\ pc = "apply"
            /\ LET r == Apply(cur, mem) IN mem' = r[1] /\ pc' = IF r[2] THEN "ack" ELSE "rb_end"
            /\ UNCHANGED <<seg, endf, segthere, cur, issued, acked, att, crashed, rec, ncrash>>
RbWriteEnd == /\ ~crashed /\ pc = "rb_end" /\ endf' = [there |-> TRUE, c |-> SubSeq(seg, 1, Len(seg) - 1)] /\ pc' = "rb_rm"
              /\ UNCHANGED <<seg, segthere, mem, cur, issued, acked, att, crashed, rec, ncrash>>
RbRemove == /\ ~crashed /\ pc = "rb_rm" /\ segthere' = FALSE /\ pc' = "rb_mv"
            /\ UNCHANGED <<seg, endf, mem, cur, issued, acked, att, crashed, rec, ncrash>>
RbRename == /\ ~crashed /\ pc = "rb_mv" /\ seg' = endf.c /\ endf' = [there |-> FALSE, c |-> <<>>] /\ segthere' = TRUE /\ pc' = "nack"
            /\ UNCHANGED <<mem, cur, issued, acked, att, crashed, rec, ncrash>>
Ack == /\ ~crashed /\ pc \in {"ack", "nack"}
       /\ acked' = IF pc = "ack" THEN Append(acked, cur) ELSE acked
       /\ issued' = IF pc = "nack" THEN SubSeq(issued, 1, Len(issued) - 1) ELSE issued   \* rejected: no effect
       /\ att' = Append(att, [m |-> cur, ok |-> pc = "ack"])
       /\ pc' = "idle" /\ cur' = "none"
       /\ UNCHANGED <<seg, endf, segthere, mem, crashed, rec, ncrash>>
Crash == /\ ~crashed /\ crashed' = TRUE /\ ncrash < MaxCrash /\ ncrash' = ncrash + 1
         /\ LET disk == IF endf.there THEN endf.c ELSE seg   \* wal load(): .END wins, leftovers are removed
                r == Replay(disk, EmptySt) IN
            rec' = [ok |-> r[2], st |-> r[1], disk |-> disk]
         /\ UNCHANGED <<seg, endf, segthere, mem, pc, cur, issued, acked, att>>
(* the recovered store goes on: the log is what load() left (an interrupted roll-back is completed, everything else stays,
   including a tolerated rejected entry), memory is the replayed state, the mutation in flight is forgotten *)
Recover == /\ crashed /\ rec.ok
           /\ crashed' = FALSE /\ seg' = rec.disk /\ endf' = [there |-> FALSE, c |-> <<>>] /\ segthere' = TRUE
           /\ mem' = rec.st /\ pc' = "idle" /\ cur' = "none"
           /\ issued' = (CHOOSE q \in {SubSeq(issued, 1, n) : n \in Len(acked)..Len(issued)} : rec.st = Fold(q, EmptySt))
           /\ acked' = issued'      \* whatever survived counts as acknowledged from now on
           /\ UNCHANGED <<att, rec, ncrash>>
Next == Issue \/ AppendLog \/ ApplyMem \/ RbWriteEnd \/ RbRemove \/ RbRename \/ Ack \/ Crash \/ Recover
Spec == Init /\ [][Next]_vars
GenSpec == Init /\ [][Issue \/ AppendLog \/ ApplyMem \/ RbWriteEnd \/ RbRemove \/ RbRename \/ Ack]_vars     \* no crash: complete histories

RecoverOK == crashed => rec.ok                                                      \* C20 first half
PrefixState == (crashed /\ rec.ok) =>                                               \* C20 second half
   \E n \in Len(acked)..Len(issued) : rec.st = Fold(SubSeq(issued, 1, n), EmptySt)
CleanRestart == (pc = "idle" /\ ~crashed) => Replay(seg, EmptySt) = <<mem, TRUE>>   \* C21: stop at rest = replay of the log
(* C22: any entry-aligned truncation of the log at rest replays to a prefix state *)
TailLoss == (pc = "idle" /\ ~crashed) => \A n \in 0..Len(seg) :
               LET r == Replay(SubSeq(seg, 1, n), EmptySt) IN r[2] => \E j \in 0..Len(issued) : r[1] = Fold(SubSeq(issued, 1, j), EmptySt)

(* history export (-simulate): a complete history with the state after every attempted mutation *)
RECURSIVE States(_, _)
States(a, st) == IF a = <<>> THEN <<>> ELSE LET n == Apply(a[1].m, st)[1] IN <<n>> \o States(Tail(a), n)
EmitHistory == (pc = "idle" /\ Len(att) = MaxHist /\ ~crashed) => Emit([att |-> att, states |-> States(att, EmptySt)])
===============================================================================
