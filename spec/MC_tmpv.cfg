\* C40 exhaustive: payloads in both directions, every chunking, either application finishing first (cleanly or with
\* an error), streams with failing writes; peers that only finish their sending half (writes to them keep working)
SPECIFICATION Spec
CONSTANTS
  Pay <- Pay21
  Errors = TRUE
  CloseBreaksWrite = FALSE
  Variant = "noclose_on_err"
INVARIANTS InvInOrder InvDelivered InvBothClosed InvCompleted InvEndToEnd InvNoHalfOpen
CHECK_DEADLOCK FALSE
