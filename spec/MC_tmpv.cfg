\* C40 liveness: once a side has ended the pipe terminates (both copiers finish, completion is reported), for both
\* kinds of streams; copiers and the completion goroutine scheduled fairly
SPECIFICATION FairSpec
CONSTANTS
  Pay <- Pay21
  Errors = FALSE
  CloseBreaksWrite = TRUE
  Variant = "noclose_on_err"
INVARIANTS InvInOrder InvNoHalfOpen
PROPERTY Terminates
CHECK_DEADLOCK FALSE
