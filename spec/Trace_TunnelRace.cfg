SPECIFICATION TSpec
CONSTANTS
  HoldLease = TRUE
  K = 2
  KindSeqs = {}
  InitRoutes = {}
INVARIANT RunLinearizable Report
CHECK_DEADLOCK FALSE
