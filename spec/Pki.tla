---------------------------------- MODULE Pki ----------------------------------
(* C32.  Client certificates (pki/client_rpc.go RequestCertificate / RenewCertificate, spec/pki/token.go).
   Family "cases": the renewal decision table (issuer, subject version, proof key = certificate key, proof valid)
   and issuance scenarios (sequences of keys asking for certificates).  drv/pki concretises every case with real
   x509 / ed25519 / proof-of-work objects through the real pki.Server.  Family "obs" reads the observations back and
   judges them with the property predicates.  RenewImpl transcribes the order of the checks in RenewCertificate;
   TLC proves it satisfies RenewDecl. *)
EXTENDS Integers, Sequences, FiniteSets, TLC, Json

CONSTANT Family      \* "cases" | "obs"

Emit(r) == PrintT("@@" \o ToJson(r))

-------------------------------------------------------------------------------
RenewCases == [fam : {"renew"}, ca : {"client", "foreign"}, ver : {"v1", "v2"}, key : BOOLEAN, proof : BOOLEAN]

MayRenew(x) == x.ca = "client" /\ x.ver = "v2" /\ x.key /\ x.proof

RenewImpl(x) ==
  IF x.ca # "client" THEN "permission_denied"          \* oldCert.Verify(Roots: client CA)
  ELSE IF x.ver = "v1" THEN "failed_precondition"      \* identity.Version == TokenV1
  ELSE IF ~x.proof THEN "invalid_argument"             \* pow.VerifySolution
  ELSE IF ~x.key THEN "permission_denied"              \* bytes.Equal(d.PubKey, oldPubKey)
  ELSE "renewed"                                       \* GenerateCertificate(PublicKey: d.PubKey, Subject: oldCert.Subject)

(* an issued certificate as observed: subj / tok = index of its subject / identity token among the distinct ones seen in
   the case, key = index of its public key among the keys of the case, pkey = index of the key that made the proof,
   bound = the token carries base64url(sha256(certificate key)) (the v2 format of spec/pki/token.go), ver = identity version,
   chain = verifies against the client CA for client authentication *)
CertOk(k) == k.key = k.pkey /\ k.bound /\ k.ver = "v2" /\ k.chain
TokenUniqueToSubject(certs) ==
  \A i, j \in 1..Len(certs) : (certs[i].subj = certs[j].subj) <=> (certs[i].tok = certs[j].tok)

(* o = [renewed, old (certificate presented), new (certificate returned, if renewed)] *)
RenewDecl(x, o) ==
  o.renewed => /\ MayRenew(x)                                   \* succeeds only for client-CA, v2, own key, (valid) proof
               /\ o.new.subj = o.old.subj /\ o.sameSubject     \* keeps the same subject ...
               /\ o.new.tok = o.old.tok /\ o.sameIdentity      \* ... and identity
               \* a certificate issued out of band by the client CA need not carry the key hash; keeping its subject keeps that
               /\ o.new.key = o.new.pkey /\ (o.old.bound => o.new.bound) /\ o.new.ver = "v2" /\ o.new.chain
               /\ TokenUniqueToSubject(<<o.old, o.new>>)

-------------------------------------------------------------------------------
(* issuance: keys[i] asks for a certificate (same number = same key) *)
IssueCases == [fam : {"issue"}, keys : {<<1>>, <<1, 1>>, <<1, 2>>, <<1, 2, 1>>, <<1, 2, 3>>, <<1, 1, 2, 2>>}]
IssueDecl(x, o) ==
  /\ Len(o.certs) = Len(x.keys)
  /\ \A i \in 1..Len(o.certs) : CertOk(o.certs[i]) /\ o.certs[i].pkey = x.keys[i]
  /\ TokenUniqueToSubject(o.certs)
  \* ... also among all certificates of the client CA that exist: the ones issued earlier for version-1 subjects included
  /\ ("elders" \in DOMAIN o => TokenUniqueToSubject(o.certs \o o.elders))

-------------------------------------------------------------------------------
ObsRecs == IF Family = "obs" THEN ndJsonDeserialize("obs_pki.ndjson") ELSE <<>>

VARIABLES c, done
vars == <<c, done>>

CaseSet == IF Family = "obs" THEN 1..Len(ObsRecs) ELSE RenewCases \cup IssueCases

Expected(x) ==
  IF Family = "obs"
  THEN LET r == ObsRecs[x] IN
       IF r.c.fam = "renew"
       THEN [ok |-> RenewDecl(r.c, r.o), may |-> MayRenew(r.c), model |-> RenewImpl(r.c)]
       ELSE [ok |-> IssueDecl(r.c, r.o)]
  ELSE IF x.fam = "renew" THEN [may |-> MayRenew(x), model |-> RenewImpl(x)] ELSE [n |-> Len(x.keys)]

Init == c \in CaseSet /\ done = FALSE
Next == done = FALSE /\ done' = TRUE /\ c' = c /\ Emit([c |-> c, e |-> Expected(c)])
Spec == Init /\ [][Next]_vars

ImplMeetsDecl == (Family = "cases" /\ c.fam = "renew") => ((RenewImpl(c) = "renewed") <=> MayRenew(c))
===============================================================================
