------------------------------- MODULE AcmeCtl --------------------------------
(* Custom hostnames of the tunnel server: tun/server/acme_rpc.go (checkAcme, AcmeInstruction, AcmeValidate),
   tun/server/keyless_rpc.go (getCertificate, GetCertificate, Sign), tun/server/keyless_cache.go
   (computeKeylessTTL, keylessCertLoader).

   Families: "validate" (C29) one RPC on one hostname in every precondition;
             "hist"     (C29) short histories of validations by two clients while the DNS answer changes;
             "c29"      (C29) the two above in one run;
             "hist_obs" (C29) the recorded real outcomes of those histories, judged by the declaration;
             "keyless"  (C30) decision table of GetCertificate / Sign;
             "ttl"      (C30) cache time of a certificate against its remaining validity.
   Each family has the code transcribed ("...Impl") and the statement as a predicate over an arbitrary
   outcome ("...Decl"); TLC checks Impl against Decl on every case and emits the case with what the
   declaration requires / forbids.  harness/drv/acmectl runs the cases on the real handlers. *)
EXTENDS Integers, Sequences, FiniteSets, TLC, Json

CONSTANTS Family,
          MaxHist,    \* hist: histories of 1..MaxHist steps
          Skew,       \* ttl: the safety skew of the code under test, in ms (read from the build, must be > 0)
          Floor,      \* ttl: cache time accepted for a certificate that is already past expiry - skew (ms)
          Extra       \* ttl: additional remaining-validity values (ms, shifted by +10^6), seeded by the check

Emit(r) == PrintT("@@" \o ToJson(r))
Clients == {"A", "B"}
Other(x) == IF x = "A" THEN "B" ELSE "A"

-------------------------------------------------------------------------------
(* C29.  Hostname classes (concretised by the driver with the configured apex / ACME zone):
     valid   www.<customer domain>            upper   the same name with upper-case letters
     spaced  the same name with white space   bare    <customer domain> (one dot)
     apex    x.<apex>                         apexup  x.<APEX in upper case>
     acme    x.<acme zone>                    apexspaced / acmespaced  the apex / ACME-zone name with white space INSIDE the zone
     unicode a name with a non-ASCII label (denotes its punycode form)
     apexself / acmeself  the apex / the ACME zone itself (three labels each in the driver: the bare-domain rule does not cover them)
   proof: valid (solved for the DNS name the request denotes) | validsent (solved for the string as sent, generated where that differs) | missing | wrongsubject (solved for another name) | tampered (signature) | expired | easy (too few bits)
   cname: what the resolver answers for the hostname's challenge name: the caller's token-specific target (own),
          the other client's target (other), something else (junk), no such name (none)
   bound: the binding stored before the call: none | same (the caller) | other (the other client) *)
HostClasses  == {"valid", "upper", "spaced", "bare", "apex", "apexup", "acme", "apexspaced", "acmespaced", "unicode", "apexself", "acmeself"}
RefusedHost(h) == h \in {"bare", "apex", "apexup", "acme", "apexspaced", "acmespaced", "apexself", "acmeself"}
SentDiffers(h) == h \in {"upper", "spaced", "apexup", "apexspaced", "acmespaced", "unicode"}     \* the string sent is not the name it denotes
Proofs  == {"valid", "validsent", "missing", "wrongsubject", "tampered", "expired", "easy"}
Cnames  == {"own", "other", "junk", "none"}
Bounds  == {"none", "same", "other"}
(* fault: what the DHT does to the handler's read of the hostname's binding record: none | retry (a retryable error on every
   attempt: the key's owner is in a membership change) | fatal (another error) *)
ValidateCases == {x \in [caller : Clients, method : {"validate", "instruction"}, host : HostClasses,
                         cname : Cnames, bound : Bounds, proof : Proofs, fault : {"none"}] : x.proof = "validsent" => SentDiffers(x.host)}
                 \cup [caller : Clients, method : {"validate", "instruction"}, host : {"valid", "spaced"}, cname : {"own", "other", "none"},
                       bound : Bounds, proof : {"valid"}, fault : {"retry", "fatal"}]

Holder(caller, b) == CASE b = "none" -> "none" [] b = "same" -> caller [] b = "other" -> Other(caller)

(* the handlers, transcribed.  Normalize refuses upper-case letters (the IDNA profile in use does not map case and
   the character filter admits [a-z0-9-.] only) and strips white space.  Result: [ok, post] with post the holder
   of the binding afterwards *)
CheckAcme(x, pre) ==      \* "err" | "found" | "notfound"
  IF x.proof # "valid" THEN "err"                       \* the proof is verified against the normalized name: "validsent" fails too
  ELSE IF x.host \in {"apex", "acme", "apexspaced", "acmespaced", "apexself", "acmeself"} THEN "err"        \* strings.Contains(normalized hostname, acme / apex)
  ELSE IF x.host = "bare" THEN "err"                    \* fewer than two dots
  ELSE IF x.fault # "none" THEN "err"                   \* tun.FindCustomHostname fails: the request fails with it
  ELSE IF pre = "none" THEN "notfound"
  ELSE IF pre = x.caller THEN "found" ELSE "err"
StepImpl(x, pre) ==
  IF x.host \in {"upper", "apexup"} THEN [ok |-> FALSE, post |-> pre]          \* Normalize fails
  ELSE LET chk == CheckAcme(x, pre) IN
       IF chk = "err" THEN [ok |-> FALSE, post |-> pre]
       ELSE IF x.method = "instruction" THEN [ok |-> TRUE, post |-> pre]
       ELSE IF chk = "found" THEN [ok |-> TRUE, post |-> x.caller]
       ELSE IF x.cname = "own" THEN [ok |-> TRUE, post |-> x.caller]
       ELSE [ok |-> FALSE, post |-> pre]

(* the statement, over an arbitrary outcome [ok, post] *)
StepDecl(x, pre, out) ==
  \* becomes bound only with the matching CNAME (or already bound to the same client) ...
  /\ out.post # pre => /\ out.post = x.caller /\ pre = "none"
                       /\ x.method = "validate" /\ x.cname = "own"
  \* ... never from one client to another
  /\ pre \in Clients => out.post = pre
  \* apex, ACME-zone and bare names, and requests without a valid proof, are always refused
  \* (a proof solved for the string as sent is not classed: the other clauses hold whatever the proof)
  /\ (RefusedHost(x.host) \/ x.proof \notin {"valid", "validsent"}) => (~out.ok /\ out.post = pre)
  \* a validation that reports success has bound the name to the caller
  /\ (out.ok /\ x.method = "validate") => out.post = x.caller
  \* a hostname held by the other client is not confirmed to the caller
  /\ (pre = Other(x.caller)) => ~out.ok
(* what the driver is told: must the call be refused, and which holders may be stored afterwards.
   "accept" marks the cases the transcribed code accepts: not judged, used against vacuity only *)
StepExpected(x, pre) ==
  [refuse |-> \A p \in Clients \cup {"none"} : ~StepDecl(x, pre, [ok |-> TRUE, post |-> p]),
   posts  |-> {p \in Clients \cup {"none"} : \E ok \in BOOLEAN : StepDecl(x, pre, [ok |-> ok, post |-> p])},
   pre    |-> pre,
   accept |-> StepImpl(x, pre).ok]

-------------------------------------------------------------------------------
(* C29, histories on one valid hostname with valid proofs: the DNS answer is set before each validation *)
HistStep == [caller : Clients, cname : {"A", "B", "none"}]
HistCases == UNION {[1..k -> HistStep] : k \in 1..MaxHist}
AsCall(s) == [caller |-> s.caller, method |-> "validate", host |-> "valid", proof |-> "valid", bound |-> "none", fault |-> "none",
              cname |-> IF s.cname = s.caller THEN "own" ELSE IF s.cname = "none" THEN "none" ELSE "other"]
RECURSIVE HistRun(_, _, _)
HistRun(h, k, pre) ==      \* sequence of [pre, ok, post] the transcription goes through
  IF k > Len(h) THEN <<>>
  ELSE LET o == StepImpl(AsCall(h[k]), pre)
       IN <<[pre |-> pre, ok |-> o.ok, post |-> o.post]>> \o HistRun(h, k+1, o.post)
HistDecl(h, run) ==
  /\ Len(run) = Len(h)
  /\ \A k \in 1..Len(h) :
       /\ run[k].pre = (IF k = 1 THEN "none" ELSE run[k-1].post)
       /\ StepDecl(AsCall(h[k]), run[k].pre, [ok |-> run[k].ok, post |-> run[k].post])
(* the consequence the statement names: once bound, the holder never changes *)
Sticky(run) == \A j, k \in 1..Len(run) : (j < k /\ run[j].post \in Clients) => run[k].post = run[j].post

-------------------------------------------------------------------------------
(* C30.  caller: the client the hostname is bound to | another client | nobody (hostname unbound)
   hash: the request's algorithm field: 0 = unset, 1..3 = SHA-256/384/512, 9 = undefined value;  dlen: digest length *)
Callers == {"bound", "other", "unbound", "twin"}      \* twin: a certificate with the bound client's token but another client id
Hashes  == {0, 1, 2, 3, 9}
DLens   == {0, 20, 32, 48, 64, 65}
HashSize(a) == CASE a = 1 -> 32 [] a = 2 -> 48 [] a = 3 -> 64 [] OTHER -> -1
KProofs == Proofs \ {"validsent"}         \* keyless requests carry the hostname as bound: sent and denoted name coincide
KeylessCases == [caller : Callers, proof : KProofs, method : {"get"}, hash : {0}, dlen : {0}]
                \cup [caller : Callers, proof : KProofs, method : {"sign"}, hash : Hashes, dlen : DLens]
KeylessImpl(x) ==
  IF x.proof # "valid" THEN FALSE                  \* checkAcme: proof first
  ELSE IF x.caller \in {"other", "twin"} THEN FALSE  \* checkAcme: bundle of another client (token, client id and address are compared)
  ELSE IF x.caller = "unbound" THEN FALSE          \* getCertificate: !found
  ELSE IF x.method = "get" THEN TRUE
  ELSE IF x.hash \notin {1, 2, 3} THEN FALSE
  ELSE x.dlen = HashSize(x.hash)
MayServe(x) == /\ x.caller = "bound" /\ x.proof = "valid"
               /\ x.method = "sign" => (HashSize(x.hash) > 0 /\ x.dlen = HashSize(x.hash))
KeylessDecl(x, served) == served => MayServe(x)

-------------------------------------------------------------------------------
(* C30, cache time.  r = NotAfter - now (ms).  form: how the certificate reaches the function: parsed leaf present,
   DER only, or the real loader with the real clock (the driver then reports r before and after the call) *)
RemBase == {-3600000, -1000, -1, 0, 1, 500, 999, 1000, 1001, 30000} \cup
           {Skew - 1000, Skew - 1, Skew, Skew + 1, Skew + 500, Skew + 999, Skew + 1000, Skew + 1001, Skew + 2000,
            2 * Skew, Skew + 299999, Skew + 300000, Skew + 300001, Skew + 600000, 3600000, 86400000, 864000000}
ExtraR == {x - 1000000 : x \in Extra}     \* the cfg syntax has no negative literals: values are shifted by 10^6
TTLCases == [r : RemBase \cup ExtraR, form : {"leaf", "der"}]
            \cup [r : {-60000, Skew - 5000, Skew + 5000, Skew + 120000, 3600000}, form : {"loader"}]
Pos == 300000
TTLImpl(r) == LET rem == r - Skew IN IF rem <= 0 THEN 1000 ELSE IF rem < Pos THEN rem ELSE Pos
(* now + ttl <= NotAfter - skew while that instant is in the future; otherwise the floor (DESIGN 4.0);
   a non-positive time would mean "no expiry" to the cache *)
TTLMax(r) == IF r - Skew > 0 THEN r - Skew ELSE Floor
TTLDecl(r, ttl) == ttl > 0 /\ ttl <= TTLMax(r)
ASSUME Skew > 0 /\ Floor > 0

-------------------------------------------------------------------------------
VARIABLES c, done
vars == <<c, done>>

(* backward direction for the histories: what the real handlers did (obs_hist.ndjson, written by the check:
   {"c": history, "o": sequence of [pre, ok, post] read from the real store around each call}) is judged by the
   declaration itself, so any behaviour the statement admits passes *)
ObsRecs == IF Family = "hist_obs" THEN ndJsonDeserialize("obs_hist.ndjson") ELSE <<>>
FirstBad(h, run) ==
  LET bad == {k \in 1..Len(h) : k > Len(run) \/
                ~( /\ run[k].pre = (IF k = 1 THEN "none" ELSE run[k-1].post)
                   /\ StepDecl(AsCall(h[k]), run[k].pre, [ok |-> run[k].ok, post |-> run[k].post]) )}
  IN IF bad = {} THEN 0 ELSE CHOOSE k \in bad : \A j \in bad : k <= j

Cases == CASE Family = "validate" -> ValidateCases
           [] Family = "hist"     -> HistCases
           [] Family = "c29"      -> ValidateCases \cup {[hist |-> h] : h \in HistCases}   \* both in one run
           [] Family = "hist_obs" -> 1..Len(ObsRecs)
           [] Family = "keyless"  -> KeylessCases
           [] Family = "ttl"      -> TTLCases
IsHist(x) == "hist" \in DOMAIN x
HistExpected(h) == LET run == HistRun(h, 1, "none") IN [k \in 1..Len(h) |-> StepExpected(AsCall(h[k]), run[k].pre)]
Expected(x) == CASE Family = "validate" -> StepExpected(x, Holder(x.caller, x.bound))
                 [] Family = "hist"     -> HistExpected(x)
                 [] Family = "c29"      -> IF IsHist(x) THEN HistExpected(x.hist) ELSE StepExpected(x, Holder(x.caller, x.bound))
                 [] Family = "hist_obs" -> LET r == ObsRecs[x] IN
                       [decl |-> HistDecl(r.c, r.o), sticky |-> Sticky(r.o), bad |-> FirstBad(r.c, r.o)]
                 [] Family = "keyless"  -> [may |-> MayServe(x), accept |-> KeylessImpl(x)]
                 [] Family = "ttl"      -> [max |-> TTLMax(x.r), impl |-> TTLImpl(x.r)]

Init == c \in Cases /\ done = FALSE
Next == done = FALSE /\ done' = TRUE /\ c' = c /\ Emit([c |-> c, e |-> Expected(c)])
Spec == Init /\ [][Next]_vars

ValidateThm(x) == StepDecl(x, Holder(x.caller, x.bound), StepImpl(x, Holder(x.caller, x.bound)))
HistThm(h) == LET run == HistRun(h, 1, "none") IN HistDecl(h, run) /\ Sticky(run)
ImplMeetsDecl ==
  CASE Family = "validate" -> ValidateThm(c)
    [] Family = "hist"     -> HistThm(c)
    [] Family = "c29"      -> IF IsHist(c) THEN HistThm(c.hist) ELSE ValidateThm(c)
    [] Family = "hist_obs" -> TRUE
    [] Family = "keyless"  -> KeylessDecl(c, KeylessImpl(c))
    [] Family = "ttl"      -> TTLDecl(c.r, TTLImpl(c.r))
(* in histories the declaration alone (not only the transcription) keeps a binding for ever: checked on
   every run the declaration admits for the case *)
StickyThm(h) ==
    \A outs \in [1..Len(h) -> [ok : BOOLEAN, post : Clients \cup {"none"}]] :
        LET run == [k \in 1..Len(h) |-> [pre |-> IF k = 1 THEN "none" ELSE outs[k-1].post, ok |-> outs[k].ok, post |-> outs[k].post]]
        IN HistDecl(h, run) => Sticky(run)
DeclImpliesSticky ==
  /\ Family = "hist" => StickyThm(c)
  /\ (Family = "c29" /\ IsHist(c)) => StickyThm(c.hist)
===============================================================================
