---------------------------- MODULE Trace_ChordKV ----------------------------
(* Validation of recorded executions of real chord.LocalNode rings against ChordKV.
   trace.ndjson (written by checks/ringlib.py from the events of drv/chord) holds one record per
   controlled-scheduler step:  act (which ChordKV action the gate-to-gate segment corresponds to), its
   arguments, and the projected state of every node after the step (st, pred, succ, sur, store).
   For every line the expected successor  F(s, args)  is computed from the specification and compared
   with the logged state; the specification's ghost fields (protocol counters, last acknowledged value
   per key) are carried along, the physical fields are re-synchronised from the log, so one divergence
   does not hide the rest of the trace.  The ChordKV property predicates are evaluated on every logged
   state.  Everything noteworthy is emitted as a JSON record ("@@" lines) and judged by the check. *)
EXTENDS ChordKV, Json, SequencesExt

Trace == ndJsonDeserialize("trace.ndjson")

VARIABLES l, ok      \* position in Trace; ok = no divergence so far in the current scenario
tvars == <<s, ops, l, ok>>

Emit(r) == PrintT("@@" \o ToJson(r))
SeqRange(q) == {q[i] : i \in DOMAIN q}

Logged(r, lay) ==
  [st |-> r.st, pred |-> r.pred, succ |-> r.succ, sur |-> r.sur,
   fset |-> [n \in NodesOf(lay) |-> IF "fs" \in DOMAIN r THEN SeqRange(r.fs[n]) \ {Nil} ELSE {}],
   store |-> [n \in NodesOf(lay) |-> [k \in KeysOf(lay) |-> [v |-> r.store[n][k].v, kids |-> SeqRange(r.store[n][k].kids)]]]]
(* the pointers of a node that has Left are not compared: its parked maintenance loops run one last
   stabilize / checkPredecessor when Leave() stops them, which no other node can observe *)
Phys(x) == [st |-> x.st,
            pred |-> [n \in DOMAIN x.st |-> IF x.st[n] = "Left" THEN Nil ELSE x.pred[n]],
            succ |-> [n \in DOMAIN x.st |-> IF x.st[n] = "Left" THEN <<>> ELSE x.succ[n]],
            sur |-> x.sur, store |-> x.store]
Resync(x, lg) == [x EXCEPT !.st = lg.st, !.pred = lg.pred, !.succ = lg.succ, !.sur = lg.sur, !.store = lg.store, !.fset = lg.fset]

Blank(lay) == InitState(lay, {})

(* expected successor state and enabling condition for one trace line *)
Expected(x, r) ==
  CASE r.act = "Create"        -> [en |-> CreateEn(x, r.n),        nx |-> CreateF(x, r.n)]
    [] r.act = "JoinStart"     -> [en |-> JoinStartEn(x, r.n),     nx |-> JoinStartF(x, r.n)]
    [] r.act = "JoinRoute"     -> [en |-> JoinRouteEn(x, r.n, r.x), nx |-> JoinRouteF(x, r.n, r.x)]
    [] r.act = "JoinLock"      -> [en |-> JoinLockEn(x, r.n),      nx |-> JoinLockF(x, r.n)]
    [] r.act = "JoinRouteFail" -> [en |-> JoinRouteFailEn(x, r.n), nx |-> JoinRouteFailF(x, r.n, r.fatal)]
    [] r.act = "JoinFail"      -> [en |-> JoinFailEn(x, r.n),      nx |-> JoinFailF(x, r.n)]
    [] r.act = "JoinInstall"   -> [en |-> JoinInstallEn(x, r.n),   nx |-> JoinInstallF(x, r.n)]
    [] r.act = "JoinStab"      -> [en |-> JoinStabEn(x, r.n),      nx |-> JoinStabF(x, r.n)]
    [] r.act = "JoinFix"       -> [en |-> JoinFixEn(x, r.n),       nx |-> JoinFixF(x, r.n)]
    [] r.act = "JoinAdvisory"  -> [en |-> JoinAdvisoryEn(x, r.n),  nx |-> JoinAdvisoryF(x, r.n)]
    [] r.act = "JoinActive"    -> [en |-> JoinActiveEn(x, r.n),    nx |-> JoinActiveF(x, r.n)]
    [] r.act = "JoinRelease"   -> [en |-> JoinReleaseEn(x, r.n),   nx |-> JoinReleaseF(x, r.n, FALSE)]
    [] r.act = "LeaveStart"    -> [en |-> LeaveStartEn(x, r.n),    nx |-> LeaveStartF(x, r.n)]
    [] r.act = "LeaveRead"     -> [en |-> LeaveReadEn(x, r.n),     nx |-> LeaveReadF(x, r.n)]
    [] r.act = "LeaveFirst"    -> [en |-> LeaveFirstEn(x, r.n),    nx |-> LeaveFirstF(x, r.n)]
    [] r.act = "LeaveReadFirst" -> [en |-> LeaveReadEn(x, r.n),    nx |-> LeaveReadFirstF(x, r.n)]
    [] r.act = "LeaveSecond"   -> [en |-> LeaveSecondEn(x, r.n),   nx |-> LeaveSecondF(x, r.n)]
    [] r.act = "LeaveTransfer" -> [en |-> LeaveTransferEn(x, r.n), nx |-> LeaveTransferF(x, r.n)]
    [] r.act = "LeaveAdvisory" -> [en |-> LeaveAdvisoryEn(x, r.n), nx |-> LeaveAdvisoryF(x, r.n)]
    [] r.act = "LeaveLeft"     -> [en |-> LeaveLeftEn(x, r.n),     nx |-> LeaveLeftF(x, r.n)]
    [] r.act = "LeaveRelease"  -> [en |-> LeaveReleaseEn(x, r.n),  nx |-> LeaveReleaseF(x, r.n, FALSE)]
    [] r.act = "Stabilize"     -> [en |-> TRUE, nx |-> StabilizeF(x, r.n)]
    [] r.act = "StabRead"      -> [en |-> StabReadEn(x, r.n), nx |-> StabReadF(x, r.n)]
    [] r.act = "StabWrite"     -> [en |-> StabWriteEn(x, r.n), nx |-> StabWriteF(x, r.n)]
    [] r.act = "CheckPred"     -> [en |-> TRUE, nx |-> CheckPredF(x, r.n)]
    [] r.act = "Stutter"       -> [en |-> TRUE, nx |-> x]
    [] OTHER                   -> [en |-> FALSE, nx |-> x]

(* the refused outcome of a lock acquisition that is linearized before the step in which it resumed (see ChordKV, "The lock word") *)
MayBeEarly(r) == "early" \in DOMAIN r /\ r.early /\ r.act \in {"JoinLock", "LeaveFirst", "LeaveSecond"}
ExpectedEarly(x, r) ==
  CASE r.act = "JoinLock"    -> [en |-> JoinLockEn(x, r.n),    nx |-> JoinLockEarlyF(x, r.n)]
    [] r.act = "LeaveFirst"  -> [en |-> LeaveFirstEn(x, r.n),  nx |-> LeaveFirstEarlyF(x, r.n)]
    [] r.act = "LeaveSecond" -> [en |-> LeaveSecondEn(x, r.n), nx |-> LeaveSecondEarlyF(x, r.n)]

(* a client operation executed in one scheduler step: it was served by some node z the routing could
   reach, or answered with the retryable stale-ownership error *)
OpServedBy(x, r) ==
  {z \in NodesOf(x.lay) : Live(x, z) /\ LocalDecision(x, z, r.k) = "local"}
OpExpected(x, r) ==       \* set of admissible <<next state, reply>>
  IF r.res = "stale" THEN {<<x, <<"stale", 0, {}>> >>}
  ELSE {<<LocalAccessF(x, z, r.k, r.kind, r.arg), Apply(x.store[z][r.k], r.kind, r.arg)[2]>> : z \in OpServedBy(x, r)}
ReplyOf(r) == <<r.rtag, r.rv, SeqRange(r.rkids)>>

(* okNow: the specification's ghost fields (cur, protocol counters) are trustworthy only while every step
   of the scenario so far, including this one, was explained by the specification *)
Violations(x, okNow) ==
  (IF SingleCopy(x) THEN {} ELSE {"SingleCopy"}) \cup
  (IF JoinLockHeld(x) THEN {} ELSE {"JoinLockHeld"}) \cup
  (IF ~okNow \/ NoLoss(x) THEN {} ELSE {"NoLoss"}) \cup
  (IF ~okNow \/ NoGhost(x) THEN {} ELSE {"NoGhost"}) \cup
  (IF ~okNow \/ OneMembershipOp(x) THEN {} ELSE {"OneMembershipOp"}) \cup
  (IF ~okNow \/ NoBad(x) THEN {} ELSE {"Bad"})

TraceInit == l = 1 /\ ok = TRUE /\ ops = <<>> /\ s = Blank([npos |-> <<1>>, kpos |-> <<>>])

StepReset(r) ==
  /\ s' = Blank(r.lay) /\ ok' = TRUE

StepOp(r) ==
  IF ~ok THEN s' = Resync(s, Logged(r, s.lay)) /\ ok' = FALSE
  ELSE
  LET lg == Logged(r, s.lay)
      cands == {c \in OpExpected(s, r) : Phys(c[1]) = Phys(lg) /\ (r.res = "stale" \/ c[2] = ReplyOf(r))} IN
  IF cands # {} THEN
     LET c == CHOOSE c \in cands : TRUE IN
     /\ s' = c[1] /\ ok' = ok
     /\ LET v == Violations(c[1], ok) IN v = {} \/ Emit([t |-> "viol", l |-> l, sid |-> r.sid, what |-> v, act |-> r.act, bad |-> c[1].bad])
  ELSE
     /\ s' = Resync(s, lg) /\ ok' = FALSE
     /\ Emit([t |-> "opdiv", l |-> l, sid |-> r.sid, kind |-> r.kind, k |-> r.k, res |-> r.res, reply |-> ReplyOf(r),
              servers |-> OpServedBy(s, r), cur |-> s.cur[r.k]])

StepAct(r) ==
  IF ~ok THEN     \* after a divergence the ghost fields are not trustworthy: follow the log, judge only what the log itself shows
     LET nx == Resync(s, Logged(r, s.lay)) IN
     /\ s' = nx /\ ok' = FALSE
     /\ LET v == Violations(nx, FALSE) IN v = {} \/ Emit([t |-> "viol", l |-> l, sid |-> r.sid, what |-> v, act |-> r.act, bad |-> {}])
  ELSE
  LET lg == Logged(r, s.lay)
      e0 == Expected(s, r)
      e1 == IF MayBeEarly(r) THEN ExpectedEarly(s, r) ELSE e0
      e == IF ~(e0.en /\ Phys(e0.nx) = Phys(lg)) /\ e1.en /\ Phys(e1.nx) = Phys(lg) THEN e1 ELSE e0
      good == e.en /\ Phys(e.nx) = Phys(lg)
      nx == Resync(e.nx, lg) IN
  /\ s' = nx
  /\ ok' = (ok /\ good)
  /\ good \/ Emit([t |-> "div", l |-> l, sid |-> r.sid, act |-> r.act, n |-> r.n, en |-> e.en,
                   exp |-> Phys(e.nx), got |-> lg])
  /\ LET v == Violations(nx, ok /\ good) IN v = {} \/ Emit([t |-> "viol", l |-> l, sid |-> r.sid, what |-> v, act |-> r.act, bad |-> nx.bad])

(* end-of-scenario judgement at a maintenance fixpoint with every operation finished *)
StepQuiet(r) ==
  LET lg == Logged(r, s.lay)
      x == Resync(s, lg)
      v == (IF \A n \in NodesOf(x.lay) : x.st[n] \in {"Inactive", "Active", "Left"} THEN {} ELSE {"NoStuck"}) \cup
           (IF ~RingSettled(x) THEN {} ELSE
              (IF \A n \in Members(x), k \in KeysOf(x.lay) : Present(x.store[n][k]) => KB(x.lay, x.pred[n], k, n, TRUE)
               THEN {} ELSE {"Placement"}) \cup
              (IF ~ok \/ \A k \in KeysOf(x.lay) : Present(x.cur[k]) =>
                     \E n \in Members(x) : x.store[n][k] = x.cur[k] /\ KB(x.lay, x.pred[n], k, n, TRUE)
               THEN {} ELSE {"Reachable"})) IN
  /\ s' = x /\ ok' = ok
  /\ Emit([t |-> "quiet", l |-> l, sid |-> r.sid, settled |-> RingSettled(x), what |-> v, members |-> Members(x)])

TraceNext ==
  /\ l <= Len(Trace)
  /\ l' = l + 1
  /\ UNCHANGED ops
  /\ LET r == Trace[l] IN
     CASE r.act = "Reset" -> StepReset(r)
       [] r.act = "Op"    -> StepOp(r)
       [] r.act = "Quiet" -> StepQuiet(r)
       [] OTHER           -> StepAct(r)

DummyLay == [npos |-> <<1>>, kpos |-> <<>>]
TraceSpec == TraceInit /\ [][TraceNext]_tvars
Consumed == l = Len(Trace) + 1 => Emit([t |-> "end", lines |-> Len(Trace)])
=============================================================================
