SPECIFICATION Spec
CONSTANTS
  RejectIP = TRUE
  Family = "gen"
  MaxLen = 4

CHECK_DEADLOCK FALSE
