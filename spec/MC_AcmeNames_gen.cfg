SPECIFICATION Spec
CONSTANTS
  Family = "gen"
  MaxLen = 4

CHECK_DEADLOCK FALSE
