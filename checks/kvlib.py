"""Shared by C16/C17/C19: TLC emits the full labelled state graph of KVStore.tla; covering walks over its edges are executed
on every backend by drv/kv; after every operation the reply and the projected store are compared with the edge's."""
import json, collections
import vf

BACKENDS = ["memory", "aof", "sqlite"]


def canon(st):
    return json.dumps({"simple": st["simple"], "kids": [sorted(k) for k in st["kids"]], "lease": st["lease"], "now": st.get("now", 0)}, sort_keys=True)


def graph(edges):
    g = collections.defaultdict(list)
    for e in edges:
        g[canon(e["from"])].append(e)
    return g


def covering_walks(edges, rng, maxlen=120):
    """greedy transition cover: walks from the initial state, each step takes an uncovered edge if the current state has one,
    otherwise follows a shortest path to a state that has"""
    g = graph(edges)
    init = canon(edges[0]["from"]) if edges else None
    for e in edges:
        if all(x == "" for x in e["from"]["simple"]) and all(not k for k in e["from"]["kids"]) and all(l == 0 for l in e["from"]["lease"]) and e["from"].get("now", 0) == 0:
            init = canon(e["from"])
            break
    uncovered = {id(e) for e in edges}
    order = {k: list(v) for k, v in g.items()}
    for v in order.values():
        rng.shuffle(v)
    walks = []
    while uncovered:
        cur, walk = init, []
        while len(walk) < maxlen:
            nxt = next((e for e in order[cur] if id(e) in uncovered), None)
            if nxt is None:
                # BFS to nearest state with an uncovered edge
                prev = {cur: None}
                q = collections.deque([cur])
                target = None
                while q and target is None:
                    s = q.popleft()
                    for e in order.get(s, []):
                        t = canon(e["to"])
                        if t not in prev:
                            prev[t] = (s, e)
                            if any(id(x) in uncovered for x in order.get(t, [])):
                                target = t
                                break
                            q.append(t)
                if target is None:
                    break
                path = []
                t = target
                while prev[t] is not None:
                    s, e = prev[t]
                    path.append(e)
                    t = s
                path.reverse()
                if len(walk) + len(path) >= maxlen:
                    break
                walk += path
                cur = target
                continue
            uncovered.discard(id(nxt))
            walk.append(nxt)
            cur = canon(nxt["to"])
        if not walk:
            break
        walks.append(walk)
    return walks


def norm_ret(op, ret):
    """normalise a reply (spec side or driver side) for comparison"""
    r = dict(ret)
    for k in ("l", "ks"):
        if k in r and isinstance(r[k], list):
            r[k] = sorted(("".join(x[0]) if isinstance(x[0], list) else x[0], x[1]) if isinstance(x, list) and len(x) == 2 and x[1] in ("SIMPLE", "PREFIX", "LEASE")
                          else ("".join(x) if isinstance(x, list) else x) for x in r[k])
    return r


def proj_of(st):
    return {"simple": list(st["simple"]), "kids": [sorted(k) for k in st["kids"]], "lease": [bool(x) for x in st["lease"]]}


def run_walks(ck, binary, walks, keys, hashof, backends=BACKENDS, drv_args=(), compare_state=True, sigprefix="", realhash=False, alphabet=None):
    cases, index = [], []
    for b in backends:
        for wi, w in enumerate(walks):
            cases.append({"backend": b, "keys": keys, "hashof": hashof, "realhash": realhash, "ops": [e["op"] for e in w], "alphabet": alphabet})
            index.append((b, wi))
    outs = ck.drive(binary, list(drv_args), input_lines=cases, timeout=1500)
    byi = {o["i"]: o["o"] for o in outs}
    if len(byi) != len(cases):
        raise vf.Infra("kv driver answered %d of %d walks" % (len(byi), len(cases)))
    for ci, (b, wi) in enumerate(index):
        o = byi[ci]
        w = walks[wi]
        if o.get("panic"):
            ck.violation("%s:%s:panic" % (sigprefix, b), "backend %s panicked: %s on walk %s" % (b, o["panic"], json.dumps([e["op"] for e in w])[:600]), cases[ci])
            continue
        for si, (e, step) in enumerate(zip(w, o["steps"])):
            yield b, wi, si, e, step, cases[ci]
    ck.traces += len(cases)
