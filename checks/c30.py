"""C30 Keyless TLS serves only the bound client, with valid inputs.  Spec: AcmeCtl (families keyless, ttl)."""
import json, vf

def run(ck):
    ck.rule = ("TLC enumerates caller {client the hostname is bound to, another client, unbound hostname} x proof {valid, missing, other "
               "subject, tampered, expired, too few bits} x {GetCertificate, Sign x hash field {0,1,2,3,9} x digest length {0,20,32,48,64,65}}; "
               "every case runs on the real handlers (in-memory KV provider, stub certificate provider with a real P-256 key, real proofs); "
               "returned chains are compared with the provider's and signatures verified; cache times: computeKeylessTTL for remaining "
               "validities around every boundary (+ seeded values) with a parsed leaf and with DER only, and the real loader on the real clock; "
               "non-trivial = every case")
    b = ck.build("acmectl")
    info = ck.drive(b, ["info"])[0]
    skew = int(info["skew_ms"])
    if skew <= 0:
        ck.violation("C30:no-safety-skew", "the expiry skew of the keyless cache is %d ms" % skew, info)
        return
    served = {"n": 0}

    def judge(c, e, o):
        if o["ok"]:
            served["n"] += 1
            if not e["may"]:
                return "served a request the statement forbids"
            if c["method"] == "get" and not o["chain_ok"]:
                return "returned chain differs from the certificate provider's"
            if c["method"] == "sign" and not o["sig_ok"]:
                return "returned signature does not verify under the certificate's key"
        if len(o["bindings"]) != 2:
            return "bindings changed by a keyless call: %s" % o["bindings"]
        return None

    def sig(c, e, o):
        if o["ok"] and not e["may"]:
            if c["caller"] != "bound":
                return "C30:serves-%s-caller:%s" % (c["caller"], c["method"])
            if c["proof"] != "valid":
                return "C30:serves-%s-proof:%s" % (c["proof"], c["method"])
            if c["hash"] not in (1, 2, 3):
                return "C30:sign-unsupported-hash:%d" % c["hash"]
            return "C30:sign-digest-length:hash%d" % c["hash"]
        if o["ok"]:
            return "C30:wrong-%s" % ("chain" if c["method"] == "get" else "signature")
        return "C30:binding-changed"

    vf.table_check(ck, "AcmeCtl", "MC_AcmeCtl_keyless.cfg", "acmectl", binary=b, drv_args=["keyless"], judge=judge, sig=sig)
    if ck.replay is None and served["n"] == 0:
        raise vf.Infra("vacuous: no request was served")
    ck.extra["served_cases"] = served["n"]

    # cache time
    floor = 1000
    extra = sorted(set([ck.rng.randrange(-120000, 0)] + [ck.rng.randrange(0, skew + 1000) for _ in range(4)] +
                       [skew + ck.rng.randrange(0, 300000) for _ in range(8)] + [skew + 300000 + ck.rng.randrange(0, 10 ** 7) for _ in range(3)] +
                       ([ck.rng.randrange(-10 ** 6, 10 ** 8) for _ in range(200)] if ck.thorough else [])))

    def judge_ttl(c, e, o):
        if o["err"]:
            raise vf.Infra("loader failed: %s" % o["err"])
        ttl = o["ttl_us"]
        if ttl <= 0:
            return "cache time %d us is not positive (0 = no expiry)" % ttl
        sk, fl = skew * 1000, floor * 1000
        if c["form"] != "loader":
            if ttl > e["max"] * 1000:
                return "cache time %.3f s with %.3f s of validity left: kept past expiry - skew (max %.3f s)" % (ttl / 1e6, c["r"] / 1e3, e["max"] / 1e3)
            return None
        # the cache counts from the moment the loader returns, which is after the provider returned: the time must not exceed what
        # was left of (validity - skew) when the provider returned (the provider of the driver takes 120 ms)
        prov = o.get("rem_prov_us", o["rem_before_us"])
        if o["rem_after_us"] - sk > 0:
            lim = prov - sk
        elif prov - sk <= 0:
            lim = fl
        else:
            lim = max(fl, prov - sk)
        if ttl > lim:
            return "loader: cache time %.3f s with %.3f s of validity left when the certificate provider returned (max %.3f s)" % (ttl / 1e6, prov / 1e6, lim / 1e6)
        return None

    def sig_ttl(c, e, o):
        r = c["r"]
        cls = "expired" if r <= 0 else ("inside-skew" if r <= skew else ("short" if r < skew + 300000 else "long"))
        return "C30:ttl:%s:%s" % (c["form"], cls if o["ttl_us"] > 0 else "nonpositive")

    vf.table_check(ck, "AcmeCtl", "MC_AcmeCtl_ttl.cfg", "acmectl", binary=b, drv_args=["ttl"], judge=judge_ttl, sig=sig_ttl,
                   constants={"Skew": skew, "Floor": floor, "Extra": "{" + ", ".join(str(x + 1000000) for x in extra) + "}"})
    ck.assumptions += ["callers are identified by the certificate subject exactly as extractAuthenticated reads it; the twirp layer (C25) is not on the path",
                       "ECDSA/SHA-2/ed25519 and the certificate provider are trusted; signature validity is sampled with random digests",
                       "the skew is the code's own constant keylessExpirySkew (must be positive); for a certificate already past expiry - skew "
                       "the code's 1 s floor is accepted (DESIGN 4.0)",
                       "the cache (theine) is trusted to honour the TTL the loader returns; a certificate without a parsable leaf has no known expiry and is not judged"]
