"""C48 The ACME DNS responder answers exactly the stored challenges.  Spec: AcmeDns."""
import json, vf

def run(ck):
    ck.rule = ("TLC enumerates 10 query-name classes (zone, label.zone, mixed-case label.zone, managed label, name-server name, 2 and 3 labels "
               "below the zone, names sharing the zone's trailing characters, a foreign domain) x 7 query types (TXT NS SOA A AAAA CNAME ANY) x "
               "storage of the label (two challenges each absent / presented / presented and cleaned up, optional empty value) x storage failure; "
               "the storage state is built by the real ChordSolver.Present/CleanUp on the in-memory KV provider, the query answered by the real "
               "ServeDNS of a responder that was created before the storage reached that state and has answered the same question at earlier moments (empty "
               "storage / after the challenges were presented, before clean-up and before the failure); labels, letter case and write order vary with VERIF_SEED; non-trivial = every case")

    def judge(c, e, o):
        if o["setup"]:
            raise vf.Infra("storage setup failed: %s" % o["setup"])
        if o["panic"]:
            return "ServeDNS panicked: %s" % o["panic"]
        if o["rcode"] == "NONE":
            return "no response written"
        if sorted(o["answers"]) != sorted(e["answers"]):
            return "answers %s, statement says exactly %s" % (sorted(o["answers"]), sorted(e["answers"]))
        if not o["names_ok"]:
            return "an answer record is owned by another name than the one asked"
        if o["rcode"] not in e["rcodes"]:
            return "rcode %s, statement allows %s" % (o["rcode"], e["rcodes"])
        if (e["authsoa"] or (e["authsoa_if_nx"] and o["rcode"] == "NXDOMAIN")) and not (o["aa"] and o["soa"]):
            return "name error below the zone without %s" % ("the authoritative flag" if not o["aa"] else "the SOA in the authority section")
        return None

    def sig(c, e, o):
        if o["panic"] or o["rcode"] == "NONE":
            return "C48:no-response:%s" % c["q"]
        if sorted(o["answers"]) != sorted(e["answers"]):
            extra = [a for a in o["answers"] if a not in e["answers"]]
            kind = "extra" if extra else ("duplicate" if len(o["answers"]) > len(e["answers"]) else "missing")
            if any(a.startswith("?TXT:") and a == "?TXT:" for a in extra):
                kind = "empty-value"
            return "C48:answers:%s:%s:%s%s" % (kind, c["q"], c["t"], ":storage-failure" if c["fail"] else "")
        if not o["names_ok"]:
            return "C48:owner-name:%s" % c["q"]
        if o["rcode"] not in e["rcodes"]:
            return "C48:rcode:%s:%s:%s-as-%s" % (c["q"], c["t"], "storage-failure" if c["fail"] and c["t"] == "TXT" else "|".join(sorted(e["rcodes"]))[:24], o["rcode"])
        return "C48:authority:%s" % c["q"]

    vf.table_check(ck, "AcmeDns", "MC_AcmeDns.cfg", "acmedns", judge=judge, sig=sig)
    ck.assumptions += ["the challenge label is the token-specific label the solver derives (sha224 hex of the client token) and 'managed'; "
                       "stored values are DNS-01 key authorizations computed by acmez (trusted)",
                       "queries reach ServeDNS directly (no dns.ServeMux in front); one question per message; EDNS0 is not varied",
                       "where the statement is silent (no data at an in-zone name, names outside the zone) only 'no answer records' is required, the rcode is free",
                       "the KV is the repository's in-memory provider; a failing read is injected at PrefixList"]
