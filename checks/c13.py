"""C13 Node lifecycle transitions are atomic and follow the lifecycle.  Specs: NodeState (implementation-shaped, exhaustive)
and Trace_NodeState (recorded concurrent histories of the real nodeState validated as a CAS register)."""
import json
import vf

def run(ck):
    r = ck.tlc("MC_NodeState", "MC_NodeState.cfg", workers=4)
    b = ck.build("nodestate")
    # (B) TLC behaviours replayed through the gates inside Transition: same schedule, same outcome
    sim = ck.tlc("MC_NodeState", "MC_NodeState_sim.cfg", simulate={"num": 1500 if ck.thorough else 300}, depth=80, workers=1)
    beh = sim.printed
    # second family: a state left and entered again between the load and the swap of other transitions out of it
    ck.tlc("MC_NodeState", "MC_NodeState_aba.cfg", workers=4)
    sim2 = ck.tlc("MC_NodeState", "MC_NodeState_aba_sim.cfg", simulate={"num": 1500 if ck.thorough else 300}, depth=80, workers=1)
    beh = beh + sim2.printed
    if ck.replay is not None and "sched" in ck.replay:
        beh = [ck.replay]
    if ck.replay is None or "sched" in ck.replay:
        outs = ck.drive(b, ["replay"], input_lines=[{"script": x["script"], "sched": x["sched"], "first": x.get("first", "Inactive")} for x in beh])
        byi = {o["i"]: o["o"] for o in outs}
        stuck = []
        for i, x in enumerate(beh):
            o = byi[i]
            ck.count(json.dumps(x["sched"]), True)
            exp_ok = {t: [r[0] for r in rs] for t, rs in x["res"].items()}
            got_ok = {t: [r[0] for r in rs] for t, rs in o["res"].items()}
            if i == 0:
                ck.sample({"schedule": x["sched"], "expected": x["res"], "observed": o["res"], "get": o["get"], "hist": o["hist"]})
            if exp_ok != got_ok:
                ck.violation("C13:winner-set", "under schedule %s the real word let %s succeed, the specification %s" % (x["sched"], got_ok, exp_ok), x)
            elif o["get"] != x["get"] or o["hist"] != x["hist"]:
                ck.violation("C13:history", "schedule %s: Get/History are %s / %s, expected %s / %s" % (x["sched"], o["get"], o["hist"], x["get"], x["hist"]), x)
            elif o["stuck"]:
                stuck.append("replay out of step: %s (schedule %s)" % (o["stuck"], x["sched"]))
        ck.traces += len(beh)
        if stuck and not ck.viol:        # the word has other steps than the specification, and no replayed behaviour shows a wrong outcome
            raise vf.Infra(stuck[0])
        if stuck:
            ck.notes.append("%d replayed behaviours went out of step with the specification (the outcomes were still judged)" % len(stuck))
        if ck.replay is not None:
            return
    nh = 1200 if ck.thorough else 240
    recs = ck.drive(b, [str(nh), "4", "3"])
    # barrier rounds: all threads attempt a transition from the same state at the same instant.  All rounds with an unusual
    # outcome (not exactly one winner, or Get/History not matching) and a sample of the others go to TLC.
    rr = ck.drive(b, ["rounds", "6000" if ck.thorough else "1500", "4"])
    odd = [h for h in rr if sum(1 for e in h["events"] if e["e"] == "ret" and e["ok"]) != 1 or len(h["hist"]) != 2]
    ck.extra["barrier_rounds"] = len(rr)
    ck.evaluations += len(rr)
    recs = recs + odd[:20] + rr[:: max(1, len(rr) // 100)]
    if ck.replay is not None:
        recs = [ck.replay]
    # validate in batches so that a rejected history can be identified
    batch = 100
    for lo in range(0, len(recs), batch):
        part = recs[lo:lo + batch]
        if not _validate(ck, part):
            while len(part) > 1:      # bisect to the offending history
                half = part[:len(part) // 2]
                part = half if not _validate(ck, half, count=False) else part[len(part) // 2:]
            h = part[0]
            ck.violation("C13:history-not-linearizable",
                         "no linearization of this recorded history as a compare-and-swap register (or final Get/History disagree): %s" % json.dumps(h)[:1500], h)
    for h in recs:
        succ = sum(1 for e in h["events"] if e["e"] == "ret" and e["ok"])
        fail = sum(1 for e in h["events"] if e["e"] == "ret" and not e["ok"])
        ck.count(json.dumps(h["events"]), succ > 0 and fail > 0)
    ck.sample({"threads": recs[0]["threads"], "init": recs[0]["init"], "events": recs[0]["events"][:10], "get": recs[0]["get"], "hist": recs[0]["hist"]})
    ck.traces += len(recs)
    ck.rule = ("histories = 4 goroutines x 3 calls (Transition / Set over a pool of 3 states) racing on one real nodeState, seeded; "
               "non-trivial = at least one successful and one failed call; distinct = distinct event sequences")
    ck.assumptions += ["event order from one atomic counter stamped at invocation and return (consistent with real time)",
                       "the state returned by a failed Transition is not judged (the statement does not fix it)"]

def _validate(ck, hs, count=True):
    lines = []
    for h in hs:
        lines.append({"e": "reset", "threads": h["threads"], "init": h["init"]})
        for e in sorted(h["events"], key=lambda e: e["seq"]):
            if e["e"] == "inv":
                lines.append({"e": "inv", "t": e["t"], "op": e["op"], "exp": e.get("exp", ""), "nxt": e["nxt"]})
            else:
                lines.append({"e": "ret", "t": e["t"], "ok": e["ok"]})
        lines.append({"e": "final", "get": h["get"], "hist": h["hist"], "init": h["init"]})
    r = ck.tlc("Trace_NodeState", "Trace_NodeState.cfg", files={"trace.ndjson": "\n".join(json.dumps(x) for x in lines) + "\n"},
               workers=1, dfs=True, count=count)
    hwm = [x for x in r.printed if x.get("t") == "hwm"]
    if not hwm:
        raise vf.Infra("trace validator printed no verdict")
    return hwm[0]["reached"] == hwm[0]["lines"]
