"""C06 — ring engine (ChordKV / Trace_ChordKV); see ringcheck.py."""
import ringcheck

KINDS = set("OneMembershipOp JoinLockHeld NoStuck".split())

def run(ck):
    ringcheck.engine(ck, "C06", KINDS)
    ringcheck.finish_common(ck)
