"""Shared by C20/C21/C22: histories from AOF.tla, execution of the real append-only-log store under the file-system recorder,
crash images, reopening of images by drv/aof."""
import json, os, sys, tempfile, shutil
import vf
sys.path.insert(0, os.path.join(vf.VERIF, "lib"))
import fsrec

KEYS = ["k", "p"]
CODE_SKIP_CONFLICT = True    # True once replay tolerates the conflict of a rolled-back PrefixAppend (fix: commit)


def mc_cfg(skip, maxhist=4, invs="RecoverOK PrefixState CleanRestart TailLoss", tail_only=False, maxcrash=1, children='{"c", "d"}'):
    t = lambda b: "TRUE" if b else "FALSE"
    return ("SPECIFICATION Spec\nCONSTANTS\n  Keys = {\"k\"}\n  Children = %s\n  Vals = {\"1\"}\n  MaxHist = %d\n"
            "  SkipConflictOnReplay = %s\n  SkipOnlyAtTail = %s\n  MaxCrash = %d\nINVARIANTS %s\nCHECK_DEADLOCK FALSE\n"
            % (children, maxhist, t(skip), t(tail_only), maxcrash, invs))


def histories(ck, n, maxhist=7, want_reject=0.6):
    r = ck.tlc("AOF", "MC_AOF_gen.cfg", simulate={"num": max(400, n * 40)}, depth=12 * maxhist, workers=1, constants={"MaxHist": maxhist})
    allh = r.printed
    rej = [h for h in allh if any(not a["ok"] for a in h["att"])]
    oth = [h for h in allh if all(a["ok"] for a in h["att"])]
    ck.rng.shuffle(rej); ck.rng.shuffle(oth)
    k = min(len(rej), int(n * want_reject))
    sel = rej[:k] + oth[:n - k]
    # directed additions: a rejected append as the very last / very first mutation, conflicting append right after an import
    def att(ms):
        st = {"s": {k: "" for k in KEYS}, "ch": {k: set() for k in KEYS}, "fill": 0}
        out, states = [], []
        for m in ms:
            ok = True
            if m["t"] == "put": st["s"][m["k"]] = m["v"]
            elif m["t"] == "del": st["s"][m["k"]] = ""
            elif m["t"] == "app":
                if m["c"] in st["ch"][m["k"]]: ok = False
                else: st["ch"][m["k"]].add(m["c"])
            elif m["t"] == "rem": st["ch"][m["k"]].discard(m["c"])
            elif m["t"] == "imp":
                st["s"][m["k"]] = m["v"]
                if m["c"]:
                    st["ch"][m["k"]].add(m["c"])
                st["fill"] += m.get("fill", 0)
            elif m["t"] == "rmk":
                st["s"][m["k"]] = ""; st["ch"][m["k"]] = set()
            out.append({"m": m, "ok": ok})
            states.append({"s": dict(st["s"]), "ch": {k: sorted(v) for k, v in st["ch"].items()}, "fill": st["fill"]})
        return {"att": out, "states": states}
    A = lambda k, c: {"t": "app", "k": k, "c": c}
    sel.append(att([{"t": "put", "k": "k", "v": "1"}, A("p", "c"), A("p", "c"), {"t": "put", "k": "k", "v": "2"}]))
    sel.append(att([A("p", "c"), A("p", "c")]))
    sel.append(att([{"t": "imp", "k": "p", "v": "1", "c": "c"}, A("p", "c"), {"t": "rmk", "k": "p"}, A("p", "c"), A("p", "d"), A("p", "d")]))
    # imports over a key that holds a value: empty transfer, lease-only transfer, children-only transfer
    sel.append(att([{"t": "put", "k": "k", "v": "1"}, {"t": "imp", "k": "k", "v": "", "c": ""}, {"t": "put", "k": "p", "v": "2"},
                    {"t": "imp", "k": "p", "v": "", "c": "", "lease": True}, A("p", "c")]))
    sel.append(att([{"t": "put", "k": "k", "v": "1"}, {"t": "imp", "k": "k", "v": "", "c": "d"}, A("k", "d")]))
    # one Import call carrying many keys (one acknowledged mutation), between ordinary ones
    sel.append(att([{"t": "put", "k": "k", "v": "1"}, {"t": "imp", "k": "p", "v": "2", "c": "c", "fill": 150, "id": "a"}, A("p", "c"), {"t": "put", "k": "k", "v": "2"}]))
    sel.append(att([{"t": "imp", "k": "k", "v": "1", "c": "", "fill": 70, "id": "b"}, {"t": "imp", "k": "p", "v": "1", "c": "d", "fill": 66, "id": "c"}]))
    return sel


def norm_state(st):
    return {"simple": {k: st["s"].get(k, "") for k in KEYS}, "kids": {k: sorted(st["ch"].get(k, [])) for k in KEYS}, "fill": st.get("fill", 0)}


def prefix_states(h):
    """state after 0..n attempted mutations"""
    return [{"simple": {k: "" for k in KEYS}, "kids": {k: [] for k in KEYS}, "fill": 0}] + [norm_state(s) for s in h["states"]]


def record(ck, binary, h, stop=False, cycles=None, pad=None):
    d = tempfile.mkdtemp(prefix="aofrun-", dir=ck.scratch)
    muts = [dict(a["m"]) for a in h["att"]]
    if pad:
        for m in muts:
            if m["t"] == "put":
                m["n"] = pad
    hist = {"dir": d, "muts": muts, "stop": stop, "cycles": cycles or [], "keys": KEYS}
    rec, rc, out, err = fsrec.record([binary, "run"], d, stdin_text=json.dumps(hist), timeout=300)
    if rc != 0:
        raise vf.Infra("aof driver under strace exited %s: %s %s" % (rc, out[-500:], err[-1500:]))
    shutil.rmtree(d, ignore_errors=True)
    return rec, out


def reopen(ck, binary, images, followup=False):
    """images: list of {relpath: bytes}; returns list of projections / errors"""
    root = tempfile.mkdtemp(prefix="aofimg-", dir=ck.scratch)
    dirs = []
    for i, img in enumerate(images):
        d = os.path.join(root, "i%d" % i)
        os.makedirs(d)
        fsrec.materialize(img, d)
        dirs.append(d)
    outs = ck.drive(binary, ["open", json.dumps(KEYS)], input_lines=None, timeout=600,
                    env=None, wrap=None) if False else None
    import subprocess
    p = subprocess.run([binary, "open", json.dumps(KEYS)] + (["followup"] if followup else []), input="\n".join(dirs) + "\n", capture_output=True, text=True, timeout=900)
    if p.returncode != 0:
        raise vf.Infra("aof open driver failed: " + p.stderr[-1500:])
    res = {}
    for line in p.stdout.splitlines():
        if line.startswith("{"):
            o = json.loads(line)
            res[o["i"]] = o["o"]
    shutil.rmtree(root, ignore_errors=True)
    if len(res) != len(images):
        raise vf.Infra("reopened %d of %d images" % (len(res), len(images)))
    return [res[i] for i in range(len(images))]
