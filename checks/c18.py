"""C18 Storage backends are safe under concurrent use.  Spec: Trace_KVLin (per key a sequential object from KVStore.Do: value
register, children set, lease; invoke / return events and internal linearization steps).  Binding: drv/kvconc races goroutines
on one real store of each backend (memory, append-only log, SQLite), stamps every call from one atomic counter at invocation
and return; TLC decides for every recorded history whether a linearization exists."""
import json
import vf

BACKENDS = ["memory", "aof", "sqlite"]
BATCH = 400


def lines_of(h):
    """trace lines of one recorded history: reset, then events in stamp order; an invocation line carries the reply its call
    returned (the linearization step is only enabled where the sequential reply equals it); tokens become small identities"""
    evs = sorted(h["events"], key=lambda e: e["seq"])
    toks = sorted({e.get("tok", 0) for e in evs if e["e"] == "ret"} | {e.get("arg", 0) for e in evs if e["e"] == "inv"})
    tid = {0: 0}
    for x in toks:
        if x:
            tid[x] = len(tid)
    out = [{"e": "reset", "threads": h["threads"]}]
    for i, e in enumerate(evs):
        if e["e"] == "ret":
            out.append({"e": "ret", "t": e["t"]})
            continue
        r = next((x for x in evs[i + 1:] if x["t"] == e["t"]), None)
        if r is None or r["e"] != "ret":
            raise vf.Infra("history without matching return: %s" % json.dumps(e))
        op = {"m": e["op"]["m"], "k": e["op"]["k"]}
        m = op["m"]
        ret = {"e": r.get("r", "")}
        if m == "put":
            op["v"] = e["op"]["v"]
        elif m in ("append", "remove", "contains"):
            op["c"] = e["op"]["c"]
        if m in ("renew", "release"):
            op["tok"] = tid[e.get("arg", 0)]
        if m == "get":
            ret["v"] = r.get("v", "")
        elif m == "contains":
            ret["b"] = bool(r.get("b"))
        elif m == "list":
            ret["l"] = list(r.get("l") or [])
        elif m in ("acquire", "renew", "lget"):
            ret["tok"] = tid[r.get("tok", 0)]
        out.append({"e": "inv", "t": e["t"], "op": op, "ret": ret})
    return out


def validate(ck, hs, count=True):
    """index of the first history of hs that TLC rejects, or None"""
    lines, owner = [], []
    for i, h in enumerate(hs):
        ls = lines_of(h)
        lines += ls
        owner += [i] * len(ls)
    r = ck.tlc("Trace_KVLin", "Trace_KVLin.cfg", files={"kvlin_trace.ndjson": "\n".join(json.dumps(x) for x in lines) + "\n"},
               workers=1, dfs=True, count=count, timeout=900)
    hwm = [x for x in r.printed if x.get("t") == "hwm"]
    if not hwm:
        raise vf.Infra("trace validator printed no verdict")
    reached, n = hwm[0]["reached"], hwm[0]["lines"]
    if n != len(lines):
        raise vf.Infra("trace validator read %d of %d lines" % (n, len(lines)))
    if reached == n:
        return None
    return owner[reached]          # the line after the high-water mark cannot be consumed: it belongs to the rejected history


def _calls(h):
    """(operation, return event, invocation stamp, return stamp) of every call, in invocation order"""
    evs = sorted(h["events"], key=lambda e: e["seq"])
    out = []
    for i, e in enumerate(evs):
        if e["e"] == "inv":
            r = next(x for x in evs[i + 1:] if x["t"] == e["t"])
            out.append((e["op"], r, e["seq"], r["seq"]))
    return out


def classify(h):
    """name the class of a rejected history (description only; the verdict is TLC's)"""
    calls = _calls(h)
    removed = {(op["k"], op["c"]) for op, _, _, _ in calls if op["m"] == "remove"}
    ok_app = {}
    for op, r, _, _ in calls:
        if op["m"] == "append" and r.get("r") == "ok":
            ok_app[(op["k"], op["c"])] = ok_app.get((op["k"], op["c"]), 0) + 1
    if any(n > 1 and kc not in removed for kc, n in ok_app.items()):
        return "append-of-present-child-succeeded"
    for k in (1, 2):
        acq = sum(1 for op, r, _, _ in calls if op["m"] == "acquire" and op["k"] == k and r.get("r") == "ok")
        rel = sum(1 for op, _, _, _ in calls if op["m"] in ("release", "renew") and op["k"] == k)
        if acq > 1 and rel == 0:
            return "held-lease-acquired-again"
    for op, r, inv, _ in calls:       # a read that misses a write acknowledged before the read began (nothing in the history undoes it)
        k = op["k"]
        if op["m"] == "list" or op["m"] == "contains":
            for kc in ok_app:
                if kc[0] == k and kc not in removed and (op["m"] == "list" or op["c"] == kc[1]):
                    acked = any(o["m"] == "append" and (o["k"], o["c"]) == kc and rr.get("r") == "ok" and rs < inv for o, rr, _, rs in calls)
                    seen = kc[1] in (r.get("l") or []) if op["m"] == "list" else bool(r.get("b"))
                    if acked and not seen:
                        return "acknowledged-append-lost"
        if op["m"] == "get" and r.get("v", "") == "" and not any(o["m"] == "delete" and o["k"] == k for o, _, _, _ in calls):
            if any(o["m"] == "put" and o["k"] == k and rr.get("r") == "ok" and rs < inv for o, rr, _, rs in calls):
                return "acknowledged-put-lost"
    return "history-not-linearizable"


def odd_round(h):
    """selection of barrier rounds for TLC (all of these, plus a sample of the others)"""
    evs = h["events"]
    rets = [e for e in evs if e["e"] == "ret"]
    kind = h["kind"]
    if any(e.get("r", "").startswith("error") for e in rets):
        return True
    n_ok = lambda m: sum(1 for i, e in enumerate(evs) if e["e"] == "inv" and e["op"]["m"] == m and
                         next(x for x in evs[i + 1:] if x["t"] == e["t"]).get("r") == "ok")
    if kind == "round-append-same":
        return n_ok("append") != 1
    if kind == "round-acquire-free":
        return n_ok("acquire") != 1
    if kind == "round-put-get":
        return any(e.get("v", "") == "" for i, e in enumerate(evs) if e["e"] == "ret" and
                   next(x for x in reversed(evs[:i]) if x["t"] == e["t"])["op"] == {"m": "get", "k": 1})
    if kind == "round-append-distinct":
        return n_ok("append") != h["threads"] or any(e["e"] == "ret" and next(x for x in reversed(evs[:i]) if x["t"] == e["t"])["op"]["m"] == "contains"
                                                     and not e.get("b") for i, e in enumerate(evs))
    return False


def _usual(h):
    """replayed scripts: a cheap screen for rounds worth sending to TLC (more than one winner of anything)"""
    evs = h["events"]
    oks = {}
    for i, e in enumerate(evs):
        if e["e"] == "inv" and e["op"]["m"] in ("append", "acquire"):
            r = next(x for x in evs[i + 1:] if x["t"] == e["t"])
            if r.get("r") == "ok":
                key = (e["op"]["m"], e["op"].get("c"))
                oks[key] = oks.get(key, 0) + 1
    return all(n <= 1 for n in oks.values())


def run(ck):
    b = ck.build("kvconc")
    sched = []
    if ck.replay is not None and "schedule" in ck.replay:
        rp = ck.replay
        sched = [h for h in ck.drive(b, ["schedreplay", "memory"], input_lines=[{"setup": rp.get("setup") or [], "scripts": rp["scripts"], "kind": rp["kind"],
                                                                                  "schedule": rp["schedule"]}]) if "events" in h]
        out = []
        recs, rounds = sched[:1], []
    elif ck.replay is not None:
        rp = ck.replay
        out = ck.drive(b, ["replay", rp["backend"]], input_lines=[{"backend": rp["backend"], "scripts": rp["scripts"], "kind": rp.get("kind", "replay")}])
        recs = [h for h in out if "i" in h]
        rounds = [h for h in out if "i" not in h]        # sweeps of the same scripts over fresh keys
    else:
        nh = 600 if ck.thorough else 60
        out = ck.drive(b, ["all", str(nh), "4", "3", "60000" if ck.thorough else "5000"], timeout=1500, allow_fail=True)
        if ck.last_rc != 0:
            # the driver process died.  If the Go runtime reports a panic / fatal error and the goroutine that died is inside one of the stores
            # (the writer loop of the log store, a handler of the SQLite store), the store crashed under concurrent use: that is the property
            err = ck.last_stderr or ""
            import re
            m = re.search(r"(?m)^(panic: .*|fatal error: .*|unexpected fault address.*)$", err)
            stack = err[m.start():m.start() + 4000] if m else ""
            first = stack.split("\n\ngoroutine ")[0] if stack else ""
            store = re.search(r"go\.miragespace\.co/specter/kv/(aof|memory|sqlite3)\.", first)
            if m and store:
                bk = {"aof": "aof", "memory": "memory", "sqlite3": "sqlite"}[store.group(1)]
                ck.violation("C18:%s:store-crashed" % bk, "the %s store crashed the process while goroutines used it concurrently: %s; crashing goroutine: %s"
                             % (bk, m.group(1)[:200], " | ".join(l.strip() for l in first.splitlines()[1:14])), None)
                ck.traces += 1
                ck.count(("crash", bk), True)
                return
            raise vf.Infra("driver kvconc exited %s:\n%s" % (ck.last_rc, err[-2500:]))
        recs = [h for h in out if str(h.get("kind", "")).startswith("random-")]
        rounds = [h for h in out if not str(h.get("kind", "")).startswith("random-")]
        # systematic schedules on the in-memory backend: the hash function of the store is a scheduling point
        so = ck.drive(b, ["sched", "120" if ck.thorough else "24", "400" if ck.thorough else "120", "memory"], timeout=1500)
        sched = [h for h in so if "events" in h]
        ck.extra["systematic_schedules"] = len(sched)
        if not sched:
            raise vf.Infra("kvconc sched recorded no run")
    hung = [h for h in out + sched if h.get("stat") == "hung"]
    stats = [h for h in rounds if "stat" in h and h.get("stat") != "hung"]
    rounds = [h for h in rounds if "stat" not in h]
    if not recs:
        raise vf.Infra("kvconc recorded no history")
    odd = [h for h in rounds if odd_round(h) or (ck.replay is not None and not _usual(h))]
    byb = {}
    for h in rounds:
        byb.setdefault(h["backend"], []).append(h)
    sample = []
    for bk, hs in byb.items():
        sample += hs[:: max(1, len(hs) // (100 if ck.thorough else 35))]
    ck.extra["barrier_rounds"] = {x["backend"]: x["keys"] for x in stats}
    ck.extra["barrier_rounds_recorded"] = len(rounds)
    ck.extra["barrier_rounds_overlapping"] = sum(1 for h in rounds if _overlap(h))
    ck.extra["barrier_rounds_unusual"] = len(odd)
    ck.evaluations += sum(x["keys"] for x in stats)
    ck.log("%d histories, %d barrier rounds recorded (%d overlapping, %d unusual)" % (len(recs), len(rounds), ck.extra["barrier_rounds_overlapping"], len(odd)))
    seen = set()
    sel = []
    for h in odd[:30] + recs + sample + sched:
        if id(h) not in seen:
            seen.add(id(h))
            sel.append(h)
    # replies that no linearization can contain are reported with their own signature
    todo = []
    for h in sel:
        bad = [e for e in h["events"] if e["e"] == "ret" and e.get("r", "") not in
               ("ok", "prefix-conflict", "simple-conflict", "lease-conflict", "lease-expired")]
        if bad:
            ck.violation("C18:%s:unexpected-error" % h["backend"], "backend %s answered %s in the concurrent history %s"
                         % (h["backend"], bad[0].get("r"), json.dumps(h["scripts"])[:800]), _rep(h))
        else:
            todo.append(h)
    _control(ck)
    rejected = 0
    for lo in range(0, len(todo), BATCH):
        chunk = todo[lo:lo + BATCH]
        first = True
        while chunk and rejected < 3:
            i = validate(ck, chunk, count=first)
            first = False
            if i is None:
                break
            h = chunk[i]
            if validate(ck, [h], count=False) is None:       # must be rejected on its own as well
                raise vf.Infra("history rejected in a batch but accepted alone: %s" % json.dumps(h)[:600])
            rejected += 1
            ck.violation("C18:%s:%s" % (h["backend"], classify(h)),
                         "backend %s: no linearization of this recorded history (%s) exists under the KV contract: scripts %s; events %s"
                         % (h["backend"], h["kind"], json.dumps(h["scripts"]), json.dumps(_brief(h))[:1500]), _rep(h))
            chunk = chunk[i + 1:]
            if rejected == 3 and chunk:
                ck.notes.append("stopped after 3 rejected histories; %d selected histories were not validated" % (len(chunk) + max(0, len(todo) - lo - BATCH)))
    for h in sel:
        rets = [e.get("r") for e in h["events"] if e["e"] == "ret"]
        nontrivial = any(r != "ok" for r in rets) or _overlap(h)
        ck.count((h["backend"], json.dumps(_brief(h))), nontrivial)
    ck.traces += len(sel)
    for bk in BACKENDS:
        hs = [h for h in sel if h["backend"] == bk]
        if hs:
            ck.sample({"backend": bk, "kind": hs[0]["kind"], "scripts": hs[0]["scripts"], "events": _brief(hs[0])[:12]}, cap=3)
            ck.extra["overlapping_" + bk] = sum(1 for h in hs if _overlap(h))
    if hung and not ck.viol:
        # a call that never returns is not a reply: judged are the histories completed before it; without a finding among them the run says nothing
        raise vf.Infra("a call on the %s backend did not return within 20 s; the %d histories completed before it are legal" % (hung[0].get("backend"), len(sel)))
    if hung:
        ck.notes.append("a call on the %s backend never returned; the histories completed before it were judged" % hung[0].get("backend"))
    if ck.thorough and ck.replay is None:
        _race(ck)
    ck.rule = ("histories = 4 (every third: 3) goroutines x 3 calls on 2 fresh keys of one store per backend, themes simple (put/delete/get), "
               "prefix (append/remove/contains/list over 2 children), lease (acquire/release/renew/read token) or mixed, followed by quiescent "
               "reads of everything; barrier rounds = all goroutines start the same conflicting call at the same instant (append of one child, "
               "acquire of a free lease, put + read back, appends of distinct children, acquire/release/acquire): all unusual rounds and a sample "
               "go to TLC; systematic schedules (memory backend): the store's hash function is a scheduling point, goroutines park before every call and at "
               "every further hash call inside a call, one runs at a time, and all schedules of 9 directed cases (an operation that empties a key against "
               "operations that use it again) and of seeded random 2-3 goroutine scripts on one key are enumerated depth-first (bounded) - every run goes to TLC; "
               "non-trivial = a conflict reply or really overlapping calls; distinct = distinct (backend, event sequence)")
    ck.assumptions += ["event order from one atomic counter stamped at invocation and return (consistent with real time)",
                       "PrefixList is judged child by child (no atomic snapshot of the whole set is demanded)",
                       "ErrKVSimpleConflict without effect is a legal reply of a Put/Delete that overlaps another write of the key (DESIGN 4.0)",
                       "leases of >= 1000 s never expire inside a history; RemoveKeys/Import are not raced (C18 is about per-key operations)",
                       "racing histories: schedules are whatever the Go scheduler produces on this machine: absence of a violation is evidence, not proof",
                       "systematic schedules interleave at call boundaries and at hash-function calls inside a call (the only points the store offers without a hook); "
                       "an invocation is stamped when its goroutine is released to start the call"]


def _control(ck):
    """control of the validator itself: it must accept a legal history with every kind of conflict reply and reject illegal ones"""
    def hist(*calls):      # calls: (t, op, ret-event fields, invocation stamp, return stamp)
        evs = []
        for t, op, ret, a, b in calls:
            evs.append({"seq": a, "e": "inv", "t": t, "op": op, "arg": ret.pop("arg", 0)})
            evs.append(dict({"seq": b, "e": "ret", "t": t, "tok": 0}, **ret))
        return {"threads": 2, "events": evs, "backend": "control", "kind": "control", "scripts": []}
    A = lambda c: {"m": "append", "k": 1, "c": c}
    good = hist((1, A("c1"), {"r": "prefix-conflict"}, 1, 3), (2, A("c1"), {"r": "ok"}, 2, 4),
                (1, {"m": "put", "k": 2, "v": "v1"}, {"r": "simple-conflict"}, 5, 8), (2, {"m": "put", "k": 2, "v": "v2"}, {"r": "ok"}, 6, 7),
                (1, {"m": "get", "k": 2}, {"r": "ok", "v": "v2"}, 9, 10),
                (1, {"m": "acquire", "k": 1}, {"r": "ok", "tok": 111}, 11, 14), (2, {"m": "acquire", "k": 1}, {"r": "lease-conflict"}, 12, 13),
                (2, {"m": "release", "k": 1}, {"r": "ok", "arg": 111}, 15, 16), (2, {"m": "lget", "k": 1}, {"r": "ok"}, 17, 18),
                (1, {"m": "list", "k": 1}, {"r": "ok", "l": ["c1"]}, 19, 20))
    bad = [hist((1, A("c1"), {"r": "ok"}, 1, 3), (2, A("c1"), {"r": "ok"}, 2, 4)),                                        # appended twice
           hist((1, {"m": "acquire", "k": 1}, {"r": "ok", "tok": 5}, 1, 3), (2, {"m": "acquire", "k": 1}, {"r": "ok", "tok": 6}, 2, 4)),   # acquired twice
           hist((1, {"m": "put", "k": 1, "v": "v1"}, {"r": "ok"}, 1, 2), (2, {"m": "get", "k": 1}, {"r": "ok", "v": ""}, 3, 4)),            # acknowledged put missed
           hist((1, {"m": "put", "k": 1, "v": "v1"}, {"r": "simple-conflict"}, 1, 2), (2, {"m": "put", "k": 1, "v": "v2"}, {"r": "ok"}, 3, 4))]  # conflict without overlap
    i = ck.seed % len(bad) if not ck.thorough else None
    for j, h in enumerate(bad):
        if i is None or i == j:                    # quick tier: one of them per run (one TLC start), chosen by the seed
            got = validate(ck, [good, h, good], count=False)
            if got != 1:
                raise vf.Infra("trace validator control %d: expected rejection of history 1, got %s" % (j, got))


def _overlap(h):
    depth = 0
    for e in sorted(h["events"], key=lambda e: e["seq"]):
        depth += 1 if e["e"] == "inv" else -1
        if depth > 1:
            return True
    return False


def _brief(h):
    out = []
    for e in sorted(h["events"], key=lambda e: e["seq"]):
        if e["e"] == "inv":
            o = e["op"]
            out.append("%d:%s(%s%s)" % (e["t"], o["m"], o["k"], "," + (o.get("v") or o.get("c") or str(e.get("arg") or "")) if (o.get("v") or o.get("c") or e.get("arg")) else ""))
        else:
            extra = e.get("v") or (",".join(e.get("l") or [])) or (str(e.get("tok")) if e.get("tok") else "") or ("true" if e.get("b") else "")
            out.append("%d:=%s%s" % (e["t"], e.get("r"), (" " + extra) if extra else ""))
    return out


def _rep(h):
    r = {"backend": h["backend"], "scripts": h["scripts"], "kind": h["kind"], "recorded": _brief(h)}
    if "schedule" in h:
        r.update(schedule=h["schedule"], setup=h.get("setup") or [])
    return r


def _race(ck):
    """auxiliary: the same driver under the Go race detector; reports are a note, never the verdict"""
    try:
        rb = ck.build("kvconc", race=True)
    except vf.Infra as e:
        ck.notes.append("race-detector build not available: %s" % str(e)[-200:])
        return
    ck.drive(rb, ["rounds", "600", "4"], timeout=900, allow_fail=True, env={"GORACE": "halt_on_error=0"})
    err = ck.last_stderr or ""
    n = err.count("WARNING: DATA RACE")
    ck.extra["race_detector_reports"] = n
    if n:
        import re
        where = sorted(set(re.findall(r"\n\s+(go\.miragespace\.co/specter/[\w/.()*]+)\(\)", err)))[:8]
        ck.notes.append("race detector (auxiliary): %d reports, e.g. in %s" % (n, ", ".join(where)))
    else:
        ck.notes.append("race detector (auxiliary): no report in a short run of the barrier rounds on every backend")
