"""C41 Simultaneous peer connections converge on one shared connection.
Spec: ReuseTable (decision table, cell by cell) + Reuse (two negotiations, pre-existing cache states, close/reap).
Binding: drv/reuse = real overlay.QUIC transports on loopback UDP, gates of overlay/reuse.go, held datagrams."""
import concurrent.futures, json, os, shutil
import vf

# which design variant of spec/Reuse.tla describes the code in /repo ("none" = as found; "tiebreak" = repaired)
CODE_FIX = os.environ.get("VERIF_C41_FIX", "none")

CODE_OF = {"neg": 508, "late": 406, "reap": 401, "idle": 0x1d1e}
NEG_CODES = (508, 406)


ALL_PRE = '{"none", "both", "aOnly", "bOnly"}'


def _cfg(mode, invs, fix=None, pre=ALL_PRE, table=""):
    return ("SPECIFICATION Spec\nCONSTANTS\n  Mode = \"%s\"\n  Fix = \"%s\"\n  TableFile = \"%s\"\n  Pre = %s\nINVARIANT %s\nCHECK_DEADLOCK FALSE\n"
            % (mode, fix or CODE_FIX, table, pre, invs))


def other(p):
    return "B" if p == "A" else "A"


def dialer(k):
    return "B" if k == "Y" else "A"


# ------------------------------------------------------------------------------------------ decision table
def cells(ck, binary, r=None):
    """drive every cell on the real code; returns (cases, observed table, list of cells that differ from the transcription)"""
    if ck.replay is not None:
        cases = [ck.replay["cell"]]
    else:
        cases = (r or ck.tlc("MC_ReuseCells", "MC_ReuseCells.cfg", workers=2)).printed
    recs = ck.drive(binary, ["cells", "8"], input_lines=[c["c"] for c in cases], timeout=240)
    byi = {x["i"]: x["o"] for x in recs if "i" in x}
    if len(byi) != len(cases):
        raise vf.Infra("drv/reuse cells answered %d of %d\n%s" % (len(byi), len(cases), getattr(ck, "last_stderr", "")[-1500:]))
    table, differ = [], []
    for i, c in enumerate(cases):
        o, e, cc = byi[i], c["e"], c["c"]
        ck.count("cell:" + json.dumps(cc, sort_keys=True), True)
        if i % 6 == 0:
            ck.sample({"cell": cc, "expected": e, "observed": o})
        hard = [x for x in o.get("issues", []) if not x.startswith("S: ")]
        if not o.get("out") or o.get("status") is None or (hard and o["out"] not in ("reuse", "reuse-close")):
            raise vf.Infra("cell %s could not be driven: %s" % (json.dumps(cc), "; ".join(o.get("issues", []))))
        if o.get("kill") and o["out"] in ("err", "store"):
            # the model cannot express this cell: the behaviours are still enforced on the real transports and judged clause by clause on
            # what the transports did; only if none of them breaks a clause is the run inconclusive (raised at the end of run())
            ck.outside = "cell %s closes the cached connection with outcome %s: outside the vocabulary of Reuse.tla" % (json.dumps(cc), o["out"])
            differ.append(ck.outside)
            continue
        table.append({"c": cc, "o": {"status": o["status"], "out": o["out"], "kill": bool(o.get("kill"))}})
        if o["status"] != e["status"] or o["out"] != e["out"] or o.get("kill") or hard:
            differ.append("%s: code announces %s and does %s%s%s, transcription says %s / %s" % (
                json.dumps(cc), o["status"], o["out"], "+closes-cached" if o.get("kill") else "", (" (" + "; ".join(hard) + ")") if hard else "",
                e["status"], e["out"]))
    ck.traces += len(cases)
    return cases, table, differ


# ------------------------------------------------------------------------------------------ schedules
def _klass(sc):
    last = sc["steps"][-1]["post"]["st"]
    dialed = sorted({s["k"] for s in sc["steps"] if s["a"] == "Dial"})
    sts = []
    for k in dialed:
        for p in ("A", "B"):
            s = last[p][k]
            if s[0] != "-":
                sts.append("%s%s=%s-%s" % (p, k, s[0], s[1]))
    if len(dialed) == 2 and len(sts) == 4 and all("FRESH" in s for s in sts):
        return "simultaneous-dial:both-fresh"
    return "%s:%s" % ("simultaneous-dial" if len(dialed) == 2 else "single-dial", ",".join(sts))


def _live(obs, name):
    if name in ("-", "?"):
        return False
    return all(v is None for v in obs["cl"].get(name, {}).values())


def _neg_closed(obs, name):
    return any(v is not None and v["code"] in NEG_CODES for v in obs["cl"].get(name, {}).values())


def _obs_res(sc, res, i):
    """what the deciding end of step i returned, from observations only: ('err'|'fresh'|'reuse', conn)"""
    st = sc["steps"][i]
    p, k = st["p"], st["k"]
    o = res["steps"][i]
    prev = res["steps"][i - 1]["cache"][p] if i > 0 else None
    now = o["cache"][p]
    if dialer(k) != p:                       # accepting end
        if o.get("fate") == "sleep":
            return ("err", "-")
    else:
        d = (res.get("dials") or {}).get(k) or {}
        if d.get("retried") or (d.get("err") or "").startswith("creating quic connection"):
            return ("err", "-")
    if now == k and prev != k:
        return ("fresh", k)
    # returned a cached connection: the one DialStream handed out if known, else the entry held when deciding
    if dialer(k) == p and d.get("conn") and not d.get("err"):
        return ("reuse", d["conn"])
    return ("reuse", prev if prev not in (None, "-") else now)


def _conform(sc, res):
    """step-by-step comparison with the projection the specification predicts; returns list of differences"""
    diffs = []
    for i, st in enumerate(sc["steps"]):
        if i >= len(res["steps"]):
            diffs.append("step %d %s(%s,%s) not executed" % (i, st["a"], st["p"], st["k"]))
            break
        o, post = res["steps"][i], st["post"]
        tag = "step %d %s(%s,%s)" % (i, st["a"], st["p"], st["k"])
        if o.get("err"):
            diffs.append("%s: %s" % (tag, o["err"]))
            break
        for p in ("A", "B"):
            if st["a"] == "Notice" and p == st["p"] and o["cache"][p] == "-":
                continue   # the watcher of a locally closed connection runs at once; the specification reaps in the next step
            if o["cache"][p] != post["cache"][p]:
                diffs.append("%s: %s caches %s, specification says %s" % (tag, p, o["cache"][p], post["cache"][p]))
        for k, e in post["cl"].items():
            ends = o["cl"].get(k)
            if ends is None:
                continue
            if e[0] == "open":
                if any(v is not None for v in ends.values()):
                    diffs.append("%s: %s is closed %s, specification says open" % (tag, k, json.dumps(ends)))
            elif e[0] == "gone":
                pass
            else:
                kind, by = e
                mine = ends.get(by)
                if mine is None or mine["code"] != CODE_OF[kind] or mine["remote"]:
                    diffs.append("%s: %s as seen by %s is %s, specification says closed by %s (%s)" % (tag, k, by, json.dumps(mine), by, kind))
        if st["a"] == "Decide":
            e = post["res"][st["p"]][st["k"]]
            got = _obs_res(sc, res, i)
            # which connection an accepting end returned is not observable (AcceptWithListener drops it; with a snapshot that
            # went stale it is not the entry the peer keeps): compared for dialing ends only
            if got[0] != e[0] or (e[0] == "reuse" and dialer(st["k"]) == st["p"] and got[1] != e[1]):
                diffs.append("%s: end returned %s, specification says %s" % (tag, list(got), e))
    return diffs


def _clauses(sc, res):
    """the three clauses judged on what the real transports did (no reference to the specification's state)"""
    bad = {}
    fin = res["final"]
    a, b = fin["cache"]["A"], fin["cache"]["B"]
    if a != b and _live(fin, a) and _live(fin, b):
        bad[1] = "after the negotiations A caches %s and B caches %s, both alive" % (a, b)
    for p, mine in (("A", a), ("B", b)):
        if mine in ("X", "Y") and _live(fin, mine) and fin["cache"][other(p)] != mine:
            bad.setdefault(3, "%s caches the new connection %s (alive) while %s caches %s" % (p, mine, other(p), fin["cache"][other(p)]))
    for i, st in enumerate(sc["steps"]):
        if st["a"] != "Decide" or i >= len(res["steps"]) or res["steps"][i].get("err"):
            continue
        kind, conn = _obs_res(sc, res, i)
        if kind == "reuse" and conn not in ("-", "?") and _neg_closed(fin, conn):
            who = [(pp, v["code"]) for pp, v in fin["cl"][conn].items() if v is not None and not v["remote"]]
            bad.setdefault(2, "%s's end of %s returned the cached connection %s, which the negotiation closed (closed locally by %s)"
                           % (st["p"], st["k"], conn, who))
    return bad


def schedules(ck, binary, scs, origin):
    if not scs:
        return 0
    recs = ck.drive(binary, ["sched", "8"], input_lines=scs, timeout=900)
    byi = {x["i"]: x["o"] for x in recs if "i" in x}
    if len(byi) != len(scs):
        raise vf.Infra("drv/reuse sched answered %d of %d\n%s" % (len(byi), len(scs), getattr(ck, "last_stderr", "")[-1500:]))
    hits = 0
    for i, sc in enumerate(scs):
        res = byi[i]
        order = [(s["a"], s["p"], s["k"]) for s in sc["steps"]]
        dialed = {s["k"] for s in sc["steps"] if s["a"] == "Dial"}
        ck.count("%s:%s" % (sc["pre"], json.dumps(order)), len(dialed) == 2 or sc["pre"] != "none")
        if not res.get("steps") and res.get("issues"):
            raise vf.Infra("scenario could not be set up: %s" % "; ".join(res["issues"]))
        bad = _clauses(sc, res)
        diffs = _conform(sc, res)
        if len(ck.samples) < 5 or (bad and len(ck.samples) < 8):
            ck.sample({"origin": origin, "pre": sc["pre"], "schedule": order, "final": res["final"]["cache"], "clauses_violated": sorted(bad)})
        for n, what in sorted(bad.items()):
            hits += 1
            ck.violation("C41:clause%d:%s" % (n, _klass(sc)),
                         "clause %d broken on two real overlay.QUIC transports (%s): %s; pre-existing state=%s schedule=%s final=%s"
                         % (n, origin, what, sc["pre"], " ".join("%s(%s,%s)" % o for o in order), json.dumps(res["final"])),
                         {"kind": "sched", "sc": sc})
        if diffs and not bad:
            ck.extra["divergent"] = ck.extra.get("divergent", 0) + 1
            ck.notes.append("real code diverges from Reuse.tla (%s, pre=%s, %s): %s" % (origin, sc["pre"], " ".join("%s(%s,%s)" % o for o in order), "; ".join(diffs[:3])))
        elif not diffs:
            ck.extra["conformant"] = ck.extra.get("conformant", 0) + 1
    ck.traces += len(scs)
    return hits


def handlers_in_opposite_order(ck, binary):
    """crossing dials with nothing cached, all four ends decide, and only then the ends that were handed a fresh connection go on into
    handlePeer - on A first the end of X then the end of Y, on B the other way round.  Registering a connection in the cache belongs to the
    decision (it is made under the per-peer lock); if it is made later, by whoever starts the handlers, each peer keeps the connection whose
    handlers started last and the two peers disagree with both connections alive.  (With the cache written at the decision this schedule is
    the simultaneous dial of the known finding, whatever the order of the handlers.)"""
    mk = lambda a, p, k: {"a": a, "p": p, "k": k, "post": {"held": [], "atdec": [], "cache": {}}}
    steps = [mk("Dial", "A", "X"), mk("Dial", "B", "Y")]
    steps += [mk("Read", p, k) for k in ("X", "Y") for p in ("A", "B")]
    steps += [mk("Decide", p, k) for k in ("X", "Y") for p in ("A", "B")]
    scs = []
    for order in ([("A", "X"), ("A", "Y"), ("B", "Y"), ("B", "X")], [("A", "Y"), ("A", "X"), ("B", "X"), ("B", "Y")]):
        scs.append({"pre": "none", "holdhandle": True, "steps": steps + [mk("Handle", p, k) for p, k in order]})
    recs = ck.drive(binary, ["sched", "2"], input_lines=scs, timeout=300)
    byi = {x["i"]: x["o"] for x in recs if "i" in x}
    if len(byi) != len(scs):
        raise vf.Infra("drv/reuse sched answered %d of %d directed scenarios" % (len(byi), len(scs)))
    for i, sc in enumerate(scs):
        res = byi[i]
        order = [(s["a"], s["p"], s["k"]) for s in sc["steps"]]
        ck.count("handle-order:%d" % i, True)
        ck.traces += 1
        # an end that was refused never reaches handlePeer: its Handle step cannot be performed, which is not an error of the run
        fin = res.get("final")
        if not fin:
            raise vf.Infra("directed scenario could not be run: %s" % "; ".join(res.get("issues", [])))
        a, b = fin["cache"]["A"], fin["cache"]["B"]
        bad = {}
        if a != b and _live(fin, a) and _live(fin, b):
            bad[1] = "after the negotiations A caches %s and B caches %s, both alive" % (a, b)
        for p, mine in (("A", a), ("B", b)):
            if mine in ("X", "Y") and _live(fin, mine) and fin["cache"][other(p)] != mine:
                bad.setdefault(3, "%s caches the new connection %s (alive) while %s caches %s" % (p, mine, other(p), fin["cache"][other(p)]))
        # every other outcome of this schedule is the simultaneous dial with all ends FRESH: the known finding of clause 2, judged by the
        # generated behaviours
        for n, what in sorted(bad.items()):
            ck.violation("C41:clause%d:simultaneous-dial:both-fresh:handlers-in-opposite-order" % n,
                         "clause %d broken on two real overlay.QUIC transports (directed): %s; schedule=%s final=%s"
                         % (n, what, " ".join("%s(%s,%s)" % o for o in order), json.dumps(fin)), {"kind": "handle", "sc": sc})


def _dedupe(printed):
    seen, out = set(), []
    for r in printed:
        key = r["pre"] + json.dumps([(s["a"], s["p"], s["k"]) for s in r["steps"]])
        if key not in seen:
            seen.add(key)
            out.append({"pre": r["pre"], "steps": r["steps"], "ok": r["ok"]})
    return out


def run(ck):
    ck.rule = ("cases = (a) the 24 cells of the decision table (peer status x own cache x direction), each driven once on a real transport "
               "against a scripted QUIC peer; (b) behaviours of Reuse.tla (pre-existing cache state + order of Dial/Read/Decide/Reap/Notice/"
               "LateClose steps of the two negotiations) drawn by TLC -simulate with VERIF_SEED, plus the TLC counterexample, each enforced on "
               "two real overlay.QUIC transports with the gates of reuse.go and held datagrams; non-trivial = both peers dial or a pre-existing "
               "entry exists; distinct = distinct (pre-state, step order)")
    ck.assumptions += [
        "two peers, one negotiation per direction plus one pre-existing connection; a second dial by the same peer (retry) is suppressed in the driver",
        "an end decides only after it has read the peer's status (the driver waits for the decide gate); a status lost because the peer already "
        "closed the connection is outside the model",
        "the periodic reaper goroutine is not modelled (only the per-connection watcher started by handlePeer)",
        "Reap timing on the real transports is controlled by holding back the closing peer's UDP datagrams",
    ]
    if ck.replay is not None:
        binary = ck.build("reuse")
        if ck.replay.get("kind") == "e2e":
            e2e(ck, binary)
        else:
            schedules(ck, binary, [ck.replay["sc"]], "replay")
        return
    sdir = ck.path("spec")
    if not os.path.isdir(sdir):
        shutil.copytree(os.path.join(vf.VERIF, "spec"), sdir)
    nsim, budget = (4000, 1200) if ck.thorough else (1500, 60)

    def tlc(name, mode, invs, table="", **kw):
        fn = "_c41_%s%s.cfg" % ("x_" if table else "", name)
        return ck.tlc("Reuse", fn, files={fn: _cfg(mode, invs, pre=kw.pop("pre", ALL_PRE), table=table)}, **kw)

    def model(ex, table=""):
        return (ex.submit(tlc, "full", "full", "TypeOK WatchIsCache NoSplit CacheAgree", table, allow_error=True, workers=4),
                ex.submit(tlc, "cex", "gen", "ReuseNotClosed", table, pre='{"none"}', allow_error=True, workers=4, count=False),
                ex.submit(tlc, "full2", "full", "ReuseNotClosed", table, allow_error=True, workers=2, count=False),
                ex.submit(tlc, "sim", "gen", "EmitDone", table, simulate={"num": nsim}, depth=60, count=False, timeout=300))
    # the TLC runs are independent of each other and of the Go build: run them side by side, with the transcribed table
    with concurrent.futures.ThreadPoolExecutor(max_workers=6) as ex:
        f_build = ex.submit(ck.build, "reuse")
        f_cells = ex.submit(ck.tlc, "MC_ReuseCells", "MC_ReuseCells.cfg", workers=2)
        fm = model(ex)
        binary, rcells = f_build.result(), f_cells.result()
        # (1) the decision table is extracted from the code, cell by cell, and compared with the transcription
        _, table, differ = cells(ck, binary, rcells)
        r, g, f2, s = [f.result() for f in fm]
    tf = ""
    outside = getattr(ck, "outside", None)
    if outside:
        ck.notes.append(outside + "; the model keeps the transcribed table")
    if differ and not outside:
        # the model is only as good as its table: model-check again with the table the code really implements
        ck.notes.append("decision table extracted from the code differs from the transcription in %d cell(s): %s" % (len(differ), "; ".join(differ[:4])))
        ck.extra["table_cells_differing"] = len(differ)
        tf = "obs_cells.ndjson"
        with open(os.path.join(sdir, tf), "w") as f:
            f.write("\n".join(json.dumps(x) for x in table) + "\n")
        with concurrent.futures.ThreadPoolExecutor(max_workers=4) as ex:
            r, g, f2, s = [f.result() for f in model(ex, tf)]
    # (2) exhaustive design check: clauses 1 and 3 (and the auxiliary invariants) on every interleaving
    ck.exhaustive = r.finished and not r.error
    reachable = {tuple(x["reached"]) for x in r.printed if "reached" in x}
    ck.extra["reachable_cell_branches"] = len(reachable)
    cex = []
    if r.error:
        ck.notes.append("design-level counterexample for %s (full model%s): lead only" % (r.error["name"], ", extracted table" if tf else ""))
        if r.error["name"] in ("NoSplit", "CacheAgree", "WatchIsCache"):
            g2 = tlc("cex_" + r.error["name"], "gen", r.error["name"], tf, allow_error=True, workers=4, count=False, timeout=900)
            if g2.error and g2.trace_json:
                last = g2.trace_json["counterexample"]["state"][-1][1]
                cex.append(({"pre": last["pre"], "steps": last["hist"]}, r.error["name"]))
    # clause 2 on every interleaving; a counterexample is searched among the behaviours the driver can enforce, so that
    # it can be replayed (first without, then with pre-existing entries)
    if f2.error:
        if not g.error:
            g = tlc("cex_all", "gen", "ReuseNotClosed", tf, allow_error=True, workers=4, count=False, timeout=900)
        if g.error and g.trace_json:
            last = g.trace_json["counterexample"]["state"][-1][1]
            cex.append(({"pre": last["pre"], "steps": last["hist"]}, "ReuseNotClosed"))
        else:
            ck.notes.append("ReuseNotClosed fails only with reap timings the driver cannot enforce: lead only")
    elif not f2.finished:
        raise vf.Infra("TLC did not finish the full model for ReuseNotClosed")
    unreproduced = None
    for sc, inv in cex:
        if schedules(ck, binary, [sc], "TLC counterexample of %s" % inv) == 0 and inv != "WatchIsCache":
            unreproduced = "the counterexample of %s was not reproduced by the real code: the model does not describe the code" % inv
    # (3) seeded behaviours of the specification, enforced on the real transports: first a selection that takes
    # every reachable (cell, branch) of the table through a Decide step, then seeded ones up to the budget
    scs = _dedupe(s.printed)
    if not scs:
        raise vf.Infra("no behaviours generated")
    ck.rng.shuffle(scs)
    chosen, covered = [], set()
    for sc in sorted(scs, key=lambda x: len(x["steps"])):
        mine = {tuple(st["cell"]) for st in sc["steps"] if st["a"] == "Decide"} | {("pre", sc["pre"])} | {("act", st["a"]) for st in sc["steps"]}
        if mine - covered:
            covered |= mine
            chosen.append(sc)
    # and one behaviour per class of violation the model itself predicts
    for sc in sorted(scs, key=lambda x: len(x["steps"])):
        if not all(sc["ok"].values()):
            key = ("bad", tuple(sorted(k for k, v in sc["ok"].items() if not v)), _klass(sc))
            if key not in covered:
                covered.add(key)
                if sc not in chosen:
                    chosen.append(sc)
    rest = [sc for sc in scs if sc not in chosen]
    chosen += rest[:max(0, budget - len(chosen))]
    missing = reachable - covered
    ck.extra["behaviours_generated"] = len(scs)
    ck.extra["behaviours_replayed"] = len(chosen)
    ck.extra["cell_branches_decided_on_real_transports"] = len({c for c in covered if c[0] not in ("pre", "act", "bad")})
    ck.extra["behaviours_violating_in_model"] = sum(1 for x in chosen if not all(x["ok"].values()))
    if missing:
        ck.notes.append("reachable table branches not exercised by the replayed behaviours: %s" % sorted(missing))
    for lo in range(0, len(chosen), 200):
        schedules(ck, binary, chosen[lo:lo + 200], "seeded behaviour")
    e2e(ck, binary)
    handlers_in_opposite_order(ck, binary)
    if outside and not ck.viol:
        raise vf.Infra(outside)
    if unreproduced and not ck.viol:       # inconclusive only if nothing else was found: the seeded behaviours and the end-to-end runs were still judged
        raise vf.Infra(unreproduced)
    if unreproduced:
        ck.notes.append(unreproduced)
    if ck.extra.get("divergent") and not ck.viol:
        raise vf.Infra("the real code diverged from Reuse.tla without breaking a clause: " + "; ".join(ck.notes[-2:]))


def e2e(ck, binary):
    # (4) the public API without gates: sequential dials reuse one connection
    for e in ck.drive(binary, ["e2e"], timeout=120):
        ck.count("e2e-sequential", True)
        caches = [st["cache"] for st in e.get("steps", [])]
        ok = (not e.get("issues") and len(caches) == 3 and all(c == {"A": "Z", "B": "Z"} for c in caches)
              and [st["newdial"] for st in e["steps"]] == [1, 0, 0] and all(st["conn"] == "Z" and not st["err"] for st in e["steps"]))
        if not ok:
            ck.violation("C41:sequential-dials", "sequential dials A->B, B->A, A->B did not share one connection: %s" % json.dumps(e)[:1500], {"kind": "e2e"})
