"""C47 Listen address lists are normalized faithfully.  Spec: Listen."""
import json, vf

REPS = 4


def _classify(c, e, o):
    """name the class of failing input (not the run)"""
    if e["kind"] == "error":
        return "accepted-non-ip-host"
    if o["err"]:
        if any(t == "blank" for t in c["ovr"]) and not [t for t in c["ovr"] if t != "blank"]:
            return "blank-override-not-ignored"
        return "rejected-valid-list"
    exp_t = [x[0] for x in e["out"]]
    got_t = [x[0] for x in o["out"]]
    if any(t.startswith("?") for t in got_t):
        return "address-not-trimmed"
    if got_t == exp_t:
        bad = [x[0] for x, y in zip(e["out"], o["out"]) if x[1] != y[1]]
        return "network-of-" + (bad[0] if bad else "?")
    extra, missing = set(got_t) - set(exp_t), set(exp_t) - set(got_t)
    if extra:
        base_t = set("v4a" if t == "v4ap" else t for t in c["base"])
        if [t for t in c["ovr"] if t != "blank"] and extra <= base_t:
            return "override-does-not-replace-base"
        return "entries-added"
    if missing:
        if not [t for t in c["ovr"] if t != "blank"] and c["ovr"]:
            return "base-lost-to-blank-override"
        return "distinct-entries-dropped"
    if len(got_t) != len(exp_t):
        return "duplicates-kept"
    return "first-seen-order"


def run(ck):
    ck.rule = ("TLC enumerates every (base, override) pair of token lists (quick: base <= 3 with override <= 1 and base <= 1 with override <= 3; thorough: both <= 3; entries over "
               "{v4a, v4b, v4a-padded, v6, hostname, fly host, wildcard, blank}), proves the transcribed loop equal to the declarative "
               "normal form and emits the latter; each pair is run through ParseAddresses in %d seeded concretisations "
               "(literals, ports, near-miss host names, kinds of white space, nil vs empty slices, tcp/udp); non-trivial = the lists "
               "contain a blank, a padded entry, a duplicate, a rejected host, the Fly host, or a non-empty override" % REPS)
    # quick: 3-entry lists on either side against <= 1 entry on the other; thorough: all pairs of lists <= 3
    small = 3 if ck.thorough else 1

    def judge(c, e, obs):
        for o in obs:
            if e["kind"] == "empty":
                if not o["err"] and o["out"]:
                    return "addresses returned although every entry is blank: %s" % json.dumps(o)
            elif e["kind"] == "error":
                if not o["err"]:
                    return "a list with a non-IP host other than the Fly host was accepted: %s" % json.dumps(o)
            else:
                if o["err"] or o["out"] != e["out"]:
                    return "normalised list differs from the specification: %s" % json.dumps(o)
        return None

    def sig(c, e, obs):
        for o in obs:
            bad = (e["kind"] == "empty" and not o["err"] and o["out"]) or (e["kind"] == "error" and not o["err"]) or \
                  (e["kind"] == "list" and (o["err"] or o["out"] != e["out"]))
            if bad:
                return "C47:" + ("addresses-from-blank-lists" if e["kind"] == "empty" else _classify(c, e, o))
        return "C47:?"

    def nontrivial(c):
        b, o = c["c"]["base"], c["c"]["ovr"]
        eff = [t for t in o if t != "blank"] or [t for t in b if t != "blank"]
        eff = ["v4a" if t == "v4ap" else t for t in eff]
        return bool(o) or len(set(eff)) < len(eff) or any(t in ("blank", "v4ap", "host", "fly") for t in b + o)

    vf.table_check(ck, "Listen", "MC_Listen.cfg", "c47listen", drv_args=[str(REPS)],
                   constants={"MaxBase": 3, "MaxOvr": 3, "Small": small}, judge=judge, sig=sig, nontrivial=nontrivial)
    ck.evaluations *= REPS
    ck.assumptions += ["duplicates are judged as equal strings after trimming (textually different spellings of one IP are not generated)",
                       "an IPv4 address written as an IPv4-mapped IPv6 literal ([::ffff:a.b.c.d]) is an IPv4 address: its family is the one it can be bound on "
                       "(two of the eight concretisation worlds use that spelling for an IPv4 token)",
                       "entries without a port and upper-case spellings of the Fly host are outside the generated space (the statement does not fix their treatment)",
                       "all-blank input: an error or an empty result are both accepted (the statement is silent)",
                       "the wildcard host (empty) has no IP family: the unsuffixed network is expected"]
