"""C43 Tunnel sync assigns each tunnel a distinct hostname.  Spec: ClientCfg (families sync, sync_obs)."""
import json, shutil
import vf, clientlib

CLAUSES = ["len", "kept", "has", "distinct", "source", "reuse"]


def run(ck):
    ck.rule = ("TLC enumerates every tunnel list up to MaxTun over {with/without target} x {no hostname, dot-free hostname(s), custom dotted "
               "hostname} and every registered-hostname set up to MaxReg over dot-free / dotted names (configured and not), also with failing GenerateHostname calls, proves the "
               "transcribed loop meets the statement, the real SyncConfigTunnels runs on every case (scripted gateway RPC, registered list in "
               "a seeded order) and the resulting tunnel list is judged by the SyncDecl predicate in TLC; non-trivial = some tunnel needs a "
               "hostname and the registered set is not empty, or a configured hostname is duplicated / also registered")
    if ck.thorough:
        rounds = [{"MaxTun": 4, "MaxReg": 3},
                  {"MaxTun": 3, "MaxReg": 3, "ConfNames": '{"", "a", "b", "c.example.com"}',
                   "RegNames": '{"a", "b", "x", "y", "c.example.com", "d.example.com"}'}]
    else:
        rounds = [{"MaxTun": 3, "MaxReg": 2}]
    bg = clientlib.build_bg(ck, "client")       # the driver is built while TLC enumerates the cases
    binary = None
    for consts in rounds:
        if ck.replay is not None:
            one_round(ck, bg(), rounds[-1], [ck.replay])
            break
        if binary is None:
            r = ck.tlc("ClientCfg", "MC_ClientCfg_sync.cfg", constants=consts, timeout=1500)
            binary = bg()
        else:
            r = ck.tlc("ClientCfg", "MC_ClientCfg_sync.cfg", constants=consts, timeout=1500)
        one_round(ck, binary, consts, r.printed)
    if ck.replay is None or ck.replay.get("c", {}).get("rm"):
        concurrent_removal(ck, binary or bg(), [ck.replay] if ck.replay is not None else None)
    ck.exhaustive = True
    ck.assumptions += ["hostnames are atoms: the code only compares them for equality and tests for a dot",
                       "the gateway reports each registered hostname once and GenerateHostname returns fresh dot-free names (scripted RPC)",
                       "a failed GenerateHostname call (cases with calls 1 / 2 / 1,2 / 1,3 failing) may leave that many tunnels without a hostname; every other clause still holds",
                       "the client object is reused across cases and reset to the case's tunnel list (NewClient's certificate cache is costly)"]


def concurrent_removal(ck, b, cases=None):
    """a tunnel is released / unpublished by another caller while the sync waits for the gateway's answer (the removal takes the
    configuration lock, not the sync lock).  Which of the two wins is not specified; the statement's invariant is: afterwards every tunnel with
    a target has a hostname and no two tunnels share one."""
    if cases is None:
        cases = []
        names = ["a", "b", "c", "d.example.com"]
        for n in (2, 3, 4):
            for rm in range(1, n + 1):
                for reg in ([], ["a"], ["x", "b"]):
                    cases.append({"c": {"tun": [{"tg": True, "hn": names[k]} for k in range(n)], "reg": reg, "fail": [], "rm": rm}})
        # tunnels without hostname behind the removed one: they are given hostnames while the list shrinks
        for rm in (1, 2):
            cases.append({"c": {"tun": [{"tg": True, "hn": "a"}, {"tg": True, "hn": "b"}, {"tg": True, "hn": ""}, {"tg": True, "hn": ""}], "reg": ["x"], "fail": [], "rm": rm}})
    d = clientlib.scratch_dir(ck, "c43r")
    try:
        recs = ck.drive(b, ["sync", d], input_lines=[c["c"] for c in cases], timeout=900)
    finally:
        shutil.rmtree(d, ignore_errors=True)
    byi = {x["i"]: x["o"] for x in recs if "i" in x}
    if len(byi) != len(cases):
        raise vf.Infra("driver answered %d of %d cases" % (len(byi), len(cases)))
    for i, c in enumerate(cases):
        cc, o = c["c"], byi[i]
        ck.count(("removal", json.dumps(cc)), True)
        if o["panic"]:
            ck.violation("C43:panic:concurrent-removal", "SyncConfigTunnels panicked: %s; case=%s" % (o["panic"], json.dumps(cc)), c)
            continue
        hs = [h for h in o["out"] if h]
        if len(set(hs)) < len(hs):
            ck.violation("C43:distinct:concurrent-removal",
                         "after a sync during which the tunnel at position %d was %s two tunnels share a hostname: tunnels=%s registered=%s -> hostnames=%s"
                         % (cc["rm"], "released" if i % 2 == 0 else "unpublished", json.dumps(cc["tun"]), o["regorder"], o["out"]), c)
        elif "" in o["out"]:
            ck.violation("C43:has:concurrent-removal", "after a sync during which the tunnel at position %d was removed a tunnel with a target has no hostname: "
                         "tunnels=%s -> hostnames=%s" % (cc["rm"], json.dumps(cc["tun"]), o["out"]), c)
    ck.traces += len(cases)
    ck.extra["syncs_with_a_concurrent_removal"] = len(cases)


def one_round(ck, b, consts, cases):
    if not cases:
        raise vf.Infra("no cases")
    d = clientlib.scratch_dir(ck, "c43")
    try:
        recs = ck.drive(b, ["sync", d], input_lines=[c["c"] for c in cases], timeout=900)
    finally:
        shutil.rmtree(d, ignore_errors=True)
    byi = {x["i"]: x["o"] for x in recs if "i" in x}
    if len(byi) != len(cases):
        raise vf.Infra("driver answered %d of %d cases\n%s" % (len(byi), len(cases), getattr(ck, "last_stderr", "")[-1500:]))
    obs = "\n".join(json.dumps({"c": c["c"], "o": {"out": byi[i]["out"], "gen": byi[i]["gen"], "nfail": byi[i].get("nfail", 0)}}) for i, c in enumerate(cases)) + "\n"
    r2 = ck.tlc("ClientCfg", "MC_ClientCfg_sync_obs.cfg", files={"obs_sync.ndjson": obs}, constants=consts, timeout=900)
    verdict = {rec["c"] - 1: rec["e"] for rec in r2.printed}
    if len(verdict) != len(cases):
        raise vf.Infra("validator judged %d of %d" % (len(verdict), len(cases)))
    differs = 0
    for i, c in enumerate(cases):
        cc, o, v = c["c"], byi[i], verdict[i]
        hns = [t["hn"] for t in cc["tun"] if t["hn"]]
        need = any(t["tg"] and not t["hn"] for t in cc["tun"])
        ck.count(cc, (need and bool(cc["reg"])) or len(set(hns)) < len(hns) or bool(set(hns) & set(cc["reg"])))
        if i % (len(cases) // 5 + 1) == 0:
            ck.sample({"case": cc, "registered_order": o["regorder"], "observed": {"out": o["out"], "requested": o["gen"]}, "verdict": v})
        if o["panic"]:
            ck.violation("C43:panic", "SyncConfigTunnels panicked: %s; case=%s" % (o["panic"], json.dumps(cc)), c)
            continue
        if not o["same"]:
            ck.violation("C43:targets-changed", "the sync changed the targets / length of the tunnel list; case=%s out=%s" % (json.dumps(cc), o["out"]), c)
        bad = [k for k in CLAUSES if not v[k]]
        if bad:
            ck.violation("C43:%s" % "+".join(bad),
                         "hostname assignment violates clause(s) %s of the statement: tunnels=%s registered(order given)=%s -> hostnames=%s, newly requested=%s"
                         % (bad, json.dumps(cc["tun"]), o["regorder"], o["out"], o["gen"]), c)
        elif sorted(x for x in o["out"] if x) != sorted(x for x in c["e"]["out"] if x):
            differs += 1
    ck.traces += len(cases)
    if differs:
        ck.notes.append("%d outcomes meet the statement but use other hostnames than the transcribed loop (order of the registered list; not judged)" % differs)
