"""C04 — DHT KV operations stay linearizable while the ring changes (ring engine, ChordKV / Trace_ChordKV).
In the controlled scheduler every client operation is one step, so linearizability reduces to: a successful operation takes
effect at the node the specification allows and reads return the latest acknowledged value (flags staleread / splitwrite);
an operation answered with the retryable stale-ownership error has no effect (the recorded state must be unchanged);
no other error class reaches a client during graceful churn."""
import ringcheck

KINDS = set("staleread splitwrite client-fatal read-not-latest".split())

def run(ck):
    ringcheck.engine(ck, "C04", KINDS, gen_kw=dict(n_ops=14, maint_p=0.2))
    ringcheck.finish_common(ck)
    ck.assumptions.append("truly concurrent client histories (several goroutines inside kvMiddleware) are not yet covered by this check")
