"""C04 — DHT KV operations stay linearizable while the ring changes (ring engine, ChordKV / Trace_ChordKV).
In the controlled scheduler every client operation is one step, so linearizability reduces to: a successful operation takes
effect at the node the specification allows and reads return the latest acknowledged value (flags staleread / splitwrite);
an operation answered with the retryable stale-ownership error has no effect (the recorded state must be unchanged);
no other error class reaches a client during graceful churn.

"Either fails with a retryable error or takes effect": an operation must also RETURN.  ChordKV carries, per client operation, the
set of nodes whose surrogateMu it read-locked on its way (field held); with the switch "fwdlock" (the forward to the surrogate is
made under the lock - the code before its repair) and "stab" (stabilize rounds of the periodic task interleave with everything
else: StabRead / StabWrite) TLC finds a behaviour in which the call chain comes back to a node it has locked (InvNoRelock): a
stabilize round that computed its list before a join installs it after the joiner's advisory, the stale successor pointer
routes the request back.  The stored witness (spec/witness_relock.json; thorough tier: searched again) is replayed on real nodes
with a writer (a Leave of that node) queued between the two read locks: every operation must still return."""
import json, os
import vf, ringlib, ringcheck

KINDS = set("staleread splitwrite client-fatal read-not-latest".split())
RELOCK_CFG = dict(lay="Lay5b", init="{1, 2, 5}", joiners="{3, 4}", leavers="{}", maxops=1, invs="InvNoRelock")


def relock_scenario(states, name):
    """the witness up to the start of the client operation, then: the operation advanced gate by gate to its second arrival at the
    node it was first handled by, a Leave of that node advanced into its critical section (it write-locks surrogateMu), then both
    run to the end"""
    k = next(i for i, x in enumerate(states) if x.get("ops"))
    op = states[-1]["ops"][0]
    entry = states[k]["ops"][0]["at"]
    sc = ringlib.cex_to_scenario(states[:k], name, finish=False)
    sc["gates"] = ringlib.GATES_MEMBERSHIP + ["stab:", "kv:"]
    put = {"do": "start", "op": "c1", "kind": op["kind"], "at": "n%d" % entry, "k": "k%d" % op["k"], "v": "7"}
    sc["steps"] += [put] + [{"do": "step", "op": "c1"}] * 4      # kv:enter@e, kv:local@e, kv:enter@surrogate, kv:enter@e, kv:local@e
    sc["steps"] += [{"do": "start", "op": "lw", "kind": "leave", "n": "n%d" % entry}, {"do": "until", "op": "lw", "gate": "leave:locked"},
                    {"do": "step", "op": "lw"},            # into surrogateMu.Lock(): blocks while the first read lock is held
                    {"do": "steps", "op": "c1"}, {"do": "steps", "op": "lw"}, {"do": "steps", "op": "c1"}]
    sc["entry"] = entry
    return sc


def relock_regression(ck):
    with open(os.path.join(vf.VERIF, "spec", "witness_relock.json")) as f:
        states = json.load(f)["states"]
    if ck.thorough and ck.replay is None:
        # search again: with the forward under the lock and interleaving stabilize rounds the hazard must be reachable (else the
        # stored witness no longer belongs to the specification)
        r = ck.tlc("MC_ChordKV", ringlib.mc_cfg(ringcheck.CODE_FIXPRED, ringcheck.CODE_FIXLEAVE, ringcheck.CODE_FIXWRAP, opkinds='{"put", "stab", "fwdlock"}', **RELOCK_CFG),
                   allow_error=True, timeout=3000, workers=min(vf.NCPU, 12))
        if not r.error or r.error["name"] != "InvNoRelock" or not r.trace_json:
            raise vf.Infra("ChordKV with forward-under-lock and interleaving stabilize rounds no longer violates InvNoRelock: %s" % (r.error,))
        fresh = ringlib.cex_states(r.trace_json)
    else:
        fresh = None

    def attempt(sts, name):
        sc = ck.replay if (ck.replay is not None and ck.replay.get("relock")) else dict(relock_scenario(sts, name), relock=True)
        ev = ringlib.run_scenarios(ck, [sc], timeout=600)
        final = [e for e in ev if "ops" in e and e.get("t") != "step"]
        steps = [e for e in ev if e.get("t") == "step"]
        seen = [(e.get("op"), e.get("to")) for e in steps if e.get("op") in ("c1", "lw")]
        # the replay is only meaningful if the request really came back to the node that handled it first
        locals_ = [t for o, t in seen if o == "c1" and str(t).startswith("kv:local@")]
        return sc, final, seen, (len(locals_) >= 2 and locals_[0] == locals_[1])

    sc = final = seen = None
    if fresh is not None:
        # TLC's breadth-first search with several workers does not always return the same shortest behaviour; one that the abstraction of
        # lookups admits but the real finger tables do not route is not a witness on real nodes: the stored one then stands
        sc, final, seen, okw = attempt(fresh, "relock-witness-fresh")
        if not okw:
            ck.notes.append("the freshly searched relock behaviour is not routed that way by the real finger tables (gates %s): the stored witness is replayed"
                            % [t for o, t in seen if o == "c1"])
            sc = None
    if sc is None:
        sc, final, seen, okw = attempt(states, "relock-witness")
        if not okw:
            raise vf.Infra("relock witness not reproduced on the real nodes: gates of the client operation %s" % [t for o, t in seen if o == "c1"])
    ck.count("relock-witness", True)
    ck.traces += 1
    ops = final[-1]["ops"] if final else {}
    stuck = [o for o in ("c1", "lw") if not (ops.get(o) or {}).get("done")]
    ck.sample({"scenario": "relock-witness", "gates_of_the_request": [t for o, t in seen if o == "c1"], "gates_of_the_leave": [t for o, t in seen if o == "lw"],
               "finished": {o: (ops.get(o) or {}).get("res") for o in ("c1", "lw")}})
    if stuck:
        ck.violation("C04:operation-never-returns", "the request was routed back to node n%d, which had forwarded it to its surrogate while holding surrogateMu read-locked; a Leave of "
                     "that node queued for the write lock in between: %s never return(s) (no progress within the step limit, periodic tasks parked); gates of the request %s, of the leave %s"
                     % (sc.get("entry", 0), " and ".join({"c1": "the KV request", "lw": "the Leave"}[o] for o in stuck), [t for o, t in seen if o == "c1"], [t for o, t in seen if o == "lw"]), sc)


def run(ck):
    if ck.replay is not None and ck.replay.get("relock"):
        relock_regression(ck)
        return
    ringcheck.engine(ck, "C04", KINDS, gen_kw=dict(n_ops=14, maint_p=0.2))
    if ck.replay is None:
        relock_regression(ck)
    ringcheck.finish_common(ck)
    ck.assumptions.append("truly concurrent client histories (several goroutines inside kvMiddleware) are covered by the call-chain model (field held) and the replayed witness only")
