"""C02 Ring pointers converge to the true ring order after membership churn.  Spec: ChordRing (liveness Converges under weak
fairness of the maintenance actions on a 4-node instance with a joiner and a leaver; RingCorrect = predecessor, successor list and
every finger equal their oracle values).  Binding: seeded join/leave histories on real nodes under the controlled scheduler, settled
to a maintenance fixpoint; every remaining node's predecessor, successor list and 48 fingers are compared with the true ring."""
import json
import vf, ringlib, ringcheck

RING = 1 << 48

LIVE_CFG = """SPECIFICATION RFairSpec
CONSTANTS
  L = 4
  FixPred = %(fp)s
  FixLeave = %(fl)s
  FixWrap = %(fw)s
  FixDead = %(fd)s
  FixAdopt = TRUE
  MaxTry = 3
  TrackCov = FALSE
  Goal = "none"
  MCLayout <- LayR4
  InitMembers = {1, 3, 4}
  Joiners = {2}
  Leavers = {3}
  MaxOps = 0
  Faults = FALSE
  OpKinds = {}
  MaxMembers = 0
  B = 3
  FixSelf = TRUE
INVARIANTS InvTerminates InvLookupCorrect
PROPERTY Converges
CHECK_DEADLOCK FALSE
"""

def owner(ids, key):
    ge = [i for i in ids if i >= key]
    return min(ge) if ge else min(ids)

def true_succ_list(ids, n, L=4):
    s = sorted(ids)
    i = s.index(n)
    out = []
    for k in range(1, L + 1):
        x = s[(i + k) % len(s)]
        if x in out:
            break
        out.append(x)
        if x == n:
            break
    return out

def consecutive_leaves(name, n, leavers, survivors_settle=True):
    """ring of n nodes (rank order = name order) built by joins and settled; then the nodes of `leavers` leave gracefully one after the
    other with NO maintenance round in between (the periodic tasks are parked: they are simply slower than the leaves); then the quiet period"""
    layout = [{"n": "n%d" % i} for i in range(n)]
    steps = [{"do": "create", "n": "n0"}]
    for i in range(1, n):
        steps += [{"do": "start", "op": "j%d" % i, "kind": "join", "n": "n%d" % i, "via": "n0"}, {"do": "steps", "op": "j%d" % i}, {"do": "settle"}]
    steps += [{"do": "settle", "rounds": 8}]
    for i in leavers:
        steps += [{"do": "start", "op": "l%d" % i, "kind": "leave", "n": "n%d" % i}, {"do": "steps", "op": "l%d" % i}]
    steps += [{"do": "settle", "rounds": 24}]
    return {"name": name, "layout": layout, "variant": 1, "gates": ["join:", "leave:", "start:", "rtj:lock"], "steps": steps, "fingers": True}


def overlapping_rounds_after_crash():
    """two stabilize rounds of one node overlap (the periodic round and a slow earlier one): round X computes its list while the node's first
    successor has crashed and the second does not answer, and is held before it installs it; the second successor answers again; round Y
    computes the correct list, installs it and is held before it notifies the new successor; X installs its stale list and finishes, Y
    finishes.  Whatever the node is left with, the following rounds must repair it: the quiet period ends with the true successor lists."""
    layout = [{"n": "n%d" % i} for i in range(4)]
    steps = [{"do": "create", "n": "n0"}]
    for i in range(1, 4):
        steps += [{"do": "start", "op": "j%d" % i, "kind": "join", "n": "n%d" % i, "via": "n0"}, {"do": "steps", "op": "j%d" % i}, {"do": "settle"}]
    steps += [{"do": "settle", "rounds": 8},
              {"do": "setstate", "n": "n1", "state": "Left"}, {"do": "setstate", "n": "n2", "state": "Left"},
              {"do": "start", "op": "sbX", "kind": "stabilize", "n": "n0"},
              {"do": "setstate", "n": "n2", "state": "Active"},
              {"do": "start", "op": "sbY", "kind": "stabilize", "n": "n0"}, {"do": "until", "op": "sbY", "gate": "stn:notify"},
              {"do": "steps", "op": "sbX"}, {"do": "steps", "op": "sbY"},
              {"do": "settle", "rounds": 24}]
    return {"name": "overlapping-rounds-after-crash", "layout": layout, "variant": 1, "gates": ["join:", "leave:", "start:", "rtj:lock", "stab:", "stn:"],
            "steps": steps, "fingers": True}


def run(ck):
    t = lambda b: "TRUE" if b else "FALSE"
    # design: a member whose successor list names departed nodes only is a dead end of convergence.  Instance with a list of 2 entries
    # (the code's 4 need 7 nodes): three consecutive successors of a node leave
    with open(__import__("os").path.join(vf.VERIF, "spec", "MC_ChordRing_dead.cfg")) as f:
        dead_cfg = f.read()
    if ck.thorough or not ringcheck.CODE_FIXDEAD:      # the whole space of the instance (4.8 M states): thorough tier
        rd = ck.tlc("MC_ChordRing", dead_cfg.replace("FixDead = TRUE", "FixDead = %s" % t(ringcheck.CODE_FIXDEAD)), allow_error=True, timeout=2400,
                    workers=min(vf.NCPU, 12))
        if rd.error:
            ck.notes.append("ChordRing (as implemented) reaches a state in which a member's successor list names departed nodes only and stabilize "
                            "cannot repair it (%s): the real fixpoints below decide" % rd.error["name"])
    if ringcheck.CODE_FIXDEAD:                         # without the fallback TLC must find the dead end (the instance is not vacuous)
        rv = ck.tlc("MC_ChordRing", dead_cfg.replace("FixDead = TRUE", "FixDead = FALSE"), allow_error=True, timeout=900, workers=4, count=False)
        if not rv.error:
            raise vf.Infra("ChordRing without the fallback is expected to violate InvNoDeadEnd (vacuous instance?)")
    # overlapping stabilize rounds of one node (compute / install / notify), the remembered fingerprint of the installed list, crashed nodes:
    # at a maintenance fixpoint every member's first successor is the next member.  The variant that remembers the fingerprint after the
    # Notify call must be refuted (its counterexample is the shape of the directed scenario overlapping-rounds-after-crash below)
    fpk = dict(lay="Lay4", init="{1, 2, 3, 4}", joiners="{}", leavers="{}", maxops=0, invs="InvNoWrongFixpoint")
    codeargs = (ringcheck.CODE_FIXPRED, ringcheck.CODE_FIXLEAVE, ringcheck.CODE_FIXWRAP)
    rf = ck.tlc("MC_ChordKV", ringlib.mc_cfg(*codeargs, opkinds='{"fp", "crash2"}', **fpk), allow_error=True, timeout=900, workers=8)
    if rf.error:
        ck.notes.append("ChordKV with three-phase rounds and a crashed node reaches a wrong maintenance fixpoint (%s): the real fixpoints below decide" % rf.error["name"])
    rl = ck.tlc("MC_ChordKV", ringlib.mc_cfg(*codeargs, opkinds='{"fp", "crash2", "fplate"}', **fpk), allow_error=True, timeout=900, workers=4, count=False)
    if not rl.error or rl.error["name"] != "InvNoWrongFixpoint":
        raise vf.Infra("ChordKV with the fingerprint remembered after the Notify call is expected to violate InvNoWrongFixpoint (vacuous instance?)")
    if ck.thorough:       # also a member that does not answer for a while (123 M states)
        rt = ck.tlc("MC_ChordKV", ringlib.mc_cfg(*codeargs, opkinds='{"fp", "crash2", "flap3"}', **fpk), allow_error=True, timeout=3000, workers=min(vf.NCPU, 12))
        if rt.error:
            ck.notes.append("ChordKV with three-phase rounds, a crashed and a silent node reaches a wrong maintenance fixpoint (%s): the real fixpoints below decide" % rt.error["name"])
    r = ck.tlc("MC_ChordRing", LIVE_CFG % dict(fp=t(ringcheck.CODE_FIXPRED), fl=t(ringcheck.CODE_FIXLEAVE), fw=t(ringcheck.CODE_FIXWRAP), fd=t(ringcheck.CODE_FIXDEAD)),
               allow_error=True, timeout=1500, workers=min(vf.NCPU, 12))
    lead = r.error is not None
    if lead:
        ck.notes.append("ChordRing (as implemented) violates %s %s: the real fixpoints below decide" % (r.error["kind"], r.error["name"]))
    b = ck.build("chord")
    n = 240 if ck.thorough else 36
    scenarios = []
    if ck.replay is not None:
        scenarios = [ck.replay]
    else:
        for i in range(n):
            big = ck.thorough and i % 6 == 0
            kw = dict(n_nodes=(12 if big else 4 + i % 4), n_keys=0, n_init=(8 if big else 2 + i % 3), n_join=(3 if big else 1 + i % 2),
                      n_leave=(3 if big else 1 + (i // 2) % 2), n_ops=0, kinds=("get",), maint_p=0.3, final_reads=False)
            sc = ringlib.Gen(ck.rng, **kw).make("churn-%d-%d" % (ck.seed, i))
            sc["fingers"] = True
            scenarios.append(sc)
        # more consecutive successors leave than the successor list has entries, no maintenance round in between
        scenarios.append(consecutive_leaves("consecutive-leaves-7-two-remain", 7, [1, 2, 3, 4, 5]))
        scenarios.append(consecutive_leaves("consecutive-leaves-7-one-remains", 7, [1, 2, 3, 4, 5, 6]))
        scenarios.append(consecutive_leaves("consecutive-leaves-9-four-remain", 9, [2, 3, 4, 5, 6]))
        scenarios.append(overlapping_rounds_after_crash())
        if ck.thorough:
            scenarios.append(consecutive_leaves("consecutive-leaves-10-descending", 10, [7, 6, 5, 4, 3, 2]))
            scenarios.append(consecutive_leaves("consecutive-leaves-12-two-runs", 12, [1, 2, 3, 4, 5, 7, 8, 9, 10, 11]))
    ev = ringlib.run_scenarios(ck, scenarios, binary=b, timeout=3000)
    ids_of, judged = {}, 0
    opdone = {}
    for e in ev:
        if e["t"] == "begin":
            ids_of[e["s"]] = {int(rk): int(e["ids"][name]) for name, rk in e["nodes"].items()}
            opdone[e["s"]] = {}
        elif e["t"] == "step" and e.get("op"):
            opdone[e["s"]][e["op"]] = (e.get("to") == "done") or opdone[e["s"]].get(e["op"], False)
        elif e["t"] == "panic":
            raise vf.Infra("driver panic: %s" % e["msg"])
        elif e["t"] == "settled":
            sid = e["s"]
            sc = scenarios[sid]
            if not e["stable"]:
                ck.violation("C02:no-fixpoint", "maintenance did not reach a fixpoint within the round limit in scenario %s" % sc["name"], sc)
                continue
            if not all(opdone[sid].values()):
                continue
            ids = ids_of[sid]
            st = e["state"]
            members = sorted(ids[int(rk)] for rk, ns in st.items() if ns["st"] in ("Active", "Transferring"))
            if not members:
                continue
            judged += 1
            ck.count("%s@%d" % (sc["name"], e["i"]), len(members) > 1)
            for rk, ns in st.items():
                me = ids[int(rk)]
                if me not in members:
                    continue
                if ns["st"] != "Active":
                    continue
                rid = lambda x: ids.get(x) if x is not None and x >= 0 else None
                pred = rid(ns["pred"])
                want_pred = members[members.index(me) - 1]
                if pred != want_pred:
                    ck.violation("C02:predecessor", "at the fixpoint node %d has predecessor %s, its true predecessor is %d (members %s, scenario %s)"
                                 % (me, pred, want_pred, members, sc["name"]), sc)
                succ = [rid(x) for x in ns["succ"]]
                want = true_succ_list(members, me)
                if succ != want:
                    live_part = [x for x in succ if x in members]
                    if live_part == want and all(x is not None for x in succ):
                        ck.violation("C02:succlist:departed-node-retained",
                                     "at the fixpoint the successor list of node %d is %s: it still lists departed node(s) %s behind its true successors %s "
                                     "(members %s, scenario %s)" % (me, succ, [x for x in succ if x not in members], want, members, sc["name"]), sc)
                    else:
                        ck.violation("C02:succlist", "at the fixpoint the successor list of node %d is %s, the true successors are %s (members %s, scenario %s)"
                                     % (me, succ, want, members, sc["name"]), sc)
                bad = []
                for k, f in enumerate(ns.get("fing", []), start=1):
                    want_f = owner(members, (me + (1 << (k - 1))) % RING)
                    if rid(f) != want_f:
                        bad.append((k, rid(f), want_f))
                if bad:
                    ck.violation("C02:finger", "at the fixpoint node %d has %d wrong finger(s), e.g. finger %d -> %s, owner of its target is %d (members %s, scenario %s)"
                                 % (me, len(bad), bad[0][0], bad[0][1], bad[0][2], members, sc["name"]), sc)
            if len(ck.samples) < 2:
                ck.sample({"scenario": sc["name"], "members": members, "state": {k: {"pred": v["pred"], "succ": v["succ"], "st": v["st"]} for k, v in st.items()}})
    ck.traces += len(scenarios)
    ck.extra["fixpoints_judged"] = judged
    if judged == 0:
        raise vf.Infra("no quiescent fixpoint was judged")
    if lead and not ck.viol:
        raise vf.Infra("the ChordRing model does not converge but every real fixpoint was correct: model and code disagree")
    ck.rule = ("seeded histories over 4-7 (thorough: up to 12) nodes with random 48-bit ids: initial ring by sequential joins, then joins and leaves interleaved at gate "
               "granularity with maintenance calls, all operations finished, maintenance run to a fixpoint; at every such fixpoint each node's predecessor, successor "
               "list and 48 fingers are compared with the true ring; directed histories in which 5 and 6 consecutive successors of a node leave without a "
               "maintenance round in between (more than the 4 entries of the successor list); design: ChordRing with a 2-entry list keeps InvNoDeadEnd "
               "(without the fallback of stabilize it does not); non-trivial = more than one remaining member; distinct = (scenario, fixpoint)")
    ck.assumptions += ["'quiet period' = maintenance fixpoint with the periodic tasks parked (manual scheduler): a wrong fixpoint is a definitive violation"]
