"""C14 Chord errors keep identity and retryability across RPC.  Spec: Errors (families cases, design, obs)."""
import json, vf


def _cls(c):
    e = c["err"]
    if e in ("deadline", "arbitrary", "lookalike"):
        return e
    return "defined-error"


def run(ck):
    ck.rule = ("TLC enumerates every (RemoteNode method, origin error, plain | wrapped with one %w | joined with errors.Join | second of two %w | behind an Is method) over the 18 defined chord errors + "
               "context.DeadlineExceeded + an arbitrary error + an unknown error whose text merely ends with the text of a retryable one, and the 21 RPC methods; each case goes through a real twirp "
               "server/client pair (chord.Server over a stub node returning the origin error -> generated twirp servers -> "
               "net/http over net.Pipe -> rpc.DynamicChordClient -> chord.RemoteNode); the two-sided observation is read back "
               "into TLC and judged by the predicate Decl; non-trivial = every case (all are distinct inputs)")
    r = ck.tlc("Errors", "MC_Errors_cases.cfg")
    cases = r.printed
    if ck.replay is not None:
        cases = [ck.replay]
    if not cases:
        raise vf.Infra("no cases")
    # design-level question: does the transcribed path have the property?  (a lead only)
    d = ck.tlc("Errors", "MC_Errors_design.cfg", allow_error=True, workers=1)
    leads = [c["c"] for c in cases if not _model_ok(c)]
    if (d.error is not None) != bool(leads) and ck.replay is None:
        raise vf.Infra("design run and emitted model predictions disagree")
    b = ck.build("rpcerr")
    recs = ck.drive(b, [], input_lines=[c["c"] for c in cases])
    byi = {x["i"]: x["o"] for x in recs if "i" in x}
    if len(byi) != len(cases):
        raise vf.Infra("driver answered %d of %d\n%s" % (len(byi), len(cases), getattr(ck, "last_stderr", "")[-2000:]))
    for i, c in enumerate(cases):
        o = byi[i]
        if o.get("panic") or not o["reached"]:
            raise vf.Infra("case %s did not reach the origin stub through the RPC path: %s" % (json.dumps(c["c"]), json.dumps(o)))
    obs = "\n".join(json.dumps({"c": c["c"], "o": byi[i]}) for i, c in enumerate(cases)) + "\n"
    r2 = ck.tlc("Errors", "MC_Errors_obs.cfg", files={"obs_errors.ndjson": obs})
    verdict = {rec["c"] - 1: rec["e"] for rec in r2.printed}
    if len(verdict) != len(cases):
        raise vf.Infra("validator judged %d of %d" % (len(verdict), len(cases)))
    drift = 0
    reproduced = 0
    for i, c in enumerate(cases):
        cc, o, v = c["c"], byi[i], verdict[i]
        ck.count(cc, True)
        if i % (len(cases) // 6 + 1) == 0:
            ck.sample({"case": cc, "observed": o, "verdict": {k: v[k] for k in ("ok", "same", "retry", "unknown")}})
        m = v["model"]
        if (m["clientIs"], m["clientRetry"], m["originRetry"]) != (o["clientIs"], o["clientRetry"], o["originRetry"]):
            drift += 1
        if v["ok"]:
            continue
        reproduced += 1
        w = ("wrapped" if cc.get("shape", "single") == "single" else "wrapped-" + cc["shape"]) if cc["wrap"] else "plain"
        what = []
        if v["noError"]:
            what.append("no-error")
        if not v["same"]:
            what.append("identity")
        if not v["retry"]:
            what.append("retryability")
        if not v["unknown"] and "retryability" not in what:
            what.append("unknown-retryable")
        for k in what:
            kind = _cls(cc)
            if kind == "defined-error":
                kind = "retryable-error" if o["originRetry"] else "fatal-error"
            ck.violation("C14:%s:%s:%s" % (w, kind, k),
                         "%s lost across RPC: method %s, origin %s%s: origin retryable=%s; caller got %r "
                         "(twirp code %s) errors.Is(origin)=%s retryable=%s" % (
                             k, cc["m"], "fmt.Errorf(\"...%w\", " + cc["err"] + ")" if cc["wrap"] else cc["err"], "",
                             o["originRetry"], o["clientText"], o.get("twirpCode"), o["clientIs"], o["clientRetry"]), c)
    ck.traces += len(cases)
    ck.exhaustive = ck.replay is None
    if leads and not reproduced and ck.replay is None:
        raise vf.Infra("TLC counterexample of the transcribed design (e.g. %s) is not reproduced by the real code: the model is wrong"
                       % json.dumps(leads[0]))
    if leads:
        ck.notes.append("design model: %d of %d cases violate Decl in the transcription (TLC counterexample: %s)" % (
            len(leads), len(cases), _first_line(d)))
    if drift:
        ck.notes.append("%d observations differ from the transcribed path (not judged; the verdict is Decl on the observation)" % drift)
    ck.assumptions += ["twirp serialization and net/http are exercised for real over an in-memory net.Pipe; the stub node stands for "
                       "LocalNode (the origin of the error), so which errors LocalNode actually returns is outside this check",
                       "identity is judged with errors.Is(callerErr, origin) after RemoteNode's own ErrorMapper call; for "
                       "context.DeadlineExceeded and arbitrary errors only retryability is judged"]


def _model_ok(c):
    m, e = c["e"]["model"], c["e"]
    cc = c["c"]
    same = (not e["mustSame"]) or m["clientIs"]
    retry = m["clientRetry"] == m["originRetry"]
    unk = cc["err"] != "arbitrary" or not m["clientRetry"]
    return same and retry and unk and not m["clientNil"]


def _first_line(d):
    if d.error and d.error.get("text"):
        for ln in d.error["text"].splitlines():
            if ln.startswith("/\\ c ="):
                return ln[3:]
    return "?"
