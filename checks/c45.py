"""C45 Saving the client configuration never loses the client identity.  Spec: ClientCfg (families save, save_obs)."""
import json, os, shutil, subprocess
import vf, clientlib

TUN = lambda k: {"target": "tcp://127.0.0.1:%d" % (3000 + k), "hostname": "auto%d" % k}
CUSTOM = {"target": "https://127.0.0.1:8443", "hostname": "www.example.com", "insecure": True, "timeout": 1500, "host": "internal.test", "mode": "custom"}


def scenarios(ck):
    """(name, old configuration, change applied before the save)"""
    n = 3 + ck.rng.randrange(4)
    big = [TUN(k) for k in range(n)] + [CUSTOM]
    base = dict(key="gen", cert="gen:%d:700" % ck.seed, apex="gw.test:443")
    out = [
        ("tunnels-grow", dict(base, tunnels=[TUN(0)]), dict(set_tunnels=True, tunnels=big)),
        ("tunnels-shrink", dict(base, tunnels=big), dict(set_tunnels=True, tunnels=[TUN(0)])),
        ("tunnels-replace", dict(base, tunnels=big), dict(set_tunnels=True, tunnels=[TUN(9)])),
        ("apex-update", dict(base, tunnels=[TUN(0), CUSTOM]), dict(apex="gw2.test:443")),
        ("cert-renewal", dict(base, tunnels=[TUN(0), CUSTOM]), dict(cert="gen:%d:720" % (ck.seed + 1000))),
        ("first-certificate", dict(key="gen", apex="gw.test:443", tunnels=[TUN(0)]), dict(cert="gen:%d:700" % ck.seed)),
        # the configuration path is a symbolic link to the file (dotfile managers, mounted secrets)
        ("symlink-tunnels-shrink", dict(base, tunnels=big), dict(set_tunnels=True, tunnels=[TUN(0)])),
        ("symlink-cert-renewal", dict(base, tunnels=[TUN(0), CUSTOM]), dict(cert="gen:%d:720" % (ck.seed + 2000))),
    ]
    if ck.thorough:
        for k in range(6):
            m = 1 + ck.rng.randrange(12)
            out.append(("tunnels-%d-to-%d" % (m, k), dict(base, tunnels=[TUN(j) for j in range(m)]), dict(set_tunnels=True, tunnels=[TUN(j) for j in range(k)])))
    return out


def lost(img, old, new):
    """what of the identity / tunnels the image has lost, relative to both configurations"""
    if not img["ok"]:
        return "unreadable (%s)" % img["err"][:120]
    c = img["cfg"]
    out = []
    for k, label in (("cert", "certificate"), ("key", "private key"), ("tunnels", "tunnels"), ("apex", "apex"), ("version", "version")):
        if c[k] != old[k] and c[k] != new[k]:
            what = "missing" if c[k] in ("", [], None) else "different"
            if k == "key" and c[k]:
                what = "replaced by a freshly generated key"
            out.append("%s %s" % (label, what))
    if not out:
        out.append("a mixture of the old and the new configuration")
    return ", ".join(out)


def record_case(ck, binary, d, name, old_spec, change, reuse=None):
    path = os.path.join(d, "client-%s.yaml" % name)
    if reuse is None:
        recs = ck.drive(binary, ["mkcfg", path], input_obj=old_spec)
        if not recs:
            raise vf.Infra("mkcfg gave no summary")
        with open(path, "rb") as f:
            old_bytes = f.read()
    else:                 # the same old file again (byte for byte), for a second recording
        old_bytes, recs = reuse
        with open(path, "wb") as f:
            f.write(old_bytes)
    if name.startswith("symlink-"):
        real = os.path.join(d, "client-%s.real.yaml" % name)
        os.rename(path, real)
        os.symlink(os.path.basename(real), path)
    trace = ck.path("strace-%s.txt" % name)
    wrap = ["strace", "-f", "-xx", "-s", "1000000", "-o", trace, "-e", "trace=" + clientlib.STRACE_SYSCALLS]
    res = ck.drive(binary, ["save", path], input_obj=change, wrap=wrap)
    if not res or "old" not in res[-1]:
        raise vf.Infra("save gave no summary: %s" % getattr(ck, "last_stderr", "")[-500:])
    res = res[-1]
    if res["err"]:
        raise vf.Infra("writeFile failed in scenario %s: %s" % (name, res["err"]))
    if res["old"] != recs[-1]:
        raise vf.Infra("the old configuration did not read back as written (%s)" % name)
    ops = clientlib.record_ops(trace, ck.scratch)
    ops = [o for o in ops if os.path.dirname(o.get("path", o.get("src", ""))) == d]
    with open(path, "rb") as f:
        final_bytes = f.read()
    imgs = [im.get(path) for im in clientlib.images(ops, {path: old_bytes})]
    if imgs[-1] != final_bytes:
        raise vf.Infra("image reconstruction diverges from the file the save left behind (%s)" % name)
    return dict(name=name, path=path, ops=ops, images=imgs, old=res["old"], new=res["new"], old_spec=old_spec, change=change)


def inode_fs(seq, initial):
    """file-system image after the operations seq = [(saver, op)] of several processes: paths name inodes, an open descriptor keeps writing
    to the inode it was opened on (also after that inode was renamed over another path or unlinked), O_TRUNC empties the inode in place.
    An operation that cannot succeed in the interleaving (exclusive create of an existing name, rename of a vanished source) ends that
    saver: its later operations are skipped."""
    inodes, paths, fds, dead = {}, {}, {}, set()
    for p, b in initial.items():
        inodes[len(inodes)] = bytearray(b)
        paths[p] = len(inodes) - 1
    for who, o in seq:
        if who in dead:
            continue
        k = o["op"]
        if k == "open":
            if o["path"] not in paths:
                if not o["creat"]:
                    dead.add(who)
                    continue
                inodes[len(inodes)] = bytearray()
                paths[o["path"]] = len(inodes) - 1
            elif o["creat"] and o.get("excl"):
                dead.add(who)
                continue
            elif o["trunc"]:
                del inodes[paths[o["path"]]][:]
            fds[(who, o["fd"])] = paths[o["path"]]
        elif k == "write":
            ino = fds.get((who, o["fd"]))
            if ino is None:
                continue
            b = inodes[ino]
            off = len(b) if o["off"] is None else o["off"]
            if off > len(b):
                b.extend(b"\0" * (off - len(b)))
            b[off:off + len(o["data"])] = o["data"]
        elif k == "truncate":
            if o["path"] in paths:
                b = inodes[paths[o["path"]]]
                del b[o["len"]:]
                b.extend(b"\0" * (o["len"] - len(b)))
        elif k == "rename":
            if o["src"] not in paths:
                dead.add(who)
                continue
            paths[o["dst"]] = paths.pop(o["src"])
        elif k == "unlink":
            paths.pop(o["path"], None)
    return {p: bytes(inodes[i]) for p, i in paths.items()}


def two_savers(ck, binary, d):
    """two processes save the same configuration file (the daemon and a command-line invocation both store a renewed certificate): saver B has
    done some of its file operations when saver A saves completely, B goes on and stops abruptly at any later boundary.  The file must hold
    the previous configuration or one of the two new ones."""
    base = dict(key="gen", cert="gen:%d:700" % ck.seed, apex="gw.test:443", tunnels=[TUN(0), CUSTOM])
    A = record_case(ck, binary, d, "pair", base, dict(cert="gen:%d:720" % (ck.seed + 3000)))
    B = record_case(ck, binary, d, "pair", base, dict(set_tunnels=True, tunnels=[TUN(k) for k in range(40)]), reuse=(A["images"][0], [A["old"]]))
    if A["images"][0] != B["images"][0] or A["old"] != B["old"]:
        raise vf.Infra("the two recordings did not start from the same configuration file")
    path, old = A["path"], A["images"][0]
    combos = []
    for first, second, tag in ((B, A, "B-interrupted-by-A"), (A, B, "A-interrupted-by-B")):
        n = len(first["ops"])
        for k in range(n + 1):
            for j in range(k, n + 1):
                seq = [("x", o) for o in first["ops"][:k]] + [("y", o) for o in second["ops"]] + [("x", o) for o in first["ops"][k:j]]
                combos.append((tag, k, j, n, inode_fs(seq, {path: old}).get(path)))
    imgdir = os.path.join(d, "images2")
    os.makedirs(imgdir)
    uniq, lines = {}, []
    for _, _, _, _, im in combos:
        if im is not None and im not in uniq:
            p = os.path.join(imgdir, "img%d.yaml" % len(uniq))
            with open(p, "wb") as f:
                f.write(im)
            uniq[im] = len(lines)
            lines.append({"path": p})
    parsed = {x["i"]: x["o"] for x in ck.drive(binary, ["parse"], input_lines=lines) if "i" in x}
    if len(parsed) != len(lines):
        raise vf.Infra("parser answered %d of %d images" % (len(parsed), len(lines)))
    ok_cfgs = [A["old"], A["new"], B["new"]]
    for tag, k, j, n, im in combos:
        ck.count(("two-savers", tag, k, j), 0 < k < n)
        if im is None:
            detail = "the configuration file does not exist"
        else:
            pr = parsed[uniq[im]]
            if pr["ok"] and pr["cfg"] in ok_cfgs:
                continue
            detail = lost(pr, A["old"], A["new"])
        ck.violation("C45:two-savers:%s" % ("config-file-absent" if im is None else "neither-old-nor-new"),
                     "two processes save the same configuration file (%s): one has done %d of its %d file operations when the other saves completely, goes on and stops "
                     "abruptly after operation %d: the file is then %s" % (tag, k, n, j, detail), None)
    ck.traces += 2
    ck.extra["two_saver_interleavings"] = len(combos)


def mode_of(case):
    cfgp = case["path"]
    for o in case["ops"]:
        if o["op"] == "unlink" and o["path"] == cfgp:
            return "unlink-recreate"
        if o["op"] in ("open", "rename"):
            break
    if any(o["op"] == "rename" and o["dst"] == cfgp for o in case["ops"]):
        return "rename"
    opens = [o for o in case["ops"] if o["op"] == "open" and o["path"] == cfgp]
    if opens and all(o["trunc"] for o in opens):
        return "inplace"
    if any(o["op"] == "truncate" and o["path"] == cfgp for o in case["ops"]):
        return "inplace"
    return "inplace_notrunc"


def run(ck):
    ck.rule = ("cases = configuration saves (tunnels grow / shrink, apex update, certificate renewal, first certificate, and saves through a path that is a symbolic link; seeded sizes) executed by "
               "the real Config.writeFile in a child process under strace; evaluations = file-operation boundaries, each reconstructed as a disk "
               "image and parsed with the real NewConfig; non-trivial = boundaries strictly between the first and the last file operation of the save (the process would stop in the middle of it); "
               "plus two recorded saves of the same file interleaved on an inode-level file model (one saver part-way, the other completely, the first continues "
               "and stops at every later boundary)")
    binary = ck.build("client")
    d = clientlib.scratch_dir(ck, "c45")
    try:
        if ck.replay is not None:
            todo = [(ck.replay["name"], ck.replay["old_spec"], ck.replay["change"])]
        else:
            todo = scenarios(ck)
        cases = [record_case(ck, binary, d, *t) for t in todo]
        # parse every distinct image with the real reader
        imgdir = os.path.join(d, "images")
        os.makedirs(imgdir)
        uniq, lines = {}, []
        for c in cases:
            for im in c["images"]:
                if im is not None and im not in uniq:
                    p = os.path.join(imgdir, "img%d.yaml" % len(uniq))
                    with open(p, "wb") as f:
                        f.write(im)
                    uniq[im] = len(lines)
                    lines.append({"path": p})
        parsed = {x["i"]: x["o"] for x in ck.drive(binary, ["parse"], input_lines=lines) if "i" in x}
        if len(parsed) != len(lines):
            raise vf.Infra("parser answered %d of %d images" % (len(parsed), len(lines)))
        if ck.replay is None:
            two_savers(ck, binary, d)
    finally:
        shutil.rmtree(d, ignore_errors=True)

    # the recorded operations replayed on the file model of the specification
    obs = []
    for c in cases:
        a, nw, precise = clientlib.abstract_ops(c["ops"], c["path"])
        c["abs"], c["nwrites"], c["precise"] = a, nw, precise
        obs.append({"name": c["name"], "ops": a, "nwrites": nw})
    r = ck.tlc("ClientCfg", "MC_ClientCfg_save_obs.cfg", files={"obs_save.ndjson": "\n".join(json.dumps(o) for o in obs) + "\n"}, workers=1)
    classes = {rec["c"] - 1: rec["e"] for rec in r.printed}
    if len(classes) != len(cases):
        raise vf.Infra("specification replayed %d of %d recordings" % (len(classes), len(cases)))

    design, reproduced = {}, {}
    for ci, c in enumerate(cases):
        mode = mode_of(c)
        key = mode
        if key not in design:    # the design-level model of this save procedure: crash at every step
            dm = "inplace" if mode == "unlink-recreate" else mode     # (emptied, then written: the same steps for the model)
            rr = ck.tlc("ClientCfg", "MC_ClientCfg_save.cfg", constants={"SaveMode": '"%s"' % dm, "NNew": 3 if c["nwrites"] >= 3 else 2, "NOld": 4},
                        allow_error=True, workers=1)
            design[key] = rr.error["name"] if rr.error else None
        c["design"] = design[key]
        model = classes[ci]
        if len(model) != len(c["images"]):
            raise vf.Infra("boundary count mismatch")
        bad, disagree = [], 0
        for k, im in enumerate(c["images"]):
            if im is None:
                real, detail = "neither", "the configuration file does not exist"
            else:
                pr = parsed[uniq[im]]
                if pr["ok"] and pr["cfg"] == c["old"]:
                    real = "old"
                elif pr["ok"] and pr["cfg"] == c["new"]:
                    real = "new"
                else:
                    real, detail = "neither", lost(pr, c["old"], c["new"])
            ck.count("%s:%d" % (c["name"], k), 0 < k < len(c["images"]) - 1)
            if real != model[k] and not (real != "neither" and c["old"] == c["new"]):
                disagree += 1
            if real == "neither":
                after = "before the first operation" if k == 0 else "after operation %d of %d, %s" % (k, len(c["ops"]), clientlib.describe(c["ops"][k - 1]))
                bad.append(dict(k=k, after=after, detail=detail, absent=im is None, last=k == len(c["images"]) - 1, model=model[k]))
        ck.traces += 1
        ck.sample({"scenario": c["name"], "procedure": mode, "operations": [clientlib.describe(o) for o in c["ops"]],
                   "boundaries": len(c["images"]), "bad_boundaries": [b["k"] for b in bad], "model_classes": model,
                   "design_model": c["design"] or "holds"})
        if disagree:
            ck.notes.append("%s: %d boundaries where the chunk-level replay in the specification and the parsed image disagree (the parsed image decides)"
                            % (c["name"], disagree))
        rep = dict(name=c["name"], old_spec=c["old_spec"], change=c["change"])
        reproduced.setdefault(mode, [c["design"], False])
        if not bad:
            continue
        reproduced[mode][1] = True
        groups = {}
        for b in bad:
            if b["absent"]:
                sig = "C45:config-file-absent"
            elif b["last"]:
                sig = "C45:saved-file-not-new"
            elif mode == "inplace":
                sig = "C45:in-place-truncate"
            elif mode == "inplace_notrunc":
                sig = "C45:in-place-overwrite"
            elif mode == "unlink-recreate":
                sig = "C45:recreate-partial"
            else:
                sig = "C45:%s-partial" % mode
            groups.setdefault(sig, []).append(b)
        for sig, bs in groups.items():
            first = bs[0]
            kinds = {}
            for b in bs:
                kinds.setdefault(b["detail"], []).append(b["k"])
            ck.violation(sig, "scenario %s (save procedure as recorded: %s; design model: %s): a client stopped %s finds the file %s; %d of %d boundaries "
                         "leave a file that is neither the old nor the new configuration: %s. Operations: %s"
                         % (c["name"], mode, ("violates " + c["design"]) if c["design"] else "holds", first["after"], first["detail"], len(bs),
                            len(c["images"]), "; ".join("boundaries %s: %s" % (v, k) for k, v in kinds.items()),
                            "; ".join(clientlib.describe(o) for o in c["ops"])), rep)
    for mode, (viol, seen) in reproduced.items():
        if viol and not seen and ck.replay is None:
            raise vf.Infra("the design model of save procedure %s violates %s but no recorded boundary of any scenario does" % (mode, viol))
    ck.exhaustive = True
    ck.assumptions += ["process-crash model: a completed system call is on disk, an interrupted one is not (torn single writes and power loss are not generated)",
                       "strace -f records openat/write/pwrite64/ftruncate/rename*/unlink*/fsync/close of the child; only operations on the configuration "
                       "file's directory between the driver's markers are replayed",
                       "the parsed (certificate, private key, tunnels, apex, version) of an image must equal the old or the new configuration's"]
