"""C28 Route lookups are classified and cached correctly.  Spec: Routes (family load)."""
import json, vf

def run(ck):
    ck.rule = ("TLC enumerates all 5^3 per-slot outcomes {route via local node, route via remote node, empty, KV error, "
               "undecodable value} of the three redundant route slots, proves the transcribed loader against the declarative "
               "classification, and every case is executed by the real routeCacheLoader under 3 concretisations (nil/empty "
               "value, three error kinds, three kinds of undecodable bytes); non-trivial = every case")
    ttls = {"failed": set(), "negative": set(), "positive": set()}

    def judge(c, e, o):
        for ob in o:
            if ob["load_err"]:
                return "loader returned an error to the cache: %s" % ob["load_err"]
            if ob["class"] != e["class"]:
                return "classified as %s, statement says %s" % (ob["class"], e["class"])
            if ob["ttl_ms"] <= 0:
                return "cache time %d ms is not positive (0 means 'never expires' for the cache)" % ob["ttl_ms"]
            ttls[e["ttl"]].add(ob["ttl_ms"])
            if e["class"] == "routes":
                if sorted(ob["routes"]) != sorted(e["routes"]):
                    return "routes returned %s, decoded slots are %s" % (ob["routes"], sorted(e["routes"]))
                if not ob["host_ok"]:
                    return "a returned route carries another hostname"
                seen_remote = False
                for s in ob["routes"]:
                    if s in e["locals"]:
                        if seen_remote:
                            return "a route through a remote node precedes a route through the local node: %s (local slots %s)" % (ob["routes"], e["locals"])
                    else:
                        seen_remote = True
            elif ob["routes"]:
                return "routes returned together with an error"
        return None

    def sig(c, e, o):
        for ob in o:
            if ob["class"] != e["class"]:
                return "C28:classify:%s-as-%s" % (e["class"], ob["class"])
            if e["class"] == "routes" and sorted(ob["routes"]) != sorted(e["routes"]):
                return "C28:route-set"
            if ob["ttl_ms"] <= 0:
                return "C28:ttl-nonpositive:%s" % e["ttl"]
        return "C28:local-first"

    vf.table_check(ck, "Routes", "MC_Routes_load.cfg", "routes", drv_args=["load"], judge=judge, sig=sig)
    ck.evaluations += 2 * 125 if ck.replay is None else 2   # three concretisations per case
    for k in ttls:
        if not ttls[k]:
            if ck.viol or ck.replay is not None:
                return
            raise vf.Infra("no observation of class %s" % k)
    ck.sample({"ttl_ms": {k: sorted(v) for k, v in ttls.items()}})
    if not (max(ttls["failed"]) < min(ttls["negative"])):
        ck.violation("C28:ttl-order:failed-vs-negative", "failed lookups are cached for %s ms, not shorter than negative results %s ms"
                     % (sorted(ttls["failed"]), sorted(ttls["negative"])), {"ttls": {k: sorted(v) for k, v in ttls.items()}})
    if not (max(ttls["negative"]) < min(ttls["positive"])):
        ck.violation("C28:ttl-order:negative-vs-positive", "negative results are cached for %s ms, not shorter than positive results %s ms"
                     % (sorted(ttls["negative"]), sorted(ttls["positive"])), {"ttls": {k: sorted(v) for k, v in ttls.items()}})
    ck.assumptions += ["the loader distinguishes routes only by the address of their tunnel server (local = equal to the node's own tunnel address)",
                       "a slot is 'failed' when the KV read errors or the stored bytes do not decode; a slot is 'empty' for a nil or zero-length value",
                       "mixed empty/failed slots without any route are read literally as 'the successfully decoded routes' = none, cached as positive",
                       "the cache (theine) is trusted to honour the TTL the loader returns"]
