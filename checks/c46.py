"""C46 Concurrent fan-out returns aligned results after all tasks finish.  Spec: Fanout."""
import json, vf


def run(ck):
    runs = 2400 if ck.thorough else 600
    ck.rule = ("design: TLC explores every interleaving of the goroutines of All (spawn, fn start/return with value or error, slot store, "
               "wg.Done, waiter, cancellation at any point, select/drain/return) for 0..3 tasks (0..4 thorough) and checks ReturnAfterAll, Aligned and, with "
               "the visible history carried along (0..2 tasks; 0..3 thorough), that the event acceptor accepts every history; the variant that returns on "
               "cancellation without waiting must be refuted. binding: %d seeded runs of the real promise.All (0..16 tasks, each count in turn; "
               "seeded delays, values, errors, value+error, tasks honouring or ignoring the context, cancellation before/during/after, GOMAXPROCS "
               "1/2/4/default), the totally ordered history start/fin/cancel/return(values, errors, completion flags) of every run is read back "
               "into TLC and judged by the acceptor; non-trivial = runs with >= 2 tasks whose history contains a cancellation before the "
               "return or a failing task" % runs)
    # ---- the design (the TLC runs and the driver run are independent: run them side by side)
    import concurrent.futures, os, shutil
    sdir = ck.path("spec")
    if not os.path.isdir(sdir):
        shutil.copytree(os.path.join(vf.VERIF, "spec"), sdir)
    ck.overlay()
    pool = concurrent.futures.ThreadPoolExecutor(max_workers=5)
    jobs = {}
    if ck.replay is None:
        jobs["design"] = pool.submit(ck.tlc, "Fanout", "MC_Fanout.cfg", constants={"MaxN": 4 if ck.thorough else 3}, count=False, workers=4)
        jobs["hist"] = pool.submit(ck.tlc, "Fanout", "MC_Fanout_hist.cfg", constants={"MaxN": 3 if ck.thorough else 2}, timeout=900,
                                   count=False, workers=4)
        jobs["early"] = pool.submit(ck.tlc, "Fanout", "MC_Fanout_early.cfg", allow_error=True, count=False, workers=2)
        if ck.thorough:
            jobs["live"] = pool.submit(ck.tlc, "Fanout", "MC_Fanout_live.cfg", count=False, workers=2)

    # ---- the real code
    def real():
        b = ck.build("c46fanout")
        if ck.replay is not None:
            return ck.drive(b, ["replay", str(ck.replay["index"]), "40"], env={"VERIF_SEED": str(ck.replay.get("seed", ck.seed))})
        return ck.drive(b, ["run", str(runs), "0"], timeout=600)
    jobs["real"] = pool.submit(real)
    res = {k: f.result() for k, f in jobs.items()}      # re-raises Infra
    pool.shutdown()
    for k in ("design", "hist"):
        if k in res:
            ck.states += res[k].distinct
            ck.transitions += res[k].generated
    if "early" in res:
        neg = res["early"]
        if not neg.error or neg.error["name"] not in ("ReturnAfterAll", "HistoryAccepted", "Aligned"):
            raise vf.Infra("vacuous: the return-on-cancel variant of the design was not refuted by TLC")
    recs = res["real"]
    recs = [r for r in recs if "ev" in r]
    if not recs:
        raise vf.Infra("driver produced no runs")
    for r in recs:       # a call that was given up is marked by the driver; the acceptor sees the history up to there
        r["noreturn"] = any(e["t"] == "noreturn" for e in r["ev"])
        r["ev"] = [e for e in r["ev"] if e["t"] != "noreturn"]
    obs = "\n".join(json.dumps({"n": r["n"], "ev": r["ev"]}) for r in recs) + "\n"
    r2 = ck.tlc("Fanout", "MC_Fanout_obs.cfg", files={"fanout_obs.ndjson": obs}, count=False)
    verdict = {x["c"] - 1: x["e"] for x in r2.printed}
    if len(verdict) != len(recs):
        raise vf.Infra("validator judged %d of %d runs" % (len(verdict), len(recs)))
    by_n = {}
    for i, r in enumerate(recs):
        v = verdict[i]
        ev = r["ev"]
        ts = [e["t"] for e in ev]
        ret = ts.index("return") if "return" in ts else len(ts)
        cancelled_before = "cancel" in ts[:ret]
        failing = any(e["t"] == "fin" and not e["ok"] for e in ev)
        ck.count(("%d/%d" % (ck.seed, r["plan"]["index"])), r["n"] >= 2 and (cancelled_before or failing))
        by_n[r["n"]] = by_n.get(r["n"], 0) + 1
        if i % (len(recs) // 4 + 1) == 0:
            ck.sample({"plan": r["plan"], "history": ev if len(ev) < 14 else ev[:6] + ["..."] + ev[-2:], "verdict": v})
        if v["ok"]:
            if not v["returned"] and r.get("noreturn") and sum(1 for e in ev if e["t"] == "fin") == r["n"]:
                ck.violation("C46:never-returns:%s" % ("no-task" if r["n"] == 0 else "tasks-finished"),
                             "promise.All with %d tasks did not return within 4 s although every task had finished; plan=%s history=%s"
                             % (r["n"], json.dumps(r["plan"])[:900], json.dumps(ev)[:1200]), {"index": r["plan"]["index"], "seed": ck.seed})
                continue
            if not v["returned"]:
                raise vf.Infra("history without a return event (run %d)" % r["plan"]["index"])
            continue
        if v["why"] == "malformed":
            raise vf.Infra("malformed history in run %d at event %d: %s" % (r["plan"]["index"], v["at"], json.dumps(ev)[:1500]))
        p = r["plan"]
        cls = "cancel-%s" % p["cancel"] if cancelled_before or p["cancel"] == "before" else "no-cancel"
        ck.violation("C46:%s:%s" % (v["why"], cls),
                     "promise.All with %d tasks (%s): %s at event %d of the history; plan=%s history=%s" % (
                         r["n"], cls, v["why"], v["at"], json.dumps(p)[:900], json.dumps(ev)[:1800]),
                     {"index": p["index"], "seed": ck.seed})
    ck.traces += len(recs)
    ck.extra["runs_by_task_count"] = {str(k): by_n[k] for k in sorted(by_n)}
    if ck.replay is None and set(by_n) != set(range(17)):
        raise vf.Infra("not every task count 0..16 was exercised: %s" % sorted(by_n))
    ck.exhaustive = False
    ck.assumptions += ["tasks eventually return (the documented precondition of All); a cancelled task may take its time",
                       "the history is ordered by a mutex-protected log: a task logs fin (and sets its flag) as its last action, the driver logs "
                       "return after All returned, so 'return before fin' in the history implies a real early return; the converse can be missed "
                       "only within the few instructions between a task's log entry and its actual return",
                       "'either its value or its error': the value slot of a failing task is the zero value even when the task returned a value with its error (callers filter on it)",
                       "schedules are sampled (seeded timing), not enumerated; the exhaustive part is the TLC design model"]
