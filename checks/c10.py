"""C10 Ring-wide key listing returns exactly the stored keys.  Spec: ListKeys (families design, cases).

design: TLC proves that the transcribed ring walk + per-node fan-out returns exactly the declared multiset of
        (key, kind) pairs for every ring size, placement of the keys, asking node, content and prefix.
cases:  TLC enumerates every content assignment over the keys {"a","ab","abc","b"} (thorough: also the empty key),
        every subset of {SIMPLE, PREFIX, LEASE} per key, and emits the declared answer for each of the 6 prefixes.
Each selected content assignment is stored THROUGH a real ring of 1..4 LocalNodes (memory / SQLite stores, seeded
ids placed around the key identifiers) and ListKeys(prefix) is asked at every node; the answer is compared as a
multiset with the declared one."""
import json
import vf

RING = 1 << 48
KINDS = ("SIMPLE", "PREFIX", "LEASE")


def ring_ids(rng, n, hashes, style):
    """n distinct node ids; styles place them relative to the identifiers of the keys"""
    hs = sorted(set(hashes))
    ids = set()
    guard = 0
    while len(ids) < n and guard < 1000:
        guard += 1
        if style == 0:                                  # uniformly random
            ids.add(rng.randrange(RING))
        elif style == 1:                                # a random point of a random arc between two key identifiers
            j = rng.randrange(len(hs))
            lo, hi = hs[j - 1], hs[j]
            span = (hi - lo) % RING or RING
            ids.add((lo + 1 + rng.randrange(span)) % RING)
        elif style == 2:                                # exactly at / just before / just after a key identifier
            ids.add((rng.choice(hs) + rng.choice((-1, 0, 0, 1))) % RING)
        else:                                           # one cluster of adjacent ids (most nodes own nothing)
            if not ids:
                ids.add(rng.choice(hs + [rng.randrange(RING)]))
            else:
                ids.add((max(ids) + 1) % RING)
    if len(ids) < n:
        raise vf.Infra("could not draw %d node ids" % n)
    return sorted(ids)


def owner(ids, h):
    ge = [i for i in ids if i >= h]
    return min(ge) if ge else min(ids)


def stores_for(rng, n, k):
    m = k % 4
    if m == 0:
        return ["memory" if (j + k // 4) % 2 == 0 else "sqlite" for j in range(n)]     # alternate
    if m == 1:
        return ["sqlite" if (j + k // 4) % 2 == 0 else "memory" for j in range(n)]     # alternate, other phase
    if m == 2:
        return ["sqlite"] * n
    return [rng.choice(("memory", "sqlite")) for _ in range(n)]


def run(ck):
    thorough = ck.thorough
    b = ck.build("listkeys")
    # ---- design: Impl = Decl on the abstract stable ring
    ck.tlc("ListKeys", "MC_ListKeys_design.cfg", constants={"DesignKeys": 3 if thorough else 2}, timeout=1500)
    # ---- cases
    r = ck.tlc("ListKeys", "MC_ListKeys_cases.cfg", constants={"EmptyKey": "TRUE" if thorough else "FALSE"}, timeout=1500)
    table = r.printed
    if not table:
        raise vf.Infra("ListKeys produced no cases")
    total = len(table)

    def norm(rec):
        content = [{"k": "".join(x["k"]), "kinds": [kd for kd in KINDS if kd in x["kinds"]]} for x in rec["c"]["content"]]
        exp = [("".join(e["p"]), sorted(["".join(k), kd] for k, kd in e["ks"])) for e in rec["e"]]
        exp.sort()
        return content, exp

    keys = sorted(set("".join(x["k"]) for x in table[0]["c"]["content"]))
    # the letters of the specification are stored as these bytes: themselves, and the extreme byte values
    ALPHABETS = [None, {"a": "ff", "b": "00", "c": "fe"}, {"a": "00", "b": "ff", "c": "80"}]
    hss = ck.drive(b, ["hash"], input_lines=[{"keys": keys, "alphabet": al} for al in ALPHABETS])
    khashes = [{k: int(h) for k, h in zip(keys, x["o"])} for x in sorted(hss, key=lambda x: x["i"])]
    khash = khashes[0]

    # ---- selection of (content, ring) pairs
    cases = []          # (driver input, expected list per prefix)
    if ck.replay is not None:
        cases = [(ck.replay["case"], [tuple(x) for x in ck.replay["expected"]])]
    else:
        if thorough:
            sel = list(range(total))
            ck.rng.shuffle(sel)
            per_ring = 64
            ck.exhaustive = True
        else:
            # seeded sample, always including the extremes (nothing stored, everything stored, one kind everywhere)
            def is_extreme(rec):
                ks = [tuple(sorted(x["kinds"])) for x in rec["c"]["content"]]
                return len(set(ks)) == 1 and len(ks[0]) in (0, 1, 3)
            ext = [i for i, rec in enumerate(table) if is_extreme(rec)]
            rest = [i for i in range(total) if i not in set(ext)]
            ck.rng.shuffle(rest)
            sel = ext + rest[:640 - len(ext)]
            ck.rng.shuffle(sel)
            per_ring = 8
            ck.exhaustive = False
        nring = 0
        for at in range(0, len(sel), per_ring):
            n = 1 + nring % 4
            ai = (nring // 2) % len(ALPHABETS)
            ids = ring_ids(ck.rng, n + 1, list(khashes[ai].values()), (nring // 4) % 4)
            spare = ids.pop(ck.rng.randrange(len(ids)))          # one more node: built with the ring, joins only in the last case of the ring
            stores = stores_for(ck.rng, n, nring)
            spare_store = "sqlite" if nring % 3 else "memory"
            order = ck.seed * 100000 + nring
            churn = "leave" if (n >= 2 and nring % 2) else "join"
            nring += 1
            batch = sel[at:at + per_ring]
            for bi, ci in enumerate(batch):
                content, exp = norm(table[ci])
                # the last content of every ring is listed a second time after a membership change (a member leaves / the spare node joins):
                # prefer one that stores something
                last = bi == len(batch) - 1
                cases.append(({"ids": [str(i) for i in ids], "stores": stores, "order": order, "content": content,
                               "prefixes": [p for p, _ in exp], "reuse": True, "alphabet": ALPHABETS[ai],
                               "spare": str(spare), "spare_store": spare_store, "churn": churn if last else ""}, exp))
        ck.extra["rings_built"] = nring
    outs = ck.drive(b, [], input_lines=[c for c, _ in cases], timeout=3000)
    byi = {o["i"]: o["o"] for o in outs if "i" in o}
    if len(byi) != len(cases):
        raise vf.Infra("driver answered %d of %d cases\n%s" % (len(byi), len(cases), getattr(ck, "last_stderr", "")[-2000:]))
    nlists = 0
    unclean = 0
    for i, (c, exp) in enumerate(cases):
        o = byi[i]
        ids = [int(x) for x in c["ids"]]
        if o.get("err"):
            raise vf.Infra("could not build the ring %s %s: %s" % (c["ids"], c["stores"], o["err"]))
        if not o.get("stable"):
            ck.notes.append("ring %s did not reach a maintenance fixpoint in 40 rounds" % c["ids"])
            continue
        bad_store = [s for s in (o.get("store") or []) if s[4] != "ok"]
        if bad_store:
            raise vf.Infra("storing the content through the stable ring %s failed: %s" % (c["ids"], bad_store[:3]))
        if not o.get("cleaned"):
            unclean += 1
        khash = khashes[ALPHABETS.index(c.get("alphabet"))]
        stored = [(x["k"], kd) for x in c["content"] for kd in x["kinds"]]
        owners = set(owner(ids, khash[k]) for k, _ in stored if k in khash)
        ck.count(json.dumps([c["ids"], c["stores"], c["content"]]), len(stored) > 0)
        rep = {"case": c, "expected": exp}
        where = {k: ids.index(owner(ids, khash[k])) for k, _ in stored if k in khash}
        if c.get("churn") and o.get("churn_err", "ok") != "ok":
            raise vf.Infra("membership change (%s) in ring %s failed: %s" % (c["churn"], c["ids"], o["churn_err"]))
        if c.get("churn") and not o.get("stable2", True):
            ck.notes.append("ring %s did not reach a maintenance fixpoint after the %s" % (c["ids"], c["churn"]))
        phases = [("", o.get("lists") or [])]
        if c.get("churn") and o.get("stable2"):
            phases.append((" after node index %s %s" % (o.get("churned"), "left" if c["churn"] == "leave" else "(id %s, %s store) joined" % (c["spare"], c["spare_store"])),
                           o.get("lists2") or []))
            ck.extra["listings_after_a_membership_change"] = ck.extra.get("listings_after_a_membership_change", 0) + len(o.get("lists2") or [])
        all_ids = ids + [int(c["spare"])] if c.get("spare") else ids
        for phase, (node, pi, got, err) in [(ph, x) for ph, ls in phases for x in ls]:
            nlists += 1
            p, want = exp[pi]
            got = [list(x) for x in got]
            if err != "ok":
                ck.violation("C10:error:%s" % err.split(":")[1 if ":" in err else 0],
                             "ListKeys(%r) asked at node %d (id %d) of the stable %d-node ring %s (stores %s)%s failed with %s; stored content %s"
                             % (p, node, all_ids[node], len(ids), ids, c["stores"], phase, err, stored), rep)
                continue
            if got == want:
                continue
            missing = [x for x in want if x not in got]
            extra = [x for x in got if x not in want]
            dup = sorted(set(tuple(x) for x in got if got.count(x) > 1 and x in want))
            if missing:
                cls = "missing:%s" % "+".join(sorted(set(x[1] for x in missing)))
                # was everything that is missing held by one node (walk problem) or spread (listing problem)?
                holders = set(where.get(x[0]) for x in missing)
                if len(ids) > 1 and len(holders) == 1 and all(x in missing for x in want if where.get(x[0]) in holders):
                    cls = "missing:whole-node"
            elif dup:
                cls = "duplicate"
            else:
                cls = "extra:%s" % "+".join(sorted(set(x[1] for x in extra)))
            ck.violation("C10:%s%s" % (cls, (":after-" + c["churn"]) if phase else ""),
                         "ListKeys(%r) asked at node %d (id %d) of the stable %d-node ring %s (stores %s, keys held by node index %s)%s returned %s; "
                         "stored content is %s, so exactly %s is expected (missing %s, unexpected %s, duplicated %s); letters stored as bytes %s"
                         % (p, node, all_ids[node], len(ids), ids, c["stores"], where, phase, got, stored, want, missing, extra, [list(x) for x in dup], c.get("alphabet") or "themselves"), rep)
        if i % max(1, len(cases) // 5) == 0:
            ck.sample({"ring_ids": c["ids"], "stores": c["stores"], "content": c["content"], "key_held_by_node_index": where,
                       "distinct_owners": len(owners), "answers": [[n_, exp[pi][0], got] for n_, pi, got, _ in o["lists"][:4]]})
    ck.traces += len(cases)
    ck.evaluations += nlists
    ck.extra["listings_compared"] = nlists
    ck.extra["content_assignments_total"] = total
    ck.extra["content_assignments_run"] = len(cases)
    if unclean:
        ck.notes.append("%d rings were rebuilt because removing the content through the ring did not leave every store empty" % unclean)
    ck.rule = ("TLC enumerates every assignment of a subset of {SIMPLE, PREFIX, LEASE} to each of the keys a, ab, abc, b (thorough: and the empty key) with the "
               "declared answer for the prefixes '', a, ab, abc, b, c; quick runs a seeded sample of 640 assignments (always including nothing / everything / one "
               "kind everywhere), thorough all of them; each is stored through a real ring of 1..4 nodes (ring sizes cycle; node ids uniformly random, inside "
               "random arcs between key identifiers, at key identifier +/- 1, or adjacent; memory and SQLite stores alternating, all-SQLite or random) by "
               "Put / PrefixAppend (1 or 2 children, in half of the cases a third one that is removed again by PrefixRemove once everything is stored) / Acquire asked at seeded nodes (the last content of every ring is listed again after a member left or one more node - memory or SQLite store - joined), the letters stored as themselves or as the bytes ff/00/fe, 00/ff/80 (per ring), and ListKeys is asked at every node for every prefix; "
               "evaluations = (case, node, prefix) listings compared as multisets; non-trivial = cases that store at least one (key, kind); distinct = distinct (ring, content)")
    ck.assumptions += ["'stable ring' = a fixpoint of the real stabilize / checkPredecessor / fixFinger with background tasks parked (as in C01)",
                       "simple values are never empty (a key whose value was set to empty is listed as SIMPLE by SQLite: known finding of C16)",
                       "leases are granted for one hour and do not expire during a case",
                       "the design family places 2 keys (thorough 3) on the abstract ring; nodes are in-process references (no RPC layer)"]
