"""Shared helpers of the tunnel-client checks C43 C44 C45 C50 (spec ClientCfg, driver harness/drv/client)."""
import json, os, re, shutil, tempfile, threading
import vf


def build_bg(ck, name):
    """start ck.build(name) in a thread; the returned function joins and gives the binary (or raises Infra)"""
    box = {}

    def work():
        try:
            box["bin"] = ck.build(name)
        except BaseException as e:  # noqa
            box["err"] = e
    t = threading.Thread(target=work, daemon=True)
    t.start()

    def join():
        t.join()
        if "err" in box:
            raise box["err"]
        return box["bin"]
    return join


def prepare_spec_dir(ck):
    """ck.tlc copies spec/ into the scratch directory on first use; do it before two TLC runs are started concurrently"""
    sdir = ck.path("spec")
    if not os.path.isdir(sdir):
        shutil.copytree(os.path.join(vf.VERIF, "spec"), sdir)


def scratch_dir(ck, tag):
    """configuration files are rewritten (and fsynced) once per case: keep them on tmpfs when there is one"""
    base = "/dev/shm" if os.path.isdir("/dev/shm") and os.access("/dev/shm", os.W_OK) else ck.scratch
    return tempfile.mkdtemp(prefix="verif-%s-" % tag, dir=base)


CLOCK_TAIL = '''

// ---- appended by /verif/checks/clientlib.py (overlay copy, never committed): controllable clock ----
var verifClock func() time.Time

func verifNow() time.Time {
	if f := verifClock; f != nil {
		return f()
	}
	return time.Now()
}

func verifSince(t time.Time) time.Duration { return verifNow().Sub(t) }

// VerifSetNow installs the clock used by RecordLatency / Snapshot.
func (i *Instrumentation) VerifSetNow(f func() time.Time) { verifClock = f }
'''


def clock_overlay(ck, rel="rtt/rtt.go"):
    """overlay copy of the working-tree rtt/rtt.go in which time.Now()/time.Since() go through a clock the driver
    sets (DESIGN 2.3 item 5); every other edit of the file is kept"""
    src = os.path.join(vf.REPO, rel)
    with open(src) as f:
        txt = f.read()
    body, n1 = re.subn(r"\btime\.Now\(\)", "verifNow()", txt)
    body, n2 = re.subn(r"\btime\.Since\(", "verifSince(", body)
    if n1 + n2 == 0:
        raise vf.Infra("%s no longer reads the clock through time.Now/time.Since: the clock overlay has nothing to bind to" % rel)
    left = re.findall(r"\btime\.(Until|After|Tick|NewTimer|NewTicker|Sleep)\(", body)
    if left:
        raise vf.Infra("%s uses time.%s, which the clock overlay does not control" % (rel, left[0]))
    if "VerifSetNow" in body:
        raise vf.Infra("%s already defines VerifSetNow" % rel)
    out = ck.path("gen_rtt.go")
    with open(out, "w") as f:
        f.write(body + CLOCK_TAIL)
    ck.add_overlay({src: out})
    return n1, n2


# ------------------------------------------------------------------------------------------------
# file-system recorder (C45): strace of a child process -> file operations -> image after every boundary

STRACE_SYSCALLS = "openat,write,pwrite64,ftruncate,rename,renameat,renameat2,unlink,unlinkat,fsync,fdatasync,close"
BEGIN, END = b"VERIF-SAVE-BEGIN\n", b"VERIF-SAVE-END\n"


def _unhex(s):
    if "..." in s:
        raise vf.Infra("strace truncated a string")
    return bytes(int(x, 16) for x in re.findall(r"\\x([0-9a-f]{2})", s))


_STR = r'"((?:\\x[0-9a-f]{2})*)"'
_PATS = [
    ("openat", re.compile(r"openat\((\w+), %s, ([A-Z_|0-9x]+)(?:, (\d+))?\)\s+= (-?\d+)" % _STR)),
    ("write", re.compile(r"write\((\d+), %s, (\d+)\)\s+= (-?\d+)" % _STR)),
    ("pwrite64", re.compile(r"pwrite64\((\d+), %s, (\d+), (\d+)\)\s+= (-?\d+)" % _STR)),
    ("ftruncate", re.compile(r"ftruncate\((\d+), (\d+)\)\s+= (-?\d+)")),
    ("rename", re.compile(r"rename\(%s, %s\)\s+= (-?\d+)" % (_STR, _STR))),
    ("renameat", re.compile(r"renameat2?\((\w+), %s, (\w+), %s(?:, \w+)?\)\s+= (-?\d+)" % (_STR, _STR))),
    ("unlink", re.compile(r"unlink\(%s\)\s+= (-?\d+)" % _STR)),
    ("unlinkat", re.compile(r"unlinkat\((\w+), %s, (\w+)\)\s+= (-?\d+)" % _STR)),
    ("fsync", re.compile(r"(?:fsync|fdatasync)\((\d+)\)\s+= (-?\d+)")),
    ("close", re.compile(r"close\((\d+)\)\s+= (-?\d+)")),
]


def parse_strace(path):
    """-> list of (name, match) in completion order; unfinished/resumed pairs are joined"""
    pending, out = {}, []
    with open(path, errors="replace") as f:
        for line in f:
            m = re.match(r"(\d+)\s+(.*)$", line.rstrip("\n"))
            if not m:
                continue
            pid, rest = m.group(1), m.group(2)
            if rest.startswith("+++") or rest.startswith("---"):
                continue
            if rest.endswith("<unfinished ...>"):
                pending[pid] = rest[:-len("<unfinished ...>")].rstrip()
                continue
            r = re.match(r"<\.\.\. (\w+) resumed>\s?(.*)$", rest)
            if r:
                rest = pending.pop(pid, r.group(1) + "(") + r.group(2)
            for name, pat in _PATS:
                mm = pat.match(rest)
                if mm:
                    out.append((name, mm))
                    break
    return out


def record_ops(trace_path, cwd):
    """the file operations between the driver's BEGIN/END markers as dicts:
       open(path, trunc, creat, append, fd) write(fd, path, off, data) truncate(path, len) rename(src, dst) unlink(path) sync(path) close(path)"""
    fds, ops, on, seen = {}, [], False, 0

    def absp(dirfd, p):
        p = p.decode(errors="replace")
        if not p.startswith("/"):
            if dirfd not in ("AT_FDCWD", None):
                raise vf.Infra("path relative to a directory descriptor in the recording: %s" % p)
            p = os.path.join(cwd, p)
        return os.path.normpath(p)
    for name, m in parse_strace(trace_path):
        if name == "write" and m.group(1) == "2":
            data = _unhex(m.group(2))
            if data == BEGIN:
                on, seen = True, seen + 1
                continue
            if data == END:
                on, seen = False, seen + 1
                continue
        if not on:
            continue
        if name == "openat":
            ret = int(m.group(5))
            if ret < 0:
                continue
            flags = m.group(3).split("|")
            p = absp(m.group(1), _unhex(m.group(2)))
            writable = "O_WRONLY" in flags or "O_RDWR" in flags
            fds[ret] = dict(path=p, off=0, append="O_APPEND" in flags, w=writable)
            if writable or "O_CREAT" in flags or "O_TRUNC" in flags:
                ops.append(dict(op="open", path=p, trunc="O_TRUNC" in flags, creat="O_CREAT" in flags, excl="O_EXCL" in flags, fd=ret))
        elif name in ("write", "pwrite64"):
            fd, ret = int(m.group(1)), int(m.group(4) if name == "write" else m.group(5))
            if fd not in fds or ret < 0:
                continue
            data = _unhex(m.group(2))[:ret]
            d = fds[fd]
            if name == "pwrite64":
                off = int(m.group(4))
            else:
                off = None if d["append"] else d["off"]
                if off is not None:
                    d["off"] += ret
            ops.append(dict(op="write", path=d["path"], fd=fd, off=off, data=data))
        elif name == "ftruncate":
            fd = int(m.group(1))
            if fd in fds and int(m.group(3)) == 0:
                ops.append(dict(op="truncate", path=fds[fd]["path"], len=int(m.group(2))))
        elif name == "rename":
            if int(m.group(3)) == 0:
                ops.append(dict(op="rename", src=absp(None, _unhex(m.group(1))), dst=absp(None, _unhex(m.group(2)))))
        elif name == "renameat":
            if int(m.group(5)) == 0:
                ops.append(dict(op="rename", src=absp(m.group(1), _unhex(m.group(2))), dst=absp(m.group(3), _unhex(m.group(4)))))
        elif name == "unlink":
            if int(m.group(2)) == 0:
                ops.append(dict(op="unlink", path=absp(None, _unhex(m.group(1)))))
        elif name == "unlinkat":
            if int(m.group(4)) == 0:
                ops.append(dict(op="unlink", path=absp(m.group(1), _unhex(m.group(2)))))
        elif name == "fsync":
            fd = int(m.group(1))
            if fd in fds:
                ops.append(dict(op="sync", path=fds[fd]["path"]))
        elif name == "close":
            fd = int(m.group(1))
            if fd in fds:
                d = fds.pop(fd)
                if d["w"]:
                    ops.append(dict(op="close", path=d["path"]))
    if seen != 2:
        raise vf.Infra("recording has %d of 2 markers" % seen)
    return ops


def images(ops, initial):
    """initial: {path: bytes}; yields the file-system image (dict path -> bytes) after 0, 1, ..., len(ops) operations
    (process-crash model: whatever a completed system call did is on disk)"""
    fs = {p: bytearray(b) for p, b in initial.items()}
    yield {p: bytes(b) for p, b in fs.items()}
    for o in ops:
        k = o["op"]
        if k == "open":
            if o["path"] not in fs:
                if o["creat"]:
                    fs[o["path"]] = bytearray()
            elif o["trunc"]:
                fs[o["path"]] = bytearray()
        elif k == "write":
            b = fs.get(o["path"])
            if b is not None:    # (a file unlinked or renamed while open is not tracked)
                off = len(b) if o["off"] is None else o["off"]
                if off > len(b):
                    b.extend(b"\0" * (off - len(b)))
                b[off:off + len(o["data"])] = o["data"]
        elif k == "truncate":
            b = fs.get(o["path"])
            if b is not None:
                del b[o["len"]:]
                b.extend(b"\0" * (o["len"] - len(b)))
        elif k == "rename":
            if o["src"] in fs:
                fs[o["dst"]] = fs.pop(o["src"])
        elif k == "unlink":
            fs.pop(o["path"], None)
        yield {p: bytes(b) for p, b in fs.items()}


def abstract_ops(ops, cfg_path):
    """the recorded operations in the vocabulary of ClientCfg.tla (family save_obs): files are named cfg / f1 / f2..., the k-th
    write carries chunk k at the chunk position it has within its descriptor (sequential writes)"""
    names, out, nw, pos = {cfg_path: "cfg"}, [], 0, {}

    def nm(p):
        if p not in names:
            names[p] = "f%d" % len(names)
        return names[p]
    precise = True
    for o in ops:
        r = dict(op="other", f="cfg", g="cfg", at=0, id=0, trunc=False, creat=False)
        k = o["op"]
        if k == "open":
            r.update(op="open", f=nm(o["path"]), trunc=o["trunc"], creat=o["creat"])
            pos[o["fd"]] = 0
        elif k == "write":
            nw += 1
            pos[o["fd"]] = pos.get(o["fd"], 0) + 1
            r.update(op="write", f=nm(o["path"]), at=pos[o["fd"]], id=nw)
            if o["off"] is None:
                precise = False
        elif k == "truncate":
            if o["len"] != 0:
                precise = False
            r.update(op="truncate", f=nm(o["path"]))
        elif k == "rename":
            r.update(op="rename", f=nm(o["src"]), g=nm(o["dst"]))
        elif k == "unlink":
            r.update(op="unlink", f=nm(o["path"]))
        elif k in ("sync", "close"):
            r.update(op=k, f=nm(o["path"]))
        out.append(r)
    return out, nw, precise


def describe(o):
    k = o["op"]
    if k == "open":
        return "open(%s%s%s)" % (os.path.basename(o["path"]), ", O_TRUNC" if o["trunc"] else "", ", O_CREAT" if o["creat"] else "")
    if k == "write":
        return "write(%s, %d bytes at %s)" % (os.path.basename(o["path"]), len(o["data"]), "end" if o["off"] is None else o["off"])
    if k == "rename":
        return "rename(%s -> %s)" % (os.path.basename(o["src"]), os.path.basename(o["dst"]))
    return "%s(%s)" % (k, os.path.basename(o.get("path", "")))
