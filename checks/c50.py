"""C50 Clients use at most three gateways, fastest measured first.  Spec: ClientCfg (families nodes, nodes_obs)."""
import json
import vf, clientlib

CLAUSES = ["atmost3", "members", "measured", "ascending"]


def run(ck):
    ck.rule = ("TLC enumerates every sequence (in address order) of up to MaxNodes connected gateways over the measurement kinds {none, only "
               "stale samples, recent average 10/20/30 (one or two samples), 10.2 / 10.4 (less than a millisecond apart), stale low sample + recent sample}, proves that 'first three, then the "
               "stable sort as coded' meets the statement, and the lists returned by the real getConnectedNodes (real rtt.Instrumentation on a "
               "controlled clock, seeded sample ages and addresses) are judged by the NodesDecl predicate in TLC; a client built without a recorder (every node unmeasured) is asked with 0..MaxNodes+2 connections; non-trivial = at least two "
               "nodes of different kinds, or more than three nodes")
    n = 5 if ck.thorough else 4
    consts = {"MaxNodes": n}
    clientlib.clock_overlay(ck)
    bg = clientlib.build_bg(ck, "client")
    r = ck.tlc("ClientCfg", "MC_ClientCfg_nodes.cfg", constants=consts, timeout=900)
    cases = r.printed
    if ck.replay is not None:
        cases = [ck.replay]
    if not cases:
        raise vf.Infra("no cases")
    b = bg()
    norec = [] if ck.replay is not None and not ck.replay.get("norecorder") else [{"c": ["none"] * k, "e": list(range(1, min(3, k) + 1)), "norecorder": True} for k in range(0, n + 3)]
    if ck.replay is not None and ck.replay.get("norecorder"):
        cases, norec = [], [ck.replay]
    byi = {}
    for off, part, args in ((0, cases, ["nodes"]), (len(cases), norec, ["nodes", "norecorder"])):     # with the RTT recorder / a client built without one
        if not part:
            continue
        recs = ck.drive(b, args, input_lines=[c["c"] for c in part], timeout=900)
        got = {x["i"] + off: x["o"] for x in recs if "i" in x}
        if len(got) != len(part):
            raise vf.Infra("driver answered %d of %d cases\n%s" % (len(got), len(part), getattr(ck, "last_stderr", "")[-1500:]))
        byi.update(got)
    cases = cases + norec
    obs = "\n".join(json.dumps({"c": c["c"], "o": byi[i]}) for i, c in enumerate(cases)) + "\n"
    r2 = ck.tlc("ClientCfg", "MC_ClientCfg_nodes_obs.cfg", files={"obs_nodes.ndjson": obs}, constants=consts, timeout=900)
    verdict = {rec["c"] - 1: rec["e"] for rec in r2.printed}
    if len(verdict) != len(cases):
        raise vf.Infra("validator judged %d of %d" % (len(verdict), len(cases)))
    differs = short = 0
    for i, c in enumerate(cases):
        ks, o, v = c["c"], byi[i], verdict[i]
        ck.count(json.dumps([ks, bool(c.get("norecorder"))]), len(set(ks)) > 1 or len(ks) > 3)
        if i % (len(cases) // 5 + 1) == 0:
            ck.sample({"kinds_in_address_order": ks, "returned_positions": o, "verdict": v})
        if o == [-1]:
            ck.violation("C50:panic", "getConnectedNodes panicked; kinds=%s" % ks, c)
            continue
        bad = [k for k in CLAUSES if not v[k]]
        if bad:
            ck.violation("C50:%s:%dnodes%s" % ("+".join(bad), len(ks), ":no-recorder" if c.get("norecorder") else ""),
                         "getConnectedNodes violates clause(s) %s: measurement kinds in address order=%s, returned positions=%s (kinds %s)"
                         % (bad, ks, o, [ks[p - 1] if 0 < p <= len(ks) else "?" for p in o]), c)
        else:
            if o != c["e"]:
                differs += 1
            if len(o) < min(3, len(ks)):
                short += 1
    ck.traces += len(cases)
    ck.exhaustive = True
    if differs:
        ck.notes.append("%d returned lists meet the statement but differ from the transcribed selection (ties / which three; not judged)" % differs)
    if short:
        ck.notes.append("%d returned lists are shorter than min(3, connected) (the statement only bounds the length from above; not judged)" % short)
    ck.assumptions += ["rtt/rtt.go is built from an overlay copy generated from the working-tree file with time.Now/time.Since routed to a clock the "
                       "driver sets; stale = 11 s, 1 min or 1 h old, recent = 0..9 s old (the 10 s boundary itself is not generated)",
                       "averages are 10 / 10.2 / 10.4 / 20 / 25 / 30 ms (the closest pair 200 us apart, far above Duration truncation); equal averages are ties (free)",
                       "which three of more than three connected gateways are used is not fixed by the statement and not judged"]
