"""C16 Every storage backend implements the KV contract.  Spec: KVStore (family contract)."""
import json
import vf, kvlib

def run(ck):
    r = ck.tlc("MC_KVStore", "MC_KVStore_contract.cfg", constants={"Vals": '{"v1", "v2"}' if ck.thorough else '{"v1"}'} if False else None)
    edges = r.printed
    if ck.replay is not None:
        walks = [ck.replay["walk"]]
    else:
        walks = kvlib.covering_walks(edges, ck.rng)
    b = ck.build("kv")
    keys, hashof = [["a"], ["a", "b"]], [2, 2]
    ck.extra["graph_edges"] = len(edges)
    ck.extra["walks"] = len(walks)
    names = ["".join(k) for k in keys]
    hidden = {}
    ALT = {"a": "ff", "b": "00", "c": "fe"}          # the letters of the key names stored as the extreme byte values
    import itertools
    runs = itertools.chain(((None, x) for x in kvlib.run_walks(ck, b, walks, keys, hashof, sigprefix="C16")),
                           ((ALT, x) for x in kvlib.run_walks(ck, b, walks if ck.thorough or ck.replay is not None else walks[::2], keys, hashof, sigprefix="C16", alphabet=ALT)))
    for alpha, (backend, wi, si, e, step, case) in runs:
        if alpha is not None and not ck.thorough and ck.replay is None:
            wi = wi * 2
        op = e["op"]
        if si == 0:
            hidden = {}      # keys whose last simple write was Put(k, empty): present as an empty blob in some backends
        if op["m"] == "put":
            hidden[names[op["k"] - 1]] = (op["v"] == "")
        elif op["m"] == "delete":
            hidden[names[op["k"] - 1]] = False
        ck.count((backend, kvlib.canon(e["from"]), json.dumps(op, sort_keys=True)), e["from"] != {} and (e["to"] != e["from"] or op["m"] in ("get", "list", "listkeys", "contains")))
        exp_ret, got_ret = kvlib.norm_ret(op, e["ret"]), kvlib.norm_ret(op, step["ret"])
        exp_st, got_st = kvlib.proj_of(e["to"]), step["st"]
        if len(ck.samples) < 3 and si == 5:
            ck.sample({"backend": backend, "op": op, "expected": e["ret"], "observed": step["ret"], "state_after": got_st})
        what = None
        if exp_ret != got_ret:
            what = "reply %s, the contract says %s" % (json.dumps(step["ret"]), json.dumps(e["ret"]))
        elif {k: exp_st[k] for k in ("simple", "kids")} != {k: got_st[k] for k in ("simple", "kids")}:
            what = "store after the operation is %s, the contract says %s" % (json.dumps(got_st), json.dumps(exp_st))
        if what and op["m"] == "listkeys" and exp_st == got_st:
            extra = set(map(tuple, got_ret.get("ks", []))) - set(map(tuple, exp_ret.get("ks", [])))
            missing = set(map(tuple, exp_ret.get("ks", []))) - set(map(tuple, got_ret.get("ks", [])))
            if not missing and extra and all(kd == "SIMPLE" and hidden.get(k) for k, kd in extra):
                ck.violation("C16:empty-value:%s:listed-as-simple" % backend,
                             "%s lists a key whose simple value is empty (after Put(k, empty)) with kind SIMPLE: %s" % (backend, what), {"walk": walks[wi][:si + 1], "backend": backend})
                continue
        if what:
            sig = "C16:%s:%s" % (backend, op["m"])
            ck.violation(sig, "%s %s on state %s: %s%s" % (backend, json.dumps(op), kvlib.canon(e["from"]), what, "" if alpha is None else " (key letters stored as bytes %s)" % alpha),
                         {"walk": walks[wi][:si + 1], "backend": backend})
    ck.exhaustive = True
    ck.rule = ("TLC emits every edge (state, operation) of the KV contract model over 2 keys (one a prefix of the other, colliding hashes) x "
               "values {v1, v2, empty} x children {c1, c2}; greedy covering walks execute every edge on memory, append-only-log and SQLite, a second time (quick: every other walk) with the letters of the key "
               "names stored as the bytes ff / 00 / fe; "
               "reply and projected store are compared after every operation; non-trivial = the operation changes the state or is a read")
    ck.assumptions += ["an empty simple value is absent (Get returning nil or a zero-length slice are the same observation)"]
