"""C05 — ring engine (ChordKV / Trace_ChordKV); see ringcheck.py."""
import ringcheck

KINDS = set("SingleCopy Placement".split())

def run(ck):
    ringcheck.engine(ck, "C05", KINDS)
    ringcheck.finish_common(ck)
