"""C40 Bidirectional piping (spec/tun.Pipe) delivers all data and closes both ends.
Specs: BiPipeRules (the property as a monitor over a run's event log), BiPipe (model of pipe.go, exhaustive),
Trace_BiPipe (recorded runs of the real Pipe judged by the same monitor)."""
import json, hashlib, os
import vf

CLAUSES = ("inorder", "delivered", "closed", "completed", "endtoend")


def cfg_text(name, thorough):
    with open(os.path.join(vf.VERIF, "spec", name)) as f:
        t = f.read()
    return t.replace("Pay <- Pay21", "Pay <- Pay32") if thorough else t


def run(ck):
    ck.rule = ("one evaluation = one recorded run of the real tun.Pipe over instrumented streams (bufconn pairs driven by seeded "
               "applications: payloads in one or both directions, either side closing first, patient/impatient peers, capacity 1..64; "
               "scripted streams ending with EOF / an error / blocking, with failing writes), judged by the BiPipeRules monitor in TLC; "
               "non-trivial = every run (each has an ending side), distinct by event sequence")
    # ---------------------------------------------------------------- (A) the design, exhaustively
    th = ck.thorough
    r = ck.tlc("BiPipe", cfg_text("MC_BiPipe.cfg", th), timeout=900)
    ck.exhaustive = r.finished
    live = cfg_text("MC_BiPipe_live.cfg", False)
    ck.tlc("BiPipe", live.replace("Errors = FALSE", "Errors = TRUE") if th else live, timeout=900, workers=4)
    if th:
        # the properties are not vacuous: each broken twin of the model must be rejected by TLC
        for variant, cfg, kind in (("oneclose", "MC_BiPipe_live.cfg", "temporal"), ("noclose_on_err", "MC_BiPipe.cfg", "invariant"),
                                   ("nocompletion", "MC_BiPipe.cfg", "invariant")):
            t = ck.tlc("BiPipe", cfg, constants={"Variant": '"%s"' % variant}, allow_error=True, count=False, workers=4)
            if not t.error or t.error["kind"] != kind:
                raise vf.Infra("BiPipe twin %s was not rejected (vacuous properties?)" % variant)
        lead = ck.tlc("BiPipe", "MC_BiPipe_fullclose_e2e.cfg", allow_error=True, count=False, workers=4)
        if lead.error:
            ck.notes.append("model lead: with full-close streams (writes to a stream whose application closed fail) InvEndToEndAll is violated: "
                            "the failing write of the opposite direction closes both streams while bytes of the side that finished first "
                            "are still undelivered; the driver family 'revloss' replays this schedule on the real Pipe over bufconn")

    # ---------------------------------------------------------------- (C) recorded runs of the real Pipe
    b = ck.build("pipes")
    if ck.replay is not None:
        args = ["bipipe", str(ck.replay["scn"]), str(ck.replay["scn"] + 1), "20"]
    else:
        args = ["bipipe", "0", str(3000 if th else 400)]
    recs = ck.drive(b, args, timeout=1500)
    aborted = [x for x in recs if x.get("aborted")]
    recs = [x for x in recs if "events" in x]
    if not recs:
        raise vf.Infra("driver produced no runs")
    lines = []
    for rec in recs:
        ev = [dict(k=e["t"], s=e["g"], d=e["d"], e=e.get("e") or "ok") for e in rec["events"]]
        lines.append(json.dumps({"ev": ev}))
    tr = ck.tlc("Trace_BiPipe", "Trace_BiPipe.cfg", files={"obs_bipipe.ndjson": "\n".join(lines) + "\n"}, timeout=900)
    verdict = {x["c"] - 1: x["e"] for x in tr.printed}
    if len(verdict) != len(recs):
        raise vf.Infra("validator judged %d of %d runs" % (len(verdict), len(recs)))
    for i, rec in enumerate(recs):
        v = verdict[i]
        seq = [(e["t"], e["g"], len(e["d"]), e.get("e")) for e in rec["events"]]
        ck.count(hashlib.sha1(json.dumps(seq).encode()).hexdigest(), True)
        if i % max(1, len(recs) // 6) == 0:
            ck.sample({"scenario": rec["scn"], "family": rec["fam"], "cap": rec["cap"], "verdict": v,
                       "events": [[e["t"], e["g"], len(e["d"]), e.get("e")] for e in rec["events"]][:50]})
        bad = [c for c in CLAUSES if not v[c]]
        if not bad:
            ck.traces += 1
            continue
        fe, fa = v["fe"], v["fa"]
        where = "%s/%s" % (rec["fam"], "first-ending=%s" % ("-".join(map(str, fe)) if fe else "none"))
        for c in bad:
            if c == "endtoend":
                cause = "reverse-write-failed" if (fe and fa and fe[0] == "write" and fe[1] == fa[0]) else ("first-ending-" + (str(fe[0]) if fe else "none"))
                sig = "C40:first-finisher-data-lost:%s" % cause
                got = sum(len(e["d"]) for e in rec["events"] if e["t"] == "aread" and fa and e["g"] == 3 - fa[0])
                first_close = next(i for i, e in enumerate(rec["events"]) if e["t"] == "aclose")
                sent = sum(len(e["d"]) for e in rec["events"][:first_close] if e["t"] == "awrite" and fa and e["g"] == fa[0])
                what = ("application %s wrote %d bytes and then closed first; application %s (which closed only after seeing the end) "
                        "received %d of them; first ending seen by Pipe: %s" % (fa[0] if fa else "?", sent, 3 - fa[0] if fa else "?", got, fe))
            elif c == "closed":
                sig = "C40:not-both-closed:%s" % where
                what = "a side ended (%s) but Close was not called on both streams afterwards" % (fe,)
            elif c == "completed":
                sig = "C40:no-completion:%s" % where
                what = "a side ended (%s) but the channel was not closed after both streams were closed (no progress for 2.5 s)" % (fe,)
            elif c == "delivered":
                sig = "C40:not-delivered:%s" % where
                what = "side %s was the first to end, by its Read ending, but not everything read from it was written to the other side" % (fe[1] if fe else "?")
            else:
                sig = "C40:out-of-order:%s" % rec["fam"]
                what = "bytes written to a side are not a prefix of the bytes read from the other side"
            what += "; scenario=%d family=%s cap=%d seed=%d meta=%s" % (rec["scn"], rec["fam"], rec["cap"], ck.seed, json.dumps(rec.get("meta")))
            ck.violation(sig, what, {"scn": rec["scn"], "family": rec["fam"], "cap": rec["cap"], "seed": ck.seed, "verdict": v,
                                     "events": [[e["t"], e["g"], e["d"], e.get("e")] for e in rec["events"]]})
    if aborted:
        ck.notes.append("driver stopped early after 3 runs without progress (each costs the 2.5 s quiet period)")
        if not ck.viol:
            raise vf.Infra("driver reported runs without progress but every run was accepted")
    ck.assumptions += [
        "streams honour Close: a blocked or later Read/Write on a closed stream returns an error (bufconn does; the stubs do)",
        "the order of the event log is real-time order (one mutex-protected log; Pipe's calls are logged on return, Close on entry)",
        "completion is judged missing only after 2.5 s without any event and with every goroutine of the run parked",
        "EndToEnd is judged only when no stream is broken, the first application to finish closed cleanly and the other one closed "
        "only after it saw the end of its input",
    ]
