"""C23 The SQLite store keeps every committed operation across a crash.  Spec: SqliteCrash (oracle: prefix projections of every
history computed by TLC from KVStore's Do).  Binding: seeded histories run on the real store by drv/sqlcrash in a child process
that is (a) killed with SIGKILL at seeded moments, the directory reopened in place, (b) run under strace, the image of the
database file and its write-ahead log rebuilt at every syscall boundary and reopened.  Verdict: reopen succeeds, the recovered
content and listings equal the projection after some prefix of the issued operations that contains every acknowledged one."""
import json, os, re, shutil, subprocess, sys, tempfile, time
from concurrent.futures import ThreadPoolExecutor
import vf
sys.path.insert(0, os.path.join(vf.VERIF, "lib"))
import fsrec

KEYS = ["a", "ab", "b"]
VALS = ["v1", "v2"]
KIDS = ["c1", "c2"]
PAR = 4          # child processes run side by side (the machine is shared)


# ----------------------------------------------------------------------------------------------- histories
def gen_history(rng, n, reopen=0):
    ops = []
    for _ in range(n):
        x = rng.random()
        k = rng.randint(1, 3)
        if x < 0.20:
            ops.append({"m": "put", "k": k, "v": rng.choice(VALS)})
        elif x < 0.30:
            ops.append({"m": "delete", "k": k})
        elif x < 0.50:
            ops.append({"m": "append", "k": k, "c": rng.choice(KIDS)})
        elif x < 0.60:
            ops.append({"m": "remove", "k": k, "c": rng.choice(KIDS)})
        elif x < 0.72:
            ks = sorted(rng.sample([1, 2, 3], rng.randint(1, 3)))
            ops.append({"m": "import", "ks": ks, "v": rng.choice(VALS), "cs": sorted(rng.sample(KIDS, rng.randint(1, 2)))})
        elif x < 0.82:
            ops.append({"m": "removekeys", "ks": sorted(rng.sample([1, 2, 3], rng.randint(1, 3)))})
        elif x < 0.92:
            ops.append({"m": "acquire", "k": k})
        else:
            ops.append({"m": "release", "k": k})
    for _ in range(reopen):
        ops.insert(rng.randint(2, max(2, len(ops) - 1)), {"m": "reopen"})
    return ops


def directed():
    """every kind of multi-statement transaction right after the state that makes a torn commit visible"""
    return [
        # first data of a key (tracker row inserted), several keys in one import, lease, removal of several keys, last data of a key
        [{"m": "put", "k": 1, "v": "v1"}, {"m": "append", "k": 2, "c": "c1"}, {"m": "import", "ks": [1, 3], "v": "v2", "cs": ["c1", "c2"]},
         {"m": "acquire", "k": 2}, {"m": "removekeys", "ks": [1, 2]}, {"m": "delete", "k": 3}, {"m": "remove", "k": 3, "c": "c1"},
         {"m": "remove", "k": 3, "c": "c2"}],
        # checkpoint at a clean close in the middle, rejected append, release
        [{"m": "put", "k": 1, "v": "v1"}, {"m": "append", "k": 1, "c": "c1"}, {"m": "append", "k": 1, "c": "c1"}, {"m": "acquire", "k": 1},
         {"m": "delete", "k": 1}, {"m": "reopen"}, {"m": "release", "k": 1}, {"m": "remove", "k": 1, "c": "c1"}, {"m": "put", "k": 1, "v": "v2"}],
        # bulk hand-over: one Import and one RemoveKeys of several hundred keys (more than any internal batch) are one operation each
        [{"m": "put", "k": 1, "v": "v1"}, {"m": "importfill", "n": 520}, {"m": "put", "k": 2, "v": "v2"}, {"m": "removefill", "n": 520},
         {"m": "delete", "k": 1}],
    ]


def bulk_cycles(n=6, size=1500):
    h = []
    for i in range(n):
        h += [{"m": "importfill", "n": size}, {"m": "put", "k": 1 + i % 3, "v": VALS[i % 2]}, {"m": "removefill", "n": size}]
    return h


def oracle(ck, hists):
    """prefix replies and projections of every history, computed by TLC"""
    r = ck.tlc("SqliteCrash", "MC_SqliteCrash.cfg", workers=1,
               files={"sqlcrash_hist.ndjson": "\n".join(json.dumps({"ops": h}) for h in hists) + "\n"})
    by = {x["i"]: x["pre"] for x in r.printed}
    if len(by) != len(hists):
        raise vf.Infra("SqliteCrash emitted %d of %d histories" % (len(by), len(hists)))
    out = []
    for i in range(len(hists)):
        out.append([{"ret": p["ret"], "proj": norm_spec(p["proj"])} for p in by[i + 1]])
    return out


def norm_spec(p):
    return {"simple": list(p["simple"]), "kids": [sorted(k) for k in p["kids"]], "lease": [bool(x) for x in p["lease"]],
            "listed": sorted(["".join(x[0]), x[1]] for x in p["listed"]), "ranged": sorted("".join(x) for x in p["ranged"]), "fill": p["fill"]}


def norm_obs(o):
    return {"simple": list(o["simple"]), "kids": [sorted(k) for k in o["kids"]], "lease": [bool(x) for x in o["lease"]],
            "listed": sorted([x[0], x[1]] for x in o["listed"]), "ranged": sorted(o["ranged"]),
            "fill": o.get("fill", 0) if o.get("fill", 0) == o.get("fill_listed", 0) == o.get("fill_read", 0) else
            "RangeKeys %s / ListKeys %s / readable %s" % (o.get("fill"), o.get("fill_listed"), o.get("fill_read"))}


def consistent(p):
    """a key is listed with a kind iff it holds data of that kind (Consistent in SqliteCrash.tla); returns None or a description"""
    want = []
    for i, k in enumerate(KEYS):
        if p["simple"][i] != "":
            want.append([k, "SIMPLE"])
        if p["kids"][i]:
            want.append([k, "PREFIX"])
        if p["lease"][i]:
            want.append([k, "LEASE"])
    want.sort()
    if p["listed"] != want:
        return "ListKeys shows %s, the stored data is %s" % (json.dumps(p["listed"]), json.dumps(want))
    rk = sorted({k for k, _ in want})
    if p["ranged"] != rk:
        return "RangeKeys(0,0) shows %s, keys holding data are %s" % (json.dumps(p["ranged"]), json.dumps(rk))
    return None


# ----------------------------------------------------------------------------------------------- running the child
def run_full(ck, binary, ops, close=False):
    """complete run without a crash: replies, final projection, duration between READY and the last acknowledgement"""
    d = tempfile.mkdtemp(prefix="sqlrun-", dir=ck.scratch)
    p = subprocess.Popen([binary, "run"], stdin=subprocess.PIPE, stdout=subprocess.PIPE, stderr=subprocess.PIPE, text=True)
    p.stdin.write(json.dumps({"dir": d, "keys": KEYS, "ops": ops, "close": close}))
    p.stdin.close()
    t0 = t1 = None
    rets, final = [], None
    for line in p.stdout:
        if line.startswith("READY"):
            t0 = time.time()
        elif line.startswith("ACK "):
            rets.append(line.split(None, 2)[2].strip())
            t1 = time.time()
        elif line.startswith("FINAL ") or line.startswith("CLOSED "):
            final = json.loads(line.split(None, 1)[1])
    err = p.stderr.read()
    if p.wait() != 0 or final is None:
        raise vf.Infra("sqlcrash driver failed: %s" % err[-1500:])
    return rets, final, (t1 or t0) - t0, d


def run_kill(ck, binary, ops, target, delay):
    """run the history in a child and SIGKILL it `delay` seconds after its acknowledgement number `target` was seen (0: after READY);
    returns (directory, acknowledged, finished).  What counts as acknowledged is what the child managed to write to the pipe."""
    d = tempfile.mkdtemp(prefix="sqlkill-", dir=ck.scratch)
    p = subprocess.Popen([binary, "run"], stdin=subprocess.PIPE, stdout=subprocess.PIPE, stderr=subprocess.PIPE)
    p.stdin.write(json.dumps({"dir": d, "keys": KEYS, "ops": ops, "hold": 3000}).encode())
    p.stdin.close()
    seen = p.stdout.readline()
    if not seen.startswith(b"READY"):
        p.kill()
        raise vf.Infra("sqlcrash driver did not start: %r %s" % (seen, p.stderr.read()[-1000:]))
    n = 0
    while n < target:
        line = p.stdout.readline()
        if not line:
            break
        seen += line
        if line.startswith(b"ACK "):
            n = int(line.split()[1])
    if delay > 0:
        time.sleep(delay)
    p.kill()                                      # SIGKILL
    rest = seen + p.stdout.read()                 # everything the child managed to write before it died
    p.wait()
    p.stderr.close()
    acks = [int(m.group(1)) for m in re.finditer(rb"(?m)^ACK (\d+) [^\n]*\n", rest)]   # only complete lines count as acknowledged
    return d, (max(acks) if acks else 0), b"FINAL" in rest


def reopen(ck, binary, dirs):
    """reopen every directory with sqlite3.New (PAR driver processes side by side); returns the projections / errors in order"""
    if not dirs:
        return []
    chunks = [list(range(i, len(dirs), PAR)) for i in range(min(PAR, len(dirs)))]

    def one(idx):
        p = subprocess.run([binary, "open", json.dumps(KEYS)], input="\n".join(dirs[i] for i in idx) + "\n",
                           capture_output=True, text=True, timeout=1500)
        res = {}
        for line in p.stdout.splitlines():
            if line.startswith("{"):
                o = json.loads(line)
                res[idx[o["i"]]] = o["o"]
        if p.returncode != 0 or len(res) != len(idx):
            raise vf.Infra("sqlcrash open driver failed (%d of %d answered): %s" % (len(res), len(idx), p.stderr[-1500:]))
        return res
    out = {}
    with ThreadPoolExecutor(PAR) as ex:
        for res in ex.map(one, chunks):
            out.update(res)
    return [out[i] for i in range(len(dirs))]


# ----------------------------------------------------------------------------------------------- strace recorder
class Rec(fsrec.Recorder):
    """lib/fsrec.py plus fallocate (the VFS of the SQLite driver extends files with it)"""
    def feed(self, name, args, ret):
        if name == "fallocate" and not ret.startswith("-1") and ret != "?":
            m = re.match(r"(\d+), (\w+), (\d+), (\d+)", args)
            ent = self.fds.get(int(m.group(1))) if m else None
            if ent and ent[0] is not None and m.group(2) == "0":
                end = int(m.group(3)) + int(m.group(4))
                f = ent[0]
                if end > len(f.data):
                    f.data.extend(b"\0" * (end - len(f.data)))
                    self.snap("fallocate %d" % end)
            return
        if name in ("pwritev", "pwritev2", "mremap", "copy_file_range", "sendfile"):
            self.unmodelled = getattr(self, "unmodelled", 0) + 1
            return
        return super().feed(name, args, ret)


def record(ck, binary, ops):
    """run the history under strace; returns the recorder (images at every boundary) and the child's stdout"""
    d = tempfile.mkdtemp(prefix="sqlrec-", dir=ck.scratch)
    out = d + ".strace"
    trace = fsrec.TRACE + ",fallocate,pwritev,pwritev2,copy_file_range,sendfile"
    cmd = ["strace", "-f", "-xx", "-s", "4000000", "-e", "trace=" + trace, "-o", out, binary, "run"]
    p = subprocess.run(cmd, input=json.dumps({"dir": d, "keys": KEYS, "ops": ops}), capture_output=True, text=True, timeout=600)
    if p.returncode != 0:
        raise vf.Infra("sqlcrash driver under strace exited %s: %s" % (p.returncode, p.stderr[-1500:]))
    rec = Rec(d)
    pending = {}
    with open(out, errors="replace") as f:
        for line in f:
            line = line.rstrip("\n")
            m = fsrec.UNFIN.match(line)
            if m:
                pending[m.group(1) or m.group(2) or "0"] = (m.group(3), m.group(4))
                continue
            m = fsrec.RESUM.match(line)
            if m:
                name, a0 = pending.pop(m.group(1) or m.group(2) or "0", (m.group(3), ""))
                rec.feed(name, a0 + m.group(4), m.group(5))
                continue
            m = fsrec.LINE.match(line)
            if m:
                rec.feed(m.group(3), m.group(4), m.group(5))
    os.unlink(out)
    # the recorder is only trusted if its last image is byte-identical to what the run left on disk
    real = {}
    for root, _, files in os.walk(d):
        for fn in files:
            if fn.endswith("-shm"):
                continue
            real[os.path.relpath(os.path.join(root, fn), d)] = open(os.path.join(root, fn), "rb").read()
    last = {k: v for k, v in rec.images[-1]["files"].items() if not k.endswith("-shm")} if rec.images else {}
    faithful = last == real and not getattr(rec, "unmodelled", 0)
    shutil.rmtree(d, ignore_errors=True)
    return rec, p.stdout, faithful


# ----------------------------------------------------------------------------------------------- verdict
def judge(ck, o, pre, acked, ops, where, replay):
    """o: projection of the reopened store or {"err"}; pre: TLC's prefix replies/projections of the history ops"""
    ctx = "operations %d..%d of the history: %s" % (max(1, acked - 3), min(len(ops), acked + 2), json.dumps(ops[max(0, acked - 4):acked + 2]))
    if len(ops) > acked + 4:                       # what was never started cannot matter: keep the replay short
        replay = dict(replay, ops=ops[:acked + 4])
    if "err" in o and "simple" not in o:
        ck.violation("C23:reopen-fails", "reopening after %s (acknowledged %d of %d) fails: %s; %s" % (where, acked, len(ops), o["err"], ctx), replay)
        return
    if "err" in o:
        ck.violation("C23:read-fails-after-reopen", "after %s (acknowledged %d of %d) the reopened store answers errors: %s; %s"
                     % (where, acked, len(ops), o["err"], ctx), replay)
        return
    p = norm_obs(o)
    if any(pre[j]["proj"] == p for j in range(acked, len(pre))):
        return
    bad = consistent(p)
    content = lambda q: (q["simple"], q["kids"], q["lease"])
    if bad and any(content(pre[j]["proj"]) == content(p) for j in range(acked, len(pre))):
        ck.violation("C23:listing-inconsistent", "after %s (acknowledged %d of %d) the recovered content is a legal prefix state but %s; %s"
                     % (where, acked, len(ops), bad, ctx), replay)
    elif any(pre[j]["proj"] == p for j in range(0, acked)):
        j = max(j for j in range(0, acked) if pre[j]["proj"] == p)
        ck.violation("C23:acknowledged-operation-lost", "after %s the recovered store %s is the state after %d operations although %d were acknowledged; %s"
                     % (where, json.dumps(p), j, acked, ctx), replay)
    else:
        ck.violation("C23:not-a-prefix-state", "after %s (acknowledged %d of %d) the recovered store %s is not the state after any prefix of the history "
                     "that contains the acknowledged operations (%sthe state after %d operations is %s); %s"
                     % (where, acked, len(ops), json.dumps(p), (bad + "; ") if bad else "", acked, json.dumps(pre[acked]["proj"]), ctx), replay)


def refused_whole(ck, b):
    """operations the store refuses (the instance's hash function differs for a key that holds data: ErrKVHashFnChanged) must leave
    nothing behind, also when they had already written other rows of the same transaction"""
    setup = [{"m": "put", "k": 1, "v": "v1"}, {"m": "put", "k": 3, "v": "v1"}, {"m": "append", "k": 3, "c": "c1"}, {"m": "append", "k": 2, "c": "c1"},
             {"m": "flipreopen", "ks": [3]}]
    _, base, _, d = run_full(ck, b, setup)
    shutil.rmtree(d, ignore_errors=True)
    base = norm_obs(base)
    cands = [{"m": "put", "k": 3, "v": "v2"}, {"m": "delete", "k": 3}, {"m": "append", "k": 3, "c": "c2"}, {"m": "remove", "k": 3, "c": "c1"},
             {"m": "import", "ks": [1, 3], "v": "v2", "cs": ["c2"]}, {"m": "import", "ks": [1, 2, 3], "v": "v2", "cs": ["c1", "c2"]},
             {"m": "import", "ks": [3, 1], "v": "v2", "cs": ["c2"]}, {"m": "removekeys", "ks": [1, 3]}, {"m": "removekeys", "ks": [2, 3, 1]}]
    refused = 0
    for x in cands:
        h = setup + [x]
        rets, final, _, d = run_full(ck, b, h)
        o = reopen(ck, b, [d])[0]
        shutil.rmtree(d, ignore_errors=True)
        ck.count(("refused", json.dumps(x)), True)
        if not rets[-1].startswith("error"):
            continue                      # not refused: nothing to judge here
        refused += 1
        for what, st in (("the live store", norm_obs(final)), ("the reopened store", norm_obs(o) if "err" not in o else None)):
            if st is None:
                ck.violation("C23:reopen-fails", "reopen after a refused %s fails: %s" % (x["m"], o.get("err")), {"mode": "refused", "ops": h})
            elif st != base:
                ck.violation("C23:refused-operation-left-data:%s" % x["m"], "%s was refused (%s) but %s then shows %s instead of the content before it %s"
                             % (json.dumps(x), rets[-1][:80], what, json.dumps(st), json.dumps(base)), {"mode": "refused", "ops": h})
                break
    ck.extra["refused_operations_judged"] = refused
    if refused == 0:
        ck.notes.append("no operation was refused after the hash function of the instance changed: the atomicity of refused operations was not exercised")


def run(ck):
    b = ck.build("sqlcrash")
    rng = ck.rng
    if ck.replay is None or ck.replay.get("mode") == "refused":
        refused_whole(ck, b)
        if ck.replay is not None:
            return
    if ck.replay is not None:
        rp = ck.replay
        kill_hists = [rp["ops"]] if rp.get("mode") == "kill" else []
        rec_hists = [rp["ops"]] if rp.get("mode") != "kill" or len(rp["ops"]) <= 80 else []     # every boundary: deterministic
        nkill = 40
    elif ck.thorough:
        kill_hists = [gen_history(rng, 60) for _ in range(6)] + [gen_history(rng, 700)] + directed() + [bulk_cycles()]
        rec_hists = directed() + [gen_history(rng, 10, reopen=1) for _ in range(10)]
        nkill = 24
    else:
        kill_hists = [gen_history(rng, 60) for _ in range(2)] + [gen_history(rng, 400), bulk_cycles()]
        rec_hists = [directed()[0], directed()[2], gen_history(rng, 5, reopen=1)]
        nkill = 8
    hists = kill_hists + rec_hists
    pre = oracle(ck, hists)
    kpre, rpre = pre[:len(kill_hists)], pre[len(kill_hists):]

    # (0) conformance of the uncrashed run: replies and final content as the specification says (binds Step to the real store)
    durations = []
    for h, pr in zip(kill_hists, kpre):
        rets, final, dur, d = run_full(ck, b, h)
        durations.append(dur)
        want = [x["ret"] for x in pr[1:]]
        if rets != want:
            j = next(i for i in range(len(want)) if i >= len(rets) or rets[i] != want[i])
            ck.violation("C23:reply-differs", "operation %d %s answered %s, the specification says %s; history %s"
                         % (j + 1, json.dumps(h[j]), rets[j] if j < len(rets) else "nothing", want[j], json.dumps(h[:j + 1])[:1200]), {"mode": "kill", "ops": h})
        elif norm_obs(final) != pr[-1]["proj"]:
            ck.violation("C23:final-state-differs", "after the whole history the live store shows %s, expected %s; history %s"
                         % (json.dumps(norm_obs(final)), json.dumps(pr[-1]["proj"]), json.dumps(h)[:1200]), {"mode": "kill", "ops": h})
        # abrupt exit after the last acknowledgement: reopening must show the final state
        o = reopen(ck, b, [d])[0]
        judge(ck, o, pr, len(h), h, "an abrupt exit at the end", {"mode": "kill", "ops": h})
        ck.count(("exit", json.dumps(h)[:150]), True)
        shutil.rmtree(d, ignore_errors=True)

    ck.log("uncrashed runs done (%s ms between READY and last ack)" % [round(x * 1000) for x in durations])
    # (a) SIGKILL at seeded moments spread over the run
    jobs = []
    for hi, h in enumerate(kill_hists):
        per_op = max(durations[hi], 0.002) / len(h)
        n = nkill * (2 if len(h) > 100 else 1)
        for q in range(n):
            # the kill is aimed at the operations that follow acknowledgement `target`: anywhere inside the next two or three
            jobs.append((hi, int((q + rng.random()) / n * len(h)), rng.random() * 3 * per_op))
    with ThreadPoolExecutor(PAR) as ex:
        killed = list(ex.map(lambda j: run_kill(ck, b, kill_hists[j[0]], j[1], j[2]), jobs))
    outs = reopen(ck, b, [k[0] for k in killed])
    mid = 0
    for (hi, target, delay), (d, acked, finished), o in zip(jobs, killed, outs):
        h = kill_hists[hi]
        judge(ck, o, kpre[hi], acked, h, "SIGKILL %.2f ms after acknowledgement %d was seen" % (delay * 1000, target), {"mode": "kill", "ops": h})
        nontrivial = 0 < acked < len(h)
        mid += nontrivial
        ck.count(("kill", hi, acked), nontrivial)
        shutil.rmtree(d, ignore_errors=True)
    ck.extra["kills"] = len(jobs)
    ck.log("%d kills, %d inside a history" % (len(jobs), mid))
    ck.extra["kills_inside_history"] = mid
    if jobs and ck.replay is None and mid < len(jobs) // 4:
        ck.notes.append("only %d of %d kills fell inside a history (machine load); the strace images cover the rest" % (mid, len(jobs)))

    # (b) crash images at every syscall boundary (database file and write-ahead log; the shared-memory index is discarded)
    nimg = 0
    for hi, (h, pr) in enumerate(zip(rec_hists, rpre)):
        rec, out, faithful = record(ck, b, h)
        rets = [l.split(None, 2)[2].strip() for l in out.splitlines() if l.startswith("ACK ")]
        want = [x["ret"] for x in pr[1:]]
        if rets != want:
            ck.violation("C23:reply-differs", "replies %s, the specification says %s; history %s" % (rets, want, json.dumps(h)[:1200]), {"mode": "rec", "ops": h})
        if not faithful:
            ck.notes.append("strace recorder: final image of history %d differs from the directory the run left (or unmodelled syscalls seen); "
                            "its images are not judged, SIGKILL runs only" % hi)
            ck.extra["recorder_unfaithful"] = ck.extra.get("recorder_unfaithful", 0) + 1
            continue
        imgs = rec.images
        if not ck.thorough and ck.replay is None and len(imgs) > 140:
            # quick tier: every boundary inside the history, a sample of those of the initial schema creation
            first = next((i for i, im in enumerate(imgs) if im["acked"] > 0 or im["after"].startswith("ack")), len(imgs))
            head = list(range(0, first))
            keep = set(head[:: max(1, len(head) // 20)]) | set(range(max(0, first - 5), len(imgs)))
            if len(keep) > 140 and not any(x["m"] in ("importfill", "removefill") for x in h):     # bulk operations: every boundary inside them
                tail = sorted(keep)
                keep = set(tail[:: 1 + len(tail) // 140]) | {len(imgs) - 1}
            imgs = [imgs[i] for i in sorted(keep)]
        root = tempfile.mkdtemp(prefix="sqlimg-", dir=ck.scratch)
        dirs = []
        for i, im in enumerate(imgs):
            d = os.path.join(root, "i%d" % i)
            os.makedirs(d)
            fsrec.materialize({k: v for k, v in im["files"].items() if not k.endswith("-shm")}, d)
            dirs.append(d)
        res = reopen(ck, b, dirs)
        shutil.rmtree(root, ignore_errors=True)
        for im, o in zip(imgs, res):
            nimg += 1
            judge(ck, o, pr, im["acked"], h, "a crash right after '%s'" % im["after"], {"mode": "rec", "ops": h})
            ck.count(("img", hi, im["after"], im["acked"], json.dumps(sorted((k, len(v)) for k, v in im["files"].items()))), True)
        if hi == 0:
            ck.sample({"history": h, "boundaries": [im["after"] for im in imgs][-25:], "images": len(imgs)})
    ck.extra["crash_images_reopened"] = nimg
    ck.log("%d crash images reopened" % nimg)
    ck.traces += len(hists)
    ck.sample({"history": kill_hists[0][:12] if kill_hists else None, "prefix_projection_after_3": kpre[0][3]["proj"] if kill_hists else None})
    ck.rule = ("histories of put/delete/append/remove/import(1-3 keys)/removekeys(1-3 keys)/acquire/release (+ clean reopen) over 3 keys x 2 values x 2 "
               "children, seeded, plus bulk histories (one Import / one RemoveKeys of 520 resp. 1500 filler keys, projected to their number); oracle = TLC's prefix projections (KVStore.Do); crash points = SIGKILL at moments spread over the run (60- and "
               "500-operation histories, the long one crosses WAL auto-checkpoints) and every syscall boundary (pwrite/ftruncate/fallocate/fsync/"
               "unlink/acknowledgement) of short histories recorded with strace; non-trivial = kill inside the history, every image; "
               "distinct = (history, acknowledged count) resp. (history, boundary, file sizes)")
    ck.assumptions += ["process-crash model: every completed write syscall survives, as the statement says 'the process is killed' (no power loss)",
                       "strace -f sees all file I/O of the wazero VFS (pread/pwrite/ftruncate/fallocate/fdatasync); the recorder's final image is compared byte "
                       "for byte with the directory the run left, otherwise its images are not judged",
                       "images are reopened without db-shm (a fresh wal-index is rebuilt from the log); SIGKILL directories are reopened as left, with it",
                       "lease TTL one hour: no expiry during a run; empty values are not written (C16/C17 cover them)"]
