"""C34 The gateway maps a request host to the right tunnel name.  Spec: Gateway (family resolve)."""
import vf


def _host(c):
    return c["lit"] or ".".join("".join(l) for l in c["host"])


def _name(n):
    return ".".join("".join(l) for l in n)


def _judge(c, e, o):
    want = _name(e["name"])
    for x in o:
        if x["ok"] != e["ok"] or (e["ok"] and x["name"] != want):
            got = ("%r" % x["name"]) if x["ok"] else "refused (%s)" % x.get("err", "")
            return "%s(%r) with root domains %s gives %s; the statement gives %s" % (
                "extractHostname" if x["via"] == "extract" else "parseAddr", x["in"], [_name(r) for r in c["roots"]],
                got, ("%r" % want) if e["ok"] else "a refusal")
    return None


def _sig(c, e, o):
    host = _host(c)
    want = _name(e["name"])
    exp = "refused" if not e["ok"] else ("label" if len(e["name"]) == 1 else "whole-host")
    bad = next(x for x in o if x["ok"] != e["ok"] or (e["ok"] and x["name"] != want))
    if not bad["ok"]:
        got = "panic" if bad.get("err", "").startswith("panic") else "refused"
    elif bad["name"].lower() == want and e["ok"]:
        got = "not-lowercased"
    elif bad["name"].lower() == host.lower():
        got = "whole-host"
    elif bad["name"].lower() == host.lower().split(".")[0]:
        got = "label"
    else:
        got = "other"
    if c["lit"]:
        where = "ip-literal"
    elif host == host.lower():
        where = "ipv4" if all("".join(l).isdigit() for l in c["host"]) else "lowercase:%d-labels" % len(c["host"])
    else:
        first = "".join(c["host"][0])
        rest = ".".join("".join(l) for l in c["host"][1:])
        where = "case-variant:" + ("both" if first != first.lower() and rest != rest.lower() else
                                   "first-label" if first != first.lower() else "root-part")
    return "C34:%s->%s:%s" % (exp, got, where)


def run(ck):
    ck.rule = ("TLC enumerates every host of 1..4 labels over every ASCII-case variant of a label vocabulary (letters, digits, "
               "hyphen, decimal octets) x 3 root-domain lists (none / one / two incl. a three-label root), plus IPv6 and IPv4-mapped "
               "literals; each host is resolved by the real extractHostname and by parseAddr with ports 443 and 8443; "
               "non-trivial = host with an upper-case letter, or expected to be refused, or of the form label.root")
    bad = set()

    def judge(c, e, o):
        m = _judge(c, e, o)
        if m:
            bad.add(id(c))
        return m

    cases, _ = vf.table_check(ck, "Gateway", "MC_Gateway_resolve.cfg", "gateway", drv_args=["resolve"],
                              constants={"Depth": 1 if ck.thorough else 0}, judge=judge, sig=_sig, tlc_timeout=900,
                              nontrivial=lambda r: (_host(r["c"]) != _host(r["c"]).lower()) or not r["e"]["ok"] or len(r["e"]["name"]) == 1)
    leads = [r for r in cases if r.get("lead")]
    hit = [r for r in leads if id(r["c"]) in bad]
    ck.extra["model_leads"] = {"code_variant_counterexamples": len(leads), "reproduced_on_real_code": len(hit)}
    ck.notes.append("TLC: the transcription as of design time (variant \"code\": root domain compared as received) breaks the statement on "
                    "%d enumerated cases; the real code reproduced %d of them%s" % (
                        len(leads), len(hit), "" if hit or not leads else " (the tree no longer behaves like that variant)"))
    ck.assumptions += ["root domains are configured in lower case and have at least two labels (the statement's 'fewer labels are refused' "
                       "and 'label.root' would otherwise contradict each other)",
                       "labels are non-empty: hosts with empty labels (leading / trailing / double dots) are outside the statement and not generated",
                       "an IPv4 address is four decimal octets without leading zeros (what net.ParseIP accepts); other numeric forms are hosts",
                       "the label vocabulary is finite (1-3 characters per label); the function only splits at the first dot, compares and lower-cases"]
