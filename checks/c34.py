"""C34 The gateway maps a request host to the right tunnel name.  Spec: Gateway (families resolve, resolve_obs)."""
import json, string, vf

_ROOTS = [["example.com"], ["specter.dev", "tun.example.co.uk"], ["a.b.c.d.com", "x.y.z.net"]]


def _split(h):
    return [list(l) for l in h.split(".")]


def _rand_label(rng):
    n = rng.choice([1, 1, 2, 3, 5, 8, 12])
    l = "".join(rng.choice(string.ascii_letters + string.digits + "-") for _ in range(n))
    if l[0] == "-" or l[-1] == "-":
        l = "x" + l.strip("-") + "Y"
    return l


def _recase(rng, s):
    mode = rng.randrange(4)
    return s if mode == 0 else s.upper() if mode == 1 else "".join(ch.upper() if rng.random() < 0.5 else ch.lower() for ch in s)


def _rand_host(rng, roots):
    k = rng.randrange(10)
    if k < 4 and roots:                       # something under a configured root, any case
        pre = [_rand_label(rng) for _ in range(rng.choice([0, 1, 1, 1, 2]))]
        return ".".join(pre + [_recase(rng, rng.choice(roots))])
    if k == 4:                                # dotted numbers: IPv4 literals and near misses without leading zeros
        n = rng.choice([2, 3, 4, 4, 4, 5])
        return ".".join(str(rng.choice([0, 1, 9, 10, 99, 127, 192, 255, 256, 300, 1000])) for _ in range(n))
    return ".".join(_rand_label(rng) for _ in range(rng.choice([1, 2, 3, 3, 4, 5, 6])))


def _host(c):
    return c["lit"] or ".".join("".join(l) for l in c["host"])


def _name(n):
    return ".".join("".join(l) for l in n)


def _judge(c, e, o):
    want = _name(e["name"])
    for x in o:
        if x["ok"] != e["ok"] or (e["ok"] and x["name"] != want):
            got = ("%r" % x["name"]) if x["ok"] else "refused (%s)" % x.get("err", "")
            return "%s(%r) with root domains %s gives %s; the statement gives %s" % (
                "extractHostname" if x["via"] == "extract" else "parseAddr", x["in"], [_name(r) for r in c["roots"]],
                got, ("%r" % want) if e["ok"] else "a refusal")
    return None


def _sig(c, e, o):
    host = _host(c)
    want = _name(e["name"])
    exp = "refused" if not e["ok"] else ("label" if len(e["name"]) == 1 else "whole-host")
    bad = next(x for x in o if x["ok"] != e["ok"] or (e["ok"] and x["name"] != want))
    if not bad["ok"]:
        got = "panic" if bad.get("err", "").startswith("panic") else "refused"
    elif bad["name"].lower() == want and e["ok"]:
        got = "not-lowercased"
    elif bad["name"].lower() == host.lower():
        got = "whole-host"
    elif bad["name"].lower() == host.lower().split(".")[0]:
        got = "label"
    else:
        got = "other"
    if c["lit"]:
        where = "ip-literal"
    elif host == host.lower():
        where = ("numeric" if all("".join(l).isdigit() for l in c["host"]) else "lowercase") + ":%d-labels" % len(c["host"])
    else:
        first = "".join(c["host"][0])
        rest = ".".join("".join(l) for l in c["host"][1:])
        where = "case-variant:" + ("both" if first != first.lower() and rest != rest.lower() else
                                   "first-label" if first != first.lower() else "root-part")
    return "C34:%s->%s:%s" % (exp, got, where)


def _random_part(ck, binary, only=None):
    """backward conformance: seeded random hosts -> real code -> observations judged by ResolveDecl inside TLC"""
    if only is not None:
        inputs = [only]
    else:
        inputs = []
        for _ in range(20000 if ck.thorough else 1000):
            roots = ck.rng.choice(_ROOTS)
            inputs.append({"host": _rand_host(ck.rng, roots), "roots": roots})
    lines = [{"host": _split(x["host"]), "lit": "", "roots": [_split(r) for r in x["roots"]], "ports": [443, 65535]} for x in inputs]
    recs = ck.drive(binary, ["resolve"], input_lines=lines)
    byi = {r["i"]: r["o"] for r in recs}
    if len(byi) != len(inputs):
        raise vf.Infra("driver answered %d of %d random hosts" % (len(byi), len(inputs)))
    obs = "".join(json.dumps({"c": {"host": l["host"], "roots": l["roots"]},
                              "o": [{"ok": o["ok"], "name": _split(o["name"]) if o["ok"] else []} for o in byi[i]]}) + "\n"
                  for i, l in enumerate(lines))
    r = ck.tlc("Gateway", "MC_Gateway_resolve_obs.cfg", files={"obs_resolve.ndjson": obs}, timeout=900)
    verdict = {x["c"] - 1: x["e"] for x in r.printed}
    if len(verdict) != len(inputs):
        raise vf.Infra("TLC judged %d of %d observations" % (len(verdict), len(inputs)))
    for i, x in enumerate(inputs):
        v = verdict[i]
        ck.count("rand:" + x["host"] + "|" + ",".join(x["roots"]), x["host"] != x["host"].lower() or not v["want"]["ok"] or len(v["want"]["name"]) == 1)
        if i % max(1, len(inputs) // 3) == 0:
            ck.sample({"random_host": x["host"], "roots": x["roots"], "observed": byi[i][0], "statement": v["want"]})
        if not v["good"]:
            c = {"host": lines[i]["host"], "lit": "", "roots": lines[i]["roots"]}
            e = v["want"]
            ck.violation(_sig(c, e, byi[i]),
                         _judge(c, e, byi[i]) + " (seeded random host)", {"rand": x})
    ck.traces += len(inputs)


def run(ck):
    if isinstance(ck.replay, dict) and "rand" in ck.replay:
        _random_part(ck, ck.build("gateway"), only=ck.replay["rand"])
        return
    ck.rule = ("TLC enumerates every host of 1..4 labels over every ASCII-case variant of a label vocabulary (letters, digits, "
               "hyphen, decimal octets) x 3 root-domain lists (none / one / two incl. a three-label root), plus IPv6 and IPv4-mapped "
               "literals; each host is resolved by the real extractHostname and by parseAddr with ports 443 and 8443; in addition seeded random "
               "hosts (all ASCII letters, labels up to 12 characters, up to 6 labels, three realistic root lists, dotted numbers) are resolved "
               "by the real code and the observations are judged by the same predicate inside TLC; "
               "non-trivial = host with an upper-case letter, or expected to be refused, or of the form label.root")
    bad = set()

    def judge(c, e, o):
        m = _judge(c, e, o)
        if m:
            bad.add(id(c))
        return m

    binary = ck.build("gateway")
    cases, _ = vf.table_check(ck, "Gateway", "MC_Gateway_resolve.cfg", "gateway", drv_args=["resolve"], binary=binary,
                              constants={"Depth": 1 if ck.thorough else 0}, judge=judge, sig=_sig, tlc_timeout=900,
                              nontrivial=lambda r: (_host(r["c"]) != _host(r["c"]).lower()) or not r["e"]["ok"] or len(r["e"]["name"]) == 1)
    if ck.replay is None:
        _random_part(ck, binary)
        ck.exhaustive = False      # the enumerated part is complete, the random part is a sample
    leads = [r for r in cases if r.get("lead")]
    hit = [r for r in leads if id(r["c"]) in bad]
    ck.extra["model_leads"] = {"code_variant_counterexamples": len(leads), "reproduced_on_real_code": len(hit)}
    ck.notes.append("TLC: the transcription as of design time (variant \"code\": root domain compared as received) breaks the statement on "
                    "%d enumerated cases; the real code reproduced %d of them%s" % (
                        len(leads), len(hit), "" if hit or not leads else " (the tree no longer behaves like that variant)"))
    ck.assumptions += ["root domains are configured in lower case and have at least two labels (the statement's 'fewer labels are refused' "
                       "and 'label.root' would otherwise contradict each other)",
                       "labels are non-empty: hosts with empty labels (leading / trailing / double dots) are outside the statement and not generated",
                       "an IPv4 address is four decimal octets without leading zeros (what net.ParseIP accepts); other numeric forms are hosts",
                       "the label vocabulary is finite (1-3 characters per label); the function only splits at the first dot, compares and lower-cases"]
