"""C08 — ring engine (ChordKV / Trace_ChordKV); see ringcheck.py."""
import ringcheck

KINDS = set("nilpred-panic panic join-fatal".split())

def run(ck):
    ringcheck.engine(ck, "C08", KINDS)
    ringcheck.finish_common(ck)
