"""C08 — ring engine (ChordKV / Trace_ChordKV); see ringcheck.py.

Lock order: a join request that holds the granting node's surrogateMu (parked at the sub-gate inside RequestToJoin) while every
other thing that node does meanwhile - its own maintenance, its neighbour's stabilize (Notify), a client request, a lookup - runs as
an operation of its own.  Whatever may have to wait for the join; nothing may make the join wait for ever: at the end the join
request must have been answered (success or a retryable error) and every operation must have returned."""
import json
import vf, ringlib, ringcheck

KINDS = set("nilpred-panic panic join-fatal".split())

OTHERS = [("checkpred", "n3"), ("stabilize", "n3"), ("fixfinger", "n3"), ("stabilize", "n0"), ("put", "n3"), ("lookup", "n3")]


def lock_order_scenario(other, dead_pred):
    kind, at = other
    lay = [{"n": "n0"}, {"n": "n1"}, {"k": "k0"}, {"n": "n2"}, {"n": "n3"}]
    steps = [{"do": "create", "n": "n0"}]
    for m in ("n1", "n3"):
        steps += [{"do": "start", "op": "init" + m, "kind": "join", "n": m, "via": "n0"}, {"do": "steps", "op": "init" + m}, {"do": "settle"}]
    steps.append({"do": "settle", "rounds": 12})
    if dead_pred:     # the granting node's predecessor has left and the node has not noticed yet
        steps += [{"do": "start", "op": "l1", "kind": "leave", "n": "n1"}, {"do": "steps", "op": "l1"}]
    # (the request is sent to the granting node itself: with a departed node still in n0's tables it would not be routed there)
    steps += [{"do": "start", "op": "j2", "kind": "join", "n": "n2", "via": "n3"}, {"do": "until", "op": "j2", "gate": "ns:enter"}]
    o = {"do": "start", "op": "sbx" if kind == "stabilize" else "ox", "kind": kind}
    if kind in ("put", "lookup"):
        o.update(at=at, k="k0", v="5")
    else:
        o["n"] = at
    steps += [o, {"do": "until", "op": "j2", "gate": "join:answered"}, {"do": "steps", "op": o["op"]}, {"do": "steps", "op": "j2"},
              {"do": "settle", "rounds": 8}, {"do": "steps", "op": "j2"}, {"do": "steps", "op": o["op"]}]
    return {"name": "lock-order-%s@%s%s" % (kind, at, "-dead-pred" if dead_pred else ""), "layout": lay, "variant": 1,
            "gates": ["join:", "leave:", "start:", "rtj:lock", "ns:enter"], "critparks": True, "steps": steps, "other": o["op"], "lockorder": True}


def lock_order(ck):
    scs = [ck.replay] if ck.replay is not None else [lock_order_scenario(o, d) for o in OTHERS for d in (False, True)]
    unparked = []
    ck.unparked = unparked
    for sc in scs:       # one driver process each: a deadlocked scenario must not take the others with it
        ev = ringlib.run_scenarios(ck, [sc], timeout=300)
        steps = [e for e in ev if e.get("t") == "step"]
        final = [e for e in ev if "ops" in e and e.get("t") != "step"]
        ops = final[-1]["ops"] if final else {}
        parked = any(e.get("op") == "j2" and str(e.get("to", "")).startswith("ns:enter") for e in steps)
        if not parked:
            # the request was turned away before it took the node's locks: nothing to interleave with.  Inconclusive only if nothing else
            # of this run shows a violation (raised at the end)
            unparked.append("scenario %s: the join request did not reach the sub-gate inside RequestToJoin: %s"
                            % (sc["name"], [(e.get("op"), e.get("to")) for e in steps if e.get("op") == "j2"][-6:]))
            continue
        ck.count(sc["name"], True)
        ck.traces += 1
        j, o = ops.get("j2") or {}, ops.get(sc["other"]) or {}
        gates = lambda name: [e.get("to") for e in steps if e.get("op") == name]
        if len(ck.samples) < 8:
            ck.sample({"scenario": sc["name"], "join_gates": gates("j2"), "other_gates": gates(sc["other"]), "join_result": j.get("res"), "other_result": o.get("res")})
        if not j.get("done") or not o.get("done"):
            ck.violation("C08:join-never-answered:%s" % sc["name"].split("lock-order-")[1],
                         "scenario %s: the join request was parked inside RequestToJoin (holding the granting node's surrogateMu) when '%s' started; afterwards %s "
                         "never return(s): join gates %s, other gates %s" % (sc["name"], sc["name"].split("lock-order-")[1],
                                                                         " and ".join(n for n, x in (("the join request", j), ("the other operation", o)) if not x.get("done")),
                                                                         gates("j2"), gates(sc["other"])), sc)
        elif isinstance(j.get("res"), str) and j["res"].startswith("fatal"):
            ck.violation("C08:join-fatal:lock-order", "scenario %s: the join request was answered with the non-retryable %s" % (sc["name"], j["res"]), sc)


def run(ck):
    if ck.replay is not None and ck.replay.get("lockorder"):
        lock_order(ck)
        return
    ringcheck.engine(ck, "C08", KINDS)
    if ck.replay is None:
        lock_order(ck)
    if getattr(ck, "unparked", None) and not ck.viol:
        raise vf.Infra(ck.unparked[0])
    ringcheck.finish_common(ck)
