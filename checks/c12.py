"""C12 Successor lists are well-formed.  Spec: RingMath (families succ, succ_obs)."""
import json, vf

def run(ck):
    ck.rule = ("TLC enumerates every candidate list up to MaxList over {nil, 5 nodes with 3 ids / 3 addresses} x maxLen x "
               "{by id, by address}, proves the transcribed loop well-formed, the real functions are run on each case and "
               "the returned lists are judged by the WellFormed predicate in TLC; non-trivial = list contains a nil or a "
               "duplicate key or is longer than maxLen-1")
    ml = 5 if ck.thorough else 4
    r = ck.tlc("RingMath", "MC_RingMath_succ.cfg", constants={"MaxList": ml, "MaxLen": 6 if ck.thorough else 5})
    cases = r.printed
    if ck.replay is not None:
        cases = [ck.replay]
    b = ck.build("ringmath")
    recs = ck.drive(b, ["succ"], input_lines=[c["c"] for c in cases])
    byi = {x["i"]: x["o"] for x in recs}
    if len(byi) != len(cases):
        raise vf.Infra("driver answered %d of %d" % (len(byi), len(cases)))
    obs = "\n".join(json.dumps({"c": c["c"], "o": byi[i]}) for i, c in enumerate(cases)) + "\n"
    r2 = ck.tlc("RingMath", "MC_RingMath_succ_obs.cfg", files={"obs_succ.ndjson": obs})
    verdict = {}
    for rec in r2.printed:
        verdict[rec["c"] - 1] = rec["e"]
    if len(verdict) != len(cases):
        raise vf.Infra("validator judged %d of %d" % (len(verdict), len(cases)))
    differs = 0
    for i, c in enumerate(cases):
        cc = c["c"]
        keys = [x[cc["key"] - 1] for x in cc["cands"] if x != [0, 0]]
        nontriv = [0, 0] in cc["cands"] or len(set(keys)) < len(keys) or len(cc["cands"]) >= cc["maxLen"] or cc["imm"][cc["key"] - 1] in keys
        ck.count(cc, nontriv)
        v = verdict[i]
        if i % (len(cases) // 5 + 1) == 0:
            ck.sample({"case": cc, "observed": byi[i], "verdict": v})
        if not v["wf"]:
            ck.violation("C12:%s:len%d:max%d" % ("id" if cc["key"] == 1 else "addr", len(cc["cands"]), cc["maxLen"]),
                         "successor list not well-formed: case=%s out=%s" % (json.dumps(cc), json.dumps(byi[i])), c)
        elif not v["same"]:
            differs += 1
    ck.traces += len(cases)
    ck.exhaustive = True
    if differs:
        ck.notes.append("%d outputs are well-formed but differ from the transcribed loop (not judged)" % differs)
    ck.assumptions.append("node ids/addresses are drawn from a 3-letter alphabet; the functions only compare them for equality")
