"""The ring engine behind C03, C04(part), C05, C06, C08: exhaustive TLC runs of ChordKV, directed replay of the
counterexamples of the known-defective design variants into the real code, seeded controlled-scheduler runs of the real
LocalNode validated line by line by Trace_ChordKV."""
import json, os
import vf, ringlib

# which switches describe the code in /repo (set to True once the corresponding fix: commit is in)
CODE_FIXPRED = True
CODE_FIXLEAVE = True
CODE_FIXWRAP = True
CODE_FIXDEAD = True     # stabilize falls back to the nearest live finger / predecessor when its whole successor list has departed
CODE_FIXADOPT = True    # stabilize adopts its successor's predecessor only once that node has installed a successor list (set to True with the fix: commit)


# quick tier: each ring property replays the coverage-goal witnesses closest to it (thorough: every property replays all of them)
_DATA = ["join-granted-with-keys", "leave-transfer-with-keys", "leave2-selffirst-refused-not-predecessor-with-keys-stale-read",
         "leave1-succfirst-refused-not-predecessor-with-keys-stale-read", "join-refused-pred-unsettled",
         "leave-own-successor-with-predecessor-with-keys", "join-refused-wrong-successor-with-keys"]
QUICK_GOALS = {
    "C03": _DATA,
    "C04": ["join-granted-with-keys", "leave-transfer-with-keys", "leave1-succfirst-refused-not-predecessor-with-keys-stale-read",
            "join-refused-wrong-successor-with-keys"],
    "C05": _DATA + ["checkpred-cleared"],
    "C06": [g for g in ringlib.GOALS if g in ringlib.GOAL_AT and (g.startswith("leave") or g.startswith("join-refused"))],
    "C08": ["join-refused-busy", "join-refused-pred-unsettled", "join-granted-with-keys", "checkpred-cleared", "leave-no-neighbour"],
}


def engine(ck, pid, kinds, n_quick=40, n_thorough=400, gen_kw=None, mc=True):
    """kinds: finding kinds (see ringlib.PROP_OF + 'panic','client-fatal','join-fatal') that count for this property"""
    binary = ck.build("chord")
    if ck.replay is not None:
        scenarios = [ck.replay]
        _judge(ck, pid, kinds, binary, scenarios, "replay")
        return
    if mc:
        # (A) the design as implemented: all invariants on every reachable state of the small instances
        small = dict(maxops=1) if not ck.thorough else dict(maxops=2)
        r = ck.tlc("MC_ChordKV", ringlib.mc_cfg(CODE_FIXPRED, CODE_FIXLEAVE, CODE_FIXWRAP, **small), allow_error=True,
                   timeout=6000 if ck.thorough else 1500, workers=min(vf.NCPU, 12))      # (thorough: 9-11 M states; minutes on a quiet machine, much longer on a loaded one)
        if r.error:
            # a design-level counterexample is only a lead: replay it on the real code
            sc = ringlib.cex_to_scenario(ringlib.cex_states(r.trace_json), "mc-cex-%s" % r.error["name"])
            n = _judge(ck, pid, kinds, binary, [sc], "mc-counterexample")
            if n == 0:
                ck.notes.append("model counterexample %s not reproduced by the real code for this property" % r.error["name"])
        # (A') the defective design variants: their counterexamples are regression replays for the repaired code
        for fp, fl, invs in [(False, True, "InvNoBad"), (False, True, "InvPlacement InvReachable"), (True, False, "InvPlacement InvReachable")]:
            if (fp, fl) == (CODE_FIXPRED, CODE_FIXLEAVE):
                continue
            r = ck.tlc("MC_ChordKV", ringlib.mc_cfg(fp, fl, CODE_FIXWRAP, invs=invs, maxops=1), allow_error=True, timeout=900,
                       workers=min(vf.NCPU, 12), count=False)
            if r.error and r.trace_json:
                sc = ringlib.cex_to_scenario(ringlib.cex_states(r.trace_json), "variant-cex-%s-%s" % (r.error["name"], "fp" if not fp else "fl"))
                _judge(ck, pid, kinds, binary, [sc], "variant-counterexample")
        # (A'b) a lookup handed to a live node without successor list (a joiner adopted as successor before it installed its list): with
        # pessimistic routing ("nosucc") the design as implemented must be free of it, the design before the repair is refuted and its
        # counterexample replayed
        nos = dict(lay="Lay5b", init="{1, 2, 4}", joiners="{3}", leavers="{}", maxops=1, opkinds='{"get", "nosucc"}', invs="InvNoNonRetryable")
        r = ck.tlc("MC_ChordKV", ringlib.mc_cfg(CODE_FIXPRED, CODE_FIXLEAVE, CODE_FIXWRAP, **nos), allow_error=True, timeout=900, workers=4)
        if r.error and r.trace_json:
            sc = ringlib.cex_to_scenario(ringlib.cex_states(r.trace_json), "mc-cex-nosucc")
            if _judge(ck, pid, kinds, binary, [sc], "mc-counterexample") == 0:
                ck.notes.append("model counterexample (lookup handed to a node without successor list) not reproduced by the real code for this property")
        if CODE_FIXADOPT:
            r = ck.tlc("MC_ChordKV", ringlib.mc_cfg(CODE_FIXPRED, CODE_FIXLEAVE, CODE_FIXWRAP, fixadopt=False, **nos), allow_error=True, timeout=900, workers=4, count=False)
            if r.error and r.trace_json:
                sc = ringlib.cex_to_scenario(ringlib.cex_states(r.trace_json), "variant-cex-nosucc")
                _judge(ck, pid, kinds, binary, [sc], "variant-counterexample")
            else:
                raise vf.Infra("ChordKV without the adoption guard no longer hands a lookup to a node without successor list: the hazard model is vacuous")
        # (A'') coverage goals: a shortest behaviour through every branch of the membership actions, replayed on the real code
        goals = None if ck.thorough else QUICK_GOALS.get(pid)
        wit = ringlib.goal_witnesses(ck, CODE_FIXPRED, CODE_FIXLEAVE, CODE_FIXWRAP, goals=goals)
        if wit:
            _judge(ck, pid, kinds, binary, wit, "goal-witness")
        ck.extra["goal_witnesses_replayed"] = len(wit)
    # (A3) directed: the lock word of a node read by two membership operations before either writes it
    _judge(ck, pid, kinds, binary, [ringlib.lock_word_race(), ringlib.stabilize_while_leaver_holds_own_lock()], "directed")
    # (B/C) seeded controlled schedules
    n = n_thorough if ck.thorough else n_quick
    import random as _random
    ck.rng = _random.Random(ck.seed * 1000 + int(pid[1:]))      # every ring property explores its own schedules
    scenarios = []
    for i in range(n):
        kw = dict(gen_kw or {})
        kw.setdefault("kv_gates", i % 2 == 0)      # every other scenario parks client operations at the kv:local gate
        # the others park leaves before their lock transitions (own and successor's): before the lock word is loaded, or (every second of
        # them) between its load and the compare-and-swap
        kw.setdefault("ns_gates", "loaded" if i % 4 == 3 else i % 2 == 1)
        if ck.thorough and i % 3 == 0:
            kw.update(n_nodes=7, n_init=4, n_join=2, n_leave=2, n_keys=4, n_ops=8)
        elif i % 4 == 1:
            kw.update(n_nodes=6, n_init=3, n_join=2, n_leave=1)
        elif i % 4 == 2:
            kw.update(n_nodes=5, n_init=4, n_join=1, n_leave=2)
        elif i % 8 == 3:      # the smallest rings: one or two members, joins into them racing a leave of a member
            kw.update(n_nodes=3 + i % 2, n_init=1 + (i // 8) % 2, n_join=2, n_leave=1)
        scenarios.append(ringlib.Gen(ck.rng, **kw).make("rnd-%d-%d" % (ck.seed, i)))
    for lo in range(0, len(scenarios), 60):
        _judge(ck, pid, kinds, binary, scenarios[lo:lo + 60], "random", base=lo)


def _judge(ck, pid, kinds, binary, scenarios, origin, base=0):
    ev = ringlib.run_scenarios(ck, scenarios, binary=binary)
    tr = ringlib.translate(ev, scenarios)
    if tr.issues:
        raise vf.Infra("; ".join(tr.issues[:3]))
    viol, div, quiet = ringlib.validate(ck, tr, fixpred=CODE_FIXPRED, fixleave=CODE_FIXLEAVE, fixwrap=CODE_FIXWRAP)
    fnd = ringlib.findings_from(tr, viol, div, quiet, scenarios)
    hits = 0
    nontriv = {}
    for line in tr.lines:
        if line["act"] in ("JoinLock", "LeaveFirst", "LeaveSecond", "LeaveTransfer"):
            nontriv[line["sid"]] = nontriv.get(line["sid"], 0) + 1
    for i, sc in enumerate(scenarios):
        ck.count("%s:%s" % (origin, json.dumps(sc["steps"], sort_keys=True)), nontriv.get(i, 0) > 0)
    ck.traces += len(scenarios)
    ck.extra["trace_lines_validated"] = ck.extra.get("trace_lines_validated", 0) + len(tr.lines)
    ck.extra["quiescent_judgements"] = ck.extra.get("quiescent_judgements", 0) + len(quiet)
    ck.extra["lock_steps_resumed_after_the_load_with_the_node_locked_in_between"] = ck.extra.get(
        "lock_steps_resumed_after_the_load_with_the_node_locked_in_between", 0) + sum(1 for l in tr.lines if l.get("early"))
    if scenarios and len(ck.samples) < 3:
        sc = scenarios[0]
        ck.sample({"origin": origin, "scenario": sc["name"], "layout": sc["layout"], "first_steps": sc["steps"][:12],
                   "trace_lines": sum(1 for l in tr.lines if l.get("sid") == 0)})
    for f in fnd:
        if f["kind"] in kinds:
            hits += 1
            sc = scenarios[f["sid"]]
            ck.violation("%s:%s" % (pid, f["kind"]),
                         "%s in scenario %s (%s): %s [%s]" % (f["kind"], sc["name"], origin, f["detail"], f["at"]), sc)
    # divergences: the real code took a step the specification does not allow.  Not a verdict on a listed property by
    # itself; reported, and fatal for the run only when nothing else explains it.
    if div:
        d = div[0]
        ck.notes.append("%d step(s) of the real code diverge from ChordKV (first: scenario %s, %s, act %s)" % (
            len(div), scenarios[d["sid"]]["name"], tr.meta[d["l"] - 1][2], d.get("act", d.get("kind"))))
        ck.extra["divergent_steps"] = ck.extra.get("divergent_steps", 0) + len(div)
    return hits


def finish_common(ck):
    ck.rule = ("cases = controlled-scheduler scenarios on real LocalNodes (initial ring with data, then joins, leaves, client "
               "operations and maintenance calls interleaved at gate granularity, seeded) plus directed replays of TLC counterexamples; "
               "each is recorded step by step and validated by TLC against ChordKV; non-trivial = at least one join or leave "
               "critical section executed; distinct = distinct step lists")
    ck.assumptions += ["finger tables are abstracted in ChordKV (lookups are over-approximated); ChordRing covers them",
                       "operations are serialised at gate granularity by the controlled scheduler (no gate inside a critical section)",
                       "in-process node references (as in the repository's own ring tests); the RPC layer is covered by C07/C14"]
    if ck.extra.get("divergent_steps") and not ck.viol:
        raise vf.Infra("the real code diverged from the specification without breaking a judged property: " + "; ".join(ck.notes[-2:]))
