"""C49 Certificate storage over the DHT behaves like a file store with exclusive locks.
Spec: CertStore (families files / locks / lock_obs).  Binding: drv/certstore = real acme.ChordStorage instances over a
real single-node DHT (chord.LocalNode + kv/memory), real clock for the leases."""
import collections, concurrent.futures, json, os, shutil
import vf

VALS = {"1": "one", "2": "value-2"}


def _cfg(family, pathset="shared", ninst=2, nnames=2, histlen=0, invs="FilesSane", maxt=6):
    return ("SPECIFICATION Spec\nCONSTANTS\n  Family = \"%s\"\n  PathSet = \"%s\"\n  NVal = 2\n  NInst = %d\n  NNames = %d\n  TTL = 2\n  MaxT = %d\n"
            "  HistLen = %d\nINVARIANT %s\nCHECK_DEADLOCK FALSE\n" % (family, pathset, ninst, nnames, maxt, histlen, invs))


# ------------------------------------------------------------------------------------------------ files
def _walk(edges, rng, extra):
    """a walk from the empty store that takes every edge of the state graph at least once, then `extra` seeded steps"""
    adj = collections.defaultdict(list)
    for e in edges:
        adj[tuple(e["s"])].append(e)
    for k in adj:
        adj[k].sort(key=lambda e: json.dumps(e["op"], sort_keys=True))
        rng.shuffle(adj[k])
    todo = {k: list(v) for k, v in adj.items()}
    left = sum(len(v) for v in todo.values())
    cur = tuple([0] * len(edges[0]["s"]))
    walk = []
    while left:
        if todo[cur]:
            e = todo[cur].pop()
            left -= 1
            walk.append(e)
            cur = tuple(e["t"])
            continue
        # nearest state with an untaken edge
        prev, q, seen, goal = {}, collections.deque([cur]), {cur}, None
        while q and goal is None:
            u = q.popleft()
            for e in adj[u]:
                v = tuple(e["t"])
                if v not in seen:
                    seen.add(v)
                    prev[v] = (u, e)
                    if todo[v]:
                        goal = v
                        break
                    q.append(v)
        if goal is None:
            raise vf.Infra("state graph of the file store is not strongly connected")
        path = []
        while goal != cur:
            u, e = prev[goal]
            path.append(e)
            goal = u
        for e in reversed(path):
            walk.append(e)
            cur = tuple(e["t"])
    for _ in range(extra):
        e = rng.choice(adj[cur])
        walk.append(e)
        cur = tuple(e["t"])
    return walk


def _short(edges, e):
    """shortest history from the empty store that ends with edge e"""
    byso = {(tuple(x["s"]), json.dumps(x["op"], sort_keys=True)): x for x in edges}
    cur, out = [0] * len(e["s"]), []
    for p, v in enumerate(e["s"]):
        if v:
            x = byso[(tuple(cur), json.dumps({"k": "store", "i": 1, "p": p + 1, "v": v}, sort_keys=True))]
            out.append(x)
            cur = list(x["t"])
    return out + [e]


def _judge_file(hdr, e, o):
    """None or (class, text): the storage API result against the file store"""
    paths = ["/".join(p) for p in hdr["paths"]]
    op, exp, r = e["op"], e["r"], o["r"]
    k = op["k"]
    if k in ("store", "delete"):
        if r["err"]:
            return ("error", "%s returned %s" % (k, r["err"]))
    elif k == "load":
        if exp["v"] == 0:
            if r["err"] != "notexist":
                return ("absent-key", "load of an absent key returned value %r err %r, expected a not-exist error" % (r["v"], r["err"]))
        elif r["err"] or r["v"] != VALS[str(exp["v"])]:
            return ("stale-or-wrong-value", "load returned %r err %r, last stored value is %r" % (r["v"], r["err"], VALS[str(exp["v"])]))
    elif k == "exists":
        if r["b"] != exp["b"]:
            return ("deleted-key-exists" if r["b"] else "stored-key-missing", "exists returned %s, expected %s" % (r["b"], exp["b"]))
    elif k == "stat":
        if exp["v"] == 0:
            if r["err"] != "notexist":
                return ("absent-key", "stat of an absent key returned %s" % json.dumps(r))
        else:
            want = VALS[str(exp["v"])]
            if r["err"] or r["size"] != len(want) or not r["terminal"] or r["key"] != paths[op["p"] - 1]:
                return ("wrong-info", "stat returned %s, stored value has %d bytes" % (json.dumps(r), len(want)))
    elif k == "list":
        want = sorted("/".join(x) for x in exp["l"])
        got = sorted(r["l"])
        d = "/".join(hdr["dirs"][op["d"] - 1])
        if r["err"] and not (r["err"] == "notexist" and not want):
            return ("error", "list(%r) returned error %s" % (d, r["err"]))
        if got != want:
            present = [paths[i] for i, v in enumerate(e["s"]) if v]
            extra = [x for x in got if x not in want]
            if len(set(got)) != len(got):
                cls = "child-listed-twice"
            elif [x for x in want if x not in got]:
                cls = "child-missing"
            elif extra and all(x == d + "/" for x in extra) and any(p.startswith(d) and not p.startswith(d + "/") for p in present):
                cls = "sibling-name-extends-prefix"
            elif extra and all("/" in x[len(d) + 1:] for x in extra if x.startswith(d + "/")):
                cls = "not-immediate-child"
            else:
                cls = "not-a-child"
            return (cls, "non-recursive list(%r) returned %s, the immediate children are %s (stored keys: %s)" % (d, got, want, present))
    # the whole store after the step
    wantall = sorted(paths[i] for i, v in enumerate(e["t"]) if v)
    if o["allerr"] or o["all"] != wantall:
        return ("store-content", "after %s the store holds %s (err %r), expected %s" % (json.dumps(op), o["all"], o["allerr"], wantall))
    return None


def files(ck, binary, pathset, r, extra, backend="node", locks=False):
    hdr = next(x for x in r.printed if "paths" in x)
    edges = [x for x in r.printed if "op" in x]
    if ck.replay is not None:
        walk = ck.replay["walk"]
    else:
        walk = _walk(edges, ck.rng, extra)
    lines = [{"paths": hdr["paths"], "dirs": hdr["dirs"], "vals": VALS, "locks": locks}] + [e["op"] for e in walk]
    recs = ck.drive(binary, ["files", backend, "2"], input_lines=lines, timeout=600)
    byi = {x["i"]: x["o"] for x in recs if "i" in x}
    if len(byi) != len(lines):
        raise vf.Infra("drv/certstore answered %d of %d\n%s" % (len(byi), len(lines), getattr(ck, "last_stderr", "")[-1500:]))
    taken = set()
    for i, e in enumerate(walk):
        o = byi[i + 1]
        key = json.dumps([e["s"], e["op"]], sort_keys=True)
        ck.count("%s:%s" % (pathset, key), e["op"]["k"] != "list" or bool(e["r"]["l"]) or any(e["s"]))
        taken.add(key)
        if i % max(1, len(walk) // 3) == 1:
            ck.sample({"pathset": pathset, "state": e["s"], "op": e["op"], "expected": e["r"], "observed": o["r"]})
        bad = _judge_file(hdr, e, o)
        if bad:
            ck.violation("C49:%s:%s" % (e["op"]["k"], bad[0]),
                         "%s; keys=%s backend=%s%s step %d of a walk over the file-store state graph" % (bad[1], pathset, backend, ", locks held on the key / directory names by another instance" if locks else "", i),
                         {"kind": "files", "pathset": pathset, "backend": backend, "locks": locks, "walk": _short(edges, e), "note": "stores that build the state, then the failing operation"})
    ck.traces += 1
    ck.extra["file_edges_%s" % pathset] = len(edges)
    ck.extra["file_edges_taken_%s" % pathset] = len(taken)
    ck.extra["file_ops_executed"] = ck.extra.get("file_ops_executed", 0) + len(walk)
    if ck.replay is None and len(taken) != len(edges):
        raise vf.Infra("covering walk took %d of %d edges" % (len(taken), len(edges)))


# ------------------------------------------------------------------------------------------------ locks
DIRECTED = [
    # release hands the lock over
    [("request", 1, "L"), ("request", 2, "L", True), ("release", 1, "L"), ("acquire", 2, "L"), ("release", 2, "L")],
    # a dead holder blocks until its lease (smallest TTL the store accepts: 1 s) expires
    [("request", 1, "L"), ("request", 2, "L", True), ("abandon", 1, "L"), ("acquire", 2, "L"), ("release", 2, "L")],
    # a lock under the name of a stored key, both instances contending twice
    [("request", 2, "da"), ("request", 1, "da", True), ("release", 2, "da"), ("acquire", 1, "da"),
     ("request", 2, "da", True), ("abandon", 1, "da"), ("acquire", 2, "da")],
    # the lock is held for longer than one lease after the Lock call (and its context) ended, a second instance waiting for it all the time
    [("request", 1, "L", False, True), ("request", 2, "L", True, True), ("wait", 900), ("release", 1, "L"), ("acquire", 2, "L"), ("wait", 1300),
     ("request", 1, "L", True, True), ("release", 2, "L"), ("acquire", 1, "L"), ("release", 1, "L")],
    # the holder renews its lease explicitly and keeps the lock for longer than one lease afterwards, a second instance waiting all the time
    [("request", 1, "L"), ("renew", 1, "L"), ("request", 2, "L", True), ("wait", 1400), ("renew", 1, "L"), ("wait", 900),
     ("release", 1, "L"), ("acquire", 2, "L"), ("release", 2, "L")],
    # the explicit renewal overtakes a background renewal that has read the lease token and is on its way to the ring
    [("request", 1, "L"), ("holdrenew",), ("renew", 1, "L"), ("releaserenew",), ("request", 2, "L", True), ("wait", 900),
     ("release", 1, "L"), ("acquire", 2, "L"), ("release", 2, "L")],
]


def _intervals(res):
    """hold intervals [from, to] in microseconds: from = Lock returned, to = Unlock called | lease expiry of a dead holder"""
    iv, open_, why = [], {}, []
    for ev in sorted(res["events"], key=lambda x: x["t"]):
        k = (ev["i"], ev["n"])
        if ev["kind"] == "got" and not ev.get("err"):
            open_[k] = ev["t"]
        elif ev["kind"] in ("unlock", "abandon") and k in open_:
            to = ev["t"] if ev["kind"] == "unlock" else ev.get("exp", ev["t"])
            iv.append({"i": ev["i"], "n": ev["n"], "from": open_.pop(k), "to": max(to, 0)})
            why.append("released" if ev["kind"] == "unlock" else "lease expiry")
    for k, t in open_.items():
        iv.append({"i": k[0], "n": k[1], "from": t, "to": res["end"]})
        why.append("still held")
    return iv, why


def _renewal_failed_early(res, inst):
    """the background renewal of the instance reported a failure less than 0.8 lease after the instance had successfully taken or explicitly renewed
    the lock: the lease (1 s) was still running, so the failure is not a renewal that came too late (scheduling delay)"""
    oks = [e["t"] for e in res["events"] if e["i"] == inst and e["kind"] in ("got", "renewed") and not e.get("err")]
    return any(0 < f - s < 800000 and not any(s < s2 < f for s2 in oks) for i, f in (res.get("renew_failed_at") or []) if i == inst for s in oks)


def locks(ck, binary, behaviours, backend="node"):
    lines = [{"steps": b, "ttlms": 1000} for b in behaviours]
    recs = ck.drive(binary, ["locks", backend, "8"], input_lines=lines, timeout=900)
    byi = {x["i"]: x["o"] for x in recs if "i" in x}
    if len(byi) != len(lines):
        raise vf.Infra("drv/certstore locks answered %d of %d" % (len(byi), len(lines)))
    obs, meta = [], []
    for i, b in enumerate(behaviours):
        res = byi[i]
        contended = any(s.get("busy") for s in b)
        ck.count("lock:" + json.dumps(b, sort_keys=True), contended)
        for msg in res.get("issues", []):
            if "changed" in msg:
                ck.violation("C49:lock:clobbers-value", "%s; behaviour=%s" % (msg, json.dumps(b)), {"kind": "locks", "steps": b, "backend": backend})
            else:
                raise vf.Infra("lock behaviour could not be executed: %s" % msg)
        for inst in sorted({i for i, _ in (res.get("renew_failed_at") or [])}):
            if _renewal_failed_early(res, inst):
                ck.violation("C49:lock:renewal-fails-while-lease-runs", "instance %d holds lock and its background renewal fails although less than 0.8 of the lease "
                             "had passed since it took / explicitly renewed the lock; behaviour=%s events=%s failures(us)=%s"
                             % (inst, json.dumps(b), json.dumps(res["events"]), res.get("renew_failed_at")), {"kind": "locks", "steps": b, "backend": backend})
        iv, why = _intervals(res)
        obs.append({"iv": iv})
        meta.append((i, b, res, why))
        if i < 2:
            ck.sample({"lock_behaviour": b, "intervals_us": iv})
    if not obs:
        return
    r = ck.tlc("CertStore", "_c49_obs.cfg", files={"_c49_obs.cfg": _cfg("lock_obs", invs="Mutex"), "obs_locks.ndjson": "\n".join(json.dumps(x) for x in obs) + "\n"},
               workers=1, count=False)
    verdict = {x["c"] - 1: x["e"] for x in r.printed if "c" in x}
    if len(verdict) != len(obs):
        raise vf.Infra("lock_obs judged %d of %d" % (len(verdict), len(obs)))
    for j, (i, b, res, why) in enumerate(meta):
        ov = verdict[j]["overlaps"]
        if ov:
            x, y = ov[0][0] - 1, ov[0][1] - 1
            iv = obs[j]["iv"]
            first = x if iv[x]["from"] <= iv[y]["from"] else y
            if iv[first]["i"] in (res.get("renew_failed") or []) and not _renewal_failed_early(res, iv[first]["i"]):
                # the first holder lost its lease (its renewal failed, e.g. scheduling delay > TTL): the statement allows the take-over
                ck.notes.append("behaviour %d: holder %d failed to renew its lease; overlap not judged" % (i, iv[first]["i"]))
                ck.extra["lock_behaviours_inconclusive"] = ck.extra.get("lock_behaviours_inconclusive", 0) + 1
                continue
            ck.violation("C49:lock:overlap:%s" % ("before-release" if why[first] != "lease expiry" else "before-lease-expiry"),
                         "two instances held lock %r at the same time: %s (%s) and %s; behaviour=%s events=%s"
                         % (iv[x]["n"], json.dumps(iv[first]), why[first], json.dumps(iv[y if first == x else x]), json.dumps(b), json.dumps(res["events"])),
                         {"kind": "locks", "steps": b, "backend": backend})
    ck.traces += len(obs)
    ck.extra["lock_behaviours"] = ck.extra.get("lock_behaviours", 0) + len(obs)
    ck.extra["lock_intervals_judged"] = ck.extra.get("lock_intervals_judged", 0) + sum(len(o["iv"]) for o in obs)


def _steps(b):
    return [{"a": "wait", "i": 0, "n": "", "ms": s[1]} if s[0] == "wait" else {"a": "renew", "i": s[1], "n": s[2]} if s[0] == "renew" else
            {"a": s[0], "i": 0, "n": ""} if s[0] in ("holdrenew", "releaserenew") else
            {"a": s[0], "i": s[1], "n": s[2], "busy": bool(len(s) > 3 and s[3]), "cc": bool(len(s) > 4 and s[4])} for s in b]


def run(ck):
    ck.rule = ("files: TLC enumerates the whole state graph of the file store (3 keys with a shared directory prefix, 2 values, 2 instances; thorough: "
               "5 keys) and prints every edge (operation, result); a walk that takes every edge, followed by seeded random steps, is executed on real "
               "ChordStorage instances over a single-node DHT and every returned value/error/listing plus the full store content after each step is "
               "compared; a second key set has a sibling directory whose name extends the listed one, a third a name that is a key and a directory at once; the first walk is repeated while another instance holds locks on every key name, directory name and a name inside every directory.  locks: TLC checks Mutex of the lease model, "
               "seeded behaviours (request/acquire/release/abandon, 2 instances, 2 lock names) plus three directed ones run with the real clock and 1 s "
               "leases; recorded hold intervals are judged by TLC (NoOverlap).  non-trivial = operation on a non-empty store / behaviour with contention")
    ck.assumptions += ["values are non-empty (an empty value is 'absent' by the KV contract, DESIGN 4.0)",
                       "a directory exists only while it contains a key; a name that is both a stored key and a directory is one immediate child of its parent",
                       "a holder's interval is [Lock returned, Unlock called]; a dead holder's interval ends at the expiry encoded in its last token",
                       "single-node DHT over the in-memory provider: ring routing and transfer are covered by C03-C10"]
    binary_f = None
    if ck.replay is not None:
        binary = ck.build("certstore")
        if ck.replay.get("kind") == "locks":
            locks(ck, binary, [ck.replay["steps"]], ck.replay.get("backend", "node"))
        else:
            r = ck.tlc("CertStore", "_c49_f.cfg", files={"_c49_f.cfg": _cfg("files", ck.replay["pathset"])}, workers=2)
            files(ck, binary, ck.replay["pathset"], r, 0, ck.replay.get("backend", "node"), locks=ck.replay.get("locks", False))
        return
    sdir = ck.path("spec")
    if not os.path.isdir(sdir):
        shutil.copytree(os.path.join(vf.VERIF, "spec"), sdir)

    def tlc(name, text, **kw):
        return ck.tlc("CertStore", "_c49_%s.cfg" % name, files={"_c49_%s.cfg" % name: text}, **kw)
    nsim = 120 if ck.thorough else 24
    with concurrent.futures.ThreadPoolExecutor(max_workers=6) as ex:
        fb = ex.submit(ck.build, "certstore")
        f_shared = ex.submit(tlc, "shared", _cfg("files", "shared"), workers=2)
        f_sib = ex.submit(tlc, "sibling", _cfg("files", "sibling"), workers=2)
        f_fd = ex.submit(tlc, "filedir", _cfg("files", "filedir"), workers=2)
        f_deep = ex.submit(tlc, "deep", _cfg("files", "deep"), workers=4) if ck.thorough else None
        f_mutex = ex.submit(tlc, "mutex", _cfg("locks", nnames=2 if ck.thorough else 1, invs="Mutex", ninst=2, maxt=6), workers=4, timeout=900)
        f_gen = ex.submit(tlc, "lockgen", _cfg("locks", histlen=10, invs="Mutex EmitHist"), simulate={"num": nsim}, depth=60, count=False)
        binary = fb.result()
        r_shared, r_sib, r_mutex, r_gen = f_shared.result(), f_sib.result(), f_mutex.result(), f_gen.result()
        r_deep = f_deep.result() if f_deep else None
    ck.exhaustive = True
    # files
    files(ck, binary, "shared", r_shared, 3000 if ck.thorough else 1500)
    files(ck, binary, "sibling", r_sib, 200)
    files(ck, binary, "filedir", f_fd.result(), 300)
    files(ck, binary, "shared", r_shared, 200, locks=True)       # the file store is the same while locks are held on names around the keys
    if r_deep:
        files(ck, binary, "deep", r_deep, 20000)
        files(ck, binary, "shared", r_shared, 1500, backend="memory")
    # locks
    seen, beh = set(), [_steps(b) for b in DIRECTED]
    cands = []
    for x in r_gen.printed:
        key = json.dumps(x["steps"])
        if key not in seen:
            seen.add(key)
            cands.append(x["steps"])
    cands.sort(key=lambda b: -(sum(1 for s in b if s["busy"]) + sum(1 for s in b if s["a"] == "abandon")))
    beh += cands[:(60 if ck.thorough else 9)]
    for j, b in enumerate(beh):          # every other seeded behaviour: the context of each Lock call ends when the call returns
        if j >= len(DIRECTED) and j % 2 == 0:
            for st in b:
                if st["a"] == "request":
                    st["cc"] = True
    locks(ck, binary, beh)
