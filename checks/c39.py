"""C39 The in-memory stream pipe (util/bufconn) is a faithful byte stream.
Specs: PipeRules (what a faithful byte stream allows), BufPipe (transcription of bufconn.go, exhaustive),
Trace_BufPipe (validation of call histories recorded from the real pipe)."""
import json, hashlib
import vf

CLOSE_MAP = {1: {"closeA": "closeW", "closeB": "closeR"}, 2: {"closeA": "closeR", "closeB": "closeW"}}


def histories(rec):
    """split one recorded scenario into one history per direction (list of trace lines without h/begin/end)"""
    out = {}
    for d in (1, 2):
        lines = []
        for e in rec["events"]:
            if e["t"] == "check":
                lines.append(dict(t="check", g=0, k="", n=0, d=[], e="", rd=[]))
                continue
            k = e.get("k", "")
            if k in ("closeA", "closeB"):
                k = CLOSE_MAP[d][k]
            elif e.get("dir") != d:
                continue
            if e["t"] == "inv":
                lines.append(dict(t="inv", g=e["g"], k=k, n=e["n"], d=e["d"] if k == "write" else [], e="pending", rd=[]))
            else:
                # attach the outcome to the invocation of the same goroutine
                for x in reversed(lines):
                    if x["t"] == "inv" and x["g"] == e["g"]:
                        x["e"] = e["e"]
                        x["rd"] = e["d"] if k == "read" else []
                        x["rn"] = e["n"]
                        break
                lines.append(dict(t="ret", g=e["g"], k=k, n=0, d=[], e="", rd=[]))
        out[d] = lines
    return out


def describe(lines, upto):
    """state of the history when line index `upto` (0-based) could not be matched"""
    pend, flags = {}, dict(wc=False, rc=False, rdl=False, wdl=False)
    for x in lines[:upto]:
        if x["t"] == "inv":
            pend[x["g"]] = x
        elif x["t"] == "ret":
            c = pend.pop(x["g"], None)
            if c:
                k = c["k"]
                if k == "closeW": flags["wc"] = True
                if k == "closeR": flags["rc"] = True
                if k == "setRD": flags["rdl"] = True
                if k == "clrRD": flags["rdl"] = False
                if k == "setWD": flags["wdl"] = True
                if k == "clrWD": flags["wdl"] = False
    return pend, flags


def run(ck):
    ck.rule = ("one evaluation = one recorded call history of one direction of a real bufconn pipe (seeded scenario: capacity 1..64, "
               "write chunking, read sizes, yields, close of either end by the worker or a third goroutine, read/write deadlines, "
               "sequential non-blocking walks, one directed schedule per 100: deadline cleared while its fired timer waits for the pipe mutex) validated by TLC against the byte-stream rules; non-trivial = histories of a direction "
               "that carried data or had a call interrupted, distinct by (capacity, call sequence with outcomes)")
    thorough = ck.thorough
    # ---------------------------------------------------------------- (A) the transcribed design, exhaustively
    if thorough:
        r = ck.tlc("BufPipe", "MC_BufPipe.cfg", constants={"Caps": "{1, 2, 3, 4}", "MaxReads": 6}, timeout=900)
    else:
        r = ck.tlc("BufPipe", "MC_BufPipe.cfg")
    ck.exhaustive = r.finished
    ck.tlc("BufPipe", "MC_BufPipe_live.cfg", workers=4)
    # the invariants are not vacuous: each broken twin of the transcription must be rejected by TLC
    twins = (("lostwake", "NoLostWakeup"), ("noeofsignal", "NoLostWakeup"), ("wrap", "Refines"))
    for variant, inv in (twins if thorough else ()):
        t = ck.tlc("BufPipe", "MC_BufPipe.cfg", constants={"Variant": '"%s"' % variant}, allow_error=True, count=False)
        if not t.error or t.error["kind"] != "invariant":
            raise vf.Infra("BufPipe twin %s was not rejected (vacuous invariants?)" % variant)
    # lead (reported, not judged): a popped timer survives Stop(), see MC_BufPipe_race.cfg
    t = ck.tlc("BufPipe", "MC_BufPipe_race.cfg", allow_error=True, count=False, workers=4) if thorough else None
    if t is not None and t.error:
        ck.notes.append("model lead: with a timer function that has been started but not yet taken the mutex, SetReadDeadline's Stop() "
                        "cannot cancel it and a timeout can be reported after the deadline was cleared (MC_BufPipe_race.cfg violates "
                        "OutcomesOK); the scenarios clear a deadline only after it has fired, so recorded histories do not depend on it")

    # ---------------------------------------------------------------- (C) recorded histories of the real pipe
    b = ck.build("pipes")
    if ck.replay is not None:
        args = ["buf", str(ck.replay["scn"]), str(ck.replay["scn"] + 1), "30"]
    else:
        args = ["buf", "0", str(3000 if thorough else 400)]
    recs = ck.drive(b, args, timeout=1200)
    aborted = [x for x in recs if x.get("aborted")]
    recs = [x for x in recs if "events" in x]
    if not recs:
        raise vf.Infra("driver produced no scenarios")
    meta = {}
    h = 0
    for rec in recs:
        for d, lines in histories(rec).items():
            h += 1
            meta[h] = dict(scn=rec["scn"], run=rec["run"], fam=rec["fam"], cap=rec["cap"], dir=d, lines=lines,
                           active=bool(rec["dirs"][d - 1]), progress=rec["progress"])

    def trace_text(hs):
        trace, starts = [], {}
        blank = dict(g=0, k="", n=0, d=[], e="", rd=[])
        for hh in hs:
            m = meta[hh]
            starts[hh] = len(trace) + 1          # 1-based index of the begin line
            trace.append(dict(blank, t="begin", h=hh, cap=m["cap"]))
            for x in m["lines"]:
                y = {k: x[k] for k in ("t", "g", "k", "n", "d", "e", "rd")}
                y["h"], y["cap"] = hh, m["cap"]
                trace.append(y)
            trace.append(dict(blank, t="end", h=hh, cap=m["cap"]))
        return "\n".join(json.dumps(x) for x in trace) + "\n", starts

    text, _ = trace_text(sorted(meta))
    tr = ck.tlc("Trace_BufPipe", "Trace_BufPipe.cfg", files={"trace.ndjson": text}, timeout=1200)
    accepted = {x["h"] for x in tr.printed if x.get("t") == "accept"}
    rejected = sorted(set(meta) - accepted)
    high, starts = {}, {}
    if rejected:
        # localise: only the rejected histories, every consumed line reported
        text2, starts = trace_text(rejected[:200])
        tv = ck.tlc("Trace_BufPipe", "Trace_BufPipe.cfg", files={"trace.ndjson": text2}, count=False, timeout=1200,
                    constants={"Verbose": "TRUE"}, workers=2)
        for x in tv.printed:
            if x.get("t") == "at":
                high[x["h"]] = max(high.get(x["h"], 0), x["l"])
    for hh, m in meta.items():
        key = hashlib.sha1(json.dumps([m["cap"], [(x["g"], x["k"], x["n"], x["e"]) for x in m["lines"] if x["t"] == "inv"]]).encode()).hexdigest()
        ck.count(key, m["active"])
        if hh in accepted:
            ck.traces += 1
    for i, hh in enumerate(sorted(meta)):
        if i % max(1, len(meta) // 5) == 0 and meta[hh]["active"]:
            m = meta[hh]
            ck.sample({"scenario": m["scn"], "family": m["fam"], "cap": m["cap"], "dir": m["dir"], "accepted": hh in accepted,
                       "calls": [[x["g"], x["k"], x["n"], x["e"], len(x["rd"])] for x in m["lines"] if x["t"] == "inv"][:40]})
    for hh in rejected[:200]:
        m = meta[hh]
        lines = m["lines"]
        # high = the last trace line (1-based) some linearization consumed; lines[0] is trace line starts+1
        idx = high.get(hh, starts[hh]) - starts[hh]   # 0-based index into lines of the first unmatched line
        idx = max(0, min(idx, len(lines) - 1)) if lines else 0
        bad = lines[idx] if lines else {"t": "?"}
        pend, flags = describe(lines, idx)
        st = "+".join(k for k in ("wc", "rc", "rdl", "wdl") if flags[k]) or "open"
        if bad["t"] == "check":
            kinds = "+".join(sorted({c["k"] for c in pend.values()})) or "none"
            sig = "C39:stuck:%s:%s" % (kinds, st)
            what = ("call(s) %s still blocked after no progress for 2.5 s (ends/deadlines: %s): not a legitimate wait of a byte stream"
                    % (", ".join("%s(g%d,n=%d)" % (c["k"], g, c["n"]) for g, c in pend.items()), st))
        elif bad["t"] == "ret":
            c = pend.get(bad["g"], {"k": bad["k"], "e": "?", "n": 0, "rd": [], "d": []})
            sig = "C39:%s/%s:%s" % (c["k"], c["e"], st)
            if c["e"] == "timeout" and not flags["rdl" if c["k"] == "read" else "wdl"]:
                sig = "C39:timeout-without-deadline:%s" % c["k"]
            what = ("%s(n=%d) returned class %s data=%s which no linearization of the history allows (ends/deadlines before it: %s)"
                    % (c["k"], c["n"], c["e"], c.get("rd") or c.get("d"), st))
        else:
            sig = "C39:unmatched-%s" % bad["t"]
            what = "line %r of the history could not be matched" % (bad,)
        what += "; scenario=%d family=%s cap=%d dir=%d seed=%d line=%d/%d" % (m["scn"], m["fam"], m["cap"], m["dir"], ck.seed, idx + 1, len(lines))
        ck.violation(sig, what, {"scn": m["scn"], "dir": m["dir"], "cap": m["cap"], "family": m["fam"], "seed": ck.seed,
                                 "unmatched_line": idx, "history": [[x["t"], x["g"], x["k"], x["n"], x["d"], x["e"], x["rd"]] for x in lines]})
    unstaged = [x["scn"] for x in recs if x["fam"] == "staletimer" and not x.get("staged")]
    if unstaged:
        ck.notes.append("directed stale-timer schedule could not be staged in scenarios %s (the clearing call and the timer function were "
                        "not both seen parked at the pipe mutex)" % unstaged)
    if aborted:
        ck.notes.append("driver stopped early after 3 runs without progress (each costs the 2.5 s quiet period)")
        if not rejected:
            raise vf.Infra("driver reported runs without progress but every history was accepted")
    ck.assumptions += [
        "one reader and one writer goroutine per direction (plus a closing/probing goroutine); concurrent writers on one end are out of scope",
        "the log order of invocation/return lines is real-time order (one mutex-protected log); linearization points are searched by TLC",
        "a call is judged blocked only after 2.5 s without any logged event and with every scenario goroutine parked (runtime.Stack), "
        "deadlines used are <= 25 ms; a deadline is cleared only after it fired",
        "capacity is not judged except that a Write may stay blocked only if the pipe holds >= cap bytes; zero-length reads/writes are not generated",
        "a failed Write may have delivered any prefix (bufconn reports n = 0 for it); the count it reports is not judged",
    ]
