"""C15 The retrying KV client retries only retryable failures, boundedly.  Spec: Retry."""
import vf


def run(ck):
    ck.rule = ("TLC enumerates every (KV method of the wrapper, attempts 1..MaxAttempts, outcome script of length attempts+1 over "
               "{ok, retryable, fatal}) - every shorter script is a consumed prefix of one of them -, proves the transcribed "
               "retry loop satisfies the property and emits the set of results the property allows; the real WrapRetryKV runs "
               "each script over a stub node (errors and values tagged with the call number); non-trivial = script whose "
               "first outcome is not ok (at least one error is handled)")
    ma = 4 if ck.thorough else 3
    state = {"early": 0, "args": 0}

    def judge(c, e, o):
        if o.get("panic"):
            return "the wrapper panicked: %s" % o["panic"]
        if o.get("argsBad"):
            state["args"] += 1
        got = {"calls": o["calls"], "res": o["res"], "at": o["at"]}
        if got in e["allowed"]:
            if o["calls"] < e["full"]:
                state["early"] += 1
            return None
        a = e["allowed"][0] if e["allowed"] else {}
        return "result outside what the property allows (allowed e.g. calls=%s %s from call %s)" % (a.get("calls"), a.get("res"), a.get("at"))

    def sig(c, e, o):
        # classify the deviation, not the run
        seq, A = c["seq"], c["attempts"]
        k = o["calls"]
        if o.get("panic"):
            return "C15:panic"
        if k > A:
            return "C15:more-than-attempts"
        if any(x != "retryable" for x in seq[:max(0, k - 1)]):
            bad = next(x for x in seq[:k - 1] if x != "retryable")
            return "C15:reissued-after-%s" % bad
        if k >= 1 and seq[k - 1] == "ok":
            return "C15:success-not-returned" if o["res"] != "ok" else "C15:wrong-success-value"
        if o["res"] == "ok":
            return "C15:error-swallowed"
        return "C15:not-last-error"

    vf.table_check(ck, "Retry", "MC_Retry.cfg", "retrykv", constants={"MaxAttempts": ma}, judge=judge, sig=sig,
                   nontrivial=lambda c: c["c"]["seq"][0] != "ok")
    if state["early"]:
        ck.notes.append("%d results stop before the attempts are used up although the last error was retryable "
                        "(allowed by the statement, recorded only)" % state["early"])
    if state["args"]:
        ck.notes.append("%d cases: arguments reached the node changed (not part of the statement, recorded only)" % state["args"])
    ck.assumptions += ["retry-go's delay/jitter timing is not judged; the stub classifies outcomes with the errors "
                       "chord.ErrorIsRetryable knows (incl. %w-wrapped and context.DeadlineExceeded) vs. conflict/lease/arbitrary errors",
                       "'the last error' is read as: errors.As on the returned error finds the error object of the last call first"]
