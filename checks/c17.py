"""C17 Key-range transfer primitives are exact.  Spec: KVStore (family range: RangeKeys over rank hashes incl. boundaries
equal to low/high, wrap-around and low = high; Export -> Import into an empty store of each backend; RemoveKeys)."""
import json
import vf, kvlib

def run(ck):
    r = ck.tlc("MC_KVStore", "MC_KVStore_range.cfg")
    edges = r.printed
    walks = [ck.replay["walk"]] if ck.replay is not None else kvlib.covering_walks(edges, ck.rng)
    b = ck.build("kv")
    keys, hashof = [["a"], ["a", "b"], ["b"]], [1, 2, 2]
    names = ["".join(k) for k in keys]
    ck.extra["graph_edges"] = len(edges)
    ck.extra["walks"] = len(walks)
    hidden = {}
    ALT = {"a": "ff", "b": "00"}          # the letters of the key names stored as the extreme byte values
    import itertools
    sub = walks if ck.thorough or ck.replay is not None else walks[::2]
    runs = itertools.chain(((None, x) for x in kvlib.run_walks(ck, b, walks, keys, hashof, sigprefix="C17")),
                           ((ALT, x) for x in kvlib.run_walks(ck, b, sub, keys, hashof, sigprefix="C17", alphabet=ALT)))
    for alpha, (backend, wi, si, e, step, case) in runs:
        if alpha is not None and sub is not walks:
            wi = wi * 2
        op = e["op"]
        if si == 0:
            hidden = {}      # keys whose last simple write was Put(k, empty)
        if op["m"] == "put":
            hidden[names[op["k"] - 1]] = (op["v"] == "")
        elif op["m"] == "delete":
            hidden[names[op["k"] - 1]] = False
        elif op["m"] == "removekeys":
            for i in op["ks"]:
                hidden[names[i - 1]] = False
        empties = {k for k, v in hidden.items() if v}
        ck.count((backend, kvlib.canon(e["from"]), json.dumps(op, sort_keys=True)), op["m"] in ("rangekeys", "removekeys", "xfer"))
        rep = {"walk": walks[wi][:si + 1], "backend": backend}
        got = step["ret"]
        if len(ck.samples) < 3 and op["m"] == "rangekeys" and e["ret"]["ks"]:
            ck.sample({"backend": backend, "op": op, "expected": e["ret"], "observed": got})
        if op["m"] == "xfer":
            exp = {"simple": e["ret"]["simple"], "kids": [sorted(k) for k in e["ret"]["kids"]], "lease": [bool(x) for x in e["ret"]["lease"]]}
            for into in kvlib.BACKENDS:
                o = got.get(into)
                if got.get("e") != "ok" or o is None:
                    ck.violation("C17:%s->%s:transfer-error" % (backend, into), "export/import failed: %s" % json.dumps(got)[:300], rep)
                    break
                if {"simple": o["simple"], "kids": o["kids"], "lease": o["lease"]} != exp:
                    ck.violation("C17:%s->%s:transfer" % (backend, into), "keys %s exported from %s and imported into an empty %s store give %s, expected %s"
                                 % (op["ks"], backend, into, json.dumps(o), json.dumps(exp)), rep)
                exp_listed = sorted("".join(x) for x in e["ret"]["listed"])
                if o.get("listed") != exp_listed:
                    extra = set(o.get("listed", [])) - set(exp_listed)
                    if set(exp_listed) <= set(o.get("listed", [])) and extra <= {names[i - 1] for i in op["ks"]} and into == "sqlite" and \
                       all(not e["from"]["simple"][names.index(k)] and not e["from"]["kids"][names.index(k)] for k in extra):
                        ck.violation("C17:empty-value:%s->sqlite:listed-after-import" % backend,
                                     "a key exported without any data (or with only an empty simple value) is listed by RangeKeys after import into SQLite: %s" % sorted(extra), rep)
                    elif set(exp_listed) <= set(o.get("listed", [])) and extra <= (empties & {names[i - 1] for i in op["ks"]}):
                        ck.violation("C17:empty-value:%s->%s:listed-after-import" % (backend, into),
                                     "a key whose only content is an empty simple value is exported and listed by RangeKeys after import: %s" % sorted(extra), rep)
                    else:
                        ck.violation("C17:%s->%s:transfer-listing" % (backend, into), "RangeKeys of the destination lists %s, expected %s" % (o.get("listed"), exp_listed), rep)
                if not all(o.get("tokens_equal", [])):
                    ck.violation("C17:%s->%s:lease-token" % (backend, into), "lease token not reproduced: %s" % json.dumps(o), rep)
            continue
        exp_ret, got_ret = kvlib.norm_ret(op, e["ret"]), kvlib.norm_ret(op, got)
        exp_st, got_st = kvlib.proj_of(e["to"]), step["st"]
        what = None
        if exp_ret != got_ret:
            what = "reply %s, the contract says %s" % (json.dumps(got), json.dumps(e["ret"]))
        elif {k: exp_st[k] for k in ("simple", "kids", "lease")} != {k: got_st[k] for k in ("simple", "kids", "lease")}:
            what = "store after the operation is %s, the contract says %s" % (json.dumps(got_st), json.dumps(exp_st))
        if what and op["m"] == "rangekeys" and exp_st == got_st and backend in ("memory", "aof"):
            extra = set(got_ret.get("ks", [])) - set(exp_ret.get("ks", []))
            if extra and not (set(exp_ret.get("ks", [])) - set(got_ret.get("ks", []))) and extra <= empties:
                ck.violation("C17:empty-value:%s:in-range" % backend,
                             "%s RangeKeys lists a key whose only content is an empty simple value (after Put(k, empty)): %s" % (backend, what), rep)
                continue
        if what and op["m"] == "rangekeys" and exp_st == got_st and backend == "sqlite":
            extra = set(got_ret.get("ks", [])) - set(exp_ret.get("ks", []))
            if extra and not (set(exp_ret.get("ks", [])) - set(got_ret.get("ks", []))) and extra <= empties:
                ck.violation("C17:empty-value:sqlite:in-range",
                             "sqlite RangeKeys lists a key whose only content is an empty simple value (after Put(k, empty)): %s" % what, rep)
                continue
        if what:
            ck.violation("C17:%s:%s" % (backend, op["m"]), "%s %s on state %s: %s" % (backend, json.dumps(op), kvlib.canon(e["from"]), what), rep)
    ck.exhaustive = True
    ck.rule = ("TLC emits every edge of the range/transfer model: 3 keys at hash ranks 1,2,2 (two collide), simple value and one child each, "
               "RangeKeys for every (low, high) in 0..3 x 0..3 incl. low = high, wrap-around and bounds equal to a key's hash, RemoveKeys / "
               "Export+Import of every key subset into an empty store of each of the 3 backends; walks cover every edge on every backend; "
               "non-trivial = range / remove / transfer operations")
    ck.assumptions += ["hash function injected per run: rank * 2^40 (RangeKeys only compares hashes through Between)"]
