"""C27 Gateway connections reach only a client published for the hostname.  Spec: Routes (family dial)."""
import json, vf

ND = {"Lnd", "Rnd", "Rdnd"}

def run(ck):
    ck.rule = ("TLC enumerates every route sequence of length 0..3 over 10 per-route outcomes (local: ok / not connected / dial error / "
               "link write fails; remote: STATUS_OK / NO_DIRECT / UNKNOWN_ERROR / wrong server / proxy dial error / proxy dial without "
               "address) x lookup {ok, one slot failing, all slots failing}; each case runs through the real DialClient -> routeCache -> "
               "getConn, the remote node being a second real Server (handleProxyConn) over an in-memory pipe and every client a goroutine "
               "that records the link frame and a probe written to the returned connection; every connection request is made twice (the second one "
               "finds the route cache warm) and both are judged; non-trivial = at least one route")
    mr = 3

    def judge(c, e, o):
        r = judge1(c, e, o)
        if r is None and o.get("second"):
            r = judge1(c, e, o["second"])
            if r is not None:
                r = "second connection request for the same hostname (route cache warm): " + r
        return r

    def judge1(c, e, o):
        if o["strays"]:
            return "a peer outside H's routes was dialled: %s" % o["strays"][:2]
        kind = o["kind"]
        if kind not in e["kinds"]:
            return "outcome %s (%s), statement allows %s" % (kind, o["err"], e["kinds"])
        n = len(c["routes"])
        if any(a < 1 or a > n for a in o["attempts"]):
            return "attempted a route that is not one of H's: %s" % o["attempts"]
        seen_remote = False
        for k, a in enumerate(o["attempts"]):
            if a in e["locals"]:
                if seen_remote:
                    return "a route through a remote node was tried before a route through the local node: attempts %s, local %s" % (o["attempts"], e["locals"])
            else:
                if not seen_remote and not set(e["locals"]) <= set(o["attempts"][:k]):
                    return ("a route through a remote node was tried although the route(s) through the local node had not been tried: attempts %s, local %s"
                            % (o["attempts"], e["locals"]))
                seen_remote = True
        if kind == "conn":
            if o["client"] not in e["clients"]:
                return "connection handed to client %s, allowed %s" % (o["client"], e["clients"])
            if o["link_to"] != [o["client"]]:
                return "link frame received by %s, connection belongs to %s" % (o["link_to"], o["client"])
            if o["link_host"] != [o["host"]]:
                return "link frame carries %s, connection is for %s" % (o["link_host"], o["host"])
        return None

    def sig(c, e, o):
        if judge1(c, e, o) is None and o.get("second"):
            return sig1(c, e, o["second"]) + ":second-request"
        return sig1(c, e, o)

    def sig1(c, e, o):
        if o["strays"]:
            return "C27:stray-dial"
        kind = o["kind"]
        if kind not in e["kinds"]:
            if e["kinds"] == ["notconnected"] and kind == "notfound" and not (set(c["routes"]) & ND):
                return "C27:all-routes-generic-error"
            return "C27:outcome:%s-as-%s" % ("|".join(e["kinds"]) if len(e["kinds"]) < 3 else "error", kind)
        if kind == "conn":
            if o["client"] not in e["clients"]:
                return "C27:wrong-client" if o["client"] else "C27:dead-connection"
            if o["link_to"] != [o["client"]] or o["link_host"] != [o["host"]]:
                return "C27:link-frame"
        return "C27:order"

    vf.table_check(ck, "Routes", "MC_Routes_dial.cfg", "routes", drv_args=["dial"], judge=judge, sig=sig,
                   constants={"MaxRoutes": mr}, nontrivial=lambda c: len(c["c"]["routes"]) > 0)
    ck.assumptions += ["transports and the DHT are scripted stubs; the proxied hop runs the real handleProxyConn of a second Server over net.Pipe",
                       "'not-connected' is read literally: routes exist and none yields a connection (DESIGN 4.0), whatever the failure kinds",
                       "when every slot lookup fails nothing is known about H: any error is accepted, a connection is not",
                       "a remote node that never answers (3 s status deadline) is not in the generated space"]
