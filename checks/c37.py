"""C37 Internal admin endpoints always require the admin credentials.  Spec: Gateway (family admin)."""
import vf


def _served(e, o):
    how = []
    if o["reached"]:
        how.append("handler:" + ",".join(o["reached"]))
    if o["dialer"]:
        how.append("proxy-dialer")
    if o["doc"]:
        how.append("endpoint-doc")
    if e["under"] and o["status"] < 400 and not how:
        how.append("status-%d" % o["status"])
    return how


def _authclass(c):
    a, cfg = c["auth"], c["cfg"]
    if a["kind"] == "none":
        return "no-authorization"
    if a["kind"] in ("bearer", "raw"):
        return "malformed-authorization"
    if a["u"] == cfg["u"] and a["p"] == cfg["p"]:
        return "matches-empty-config"       # only reachable when user or password is not configured
    return "wrong-credentials"


def run(ck):
    ck.rule = ("TLC enumerates configuration {user, password each empty or set} x path (10 under /_internal incl. every mount, the catch-all, "
               "the bare prefix, a doubled slash; 4 look-alikes outside) x method x Authorization {none, Basic over {empty, right, case variant, "
               "wrong}^2, lower-case scheme, Bearer, unencoded} x proxy headers {node address, forwarded}; each request goes through the apex "
               "handler of a fresh gateway.New (fake internal handlers and a fake DialInternal record what was reached); "
               "non-trivial = path under the prefix and the request may not be served")
    stats = {"handler": 0, "dialer": 0, "limited": 0}

    def judge(c, e, o):
        how = _served(e, o)
        if o["status"] == 429:
            stats["limited"] += 1
        if e["mayServe"]:
            if o["reached"]:
                stats["handler"] += 1
            if o["dialer"]:
                stats["dialer"] += 1
            return None
        if how:
            return "%s %s is served (%s, status %s) to a request that does not carry configured credentials (config user=%r pass=%r, Authorization %s)" % (
                c["method"], c["path"], "+".join(how), o["status"], c["cfg"]["u"], c["cfg"]["p"], c["auth"])
        return None

    def sig(c, e, o):
        cfg = c["cfg"]
        conf = "configured" if cfg["u"] and cfg["p"] else "no-credentials:" + ("both-empty" if not cfg["u"] and not cfg["p"] else
                                                                             "user-empty" if not cfg["u"] else "pass-empty")
        how = _served(e, o)[0].split(":")[0]
        flags = "+forwarded" if c["fwd"] else ("+proxied" if c["node"] else "")
        return "C37:%s:%s:%s%s" % (conf, _authclass(c), how, flags)

    vf.table_check(ck, "Gateway", "MC_Gateway_admin.cfg", "gateway", drv_args=["admin"],
                   constants={"Depth": 1 if ck.thorough else 0}, judge=judge, sig=sig,
                   nontrivial=lambda r: r["e"]["under"] and not r["e"]["mayServe"])
    if stats["limited"]:
        raise vf.Infra("%d requests were rate-limited (429): the apex limiter shaped the observations" % stats["limited"])
    if ck.replay is None and (not stats["handler"] or not stats["dialer"]):
        raise vf.Infra("vacuous: with the configured credentials no handler (%d) / proxy dialer (%d) was ever reached" % (stats["handler"], stats["dialer"]))
    ck.extra["served_with_credentials"] = stats
    ck.assumptions += ["'under the internal admin prefix' = the path is /_internal or starts with /_internal/ (chi does not clean paths)",
                       "'carrying the configured credentials' = a well-formed Basic Authorization header (scheme case-insensitive) with exactly the "
                       "configured user and password; the statement is read as 'only if': a refusal of correct credentials is not judged, "
                       "but the check is vacuous (exit 2) if correct credentials never reach a handler and the proxy dialer",
                       "served = an internal handler ran, DialInternal was called, the endpoint document was returned, or (under the prefix) a status < 400",
                       "requests are handed to the handler as *http.Request values; one gateway per request so the 10 req/s apex limiter never triggers"]
