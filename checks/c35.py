"""C35 Forwarded HTTP requests carry only gateway-asserted client headers.  Spec: Gateway (family rewrite)."""
import vf


def _problems(c, e, o):
    """[(header, kind, text)] ordered: asserted headers first, then must-be-absent, then pass-through of the rest"""
    out = o.get("out") or {}
    res = []
    forb = {h["n"]: h["v"] for h in e["forbidden"]}

    def passed(n):   # a client value passed through = it is one of the comma-separated items of an outbound value
        items = [t.strip() for x in out.get(n, []) for t in x.split(",")]
        return [v for v in forb.get(n, []) if v in items]
    for x in e["exact"]:
        if out.get(x["n"]) != x["v"]:
            kind = "passed-through" if passed(x["n"]) else ("missing" if x["n"] not in out else "wrong-value")
            res.append((x["n"], kind, "%s is %s, the statement gives %s" % (x["n"], out.get(x["n"]), x["v"])))
    for n in e["absent"]:
        if n in out:
            res.append((n, "passed-through" if passed(n) else "present", "%s reaches the tunnel as %s" % (n, out[n])))
    done = {r[0] for r in res}
    for n in forb:
        if n not in done and passed(n):
            res.append((n, "passed-through", "client-supplied %s %s reaches the tunnel as %s" % (n, forb[n], out[n])))
    return res


def run(ck):
    ck.rule = ("TLC enumerates every subset of 6 spoofed client headers (X-Forwarded-For/-Host/-Proto, True-Client-IP, X-Real-IP, "
               "X-Forwarded-Port) x single/repeated values x HTTP/1.1, 2, 3-style requests x gateway port 443/8443 x IPv4/IPv6 peer x "
               "Host header without port / with the gateway port / with another port (thorough: x GET/POST/DELETE); each request goes through the proxy handler "
               "gateway.New installs (ReverseProxy + http.Transport) into a fake tunnel that records the outbound request; "
               "non-trivial = at least one spoofed header present")
    bad = set()

    def judge(c, e, o):
        if "out" not in o:
            raise vf.Infra("request was not forwarded to the fake tunnel: case=%s obs=%s" % (c, o))
        p = _problems(c, e, o)
        if p:
            bad.add(id(c))
            return "; ".join(x[2] for x in p)
        return None

    def sig(c, e, o):
        p = _problems(c, e, o)
        return "C35:%s:%s" % (p[0][0], p[0][1])

    cases, byi = vf.table_check(ck, "Gateway", "MC_Gateway_rewrite.cfg", "gateway", drv_args=["rewrite"],
                                constants={"Depth": 1 if ck.thorough else 0}, judge=judge, sig=sig,
                                nontrivial=lambda r: len(r["c"]["hdrs"]) > 0)
    if not all(byi[i]["o"].get("status") == 200 and byi[i]["o"].get("custom") == "keep" for i in range(len(cases))):
        ck.notes.append("some forwarded requests did not complete with the fake tunnel's 200 / lost an unrelated header (not judged)")
    leads = [r for r in cases if r.get("lead")]
    hit = [r for r in leads if id(r["c"]) in bad]
    ck.extra["model_leads"] = {"code_variant_counterexamples": len(leads), "reproduced_on_real_code": len(hit)}
    ck.notes.append("TLC: the transcription as of design time (variant \"code\": only For/Host/Proto + delHeaders are stripped) breaks the "
                    "statement on %d enumerated cases (all with a client X-Forwarded-Port); the real code reproduced %d of them%s" % (
                        len(leads), len(hit), "" if hit or not leads else " (the tree no longer behaves like that variant)"))
    ck.assumptions += ["requests are handed to the handler as *http.Request values with Proto/TLS/RemoteAddr/Host set the way net/http, x/net/http2 "
                       "and quic-go's http3 server set them; the servers' own request parsing (header canonicalisation) is trusted",
                       "for HTTP/1.1 the Host header equals the TLS server name (the code deliberately routes HTTP/1.1 by SNI)",
                       "'X-Forwarded-*' is probed with X-Forwarded-Port as the one generic member (DESIGN 4.0); a client value counts as passed "
                       "through if it is one of the comma-separated items of a value of the same outbound header"]
