"""C36 The gateway reports tunnel failures with the right status.  Spec: Gateway (family status)."""
import vf


def _judge(c, e, o):
    if o.get("panic"):
        return "panic: %s" % o["panic"]
    k = e["kind"]
    if k == "http":
        if not e["allowed"]:
            return None          # nobody left to observe a status
        if o["status"] not in e["allowed"]:
            return "HTTP caller receives status %s (body %r); the statement gives %s" % (o["status"], o.get("body", ""), e["allowed"])
    elif k == "tcp":
        if o.get("stuck"):
            return "forwardTCP did not return"
        if o["frame"] not in [("STATUS_OK" if f == "OK" else f) for f in e["frames"]]:
            return "TCP caller receives first frame %s (%s); the statement allows %s" % (o["frame"], o.get("recvErr", ""), e["frames"])
        if e["close"] and o.get("tail") != "closed":
            return "stream not closed after the failure status (tail=%s)" % o.get("tail")
    elif k == "connect":
        st = o["status"]
        if st and st < 300 and not e["success"]:
            return "CONNECT answered %s without a usable client connection" % st
        if not e["success"] and not (400 <= st <= 599):
            return "CONNECT caller receives no failure status (status=%s %s)" % (st, o.get("recvErr", ""))
    return None


def _sig(c, e, o):
    if o.get("panic"):
        return "C36:%s:%s:panic" % (c["proto"], c["class"])
    if e["kind"] == "http":
        return "C36:http:%s:%s:got-%s" % (c["class"], c["wrap"], o["status"])
    if e["kind"] == "tcp":
        got = o["frame"] if o["frame"] not in [("STATUS_OK" if f == "OK" else f) for f in e["frames"]] else "not-closed"
        return "C36:tcp:%s:%s:got-%s" % (c["class"] if c["class"] != "ok" else "client-" + c["frame"], c["host"], got)
    return "C36:connect:%s:%s:got-%s" % (c["class"] if c["class"] != "ok" else "client-" + c["frame"], c["host"], o["status"])


def run(ck):
    ck.rule = ("TLC enumerates failure class {not found, not connected, no direct, ctx deadline, net.Error timeout, canceled, EOF, other} x "
               "wrapping {as is, fmt %w, *net.OpError} x protocol: HTTP (dial error through the real proxy handler for HTTP/1.1, 2, 3-style "
               "requests; the same error handed to errorHandler; a tunnel that closes / answers garbage), raw TCP (forwardTCP over a pipe, "
               "also with a client that answers OK / NO_DIRECT / UNKNOWN_ERROR and with an unusable host), HTTP CONNECT (real net/http "
               "server on loopback); non-trivial = every case")
    bad = set()

    def judge(c, e, o):
        m = _judge(c, e, o)
        if m:
            bad.add(id(c))
        return m

    cases, byi = vf.table_check(ck, "Gateway", "MC_Gateway_status.cfg", "gateway", drv_args=["status"],
                                constants={"Depth": 1 if ck.thorough else 0}, judge=judge, sig=_sig)
    if ck.replay is None:
        ok_tcp = sum(1 for i, r in enumerate(cases) if r["c"]["proto"] == "tcp" and byi[i]["o"].get("frame") == "STATUS_OK" and byi[i]["o"].get("tail") == "piped")
        ok_con = sum(1 for i, r in enumerate(cases) if r["c"]["proto"] == "connect" and byi[i]["o"].get("status") == 200 and byi[i]["o"].get("tail") == "piped")
        if not ok_tcp or not ok_con:
            raise vf.Infra("vacuous: no successful TCP (%d) / CONNECT (%d) forwarding observed, 'success only with a client connection' was never exercised" % (ok_tcp, ok_con))
    leads = [r for r in cases if r.get("lead")]
    hit = [r for r in leads if id(r["c"]) in bad]
    ck.extra["model_leads"] = {"code_variant_counterexamples": len(leads), "reproduced_on_real_code": len(hit)}
    ck.notes.append("TLC: the transcription of errorHandler as of design time (variant \"code\") breaks the statement on %d enumerated cases "
                    "(EOF / canceled answered without a status, %%w-wrapped net.Error timeout classified as 502); the real code reproduced %d%s" % (
                        len(leads), len(hit), "" if hit or not leads else " (the tree no longer behaves like that variant)"))
    ck.assumptions += ["a response on which the handler never wrote a status is what net/http sends for it: 200 with an empty body",
                       "'canceled' is judged as a forwarding failure (502) only while the caller is still connected; when the caller's own "
                       "request context is cancelled nothing is judged",
                       "for raw TCP either failure frame (NO_DIRECT / UNKNOWN_ERROR) is accepted for every failure; for CONNECT any 4xx/5xx",
                       "the 3 s wait for the caller's first frame in forwardTCP is not exercised (every caller pokes at once)"]
