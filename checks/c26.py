"""C26 Clients can only publish or remove hostnames they own, and routes point to them.
Spec: TunnelCtl (families publish, publish_sim, publish_obs)."""
import json, os, shutil, threading, vf

HOSTS = ["g1", "g2", "x1"]
CLIENTS = ["A", "B"]


def key(st):
    return json.dumps(st, sort_keys=True)


def norm_model(st):
    """model state as printed by TLC (Compact) -> comparable observable part"""
    return {"h": {c: sorted(st["h"][c]) for c in CLIENTS}, "r": st["r"], "x": st["x"], "c": st["c"], "l": st["l"]}


def norm_obs(p):
    """driver projection -> the same layout"""
    return {"h": {c: sorted(p["hostnames"][c]) for c in CLIENTS},
            "r": {h: [[s["client"], s["server"]] for s in p["routes"][h]] for h in HOSTS},
            "x": p["extra"], "c": p["custom"], "l": p["held"]}


def plan_walks(edges, maxlen):
    """cover every edge of the printed graph: walks from the initial state (the driver starts every walk on a fresh
    store); at a state all refused requests (self-loops) are issued in a row, then an uncovered state-changing edge"""
    adj, init = {}, None
    for i, e in enumerate(edges):
        fk = key(e["from"])
        e["_f"] = fk
        e["_t"] = fk if e["to"] == [] else key(e["to"])
        adj.setdefault(fk, []).append(i)
        if e["lvl"] == 1:
            init = fk
    if init is None:
        raise vf.Infra("no initial state among the printed edges")
    # BFS tree over state-changing edges
    parent, order, q = {init: None}, [init], [init]
    while q:
        nq = []
        for s in q:
            for i in adj.get(s, []):
                t = edges[i]["_t"]
                if t not in parent:
                    parent[t] = i
                    order.append(t)
                    nq.append(t)
        q = nq

    def path(s):
        p = []
        while parent[s] is not None:
            p.append(parent[s])
            s = edges[parent[s]]["_f"]
        return p[::-1]

    covered = [False] * len(edges)
    pending = {s: len(adj.get(s, [])) for s in order}
    walks = []
    progress = True
    while progress:
        progress = False
        for s in order:
            if pending.get(s, 0) == 0:
                continue
            steps, cur = path(s), s
            while True:
                nxt = None
                for i in adj.get(cur, []):
                    if covered[i]:
                        continue
                    if edges[i]["_t"] == cur:
                        covered[i] = True
                        pending[cur] -= 1
                        steps.append(i)
                    elif nxt is None:
                        nxt = i
                if nxt is None and len(steps) < maxlen:
                    # nothing left here: step over an already covered edge to a neighbour that has work left
                    for i in adj.get(cur, []):
                        t = edges[i]["_t"]
                        if t != cur and pending.get(t, 0) > 0:
                            steps.append(i)
                            cur = t
                            break
                    else:
                        break
                    continue
                if nxt is None or len(steps) >= maxlen:
                    break
                covered[nxt] = True
                pending[cur] -= 1
                steps.append(nxt)
                cur = edges[nxt]["_t"]
            walks.append(steps)
            progress = True
    if not all(covered):
        raise vf.Infra("walk planner left %d edges uncovered" % covered.count(False))
    return [[{"call": edges[i]["call"], "out": edges[i]["out"],
              "to": edges[i]["to"] if edges[i]["to"] != [] else None} for i in w] for w in walks]


def relation(pre, call):
    """how the requested hostname relates to the caller before the step (names the class of input)"""
    if call["op"] in ("hold", "unhold", "generate"):
        return "-"
    other = [c for c in CLIENTS if c != call["c"]][0]
    if call["h"] in pre["h"][call["c"]]:
        return "own"
    if call["h"] in pre["h"][other]:
        return "foreign"
    return "unregistered"


# ------------------------------------------------------------------------------------------------ racing requests
OLD = ["n3", "n4", "n2"]
SRV = {"n1": "a1", "n2": "a2", "n3": "a3", "n4": "a4"}
OUTER_SERVERS, INNER_SERVERS = ["n1", "n2"], ["n2", "n1"]
KINDS = ["publish", "unpublish", "release"]


def race_cases(ck):
    setups = {
        "registered+routes": ("g1", [{"op": "generate", "c": "A", "h": "g1", "servers": []}, {"op": "publish", "c": "A", "h": "g1", "servers": OLD}]),
        "custom+routes": ("x1", [{"op": "validate", "c": "A", "h": "x1", "servers": []}, {"op": "publish", "c": "A", "h": "x1", "servers": OLD}]),
        "registered": ("g1", [{"op": "generate", "c": "A", "h": "g1", "servers": []}]),
        "unregistered": ("g1", []),
    }
    out = []
    for name, (h, setup) in setups.items():
        for ko in KINDS:
            for ki in KINDS:
                if name in ("registered", "unregistered") and not ck.thorough and (ko, ki) not in (("publish", "release"), ("release", "publish"), ("publish", "publish")):
                    continue
                out.append({"name": "%s:%s|%s" % (name, ko, ki), "same": True, "setup": setup,
                            "outer": {"op": ko, "c": "A", "h": h, "servers": OUTER_SERVERS if ko == "publish" else []},
                            "inner": {"op": ki, "c": "A", "h": h, "servers": INNER_SERVERS if ki == "publish" else []}})
    # the other client racing on the same hostname (no common lease: judged by the statement only)
    h, setup = setups["registered+routes"]
    for ko in KINDS:
        for ki in KINDS:
            if not ck.thorough and "publish" not in (ko, ki):
                continue
            out.append({"name": "foreign:%s|%s" % (ko, ki), "same": False, "setup": setup,
                        "outer": {"op": ko, "c": "A", "h": h, "servers": OUTER_SERVERS if ko == "publish" else []},
                        "inner": {"op": ki, "c": "B", "h": h, "servers": INNER_SERVERS if ki == "publish" else []}})
    return out


def _abs_routes(case, routes, final):
    """route table of the hostname -> who wrote each slot: 0 nobody, -1 the setup, 1 / 2 the outer / inner request"""
    out = []
    for i, r in enumerate(routes):
        if r["client"] == "none":
            out.append(0)
            continue
        who = -99
        if r["client"] == "A" and i < len(OLD) and r["server"] == SRV[OLD[i]]:
            who = -1
        if final:
            for rid, k in ((1, case["outer"]), (2, case["inner"])):
                if k["op"] == "publish" and i < len(k["servers"]) and r["server"] == SRV[k["servers"][i]] and r["client"] == k["c"]:
                    who = rid
        out.append(who)
    return out


def races(ck, binary):
    cases = race_cases(ck)
    if ck.replay is not None:
        cases = [ck.replay["case"]]
    recs = ck.drive(binary, ["race"], input_lines=[{"setup": c["setup"], "outer": c["outer"], "inner": c["inner"]} for c in cases], timeout=1500)
    byi = {x["i"]: x["o"] for x in recs if "i" in x}
    if len(byi) != len(cases):
        raise vf.Infra("driver answered %d of %d races\n%s" % (len(byi), len(cases), getattr(ck, "last_stderr", "")[-2000:]))
    slist, sidx = [], {}

    def state_index(st):
        k = key(st)
        if k not in sidx:
            slist.append(st)
            sidx[k] = len(slist)
        return sidx[k]
    obs, where, lines, line_of = [], [], [], {}
    for ci, c in enumerate(cases):
        h, cl = c["outer"]["h"], c["outer"]["c"]
        for run in byi[ci]:
            npre, npost = norm_obs(run["pre"]), norm_obs(run["post"])
            obs.append({"pre": state_index({k: npre[k] for k in "hrxc"}), "post": state_index({k: npost[k] for k in "hrxc"}),
                        "a": c["outer"], "aok": run["outerOk"], "b": c["inner"], "bok": run["innerOk"]})
            where.append((ci, run))
            ck.count("race:%s:%s" % (c["name"], run["before"]), run["before"] not in ("acq", "end"))
            if not c["same"]:
                continue
            if any(e["a"] == "?" for e in run["events"]):
                raise vf.Infra("race %s: operation outside the specification's alphabet: %s" % (c["name"], [e.get("raw") for e in run["events"] if e["a"] == "?"]))
            line_of[len(lines) + 1] = (ci, run)
            lines.append({"t": "reset", "kinds": [c["outer"]["op"], c["inner"]["op"]], "reg": h in run["pre"]["hostnames"][cl],
                          "custom": run["pre"]["custom"][h] == cl, "routes": _abs_routes(c, run["pre"]["routes"][h], False)})
            for e in run["events"]:
                lines.append({"t": "ret", "r": e["r"], "res": e["res"]} if e["a"] == "ret" else {"t": "op", "r": e["r"], "a": e["a"], "i": e["i"], "res": e["res"]})
            lines.append({"t": "end", "reg": h in run["post"]["hostnames"][cl], "custom": run["post"]["custom"][h] == cl,
                          "routes": _abs_routes(c, run["post"]["routes"][h], True)})
    # the statement, on the observed outcomes
    r2 = ck.tlc("TunnelCtl", "MC_TunnelCtl_race_obs.cfg", timeout=900, count=False,
                files={"obs_race.ndjson": "\n".join(json.dumps(x) for x in obs) + "\n",
                       "obs_tunctl_states.ndjson": "\n".join(json.dumps(x) for x in slist) + "\n"})
    verdict = {x["c"] - 1: x["e"] for x in r2.printed}
    if len(verdict) != len(obs):
        raise vf.Infra("validator judged %d of %d races" % (len(verdict), len(obs)))
    nviol = 0
    for n, (ci, run) in enumerate(where):
        c, v = cases[ci], verdict[n]
        if n % max(1, len(where) // 4) == 0:
            ck.sample({"race": c["name"], "inner_request_ran_before_outer_operation": run["before"], "outer_ok": run["outerOk"], "inner_ok": run["innerOk"],
                       "operations": " ".join("%d:%s%s=%s" % (e["r"], e["a"], e["i"] or "", e["res"]) for e in run["events"]), "verdict": v})
        if not (v["ab"] or v["ba"]):
            nviol += 1
            h = c["outer"]["h"]
            ck.violation("C26:race:%s|%s:%s:%s" % (c["outer"]["op"], c["inner"]["op"], "same-client" if c["same"] else "other-client",
                                                  "both-ok" if run["outerOk"] and run["innerOk"] else "one-ok" if run["outerOk"] or run["innerOk"] else "none-ok"),
                         "%s (by %s) and %s (by %s) of hostname %s at the same time (the second ran before operation %d '%s' of the first): outcomes %s / %s, "
                         "afterwards registered to %s, routes %s, custom binding %s - that is the result of neither order of the two requests; operations: %s"
                         % (c["outer"]["op"], c["outer"]["c"], c["inner"]["op"], c["inner"]["c"], h, run["at"], run["before"], run["codes"][0], run["codes"][1],
                            [k for k in CLIENTS if h in run["post"]["hostnames"][k]], [[x["client"], x["server"]] for x in run["post"]["routes"][h]],
                            run["post"]["custom"][h], " ".join("%d:%s%s=%s" % (e["r"], e["a"], e["i"] or "", e["res"]) for e in run["events"])),
                         {"race": True, "case": c})
    # the operations, against TunnelRace
    r3 = ck.tlc("Trace_TunnelRace", "Trace_TunnelRace.cfg", files={"trace.ndjson": "\n".join(json.dumps(x) for x in lines) + "\n"}, workers=1, count=False)
    vd = [x for x in r3.printed if x.get("t") == "verdict"]
    if not vd or r3.error:
        raise vf.Infra("trace validator gave no verdict: %s" % (r3.error,))
    ck.traces += len(where)
    ck.extra["race_runs"] = len(where)
    ck.extra["race_operations_validated"] = sum(1 for x in lines if x["t"] == "op")
    if vd[0]["bad"] and not nviol:
        b = vd[0]["bad"][0]
        start = max(k for k in line_of if k <= b)
        ci, run = line_of[start]
        # the handlers do something TunnelRace does not describe.  Not a verdict by itself: the walks are still executed and judged; the run is
        # inconclusive only if they find nothing either (raised at the end of run())
        ck.race_divergence = "race %s (position %s): recorded line %s is not a step of TunnelRace; run: %s" % (
            cases[ci]["name"], run["before"], json.dumps(lines[b - 1]), " ".join("%d:%s%s=%s" % (e["r"], e["a"], e["i"] or "", e["res"]) for e in run["events"]))
        ck.notes.append(ck.race_divergence)


def run(ck):
    ck.rule = ("TLC builds the state graph of the control-plane model (2 registered clients, hostnames g1/g2 handed out by GenerateHostname and the "
               "custom hostname x1, requested server lists from a menu with duplicates, a shared address under two identities, 4 distinct "
               "addresses and an address without destination record, the client's lease taken by the environment) from all states within "
               "MaxLevel steps, proves every model transition satisfies the statement, and prints every edge; walks covering every edge, plus "
               "seeded -simulate behaviours, are executed on the real server through the real twirp client (every step with a claimed peer "
               "identity that is the caller's, the other client's or junk); the DHT content is projected after every step and every recorded "
               "step (pre, request, outcome, post) is judged in TLC by the predicates of the specification.  Racing requests: TunnelRace models the "
               "handlers at the grain of DHT operations (TLC: every interleaving of 2 and 3 requests of one client is linearizable because of the lease, the "
               "variant without it is not); on the real handlers every ordered pair of publish / unpublish / release runs with the whole second request placed "
               "before each DHT operation of the first (and after it), from 4 pre-states and for the other client; the recorded operations are validated "
               "against TunnelRace, the outcomes judged 'one before the other' by the statement's predicates; non-trivial = distinct "
               "(abstract pre-state, request) pairs / race positions strictly inside the first request")
    walks = []
    # the driver build and the seeded simulation run while TLC builds the graph
    sdir = ck.path("spec")
    if not os.path.isdir(sdir):
        shutil.copytree(os.path.join(vf.VERIF, "spec"), sdir)
    ck.overlay()
    bg = {}

    def in_bg(name, fn):
        def runner():
            try:
                bg[name] = ("ok", fn())
            except BaseException as e:  # re-raised in the main thread
                bg[name] = ("err", e)
        t = threading.Thread(target=runner)
        t.start()
        return t

    def join(t, name):
        t.join()
        kind, val = bg[name]
        if kind == "err":
            raise val
        return val

    tb = in_bg("build", lambda: ck.build("tunctl"))
    if ck.replay is not None and ck.replay.get("race"):
        races(ck, join(tb, "build"))
        return
    if ck.replay is None:
        # racing requests, design level: every interleaving of two and three requests of one client keeps the statement
        # because of the lease; without it (variant) TLC must find the schedule that breaks it
        rr = ck.tlc("MC_TunnelRace", "MC_TunnelRace.cfg", workers=4, timeout=900)
        if rr.error:
            raise vf.Infra("TunnelRace: the design as specified violates %s" % rr.error)
        rv = ck.tlc("MC_TunnelRace", "MC_TunnelRace_nolease.cfg", workers=2, timeout=600, allow_error=True, count=False)
        if not rv.error or "Linearizable" not in str(rv.error.get("name", "")):
            raise vf.Infra("TunnelRace without the lease is expected to violate Linearizable (the property is otherwise checked vacuously): %s" % (rv.error,))
    if ck.replay is not None:
        walks = [ck.replay["steps"]]
    else:
        level = 5 if ck.thorough else 3
        menu = '"small"'     # the graph uses the small menu of server lists, the simulated behaviours the full one
        nsim = 600 if ck.thorough else 80
        depth = 14 if ck.thorough else 10
        ts = in_bg("sim", lambda: ck.tlc("TunnelCtl", "MC_TunnelCtl_publish_sim.cfg", constants={"SimDepth": depth, "Menu": '"full"'},
                                         simulate={"num": nsim}, depth=depth + 3, timeout=600))
        # one worker: BFS levels (hence the printed edge set) are then the same in every run
        r = ck.tlc("TunnelCtl", "MC_TunnelCtl_publish.cfg", constants={"MaxLevel": level, "Menu": menu}, timeout=900, workers=1)
        edges = r.printed
        if not edges:
            raise vf.Infra("no edges printed")
        walks = plan_walks(edges, 150)
        ck.extra["graph_edges"] = len(edges)
        ck.extra["covering_walks"] = len(walks)
        rs = join(ts, "sim")
        sim = [x["walk"] for x in rs.printed if "walk" in x]
        if len(sim) < nsim // 2:
            raise vf.Infra("simulation produced %d of %d behaviours" % (len(sim), nsim))
        ck.extra["simulated_walks"] = len(sim)
        walks += sim
        # directed: the requests of one client reach different edge nodes (what one of them did must be known to the other through the ring only)
        for c, h, first in (("A", "g1", "generate"), ("B", "g2", "generate"), ("A", "x1", "validate"), ("B", "x1", "validate")):
            for a, bb in ((1, 2), (2, 1)):
                mk = lambda op, via, servers=(): {"call": {"op": op, "c": c, "h": h, "servers": list(servers)}, "spoof": "none", "via": via}
                walks.append([mk(first, a), mk("publish", a, ["n1", "n2"]), mk("release", bb), mk("publish", a, ["n1"]), mk("unpublish", a),
                              mk(first, bb), mk("publish", bb, ["n2"]), mk("unpublish", a), mk("publish", a, ["n3"]), mk("release", a), mk("publish", bb, ["n1"])])
        # directed: a route slot of the hostname cannot be deleted while the request runs (the ring node holding it is unreachable): an unpublish /
        # release that reports success must still have removed everything
        for c, h, first in (("A", "g1", "generate"), ("B", "x1", "validate")):
            for slot in (1, 2, 3):
                mk = lambda op, servers=(), delfail=0: {"call": {"op": op, "c": c, "h": h, "servers": list(servers)}, "spoof": "none", "via": 1, "delfail": delfail}
                walks.append([mk(first), mk("publish", ["n1", "n2", "n3"]), mk("unpublish", delfail=slot), mk("unpublish"),
                              mk("publish", ["n1", "n2", "n3"]), mk("release", delfail=slot), mk("release"), mk("publish", ["n1"])])
        ck.exhaustive = True   # of the bounded graph (every edge executed at least once)

    b = join(tb, "build")
    if ck.replay is None:
        races(ck, b)
    # the identity the peer claims at each step is part of the input (so a replay repeats it)
    for w in walks:
        for st in w:
            if "spoof" not in st:
                st["spoof"] = ck.rng.choice(["none", "other", "other", "junk"])
            if "via" not in st:        # the edge node the client calls (both serve the same ring store): part of the input as well
                st["via"] = ck.rng.choice([1, 2])
    recs = ck.drive(b, ["publish"], input_lines=[{"steps": [dict(s["call"], spoof=s["spoof"], via=s["via"], delfail=s.get("delfail", 0)) for s in w]} for w in walks], timeout=1500)
    byi = {x["i"]: x["o"] for x in recs if "i" in x}
    if len(byi) != len(walks):
        raise vf.Infra("driver answered %d of %d walks\n%s" % (len(byi), len(walks), getattr(ck, "last_stderr", "")[-2000:]))

    # recorded steps -> one record per distinct (pre, call, ok, post); remember where each occurred
    uniq, where, order = {}, {}, []
    sidx, slist = {}, []

    def state_index(st):
        k = key(st)
        if k not in sidx:
            slist.append(st)
            sidx[k] = len(slist)      # TLA+ sequences start at 1
        return sidx[k]
    differs, differ_example, others = 0, None, set()
    nsteps = 0
    for wi, w in enumerate(walks):
        o = byi[wi]
        cur = o["init"]
        if cur.get("other"):
            others.update(cur["other"])
        if len(o["steps"]) != len(w):
            raise vf.Infra("walk %d: %d steps sent, %d answered" % (wi, len(w), len(o["steps"])))
        model_cur = None
        for si, (m, s) in enumerate(zip(w, o["steps"])):
            nsteps += 1
            pre = cur
            post = s.get("post") or pre
            cur = post
            if post.get("other"):
                others.update(post["other"])
            npre, npost = norm_obs(pre), norm_obs(post)
            rec = {"pre": {k: npre[k] for k in "hrxc"}, "call": m["call"], "ok": s["ok"], "post": {k: npost[k] for k in "hrxc"}}
            k = key(rec)
            if k not in uniq:
                uniq[k] = rec
                order.append(k)
                where[k] = (wi, si)
            ck.count(key([rec["pre"], rec["call"]]), True)
            # conformance with the transcribed handlers (not the verdict: the statement is)
            if "out" in m:
                exp_ok = m["out"] == "ok"
                if m.get("to") is not None:
                    model_cur = norm_model(m["to"])
                if exp_ok != s["ok"] or (model_cur is not None and model_cur != npost):
                    differs += 1
                    if differ_example is None:
                        differ_example = {"walk": wi, "step": si, "call": m["call"], "model_out": m["out"], "real": s["code"],
                                          "model_post": model_cur, "real_post": npost}
    ck.traces += len(walks)
    ck.extra["steps_executed"] = nsteps
    ck.extra["distinct_steps_judged"] = len(order)

    obs = "\n".join(json.dumps({"pre": state_index(uniq[k]["pre"]), "call": uniq[k]["call"], "ok": uniq[k]["ok"],
                                "post": state_index(uniq[k]["post"])}) for k in order) + "\n"
    r2 = ck.tlc("TunnelCtl", "MC_TunnelCtl_publish_obs.cfg", timeout=900, count=False,
                files={"obs_tunctl.ndjson": obs, "obs_tunctl_states.ndjson": "\n".join(json.dumps(x) for x in slist) + "\n"})
    verdict = {x["c"] - 1: x["e"] for x in r2.printed}
    if len(verdict) != len(order):
        raise vf.Infra("validator judged %d of %d steps" % (len(verdict), len(order)))
    names = {"onlyOwner": "a publish/unpublish/release succeeded for a hostname that is not registered to the caller",
             "stores": "a successful publish did not leave, in slots 1..k, routes naming the caller's verified identity and the k distinct requested servers (or it filled further slots)",
             "releases": "a successful release left a route, the registration or the custom-hostname binding behind",
             "foreign": "a request changed routes / registration / binding of a hostname that is not registered to the caller"}
    for n, k in enumerate(order):
        v = verdict[n]
        rec = uniq[k]
        if n % max(1, len(order) // 5) == 0:
            ck.sample({"step": rec, "verdict": v})
        for clause in ("onlyOwner", "stores", "releases", "foreign"):
            if not v[clause]:
                wi, si = where[k]
                prefix = walks[wi][:si + 1]
                o = byi[wi]["steps"][si]
                ck.violation("C26:%s:%s:%s:%s" % (clause, rec["call"]["op"], relation(rec["pre"], rec["call"]), "ok" if rec["ok"] else "refused"),
                             "%s; request=%s by %s (claimed identity: %s) outcome=%s pre=%s post=%s" % (
                                 names[clause], json.dumps(rec["call"]), rec["call"]["c"], o.get("spoof"), o.get("code"),
                                 json.dumps(rec["pre"]), json.dumps(rec["post"])),
                             {"steps": [{"call": s["call"], "spoof": s["spoof"], "via": s["via"], "delfail": s.get("delfail", 0)} for s in prefix]})
    if getattr(ck, "race_divergence", None) and not ck.viol:
        raise vf.Infra(ck.race_divergence)
    if differs:
        ck.notes.append("%d executed steps differ from the transcribed handlers of the model (judged by the statement only); first: %s"
                        % (differs, json.dumps(differ_example)))
        ck.log("NOTE: %d steps differ from the model; first: %s" % (differs, json.dumps(differ_example)[:600]))
    if others:
        ck.notes.append("keys in the store outside the projection: %s" % sorted(others)[:10])
    ck.assumptions += [
        "DESIGN 4.0: after a publish of k servers slots k+1..3 left by an earlier publish are not judged (they may stay or be cleared, but this publish must not fill them); the order of the servers among slots 1..k is not judged",
        "a route 'names a server' when its tunnel and chord destinations equal that server's published destination record, and 'names the caller' when its "
        "client destination equals the identity derived from the verified certificate",
        "histories issue their RPCs one after the other; racing requests are the separate family above: two requests, the second one atomic inside the first (finer interleavings only in the TunnelRace model)",
        "the DHT is a chord.VNode over the real kv/memory store on one node; the proof of work and the DNS answer of AcmeValidate are valid in every history",
    ]
