"""Registry of claimed checks: id -> dict(level, text, note, technique, ref).  bin/mkmanifest turns this into MANIFEST.json."""
R = {}

def reg(pid, text, note, technique, level="model_checking", ref=None):
    R[pid] = dict(level=level, text=text, note=note, technique=technique, ref=ref or ("DESIGN.md §4 " + pid))

reg("C11",
    "TLC proves the transcribed Between/ModuloSum equal to circular-interval membership and (x+y) mod 2^B on the complete small "
    "domain (and order-invariance of Between), then every enumerated case is executed by the real Go functions under 11 monotone "
    "embeddings into the 2^48 ring / 2 homomorphic embeddings; full-width sums and the hash range are sampled.",
    "Trusts: order-invariance argument (checked in TLC) to lift the small ring to 2^48; xxh3; math/big for the auxiliary probes.",
    "TLA+ spec RingMath: exhaustive TLC case enumeration + replay into spec/chord (forward conformance)")
reg("C12",
    "TLC enumerates all candidate lists (<=4 quick / <=5 thorough) over nil + 5 nodes, all maxLen and both variants, proves the "
    "transcribed loop well-formed, and then validates the lists returned by the real MakeSuccListByID/ByAddress against the "
    "WellFormed predicate of the spec (backward conformance: observations are read back into TLC).",
    "Trusts: functions compare ids/addresses only for equality, so a 3-letter alphabet is representative.",
    "TLA+ spec RingMath: exhaustive TLC case enumeration, real outputs validated by TLC against the spec predicate")

_RING_NOTE = ("Trusts: the controlled scheduler serialises operations at gate granularity (no gate inside a critical section), "
              "so lock-internal races are not explored; finger routing is over-approximated in ChordKV; in-process node references.")
_RING_TECH = "TLA+ spec ChordKV: exhaustive TLC + directed replay of counterexamples into real LocalNodes + TLC trace validation (Trace_ChordKV) of seeded controlled schedules"
reg("C03",
    "ChordKV (membership, transfer, maintenance, client operations) is model-checked exhaustively on a 4-node instance with one joiner, one leaver "
    "and client writes (invariants NoLoss, NoGhost, SingleCopy, Reachable at quiescence); counterexamples of the defective design variants are "
    "replayed into real LocalNodes; seeded controlled schedules (joins, leaves, puts/deletes/appends/removes, maintenance interleaved at gate "
    "granularity) are recorded step by step and every step and every invariant is validated by TLC against the specification; final reads "
    "from every node must return the last acknowledged value.", _RING_NOTE, _RING_TECH)
reg("C04",
    "Same engine as C03 with an operation-heavy mix: each client operation is one scheduler step, TLC checks that a successful operation takes "
    "effect exactly at a node the specification allows and that reads return the latest acknowledged value, that operations answered with the "
    "retryable error leave the recorded state unchanged, and that no other error class reaches a client during graceful churn.",
    _RING_NOTE + " Concurrent overlap of client operations inside one node is not explored by this check.", _RING_TECH)
reg("C05",
    "ChordKV invariants SingleCopy (every recorded state) and Placement (at every maintenance fixpoint with all operations finished) are "
    "model-checked on the small instances and evaluated by TLC on the recorded states of real rings driven through seeded controlled schedules "
    "and through the replayed counterexamples of the defective variants.", _RING_NOTE, _RING_TECH)
reg("C06",
    "ChordKV invariants OneMembershipOp (every recorded state, via the protocol counters the trace validation carries) and NoStuck (every node "
    "back to Active/Left/Inactive at quiescence) on exhaustive small instances and on recorded real executions where joins and leaves race on the "
    "same node and on neighbours; refusals must be retryable (join/leave results are recorded).", _RING_NOTE, _RING_TECH)
reg("C08",
    "The nil-predecessor / departed-predecessor / routed-through-departed-node states are reached by TLC in the defective design variants; their "
    "counterexamples are replayed into real nodes (the join must answer success or a retryable error, no panic), and every join of the seeded "
    "controlled schedules is judged the same way.", _RING_NOTE, _RING_TECH)
reg("C09",
    "ChordRing (ChordKV + finger tables, FindSuccessor with the self-forward as explicit result Diverge) is model-checked: InvTerminates on every "
    "state reachable by join/leave/stabilize/fixFinger of a 4-node B=3 instance (5-node B=4 thorough); counterexamples of the self-forwarding variant "
    "are replayed into real nodes at scaled ids and FindSuccessor is called from every live node for every position, in a child process with a "
    "deadline; seeded schedules issue lookups at every gate of concurrent joins and leaves.",
    "Trusts: scaled embedding id = pos*2^(48-B)+1 (real finger 48-B+k = model finger k); maintenance parked while a lookup runs.",
    "TLA+ spec ChordRing: exhaustive TLC (Terminates) + directed replay of counterexamples + seeded controlled schedules in child processes")


# fragments contributed per property: checks/reg/<ID>.json = {"id","text","note","technique","level"?}
import glob as _glob, json as _json, os as _os
for _f in sorted(_glob.glob(_os.path.join(_os.path.dirname(_os.path.abspath(__file__)), "reg", "*.json"))):
    _d = _json.load(open(_f))
    reg(_d["id"], _d["text"], _d["note"], _d["technique"], _d.get("level", "model_checking"))
