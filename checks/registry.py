"""Registry of claimed checks: id -> dict(level, text, note, technique, ref).  bin/mkmanifest turns this into MANIFEST.json."""
R = {}

def reg(pid, text, note, technique, level="model_checking", ref=None):
    R[pid] = dict(level=level, text=text, note=note, technique=technique, ref=ref or ("DESIGN.md §4 " + pid))

reg("C11",
    "TLC proves the transcribed Between/ModuloSum equal to circular-interval membership and (x+y) mod 2^B on the complete small "
    "domain (and order-invariance of Between), then every enumerated case is executed by the real Go functions under 11 monotone "
    "embeddings into the 2^48 ring / 2 homomorphic embeddings; full-width sums and the hash range are sampled.",
    "Trusts: order-invariance argument (checked in TLC) to lift the small ring to 2^48; xxh3; math/big for the auxiliary probes.",
    "TLA+ spec RingMath: exhaustive TLC case enumeration + replay into spec/chord (forward conformance)")
reg("C12",
    "TLC enumerates all candidate lists (<=4 quick / <=5 thorough) over nil + 5 nodes, all maxLen and both variants, proves the "
    "transcribed loop well-formed, and then validates the lists returned by the real MakeSuccListByID/ByAddress against the "
    "WellFormed predicate of the spec (backward conformance: observations are read back into TLC).",
    "Trusts: functions compare ids/addresses only for equality, so a 3-letter alphabet is representative.",
    "TLA+ spec RingMath: exhaustive TLC case enumeration, real outputs validated by TLC against the spec predicate")
