"""C01 Lookups on a stable ring return the node responsible for the key.  Spec: ChordRing (TableSpec: every member set of
positions on a 2^B ring with its correct pointers and fingers; invariants LookupCorrect, Terminates, HopBound)."""
import json
import vf

RING = 1 << 48

def oracle(ids, key):
    """first member at or clockwise after key"""
    ge = [i for i in ids if i >= key]
    return min(ge) if ge else min(ids)

def stabilized_after_faults(ck, b):
    """rings that reached their maintenance fixpoint the hard way: a member crashed (it stops answering, no leave protocol), another one did not
    answer for one round, and two stabilize rounds of one node overlapped (scenario of C02).  'Once the ring has stabilized' is the same
    premise: at the fixpoint every member must name the responsible node for every key."""
    import ringlib, c02
    sc = c02.overlapping_rounds_after_crash()
    # keys between the nodes, looked up at every surviving member after the quiet period
    lay = []
    for i, it in enumerate(sc["layout"]):
        lay += [it, {"k": "k%d" % i}]
    sc = dict(sc, layout=lay, steps=list(sc["steps"]), name="stabilized-after-crash-and-overlapping-rounds")
    members = ["n0", "n2", "n3"]
    owner = {"k0": "n2", "k1": "n2", "k2": "n3", "k3": "n0"}      # n1 has crashed
    r = 0
    for k in sorted(owner):
        for n in members:
            r += 1
            sc["steps"].append({"do": "start", "op": "lk%d" % r, "kind": "lookup", "at": n, "k": k})
    ev = ringlib.run_scenarios(ck, [sc], binary=b, timeout=900)
    settled = [e for e in ev if e.get("t") == "settled"]
    begin = [e for e in ev if e.get("t") == "begin"][0]
    rank = {name: rk for name, rk in begin["nodes"].items()}
    if not settled or not settled[-1]["stable"]:
        ck.notes.append("the ring of scenario %s did not reach a maintenance fixpoint: its lookups are not judged" % sc["name"])
        return 0
    n = 0
    want_of = {}
    for st in sc["steps"]:
        if st.get("kind") == "lookup":
            want_of[st["op"]] = (st["at"], st["k"], rank[owner[st["k"]]])
    for e in ev:
        if e.get("t") == "step" and e.get("op") in want_of and e.get("to") == "done":
            at, k, want = want_of[e["op"]]
            n += 1
            res = e.get("res") or {}
            ck.count(("faults", at, k), True)
            if res.get("err") != "ok" or res.get("n") != want:
                ck.violation("C01:after-crash:%s" % ("error" if res.get("err") != "ok" else "between"),
                             "after a member crashed and two stabilize rounds of one node overlapped the ring reached a maintenance fixpoint; there FindSuccessor(%s) asked at "
                             "%s returned %s, the responsible member is rank %d (members %s, keys between consecutive nodes)" % (k, at, json.dumps(res), want, members), sc)
    if n == 0:
        raise vf.Infra("scenario %s executed no lookup" % sc["name"])
    ck.traces += 1
    return n


def run(ck):
    b = ck.build("chord")
    cases = []          # (ids, keys, expected-by-TLC or None, origin)
    for (B, maxm) in ([(3, 8)] if not ck.thorough else [(3, 8), (4, 5), (5, 3)]):
        r = ck.tlc("MC_ChordRing", "MC_ChordRing_table.cfg", constants={"B": B, "MaxMembers": maxm}, timeout=1500)
        s = 48 - B
        confs = r.printed
        if not ck.thorough and len(confs) > 255:
            ck.rng.shuffle(confs); confs = confs[:255]
        if ck.thorough and len(confs) > 1200:
            ck.rng.shuffle(confs); confs = confs[:1200]; ck.exhaustive = False
        for c in confs:
            ids = sorted(p * (1 << s) + 1 for p in c["c"]["pos"])
            keys, exp = [], []
            for kp, owner in enumerate(c["e"]["owner"]):          # grid keys: expectation from TLC
                keys.append(kp * (1 << s) + 1); exp.append(owner * (1 << s) + 1)
            for i in ids:                                           # member id +/- 1, extremes: declarative oracle
                for k in ((i - 1) % RING, (i + 1) % RING):
                    keys.append(k); exp.append(None)
            for k in (0, RING - 1, RING // 2):
                keys.append(k); exp.append(None)
            cases.append((ids, keys, exp, "table-B%d" % B))
    # adversarial real layouts
    n_adv = 120 if ck.thorough else 30
    for i in range(n_adv):
        n = 1 + ck.rng.randrange(24 if ck.thorough else 8)
        kind = i % 5
        if kind == 0:
            base = ck.rng.randrange(RING - 100); ids = set(base + j for j in range(n))                      # adjacent ids
        elif kind == 1:
            ids = set([0, RING - 1] + [ck.rng.randrange(RING) for _ in range(max(0, n - 2))])            # extremes 0 and 2^48-1
        elif kind == 2:
            ids = set(ck.rng.randrange(64) for _ in range(n)) | set(RING - 1 - ck.rng.randrange(64) for _ in range(n))  # clusters at both ends
        elif kind == 3:
            c0 = ck.rng.randrange(RING); ids = set((c0 + ck.rng.randrange(1000)) % RING for _ in range(n))  # one cluster
        else:
            ids = set(ck.rng.randrange(RING) for _ in range(n))
        ids = sorted(ids)
        keys = []
        for x in ids:
            keys += [x, (x - 1) % RING, (x + 1) % RING]
        keys += [0, RING - 1] + [ck.rng.randrange(RING) for _ in range(12)]
        cases.append((ids, keys, [None] * len(keys), "adversarial-%d" % kind))
    if ck.replay is not None:
        cases = [(ck.replay["ids"], ck.replay["keys"], [None] * len(ck.replay["keys"]), "replay")]
    inp = [{"ids": [str(i) for i in ids], "keys": [str(k) for k in keys], "order": ck.seed * 1000 + n} for n, (ids, keys, _, _) in enumerate(cases)]
    outs = ck.drive(b, ["ringtable"], input_lines=inp, timeout=3000)
    byi = {o["i"]: o["o"] for o in outs}
    if len(byi) != len(cases):
        raise vf.Infra("driver answered %d of %d configurations" % (len(byi), len(cases)))
    nlook = 0
    for ci, (ids, keys, exp, origin) in enumerate(cases):
        o = byi[ci]
        rep = {"ids": ids, "keys": keys}
        if o.get("err"):
            # a join refused while building: the ring built so far was settled, so a wrong lookup on it (the joiner's id is the last key)
            # is a violation of the property; a refusal no wrong lookup explains is inconclusive
            found = False
            if o.get("stable") and "lookups" in o:
                part = sorted(ids[m] for m in o["members"])
                pkeys = keys + [ids[o["joiner"]]]
                for frm, ki, res, err in o["lookups"]:
                    want = oracle(part, pkeys[ki])
                    got = ids[res] if res >= 0 else None
                    if got != want:
                        found = True
                        cls = "member-id" if pkeys[ki] in part else ("wrap" if pkeys[ki] > max(part) or pkeys[ki] == 0 else "between")
                        ck.violation("C01:%s:%s" % (origin.split("-")[0], cls),
                                     "while building %s the join of %d was refused (%s); on the settled ring of the members so far %s, FindSuccessor(%d) asked "
                                     "at node %d returned %s (%s), the responsible node is %d" % (ids, ids[o["joiner"]], o["err"], part, pkeys[ki], ids[frm], got, err, want), rep)
            if not found:
                raise vf.Infra("could not build the ring %s: %s" % (ids, o["err"]))
            continue
        if not o["stable"]:
            ck.notes.append("ring %s did not reach a maintenance fixpoint in 40 rounds" % ids)
            continue
        ck.count(json.dumps(ids), len(ids) > 1)
        for frm, ki, res, err in o["lookups"]:
            nlook += 1
            want = exp[ki] if exp[ki] is not None else oracle(ids, keys[ki])
            got = ids[res] if res >= 0 else None
            if got != want:
                cls = "member-id" if keys[ki] in ids else ("wrap" if keys[ki] > max(ids) or keys[ki] == 0 else "between")
                ck.violation("C01:%s:%s" % (origin.split("-")[0], cls),
                             "FindSuccessor(%d) asked at node %d of the stable ring %s returned %s (%s), the responsible node is %d"
                             % (keys[ki], ids[frm], ids, got, err, want), rep)
        if ci % max(1, len(cases) // 4) == 0:
            ck.sample({"origin": origin, "ids": ids, "some_lookups": [[ids[f], keys[k], ids[r] if r >= 0 else e] for f, k, r, e in o["lookups"][:6]]})
    if ck.replay is None:
        nlook += stabilized_after_faults(ck, b)
    ck.traces += len(cases)
    ck.evaluations += nlook
    ck.extra["lookups"] = nlook
    ck.rule = ("configurations = every member set of a 2^3-position ring (thorough: also B=4 up to 5 members, B=5 up to 3) from TLC, embedded at ids pos*2^(48-B)+1, "
               "plus seeded adversarial layouts (adjacent ids, 0 and 2^48-1, clusters at both ends, one cluster, random; 1..8 nodes, thorough ..24); each ring is "
               "built by real joins in seeded order and settled to a maintenance fixpoint; FindSuccessor is asked at every node for every grid position, "
               "member ids, member ids +/- 1, 0, 2^48-1 and random ids; plus one ring that reached its fixpoint after a crash and two overlapping stabilize rounds of one node; non-trivial = rings with more than one node; distinct = distinct id sets")
    ck.assumptions += ["'once the ring has stabilized' = a fixpoint of the real stabilize / checkPredecessor / fixFinger with background tasks parked",
                       "scaled embedding: real finger 48-B+k equals model finger k (ChordRing.tla)"]
