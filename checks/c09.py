"""C09 Lookups terminate in every reachable node state.  Spec: ChordRing (Find with the self-forward as the explicit
result Diverge; invariant InvTerminates over every state reachable by the join/leave protocol and maintenance)."""
import json
import vf, ringlib, ringcheck

CODE_FIXSELF = True    # True once FindSuccessor forwards to the successor when no finger precedes the key

CFG = """SPECIFICATION RSpec
CONSTANTS
  L = 4
  FixPred = %(fp)s
  FixLeave = %(fl)s
  FixWrap = %(fw)s
  FixDead = %(fd)s
  FixAdopt = TRUE
  MaxTry = 2
  TrackCov = FALSE
  Goal = "none"
  MCLayout <- %(lay)s
  InitMembers = %(init)s
  Joiners = %(j)s
  Leavers = %(l)s
  MaxOps = 0
  Faults = FALSE
  OpKinds = {}
  MaxMembers = 0
  B = %(B)d
  FixSelf = %(fs)s
INVARIANTS %(inv)s
CHECK_DEADLOCK FALSE
"""

def cfg(fixself, lay="LayR4", init="{1, 3, 4}", j="{2}", l="{3}", B=3, inv="InvTerminates InvLookupCorrect"):
    t = lambda b: "TRUE" if b else "FALSE"
    return CFG % dict(inv=inv, fp=t(ringcheck.CODE_FIXPRED), fl=t(ringcheck.CODE_FIXLEAVE), fw=t(ringcheck.CODE_FIXWRAP), fd=t(ringcheck.CODE_FIXDEAD), lay=lay, init=init, j=j, l=l, B=B, fs=t(fixself))


def replay(ck, binary, sc, origin):
    """one scenario in its own driver process: an unbounded recursion ends in a fatal stack overflow, not a panic"""
    ev = ck.drive(binary, ["script"], input_lines=[sc], timeout=120, allow_fail=True)
    err = getattr(ck, "last_stderr", "")
    ck.count("%s:%s" % (origin, json.dumps(sc["steps"], sort_keys=True)), True)
    ck.traces += 1
    if ck.last_rc != 0:
        if "stack overflow" in err and "FindSuccessor" in err:
            done = [e for e in ev if e.get("t") == "step"]
            last = done[-1] if done else {}
            ck.violation("C09:self-forward", "lookup never returns: FindSuccessor forwards to itself without bound (fatal stack overflow in the "
                         "driver process) in scenario %s (%s) after step %s %s %s" % (sc["name"], origin, last.get("i"), last.get("do"), last.get("op")), sc)
            return False
        raise vf.Infra("driver died: " + err[:1500])
    hung = [e for e in ev if e.get("t") == "step" and e.get("to") == "hung"]
    if hung:       # fixFinger is a sequence of lookups issued to the node itself
        ck.violation("C09:no-return:maintenance", "a maintenance call (%s at node rank %s) did not return within 8 s in scenario %s: it looks up identifiers at the node itself"
                     % (hung[0].get("do"), hung[0].get("n"), sc["name"]), sc)
        return False
    bad = [e for e in ev if e.get("t") == "step" and e.get("kind") == "lookup" and e.get("to") != "done"]
    if bad:
        ck.violation("C09:no-return", "lookup did not return within the deadline in scenario %s: %s" % (sc["name"], bad[0]), sc)
        return False
    for e in ev:
        if e.get("t") == "step" and e.get("kind") == "lookup":
            r = e.get("res") or {}
            if isinstance(r, str) and r.startswith("panic"):
                ck.violation("C09:panic", "lookup panicked in scenario %s: %s" % (sc["name"], r), sc)
    return True


def run(ck):
    binary = ck.build("chord")
    if ck.replay is not None:
        replay(ck, binary, ck.replay, "replay")
        return
    ck.rule = ("cases = (i) directed replays of ChordRing counterexamples / defective-variant counterexamples into real nodes placed at "
               "ids pos*2^(48-B)+1, followed by FindSuccessor from every live node for every position; (i') TLC's shortest behaviours to states in which a "
               "node of each lifecycle state (Active, Joining, Transferring, Leaving) has no finger preceding some key, replayed the same way; (ii) seeded controlled schedules "
               "with lookups issued at every gate of concurrent joins and leaves; each in its own process with a deadline; "
               "non-trivial = all (every case contains a join or leave in flight); distinct = distinct step lists")
    # (A) design as implemented
    for (lay, init, j, l, B) in [("LayR4", "{1, 3, 4}", "{2}", "{3}", 3)] + ([("LayR5", "{1, 2, 4, 5}", "{3}", "{2}", 4)] if ck.thorough else []):
        r = ck.tlc("MC_ChordRing", cfg(CODE_FIXSELF, lay, init, j, l, B), allow_error=True, timeout=1500, workers=min(vf.NCPU, 12))
        if r.error:
            sc = ringlib.cex_to_scenario(ringlib.cex_states(r.trace_json), "mc-cex-" + r.error["name"], finish=False, scale_bits=B, lookups_at_end=True)
            if replay(ck, binary, sc, "mc-counterexample"):
                ck.notes.append("ChordRing counterexample for %s not reproduced by the real code" % r.error["name"])
        if CODE_FIXSELF:   # the defective variant's counterexample is a regression replay
            r = ck.tlc("MC_ChordRing", cfg(False, lay, init, j, l, B), allow_error=True, timeout=600, count=False)
            if r.error and r.trace_json:
                sc = ringlib.cex_to_scenario(ringlib.cex_states(r.trace_json), "variant-cex-" + r.error["name"], finish=False, scale_bits=B, lookups_at_end=True)
                replay(ck, binary, sc, "variant-counterexample")
    # (A') coverage goals: the shortest behaviours that bring a node of each lifecycle state to the "no finger precedes the key" branch
    goals = [("Active", "LayR4", "{1, 3, 4}", "{2}", "{3}", 3), ("Joining", "LayR4", "{1, 3, 4}", "{2}", "{3}", 3),
             ("Transferring", "LayR4", "{1, 3, 4}", "{2}", "{3}", 3), ("Leaving", "LayR4", "{1, 3, 4}", "{2}", "{3}", 3),
             ("Active", "LayR4", "{1, 3}", "{2, 4}", "{}", 3)]
    if ck.thorough:
        goals += [(st, "LayR5", "{1, 2, 4, 5}", "{3}", "{2}", 4) for st in ("Active", "Joining", "Transferring", "Leaving")]
    jobs = [dict(module="MC_ChordRing", cfg=cfg(CODE_FIXSELF, lay, init, j, l, B, inv="InvNoSelfFwd" + st), allow_error=True, timeout=900, workers=4, count=False)
            for (st, lay, init, j, l, B) in goals]
    reached = 0
    for (st, lay, init, j, l, B), r in zip(goals, ck.tlc_many(jobs, parallel=4)):
        if not r.error:
            ck.notes.append("self-forward branch unreachable for a node in state %s (%s, members %s, joiners %s, leavers %s)" % (st, lay, init, j, l))
            continue
        reached += 1
        sc = ringlib.cex_to_scenario(ringlib.cex_states(r.trace_json), "goal-selffwd-%s-%s" % (st, lay), finish=False, scale_bits=B, lookups_at_end=True)
        replay(ck, binary, sc, "coverage-goal")
    ck.extra["selfforward_goal_witnesses"] = reached
    if not reached:
        raise vf.Infra("no coverage goal of the self-forward branch was reached: the branch is not exercised")
    # (B) seeded schedules with lookups at every gate
    n = 120 if ck.thorough else 24
    for i in range(n):
        g = ringlib.Gen(ck.rng, n_nodes=5 + i % 3, n_init=3 + i % 2, n_join=1 + i % 2, n_leave=1, n_ops=10, kinds=("lookup", "lookup", "get", "put"),
                        maint_p=0.25, final_reads=False)
        sc = g.make("lk-%d-%d" % (ck.seed, i))
        replay(ck, binary, sc, "random")
    if len(ck.samples) < 2:
        ck.sample({"scenario": sc["name"], "layout": sc["layout"], "first_steps": sc["steps"][:10]})
    ck.assumptions += ["'bounded time' is judged with background maintenance parked: a lookup must return while no other goroutine can repair the tables",
                       "unbounded recursion is observed as the Go runtime's fatal stack overflow (1 GB) in the child process"]
