"""C51 Clients are offered at most three distinct gateway endpoints.  Spec: TunnelCtl (family getnodes)."""
import vf


def run(ck):
    ck.rule = ("TLC enumerates every successor list up to MaxSucc over {nil, a second virtual node of the asked node, two virtual "
               "nodes of one other physical node, two further physical nodes} x every subset of the four physical nodes whose "
               "destination record is missing (alternately never written / deleted / emptied); the real GetNodes handler (every 4th "
               "case through the real twirp server and client, the rest on the handler with a delegation context) answers on a real "
               "kv/memory store; non-trivial = list with a nil or a repeated address or more than three physical nodes, or a missing record")
    ml = 5 if ck.thorough else 4

    def judge(c, e, o):
        if e["ok"]:
            if not o["ok"]:
                return "GetNodes failed (%s) although every needed destination record exists" % o["code"]
            want = e["nodes"]
            got = o["nodes"]
            if 0 in got:
                return "GetNodes returned an endpoint that is not the tunnel endpoint of any node's destination record"
            if len(got) > 3:
                return "GetNodes returned more than three endpoints"
            if len(set(got)) != len(got):
                return "GetNodes returned the same physical node twice"
            if not got or got[0] != 1:
                return "GetNodes does not start with the asked node itself"
            if sorted(got) != sorted(want):
                return "GetNodes did not return the first three distinct physical nodes of the successor list"
            return None
        if o["ok"]:
            return "GetNodes succeeded although the destination record of one of the offered nodes is missing"
        return None

    def nontrivial(c):
        cc = c["c"]
        addrs = [1] + [x[1] for x in cc["succ"] if x != [0, 0]]
        return [0, 0] in cc["succ"] or len(set(addrs)) < len(addrs) or len(set(addrs)) > 3 or bool(cc["missing"])

    def sig(c, e, o):
        addrs = [x[1] for x in c["succ"]]
        kind = "missing-record" if not e["ok"] else ("over-three" if len(set([1] + [a for a in addrs if a])) > 3 else
                                                    ("repeated-address" if len(set(addrs)) < len(addrs) or 1 in addrs else "plain"))
        return "C51:getnodes:%s:%s" % (kind, "ok" if o["ok"] else "fail")

    vf.table_check(ck, "TunnelCtl", "MC_TunnelCtl_getnodes.cfg", "tunctl", drv_args=["getnodes", "mixed"],
                   constants={"MaxSucc": ml}, judge=judge, nontrivial=nontrivial, sig=sig)
    ck.assumptions += [
        "node ids / addresses are compared for equality only, so four physical nodes (one with a second virtual node besides the asked "
        "node's own) are representative",
        "the ring is replaced by a chord.VNode whose GetSuccessors returns the generated list and whose KV part is the real kv/memory store; "
        "routing of the destination lookups through the DHT is C01-C10's subject",
        "the order of the offered endpoints after the first is not judged",
    ]
