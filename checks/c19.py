"""C19 Leases are exclusive and tokens are honoured only while current.  Spec: KVStore (family lease, virtual clock in
half seconds, symbolic tokens cur / stale / forged / zero).  Backends run on the overlay clock (time.Now in the lease code
of the working tree is redirected to verifclock at build time)."""
import json
import vf, kvlib

def run(ck):
    r = ck.tlc("MC_KVStore", "MC_KVStore_lease.cfg")
    edges = r.printed
    walks = [ck.replay["walk"]] if ck.replay is not None else kvlib.covering_walks(edges, ck.rng, maxlen=60)
    ck.clock_overlay(["kv/memory/lease.go", "kv/sqlite3/lease.go"])
    b = ck.build("kv")
    keys, hashof = [["a"], ["a", "b"]], [2, 2]
    ck.extra["graph_edges"] = len(edges)
    ck.extra["walks"] = len(walks)
    for backend, wi, si, e, step, case in kvlib.run_walks(ck, b, walks, keys, hashof, drv_args=["clock"], sigprefix="C19"):
        op = e["op"]
        ck.count((backend, kvlib.canon(e["from"]), json.dumps(op, sort_keys=True)), op["m"] != "tick")
        got = step["ret"]
        if len(ck.samples) < 4 and op["m"] in ("renew", "release") and si > 3:
            ck.sample({"backend": backend, "state": e["from"], "op": op, "expected": e["ret"], "observed": got})
        held_exp, held_got = e["to"]["lease"][0] != 0, step["st"]["lease"][0]
        rep = {"walk": walks[wi][:si + 1], "backend": backend}
        if got.get("e") != e["ret"].get("e"):
            cls = "%s:%s" % (op["m"], op.get("tok", "ttl%s" % op.get("ttl")))
            if op["m"] == "release" and op.get("tok") == "zero" and e["from"]["lease"][0] == 0 and got.get("e") == "ok":
                ck.violation("C19:%s:release-zero-token-on-free-lease" % backend,
                             "%s: Release with token 0 on a lease nobody holds succeeds instead of failing with the lease-expired error" % backend, rep)
                continue
            ck.violation("C19:%s:%s" % (backend, cls), "%s %s in state %s answered %s, the contract says %s"
                         % (backend, json.dumps(op), kvlib.canon(e["from"]), json.dumps(got), json.dumps(e["ret"])), rep)
        elif held_exp != held_got:
            ck.violation("C19:%s:%s:state" % (backend, op["m"]), "%s %s in state %s: lease held=%s afterwards, the contract says %s"
                         % (backend, json.dumps(op), kvlib.canon(e["from"]), held_got, held_exp), rep)
    # leases must move with the key: lease-only keys are listed by RangeKeys, exported and imported with their token (range family of KVStore)
    if ck.replay is None or ck.replay.get("family") == "range":
        r2 = ck.tlc("MC_KVStore", "MC_KVStore_range.cfg")
        rw = [w for w in kvlib.covering_walks(r2.printed, ck.rng, maxlen=40) if any(e["op"]["m"] == "acquire" for e in w)]
        ck.rng.shuffle(rw)
        rw = rw[:60 if ck.thorough else 20] if ck.replay is None else [ck.replay["walk"]]
        keys3, hash3 = [["a"], ["a", "b"], ["b"]], [1, 2, 2]
        names3 = ["".join(k) for k in keys3]
        for backend, wi, si, e, step, case in kvlib.run_walks(ck, b, rw, keys3, hash3, drv_args=["clock"], sigprefix="C19"):
            op = e["op"]
            if not any(e["from"]["lease"]):
                continue
            ck.count((backend, "range", kvlib.canon(e["from"]), json.dumps(op, sort_keys=True)), True)
            rep = {"walk": rw[wi][:si + 1], "backend": backend, "family": "range"}
            got = step["ret"]
            if op["m"] == "rangekeys":
                want = sorted("".join(x) for x in e["ret"]["ks"])
                if sorted(got.get("ks", [])) != want and set(want) - set(got.get("ks", [])):
                    missing = sorted(set(want) - set(got.get("ks", [])))
                    lease_only = [k for k in missing if e["from"]["lease"][names3.index(k)] and not e["from"]["simple"][names3.index(k)] and not e["from"]["kids"][names3.index(k)]]
                    if lease_only:
                        ck.violation("C19:%s:lease-only-key-not-in-range" % backend,
                                     "%s RangeKeys%s does not list key(s) %s that hold only a lease: the lease would stay behind when the range moves to another node"
                                     % (backend, (op["lo"], op["hi"]), lease_only), rep)
            elif op["m"] == "xfer":
                for into in kvlib.BACKENDS:
                    o = got.get(into) or {}
                    want = [bool(x) for x in e["ret"]["lease"]]
                    if o.get("lease") != want or not all(o.get("tokens_equal", [False])):
                        ck.violation("C19:%s->%s:lease-lost-in-transfer" % (backend, into),
                                     "keys %s exported from %s and imported into %s: leases held afterwards %s (tokens equal %s), expected %s"
                                     % (op["ks"], backend, into, o.get("lease"), o.get("tokens_equal"), want), rep)
    ck.exhaustive = True
    ck.rule = ("TLC emits every edge of the lease model: one lease, TTLs {0.5,1,1.5,2 s}, ticks of 0.5 s and 1.5 s up to 4 s, acquire / renew / "
               "release with the current, a stale, a forged and the zero token; instants with now = expiry are excluded (DESIGN 4.0); "
               "covering walks run on memory, append-only-log and SQLite with the virtual clock; non-trivial = every lease operation")
    ck.assumptions += ["lease code reads the clock only through time.Now() (the overlay build fails otherwise)",
                       "through-the-DHT lease behaviour (token moves with the key on join/leave) is covered by the transfer model of C17 (lease tokens reproduced by export/import)"]
