"""C24 Opening an existing SQLite database never damages its data.  Spec: SqliteOpen (families cases, obs; Fixed twin in thorough).

cases: TLC enumerates the 192 configurations (subset of the v1 tables x index named idx_hash x user_version 0..2 x rows)
       with the outcome of the transcribed open / migrate decision and proves: success => rows kept, complete v1 schema,
       user_version = latest; refusal => nothing changed (except on the configurations the spec marks Divergent).
obs:   every configuration is materialised as a real database file (DDL as in the migration file / as the previous GORM
       implementation wrote it; created through the code's WAL connection string / a plain one), sqlite3.New() is called
       on it, the file is dumped before and after through a plain connection, and the abstracted observation is judged
       by the predicate of the spec in TLC."""
import json
import vf

V1 = ["key_trackers", "simple_entries", "prefix_entries", "lease_entries"]
KEYS = ["k1-simple", "k2-prefix", "k3-lease", "k4-all"]
TOKEN = 4102444800000000000


def _hex(s):
    return s.encode().hex()


def api_expected(cfg):
    """what the store API must return for the rows that were in the file (success implies every table exists)"""
    t = set(cfg["tables"]) if cfg["rows"] else set()
    exp = {}
    for k in KEYS:
        exp[k] = {"simple": None, "kids": [], "tok": "0"}
    if "simple_entries" in t:
        exp["k1-simple"]["simple"] = _hex("v1")
        exp["k4-all"]["simple"] = "00ff04"
    if "prefix_entries" in t:
        exp["k2-prefix"]["kids"] = ["c1", "c2"]
        exp["k4-all"]["kids"] = ["c1"]
    if "lease_entries" in t:
        exp["k3-lease"]["tok"] = str(TOKEN)
        exp["k4-all"]["tok"] = str(TOKEN + 1)
    listed = []
    if "key_trackers" in t:
        listed = sorted(["k1-simple:SIMPLE", "k2-prefix:PREFIX", "k3-lease:LEASE", "k4-all:SIMPLE", "k4-all:PREFIX", "k4-all:LEASE"])
    return exp, listed, (sorted(KEYS) if "key_trackers" in t else [])


def abstract(cfg, o, ref):
    """project the two dumps onto the vocabulary of the spec; returns (observation record, list of reasons)"""
    before, after = o["before"], o["after"]
    why = []
    tables = [t for t in V1 if t in after["cols"] and after["cols"][t] == ref["cols"][t]]
    if "idx_hash" not in after["idxcols"]:
        idx = "none"
    elif after["idxcols"]["idx_hash"] == ref["idxcols"]["idx_hash"]:
        idx = "v1"
    else:
        idx = "foreign"
    kept = True
    for t, rows in before["rows"].items():
        if t not in after["rows"]:
            kept = False
            why.append("table %s is gone" % t)
            continue
        lost = [r for r in rows if r not in after["rows"][t]]
        if lost:
            kept = False
            why.append("%d of %d rows of %s are gone or changed (e.g. %s)" % (len(lost), len(rows), t, lost[0]))
    if o["ok"]:
        api = o.get("api") or {}
        exp, listed, ranged = api_expected(cfg)
        if api.get("export_err") or api.get("listkeys_err") or api.get("rangekeys_err"):
            kept = False
            why.append("the opened store cannot be read: %s" % (api.get("export_err") or api.get("listkeys_err") or api.get("rangekeys_err")))
        else:
            for e, g in zip(api.get("export", []), api.get("get", [])):
                x = exp[e["k"]]
                if (e.get("simple"), e["kids"], e["tok"]) != (x["simple"], x["kids"], x["tok"]):
                    kept = False
                    why.append("Export(%s) returns %s, the rows in the file say %s" % (e["k"], json.dumps(e), json.dumps(x)))
                if (g or None) != x["simple"]:
                    kept = False
                    why.append("Get(%s) returns %r, the row in the file says %r" % (e["k"], g, x["simple"]))
            if api.get("listkeys") != listed:
                kept = False
                why.append("ListKeys returns %s, the tracker rows say %s" % (api.get("listkeys"), listed))
            if api.get("rangekeys") != ranged:
                kept = False
                why.append("RangeKeys(0,0) returns %s, the tracker rows say %s" % (api.get("rangekeys"), ranged))
    same = before == after
    return {"ok": bool(o["ok"]), "tables": tables, "idx": idx, "uv": after["uv"], "kept": kept, "same": same}, why


def diff_dumps(b, a):
    out = []
    if b["uv"] != a["uv"]:
        out.append("user_version %d -> %d" % (b["uv"], a["uv"]))
    bo, ao = {tuple(x[:2]): x for x in b["objects"]}, {tuple(x[:2]): x for x in a["objects"]}
    for k in sorted(set(bo) | set(ao)):
        if k not in ao:
            out.append("%s %s dropped" % k)
        elif k not in bo:
            out.append("%s %s created" % k)
        elif bo[k] != ao[k]:
            out.append("%s %s redefined" % k)
    for t in sorted(set(b["rows"]) | set(a["rows"])):
        if b["rows"].get(t) != a["rows"].get(t):
            out.append("rows of %s: %d -> %d" % (t, len(b["rows"].get(t) or []), len(a["rows"].get(t) or [])))
    return out


def interrupted_open(ck):
    """the first open of an empty directory (the initial migration) stopped at every file-operation boundary: the file it leaves must
    open again (the recorder and the reopening are those of C23)"""
    import os, shutil, sys, tempfile
    import c23
    sys.path.insert(0, os.path.join(vf.VERIF, "lib"))
    import fsrec
    b = ck.build("sqlcrash")
    rec, out, faithful = c23.record(ck, b, [])
    if not faithful:
        ck.notes.append("strace recorder: final image of the first open differs from the directory the run left: interrupted opens not judged")
        return
    imgs = rec.images
    if not ck.thorough and len(imgs) > 150:
        imgs = imgs[:: 1 + len(imgs) // 150] + [imgs[-1]]
    root = tempfile.mkdtemp(prefix="sqlopenimg-", dir=ck.scratch)
    dirs = []
    for i, im in enumerate(imgs):
        d = os.path.join(root, "i%d" % i)
        os.makedirs(d)
        fsrec.materialize({k: v for k, v in im["files"].items() if not k.endswith("-shm")}, d)
        dirs.append(d)
    res = c23.reopen(ck, b, dirs)
    shutil.rmtree(root, ignore_errors=True)
    for im, o in zip(imgs, res):
        ck.count(("interrupted-open", im["after"], json.dumps(sorted((k, len(v)) for k, v in im["files"].items()))), True)
        if "err" in o:
            ck.violation("C24:interrupted-first-open:refused", "the first open of an empty directory was stopped right after '%s'; opening the file it left fails: %s"
                         % (im["after"], o["err"]), {"interrupted": True})
            break
    ck.extra["interrupted_open_images"] = len(imgs)


def run(ck):
    if ck.replay is None or ck.replay.get("interrupted"):
        interrupted_open(ck)
        if ck.replay is not None:
            return
    b = ck.build("sqlopen")
    r = ck.tlc("SqliteOpen", "MC_SqliteOpen_cases.cfg")
    table = r.printed
    if len(table) != 192 and ck.replay is None:
        raise vf.Infra("SqliteOpen emitted %d configurations, 192 expected" % len(table))
    if ck.thorough and ck.replay is None:
        ck.tlc("SqliteOpen", "MC_SqliteOpen_fixed.cfg")       # the one-line repair has the property on all 192 configurations
    refrec = ck.drive(b, ["ref"])[0]
    ref, latest = refrec["ref"], refrec["latest"]
    if latest != 1 or sorted(ref["cols"]) != sorted(V1) or ref["idxcols"].get("idx_hash") != ["key_trackers", "hash"]:
        raise vf.Infra("the schema of /repo moved on (latest migration %s, tables %s): SqliteOpen.tla transcribes version 1" % (latest, sorted(ref["cols"])))
    variants = [("migration", False), ("gorm", True), ("migration", True), ("gorm", False)]
    runs = []       # (tlc record, driver case)
    if ck.replay is not None:
        runs = [(ck.replay["rec"], ck.replay["case"])]
    else:
        order = list(range(len(table)))
        ck.rng.shuffle(order)
        for n, ci in enumerate(order):
            rec = table[ci]
            # quick: two variants per configuration (rotating with the seed), all four for the well-formed layouts and the spec's leads
            full = ck.thorough or rec["e"]["category"] in ("fresh", "legacy", "migrated") or not rec["e"]["holds"]
            vs = variants if full else [variants[(n + ck.seed) % 4], variants[(n + ck.seed + 1) % 4]]
            for style, wal in vs:
                runs.append((rec, dict(rec["c"], style=style, wal=wal)))
    outs = ck.drive(b, [], input_lines=[c for _, c in runs], timeout=1800)
    byi = {o["i"]: o["o"] for o in outs if "i" in o}
    if len(byi) != len(runs):
        raise vf.Infra("driver answered %d of %d cases\n%s" % (len(byi), len(runs), getattr(ck, "last_stderr", "")[-2000:]))
    obs, whys = [], []
    for i, (rec, c) in enumerate(runs):
        o = byi[i]
        if o.get("infra") or o["before"].get("err") or o["after"].get("err"):
            raise vf.Infra("configuration %s could not be materialised / dumped: %s" % (json.dumps(c), o.get("infra") or o["before"].get("err") or o["after"].get("err")))
        # the materialised file must be the configuration (binding sanity)
        bt = sorted(t for t in V1 if t in o["before"]["cols"])
        if bt != sorted(c["tables"]) or ("idx_hash" in o["before"]["idxcols"]) != c["index"] or o["before"]["uv"] != c["uv"] \
           or any(bool(o["before"]["rows"][t]) != c["rows"] for t in bt):
            raise vf.Infra("materialised file does not match configuration %s: %s" % (json.dumps(c), json.dumps(o["before"])[:600]))
        a, why = abstract(c, o, ref)
        obs.append(a)
        whys.append(why)
    lines = "\n".join(json.dumps({"c": {k: c[k] for k in ("tables", "index", "uv", "rows")}, "o": a}) for (_, c), a in zip(runs, obs)) + "\n"
    r2 = ck.tlc("SqliteOpen", "MC_SqliteOpen_obs.cfg", files={"obs_sqlopen.ndjson": lines})
    verdict = {x["c"] - 1: x["e"] for x in r2.printed}
    if len(verdict) != len(runs):
        raise vf.Infra("validator judged %d of %d observations" % (len(verdict), len(runs)))
    drift, leads, reproduced, opened, bytes_changed_on_refusal = 0, 0, 0, 0, 0
    for i, (rec, c) in enumerate(runs):
        o, a, v, why = byi[i], obs[i], verdict[i], whys[i]
        cat = rec["e"]["category"]
        ck.count(json.dumps(c, sort_keys=True), cat != "fresh" or c["wal"])
        opened += a["ok"]
        if not a["ok"] and o.get("bytes_changed"):
            bytes_changed_on_refusal += 1
        if not v["agrees"]:
            drift += 1
        if not rec["e"]["holds"]:
            leads += 1
            reproduced += (not v["ok"])
        if i % max(1, len(runs) // 5) == 0:
            ck.sample({"configuration": c, "category": cat, "opened": a["ok"], "error": o.get("err"), "observation": a,
                       "model": rec["e"]["model"], "verdict": v})
        if v["ok"]:
            continue
        what = "database with tables %s, index idx_hash %s, user_version %d, %s rows (%s DDL, %s connection string): " % (
            c["tables"], "present" if c["index"] else "absent", c["uv"], "with" if c["rows"] else "without", c["style"], "WAL" if c["wal"] else "plain")
        if a["ok"]:
            problems = []
            if not a["kept"]:
                problems.append("rows-lost")
            if sorted(a["tables"]) != sorted(V1) or a["idx"] != "v1":
                problems.append("schema-incomplete")
            if a["uv"] != latest:
                problems.append("version-not-latest")
            detail = "sqlite3.New() succeeds, afterwards: v1 tables %s, idx_hash %s, user_version %d; %s" % (
                a["tables"], {"none": "missing", "v1": "on key_trackers(hash)", "foreign": "on %s" % o["after"]["idxcols"].get("idx_hash")}[a["idx"]],
                a["uv"], "; ".join(why) or "all rows kept and readable")
            detail += "; expected: either all rows kept, the four v1 tables and idx_hash on key_trackers(hash), user_version %d - or a refusal that changes nothing" % latest
        else:
            problems = ["refused-but-modified"]
            detail = "sqlite3.New() refuses (%s) but the file changed: %s; expected: a refused database keeps rows, schema objects and user_version" % (
                o.get("err") or o.get("panic"), "; ".join(diff_dumps(o["before"], o["after"]) + why))
        ck.violation("C24:%s:%s" % (cat, "+".join(problems)), what + detail, {"rec": rec, "case": c})
    ck.traces += len(runs)
    ck.exhaustive = True
    ck.extra.update({"configurations": len(table), "opens": len(runs), "opened": opened, "refused": len(runs) - opened,
                     "model_leads": leads, "model_leads_reproduced": reproduced})
    if drift:
        ck.notes.append("%d observations differ from what the transcribed decision predicts (informative; the verdict comes from the property predicate)" % drift)
    if bytes_changed_on_refusal:
        ck.notes.append("%d refused databases changed bytes of the main file (journal-mode header written by the connection pragma; not judged, DESIGN 4.0)" % bytes_changed_on_refusal)
    if leads != reproduced:
        ck.notes.append("%d of %d configurations on which the transcription violates the property did not do so in the real code" % (leads - reproduced, leads))
    ck.rule = ("TLC enumerates all 192 configurations (16 subsets of the v1 tables x index named idx_hash present/absent (on another table when key_trackers is absent) "
               "x user_version 0/1/2 x with/without rows); each is materialised as a real file with the statements of the repository's migration file in 2 of the 4 "
               "variants {DDL as in the migration file, compact DDL of the previous implementation} x {created through the code's WAL connection string, plain} "
               "(all 4 for fresh / legacy / migrated layouts and in the thorough tier), dumped, opened with sqlite3.New(), read through the store API when it opened, dumped again; the abstracted observation is judged "
               "by the predicate of the spec in TLC; non-trivial = everything but the plain empty file; distinct = distinct (configuration, variant)")
    ck.assumptions += ["'without modifying the file' = rows, schema objects (type, name, table, SQL text) and user_version as seen through a plain connection; bytes of the "
                       "main file rewritten by the journal-mode pragma are counted, not judged (DESIGN 4.0)",
                       "'schema at the current version' = the four v1 tables with their v1 columns and idx_hash on key_trackers(hash), user_version = 1",
                       "the legacy layout is the v1 DDL as GORM wrote it (compact, no IF NOT EXISTS) with user_version 0, as described in kv/sqlite3/schema.go",
                       "which well-formed databases must open is not part of the statement; the spec only records it (invariant WellFormedOpen of the transcription)"]
