"""C21 A clean restart of the append-only log store reproduces its data.  Spec: AOF (invariant CleanRestart: the log at rest
replays to the in-memory state).  Binding: TLC-generated histories (incl. rejected appends, imports, removals) on the real
store, clean Stop, reopen, several stop/reopen cycles; the projection before the stop must equal the one after the reopen."""
import json, re
import vf, aoflib, fsrec

def run(ck):
    b = ck.build("aof")
    ck.tlc("AOF", aoflib.mc_cfg(aoflib.CODE_SKIP_CONFLICT, 3 if not ck.thorough else 4, invs="CleanRestart", maxcrash=2, children='{"c"}'))
    hs = [ck.replay] if ck.replay is not None else aoflib.histories(ck, 120 if ck.thorough else 24)
    for hi, h in enumerate(hs):
        n = len(h["att"])
        # split the history into up to 3 stop/reopen cycles
        cut = sorted(set([n]) | ({ck.rng.randrange(1, n)} if n > 1 else set()) | ({ck.rng.randrange(1, n)} if n > 2 and hi % 2 else set()))
        parts, lo = [], 0
        for c in cut:
            parts.append(h["att"][lo:c]); lo = c
        first = {"att": parts[0], "states": h["states"][:len(parts[0])]}
        cycles = [[dict(a["m"]) for a in p] for p in parts[1:]]
        pad = 700000 if (ck.thorough and hi % 10 == 0) else None     # values crossing the 2 MB segment size
        rec, out = aoflib.record(ck, b, first, stop=True, cycles=cycles, pad=pad)
        events = re.findall(r"^(STOPPED|REOPENED|REOPEN-ERROR) (.*)$", out, re.M)
        ck.count(json.dumps([a["m"] for a in h["att"]]) + str(cut), any(not a["ok"] for a in h["att"]) or len(cut) > 1)
        if hi == 0:
            ck.sample({"history": [a["m"] for a in h["att"]], "cycles_at": cut, "events": [e[0] for e in events]})
        last = None
        ps = aoflib.prefix_states(h)
        done = 0
        for i, (kind, payload) in enumerate(events):
            if kind == "REOPEN-ERROR":
                ck.violation("C21:reopen-fails", "reopen after a clean stop fails: %s; history %s cycles at %s" % (payload, json.dumps([a["m"] for a in h["att"]]), cut), h)
                break
            st = json.loads(payload)
            if pad:
                st["simple"] = {k: re.sub(r"#\d+$", "", v)[:1] if "#" in str(v) else v for k, v in st["simple"].items()}
            if kind == "STOPPED":
                last = st
                done = cut[len([e for e in events[:i + 1] if e[0] == "STOPPED"]) - 1]
                if not pad and st != ps[done]:
                    ck.violation("C21:state-before-stop", "store content %s before the stop differs from the specification's %s" % (json.dumps(st), json.dumps(ps[done])), h)
            elif kind == "REOPENED" and st != last:
                ck.violation("C21:restart-changes-data", "after clean stop and reopen the store holds %s, before the stop %s; history %s, cycles at %s"
                             % (json.dumps(st), json.dumps(last), json.dumps([a["m"] for a in h["att"]]), cut), h)
    ck.traces += len(hs)
    ck.rule = ("TLC-generated histories of 7 mutations (>= 60% with a rejected append) + 3 directed ones, split at seeded points into 1-3 "
               "stop/reopen cycles on the real store; non-trivial = contains a rejected mutation or more than one cycle; distinct = (history, cut points)")
