"""C21 A clean restart of the append-only log store reproduces its data.  Spec: AOF (invariant CleanRestart: the log at rest
replays to the in-memory state).  Binding: TLC-generated histories (incl. rejected appends, imports, removals) on the real
store, clean Stop, reopen, several stop/reopen cycles; the projection before the stop must equal the one after the reopen."""
import json, re
import vf, aoflib, fsrec

def concurrent_writers(ck):
    """the writer loop of the store takes mutations from a queue: with several goroutines writing, rejected appends (the same child from
    several goroutines) and accepted mutations wait in it together; after a clean stop and reopen the store must hold what it held"""
    b = ck.build("kvconc")
    recs = [x for x in ck.drive(b, ["restart", "12" if ck.thorough else "4", "4", "aof"], timeout=900) if "restart" in x]
    if not recs:
        raise vf.Infra("kvconc restart recorded nothing")
    for x in recs:
        ck.count(("concurrent", x["restart"]), True)
        if x.get("reopen_err"):
            ck.violation("C21:reopen-fails:concurrent-writers", "reopen after a clean stop fails after histories of concurrent writers: %s" % x["reopen_err"], None)
            continue
        diff = {k: [x["pre"][k], x["post"].get(k)] for k in x["pre"] if x["pre"][k] != x["post"].get(k)}
        if diff:
            k = sorted(diff)[0]
            ck.violation("C21:restart-changes-data:concurrent-writers",
                         "after histories of 4 concurrently writing goroutines (conflicting appends, puts, removals, deletes), a clean stop and a reopen, "
                         "%d of %d keys differ, e.g. key %s held %s before the stop and %s after the reopen"
                         % (len(diff), x["keys"], k, json.dumps(diff[k][0]), json.dumps(diff[k][1])), None)
    ck.traces += len(recs)
    ck.extra["stop_reopen_cycles_after_concurrent_writers"] = len(recs)
    ck.extra["keys_compared_after_concurrent_writers"] = sum(x.get("keys", 0) for x in recs)


def run(ck):
    b = ck.build("aof")
    ck.tlc("AOF", aoflib.mc_cfg(aoflib.CODE_SKIP_CONFLICT, 3 if not ck.thorough else 4, invs="CleanRestart", maxcrash=2, children='{"c"}'))
    hs = [ck.replay] if ck.replay is not None else aoflib.histories(ck, 120 if ck.thorough else 24)
    for hi, h in enumerate(hs):
        n = len(h["att"])
        # split the history into up to 3 stop/reopen cycles
        cut = sorted(set([n]) | ({ck.rng.randrange(1, n)} if n > 1 else set()) | ({ck.rng.randrange(1, n)} if n > 2 and hi % 2 else set()))
        parts, lo = [], 0
        for c in cut:
            parts.append(h["att"][lo:c]); lo = c
        first = {"att": parts[0], "states": h["states"][:len(parts[0])]}
        cycles = [[dict(a["m"]) for a in p] for p in parts[1:]]
        pad = 700000 if (ck.thorough and hi % 10 == 0) else None     # values crossing the 2 MB segment size
        rec, out = aoflib.record(ck, b, first, stop=True, cycles=cycles, pad=pad)
        events = re.findall(r"^(STOPPED|REOPENED|REOPEN-ERROR) (.*)$", out, re.M)
        ck.count(json.dumps([a["m"] for a in h["att"]]) + str(cut), any(not a["ok"] for a in h["att"]) or len(cut) > 1)
        if hi == 0:
            ck.sample({"history": [a["m"] for a in h["att"]], "cycles_at": cut, "events": [e[0] for e in events]})
        last = None
        ps = aoflib.prefix_states(h)
        done = 0
        for i, (kind, payload) in enumerate(events):
            if kind == "REOPEN-ERROR":
                ck.violation("C21:reopen-fails", "reopen after a clean stop fails: %s; history %s cycles at %s" % (payload, json.dumps([a["m"] for a in h["att"]]), cut), h)
                break
            st = json.loads(payload)
            if pad:
                st["simple"] = {k: re.sub(r"#\d+$", "", v)[:1] if "#" in str(v) else v for k, v in st["simple"].items()}
            if kind == "STOPPED":
                last = st
                done = cut[len([e for e in events[:i + 1] if e[0] == "STOPPED"]) - 1]
                if not pad and st != ps[done]:
                    ck.violation("C21:state-before-stop", "store content %s before the stop differs from the specification's %s" % (json.dumps(st), json.dumps(ps[done])), h)
            elif kind == "REOPENED" and st != last:
                ck.violation("C21:restart-changes-data", "after clean stop and reopen the store holds %s, before the stop %s; history %s, cycles at %s"
                             % (json.dumps(st), json.dumps(last), json.dumps([a["m"] for a in h["att"]]), cut), h)
    if ck.replay is None:
        concurrent_writers(ck)
    ck.traces += len(hs)
    ck.rule = ("TLC-generated histories of 7 mutations (>= 60% with a rejected append) + 3 directed ones, split at seeded points into 1-3 "
               "stop/reopen cycles on the real store; plus stop/reopen cycles after histories of 4 goroutines writing concurrently (the same child appended by "
               "several of them, puts, removals, deletes: rejected and accepted mutations queue up together); non-trivial = contains a rejected mutation or more than one cycle; distinct = (history, cut points)")
