"""C33 Hostname normalization and challenge names are canonical.  Spec: AcmeNames (families gen, obs; design in thorough)."""
import ipaddress, json, vf

KEEP_NORM = ("in", "ok", "out", "ok2", "out2", "ip", "local")
KEEP_TOK = ("same", "t1", "t2")


def run(ck):
    maxlen = 5 if ck.thorough else 4
    variants = 3 if ck.thorough else 2
    pairs = 2000 if ck.thorough else 250
    ck.rule = ("TLC enumerates every abstract hostname of at most %d symbols over {lower, UPPER, digit, '-', '.', space, '*', other ASCII, "
               "non-ASCII, IP literal, local-name token}; each is concretised %d ways (canonical + seeded: unicode spaces, 31 special "
               "characters, 15 non-ASCII letters incl. upper case / full width / alternative dots, public / private / IPv6 literals, "
               "localhost / local in mixed case), the real Normalize is run on the string and on its own output, and the recorded "
               "(in, ok, out, ok2, out2, is-IP, is-local) are judged by the postcondition Post in TLC; %d token pairs per relation "
               "(random, one bit flipped, prefix, appended zero byte, case, empty vs zeros, reversed, same) for the challenge targets; "
               "non-trivial = observation that is accepted, or carries a wildcard, an IP address or a local name" % (maxlen, variants, pairs))
    r = ck.tlc("AcmeNames", "MC_AcmeNames_gen.cfg", constants={"MaxLen": maxlen})
    cases = r.printed
    if ck.replay is not None:
        cases = [ck.replay]
    if ck.thorough and ck.replay is None:
        d = ck.tlc("AcmeNames", "MC_AcmeNames_design.cfg", constants={"MaxLen": 3}, allow_error=True, workers=1)
        if d.error:
            ck.notes.append("TLC: the transcribed design violates DesignHolds (%s)" % _first_line(d))
    b = ck.build("acme")
    recs = ck.drive(b, [str(variants), str(pairs)], input_lines=[c["c"] for c in cases])
    byi = {x["i"]: x["o"] for x in recs if "i" in x}
    if len(byi) != len(cases):
        raise vf.Infra("driver answered %d of %d\n%s" % (len(byi), len(cases), getattr(ck, "last_stderr", "")[-2000:]))
    # flatten: per case a list of (member index, variant, observation)
    flat = []
    lines = []
    for i, c in enumerate(cases):
        fam = c["c"]["fam"]
        if fam == "norm":
            f = [(k, v, o) for k, per in enumerate(byi[i]) for v, o in enumerate(per)]
            keep = KEEP_NORM
        else:
            f = [(0, v, o) for v, o in enumerate(byi[i])]
            keep = KEEP_TOK
        flat.append(f)
        # rejected inputs satisfy every clause of Post (all are "accepted => ..."): only ok is passed on for them
        lines.append(json.dumps({"fam": fam, "v": [({k: o[k] for k in keep} if fam == "token" or o["ok"] else {"ok": False})
                                                   for _, _, o in f]}, separators=(",", ":")))
    r2 = ck.tlc("AcmeNames", "MC_AcmeNames_obs.cfg", files={"obs_acme.ndjson": "\n".join(lines) + "\n"},
                constants={"MaxLen": maxlen}, timeout=900)
    verdict = {rec["c"] - 1: rec["e"] for rec in r2.printed}
    if len(verdict) != len(cases):
        raise vf.Infra("validator judged %d of %d" % (len(verdict), len(cases)))
    leads, reproduced, drift, accepted, nobs = 0, 0, 0, 0, 0
    found = {}      # signature -> (input length, text, replay): the shortest input of each class is reported
    for i, c in enumerate(cases):
        cc, f, bad = c["c"], flat[i], verdict[i]["bad"]
        nobs += len(f)
        if cc["fam"] == "token":
            for _, _, o in f:
                ck.count((cc["rel"], o["a"], o["b"]), not o["same"])
            ck.sample({"case": cc, "observed": f[0][2], "verdict": "ok" if not bad else bad})
            for j, _ in bad:
                o = f[j - 1][2]
                ck.violation("C33:target-collision:%s" % cc["rel"],
                             "distinct tokens %s and %s get the same challenge target %s" % (o["a"], o["b"], o["t1"]), c)
            continue
        badidx = {j - 1 for j, _ in bad}
        for j, (k, v, o) in enumerate(f):
            nt = o["ok"] or o["ip"] or o["local"] or 42 in o["in"]
            ck.count(o["s"], nt)
            accepted += o["ok"]
            if v == 0:
                # the abstract transcription predicts the canonical concretisation (variant 0)
                if (c["e"]["model"][k] == "accept") != o["ok"]:
                    drift += 1
                if not c["e"]["designOk"][k]:
                    leads += 1
                    reproduced += j in badidx
        if i % (len(cases) // 5 + 1) == 0 or (bad and len(ck.samples) < 6):
            j = min(badidx) if badidx else 0
            ck.sample({"abstract": cc["strs"][f[j][0]], "observed": {x: f[j][2][x] for x in ("s", "ok", "o", "ip", "local", "err")},
                       "verdict": [cl for jj, cl in bad if jj - 1 == j]})
        for j, clause in bad:
            k, v, o = f[j - 1]
            sig, msg = _explain(clause, o)
            if sig not in found or len(o["in"]) < found[sig][0]:
                found[sig] = (len(o["in"]), "%s: Normalize(%s) = (%s, ok=%s); again: (%s, ok=%s)" % (
                    msg, o["s"], o["o"] or '""', o["ok"], json.dumps("".join(map(chr, o["out2"]))), o["ok2"]),
                    {"c": dict(cc, strs=[cc["strs"][k]]), "e": {"model": [c["e"]["model"][k]], "designOk": [c["e"]["designOk"][k]]}})
    for sig in sorted(found):
        ck.violation(sig, found[sig][1], found[sig][2])
    ck.traces += nobs
    ck.exhaustive = ck.replay is None
    if ck.replay is None:
        if not accepted:
            raise vf.Infra("Normalize accepted nothing: postcondition judged vacuously")
        if leads and not reproduced:
            raise vf.Infra("the transcribed design violates the property on %d abstract strings but the real Normalize does not: model is wrong" % leads)
        if leads:
            ck.notes.append("design model: %d abstract strings are accepted by the transcription although they are IP addresses; "
                            "%d reproduced by the real Normalize on the canonical concretisation" % (leads, reproduced))
        if drift:
            ck.notes.append("%d canonical concretisations are accepted/rejected differently from the abstract transcription (not judged)" % drift)
    ck.assumptions += ["IDNA / punycode tables and certmagic's subject rules are library data: only the postcondition of the result is judged",
                       "'IP address' / 'local name' are decided by the harness on the input with white space removed (net/netip parse; "
                       "localhost, *.localhost, *.local case-insensitively); 'DNS name made of letters, digits, hyphens and dots' is "
                       "judged as a character-set condition on a non-empty result, not as full RFC 1035 label syntax",
                       "distinctness of challenge targets is SHA-224 collision resistance: sampled on structured and random token pairs"]


def _explain(clause, o):
    if clause == "ip":
        t = "".join(chr(x) for x in o["in"] if not chr(x).isspace())
        kind = "ip"
        try:
            a = ipaddress.ip_address(t)
            internal = a.is_loopback or a.is_link_local or a.is_unspecified or any(
                a in ipaddress.ip_network(n) for n in ("10.0.0.0/8", "172.16.0.0/12", "192.168.0.0/16", "0.0.0.0/16", "fc00::/7"))
            kind = ("ipv%d-" % a.version) + ("internal" if internal else "public")
        except ValueError:
            pass
        return "C33:ip-accepted:" + kind, "an IP address is accepted"
    if clause == "local":
        return "C33:local-name-accepted", "a local name is accepted"
    if clause == "wildcard":
        return "C33:wildcard-accepted", "a wildcard is accepted"
    if clause == "idempotent":
        return "C33:not-idempotent", "normalizing the result again gives something else"
    out = o["out"]
    if not out:
        return "C33:output:empty-or-panic", "the result is empty (%s)" % o.get("err")
    badc = [x for x in out if not (97 <= x <= 122 or 48 <= x <= 57 or x in (45, 46))]
    x = badc[0]
    kind = "uppercase" if 65 <= x <= 90 else "non-ascii" if x > 127 else "space" if chr(x).isspace() else "ascii-0x%02x" % x
    return "C33:output:" + kind, "the result contains %r, not a lowercase letter, digit, hyphen or dot" % chr(x)


def _first_line(d):
    if d.error and d.error.get("text"):
        for ln in d.error["text"].splitlines():
            if ln.startswith("/\\ c ="):
                return ln[3:]
    return "?"
