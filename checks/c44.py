"""C44 After a configuration change, traffic goes to the current target.  Spec: ClientCfg (families conn, conn_gen)."""
import json, os, shutil, threading
import vf, clientlib

HOSTS = ["h1", "h2"]
HTTP_VARIANTS = ["http:listener", "http:headerHost", "http:headerHostLegacy", "http:headerMode", "http:insecure", "http:timeout"]


def to_scenario(hist, rng, name, probe=True, variants=None):
    """a behaviour of ClientCfg!ConnSpec (its history variable) as a gate schedule for the real client"""
    init = hist[0]
    kind = {}
    for h in HOSTS:
        kind[h] = "tcp" if init["hk"][h] == "tcp" else (variants or {}).get(h) or rng.choice(HTTP_VARIANTS)
    steps, nch = [], 0
    for r in hist[1:]:
        a = r["a"]
        if a == "chg_close":
            nch += 1
            steps.append(dict(do="start", op="chg%d" % nch, kind=r["kind"], new=r["new"]))
        elif a == "chg_build":
            steps.append(dict(do="run", op="chg%d" % nch))
        elif a == "conn_load":
            steps.append(dict(do="start", op="conn%d" % r["i"], h=r["h"]))
        elif a == "conn_proxy":
            steps.append(dict(do="run", op="conn%d" % r["i"]))
        elif a == "conn_locked":
            steps.append(dict(do="start", op="conn%d" % r["i"], h=r["h"]))
            steps.append(dict(do="run", op="conn%d" % r["i"]))
        else:
            raise vf.Infra("unknown history record %s" % r)
    return dict(name=name, init=init["cfg"], kind=kind, steps=steps, probe=probe)


def patterns(hist):
    """(kind, hostname, index of the change in hist, removal of exactly this hostname) for every change that gives another value to /
    removes a hostname that has already served a connection"""
    cfg = dict(hist[0]["cfg"])
    served, out = set(), []
    for idx, r in enumerate(hist):
        if r["a"] in ("conn_load", "conn_locked") and cfg[r["h"]] != "none":
            served.add(r["h"])
        elif r["a"] == "chg_close":
            new = r["new"]
            for h in HOSTS:
                if h in served and cfg[h] != "none" and new[h] != cfg[h]:
                    if new[h] == "none":
                        out.append(("remove", h, idx, all(new[g] == cfg[g] for g in HOSTS if g != h)))
                    else:
                        out.append(("refresh", h, idx, False))
            cfg = dict(new)
    return out


def cex_hist(trace_json):
    """the history of a counterexample, rebuilt from consecutive states (the exhaustive check carries no history variable)"""
    ce = trace_json["counterexample"]
    states = [x[1] for x in ce.get("state", [])]
    if not states:
        for item in ce["action"]:
            if not states:
                states.append(item[0][1])
            states.append(item[2][1])
    s0 = states[0]
    hist = [dict(a="init", cfg=s0["cfg"], hk=s0["hk"])]
    for a, b in zip(states, states[1:]):
        if a["chg"]["pc"] == "idle" and b["chg"]["pc"] == "closed":
            hist.append(dict(a="chg_close", kind="rebuild", new=b["chg"]["new"]))
        elif a["chg"]["pc"] == "closed" and b["chg"]["pc"] == "idle":
            hist.append(dict(a="chg_build"))
        elif len(b["conns"]) > len(a["conns"]):
            cn = b["conns"][-1]
            hist.append(dict(a="conn_locked" if cn["pc"] == "done" else "conn_load", i=len(b["conns"]), h=cn["h"]))
        else:
            moved = [i for i, (x, y) in enumerate(zip(a["conns"], b["conns"])) if x["pc"] != y["pc"]]
            if len(moved) != 1:
                raise vf.Infra("cannot read the counterexample step %s -> %s" % (a, b))
            hist.append(dict(a="conn_proxy", i=moved[0] + 1))
    return hist


def judge(ck, sc, o, origin, model=None):
    """declarative verdict on one executed scenario: every connection that overlaps no change must have been forwarded with what the
    client's configuration said for its hostname at that time (or dropped, if the hostname was not configured)"""
    if o["stuck"]:
        raise vf.Infra("operations never finished in scenario %s: %s / %s" % (sc["name"], o["stuck"], o["events"]))
    last = o["applied"][-1]["cfg"]
    if o["final"] != last:
        ck.violation("C44:final-configuration", "after scenario %s the client reports configuration %s, the last applied change was %s"
                     % (sc["name"], o["final"], last), sc)
    INF = 10 ** 9
    chg = [(c["start"], c["end"] or INF) for c in o["changes"]]
    judged = raced = 0
    res = []
    for k, cn in enumerate(o["conns"]):
        if not cn["end"]:
            raise vf.Infra("connection without an outcome in %s" % sc["name"])
        overlaps = any(not (e < cn["start"] or cn["end"] < s) for s, e in chg)
        if overlaps:
            raced += 1
            res.append(dict(cn, judged=False))
            continue
        cur = [a for a in o["applied"] if a["end"] < cn["start"]][-1]["cfg"]
        want = "dropped" if cur[cn["h"]] == "none" else cur[cn["h"]]
        judged += 1
        res.append(dict(cn, judged=True, want=want))
        if cn["got"] == want:
            continue
        obs_err = (cn.get("obs") or {}).get("err", "") if isinstance(cn.get("obs"), dict) else ""
        if "timeout" in obs_err or "deadline" in obs_err:
            # the probe connection itself timed out (loaded machine): this observation proves nothing
            ck.extra["inconclusive_probes"] = ck.extra.get("inconclusive_probes", 0) + 1
            res[-1]["judged"] = False
            judged -= 1
            continue
        when = "race" if raced else "sequential"
        variant = sc["kind"][cn["h"]]
        if want == "dropped":
            what, text = "removed-forwarded", "is forwarded although the hostname is not configured"
        elif cn["got"] == "dropped":
            what, text = "configured-dropped", "is dropped although the hostname is configured"
        elif cn["got"] in ("t1", "t2"):
            what, text = "stale-target", "is forwarded with the previous target/options"
        else:
            what, text = "wrong-forwarding", "is forwarded with neither the current nor the previous setting"
        sig = "C44:%s:%s" % (when, what) + ("" if when == "race" else ":" + variant)
        ck.violation(sig, "scenario %s (%s): connection %s for %s (%s), which overlaps no configuration change, %s: observed %s = %s, configured %s. "
                     "%s. Schedule: %s; cached proxies afterwards: %s"
                     % (sc["name"], origin, cn["op"], cn["h"], variant, text, cn["got"], json.dumps(cn["obs"]), want,
                        ("An earlier connection overlapped a change (it loaded its route before the router was rebuilt and created its proxy after "
                         "the invalidation)") if raced else "No connection overlapped a change",
                        " ".join(fmt_step(s) for s in sc["steps"]), o["proxies"]), sc)
    nmodel = 0
    if model is not None:   # forward conformance with the model as coded (informative: overlapping connections are free)
        for k, m in enumerate(model):
            if k < len(o["conns"]) and o["conns"][k]["got"] != m["got"]:
                nmodel += 1
    return judged, raced, nmodel, res


def fmt_step(s):
    if s["do"] == "start" and s["op"].startswith("chg"):
        return "[%s: %s %s -> invalidate proxies, park before router rebuild]" % (s["op"], s["kind"], json.dumps(s["new"], sort_keys=True))
    if s["do"] == "start":
        return "[%s: connection for %s loads its route, parks before proxy lookup]" % (s["op"], s["h"])
    return "[%s: continue to the end]" % s["op"]


def run(ck):
    ck.rule = ("behaviours = (i) the TLC counterexample of invariant CurrentTarget, if the model as coded has one, (ii) seeded TLC simulation of "
               "ClientCfg!ConnSpec (2 hostnames, 2 values, <=2 changes by RebuildTunnels / doReload / Unpublish|ReleaseTunnel, <=2 connections, http or "
               "tcp), each replayed on a real Client with the gates client:*:closed and client:conn:routed, real local HTTP/TLS listeners as targets, "
               "plus one probe connection per hostname at the end; a model value t1/t2 is bound per hostname to one of: different listener, header "
               "host, header mode, insecure flag, header timeout; evaluations = connections; non-trivial = connections that overlap no change "
               "(judged); distinct = distinct (behaviour, binding) pairs")
    big = ck.thorough
    num = 6000 if big else 1000

    def models(locked):
        """(A) the design as implemented, exhaustively, and (B) behaviour generation, concurrently"""
        lock = "TRUE" if locked else "FALSE"
        gen_consts = {"LockConn": lock, "MaxChanges": 2, "MaxConns": 3 if big else 2}
        # as coded the search stops at the first counterexample (one change suffices); with the connection path excluded
        # by a change the whole space of 2 changes x 2 connections is covered
        mc_consts = dict(gen_consts, MaxChanges=2 if (locked or big) else 1)
        box = {}

        def work(key, fn):
            try:
                box[key] = fn()
            except BaseException as e:  # noqa
                box[key + "_err"] = e
        clientlib.prepare_spec_dir(ck)
        ts = [threading.Thread(target=work, daemon=True, args=("mc", lambda: ck.tlc("ClientCfg", "MC_ClientCfg_conn.cfg", constants=mc_consts,
                                                                                   allow_error=True, timeout=1500))),
              threading.Thread(target=work, daemon=True, args=("gen", lambda: ck.tlc("ClientCfg", "MC_ClientCfg_conn_gen.cfg", constants=gen_consts,
                                                                                    simulate={"num": num}, depth=40, timeout=900))),
              # behaviours without any overlap (connections atomic, excluded by changes): every connection is judged
              threading.Thread(target=work, daemon=True, args=("seq", lambda: ck.tlc("ClientCfg", "MC_ClientCfg_conn_seq.cfg",
                                                                                    constants=dict(gen_consts, LockConn="TRUE"),
                                                                                    simulate={"num": num // 2}, depth=40, timeout=900)))]
        for t in ts:
            t.start()

        def join():
            for t in ts:
                t.join()
            for k in ("mc_err", "gen_err", "seq_err"):
                if k in box:
                    raise box[k]
            return box["mc"], box["gen"], box["seq"]
        return join

    # TLC runs while the driver is built; which model variant describes the tree is decided by the probe below, the source text
    # only provides the first guess (a wrong guess costs a second TLC round)
    guess = False
    try:
        with open(os.path.join(vf.REPO, "tun/client/client.go")) as f:
            body = f.read().split("func (c *Client) handleIncomingDelegation", 1)[1].split("\nfunc ", 1)[0]
        guess = "configMu.RLock()" in body
    except Exception:
        pass
    speculative = None if ck.replay is not None else models(guess)
    binary = ck.build("client")
    d = clientlib.scratch_dir(ck, "c44")
    outs, scen = [], []
    try:
        if ck.replay is not None:
            o = ck.drive(binary, ["conn", d], input_lines=[ck.replay])[0]["o"]
            judge(ck, ck.replay, o, "replay")
            ck.traces += 1
            return
        # does the connection path exclude a running change (repair) or not (as coded)?
        probe = dict(name="lock-probe", init={"h1": "t1", "h2": "none"}, kind={"h1": "http:listener", "h2": "http:listener"}, probe=False,
                     steps=[dict(do="start", op="conn1", h="h1"), dict(do="start", op="chg1", kind="rebuild", new={"h1": "t2", "h2": "none"}),
                            dict(do="run", op="conn1"), dict(do="run", op="chg1")])
        po = ck.drive(binary, ["conn", d], input_lines=[probe])[0]["o"]
        st = {(e["do"], e["op"]): e["status"] for e in po["events"]}
        if not st[("start", "conn1")].startswith("gate:client:conn:routed"):
            raise vf.Infra("the connection did not reach the gate client:conn:routed: %s" % po["events"])
        locked = st[("start", "chg1")] == "blocked"
        if not locked and not st[("start", "chg1")].startswith("gate:client:rebuild:closed"):
            raise vf.Infra("the rebuild did not reach the gate client:rebuild:closed: %s" % po["events"])
        judge(ck, probe, po, "probe")
        ck.extra["connection_path_excludes_changes"] = locked
        r, g, q = speculative()
        if locked != guess:    # the other model variant describes this tree
            ck.states = ck.transitions = 0
            r, g, q = models(locked)()
        if r.error:
            if r.error["kind"] != "invariant" or not r.trace_json:
                raise vf.Infra("unexpected TLC result: %s" % r.error)
            hist = cex_hist(r.trace_json)
            for v in ["http:listener"] + ([] if not big else HTTP_VARIANTS[1:]):
                sc = to_scenario(hist, ck.rng, "mc-counterexample-%s-%s" % (r.error["name"], v), variants={h: v for h in HOSTS})
                scen.append((sc, "counterexample of %s found by TLC in the model as coded" % r.error["name"], None, True))
        else:
            ck.exhaustive = True

        uniq = {}
        for rec in g.printed:
            uniq.setdefault(json.dumps(rec["c"], sort_keys=True), rec)
        recs = list(uniq.values())
        ck.rng.shuffle(recs)
        bad = [x for x in recs if any(e["judged"] and e["got"] != e["want"] for e in x["e"])]
        jud = [x for x in recs if x not in bad and any(e["judged"] for e in x["e"])]
        rest = [x for x in recs if x not in bad and x not in jud]
        nb, nj, nr = (60, 400, 150) if big else (15, 110, 40)
        for tag, lst in (("predicted-violation", bad[:nb]), ("judged", jud[:nj]), ("overlap-only", rest[:nr])):
            for x in lst:
                sc = to_scenario(x["c"], ck.rng, "sim-%s-%d" % (tag, len(scen)))
                scen.append((sc, "TLC simulation (%s)" % tag, x["e"], False))
        # overlap-free behaviours, bound so that every (option that can differ, entry point of the change) pair is exercised where a
        # hostname that already served a connection gets another value, and every entry point where it is removed
        sq = {}
        for rec in q.printed:
            sq.setdefault(json.dumps(rec["c"], sort_keys=True), rec)
        sq = list(sq.values())
        ck.rng.shuffle(sq)
        combos = [(v, k) for k in ("rebuild", "reload") for v in HTTP_VARIANTS]
        rkinds = ["remove", "reload", "rebuild"]
        nref = nrem = nplain = 0
        reps = 4 if big else 2
        for x in sq:
            pats = patterns(x["c"])
            ref = [p for p in pats if p[0] == "refresh" and x["c"][0]["hk"][p[1]] == "http"]
            rem = [p for p in pats if p[0] == "remove"]
            hist = [dict(r) for r in x["c"]]
            if ref and nref < reps * len(combos):
                v, k = combos[nref % len(combos)]
                nref += 1
                hist[ref[0][2]]["kind"] = k
                sc = to_scenario(hist, ck.rng, "seq-refresh-%s-%s-%d" % (v, k, len(scen)), variants={ref[0][1]: v})
            elif rem and nrem < reps * 2 * len(rkinds):
                k = rkinds[nrem % len(rkinds)]
                nrem += 1
                if k != "remove" or rem[0][3]:
                    hist[rem[0][2]]["kind"] = k
                sc = to_scenario(hist, ck.rng, "seq-remove-%s-%d" % (hist[rem[0][2]]["kind"], len(scen)))
            elif nplain < (60 if big else 20):
                nplain += 1
                sc = to_scenario(hist, ck.rng, "seq-%d" % len(scen))
                if nplain % 2 == 0 and all(s.get("kind") != "reload" for s in sc["steps"]):
                    # the same behaviour while the configuration file cannot be saved: what is forwarded follows the configuration in effect
                    for s in sc["steps"]:
                        if s.get("kind") == "rebuild":
                            s["kind"] = "rebuild-nosave"
                    sc["name"] = sc["name"].replace("seq-", "seq-nosave-")
            else:
                continue
            scen.append((sc, "TLC simulation without overlap", x["e"], False))
        # directed: a connection arrives while a change is inside its (failing) save of the configuration file, after the outdated proxies were
        # closed and before the router is rebuilt; probes follow
        for v in ("http:listener", "http:headerHost", "tcp"):
            for h in HOSTS[:2]:
                init = {g: "none" for g in HOSTS}
                init[h] = "t1"
                new = dict(init)
                new[h] = "t2"
                kind = {g: "tcp" if v == "tcp" else v for g in HOSTS}
                steps = [dict(do="start", op="conn1", h=h), dict(do="run", op="conn1"),
                         dict(do="start", op="chg1", kind="rebuild-nosave", new=new), dict(do="step", op="chg1"),
                         dict(do="start", op="conn2", h=h), dict(do="run", op="chg1"), dict(do="run", op="conn2")]
                sc = dict(name="conn-during-save-%s-%s" % (v, h), init=init, kind=kind, steps=steps, probe=True)
                scen.append((sc, "directed: connection during the save", None, False))
        if nref < len(combos) or nrem < len(rkinds):
            raise vf.Infra("generation gave only %d value-change and %d removal behaviours after a served connection" % (nref, nrem))
        outs = ck.drive(binary, ["conn", d], input_lines=[s[0] for s in scen], timeout=1200)
    finally:
        shutil.rmtree(d, ignore_errors=True)
    byi = {x["i"]: x["o"] for x in outs if "i" in x}
    if len(byi) != len(scen):
        raise vf.Infra("driver answered %d of %d scenarios\n%s" % (len(byi), len(scen), getattr(ck, "last_stderr", "")[-1500:]))
    tot_j = tot_r = tot_m = 0
    unreproduced = None
    for i, (sc, origin, model, must) in enumerate(scen):
        before = len(ck.viol)
        judged, raced, nmodel, res = judge(ck, sc, byi[i], origin, model)
        tot_j, tot_r, tot_m = tot_j + judged, tot_r + raced, tot_m + nmodel
        for cn in res:
            ck.count((json.dumps(sc["steps"], sort_keys=True), json.dumps(sc["kind"], sort_keys=True), cn["op"]), cn["judged"])
        ck.traces += 1
        if i % (len(scen) // 5 + 1) == 0 or (must and i == 0):
            ck.sample({"scenario": sc["name"], "binding": sc["kind"], "init": sc["init"], "steps": [fmt_step(s) for s in sc["steps"]],
                       "connections": [{k: c.get(k) for k in ("op", "h", "judged", "want", "got")} for c in res]})
        if must and i == 0 and len(ck.viol) == before:
            unreproduced = ("TLC's counterexample of the model as coded is not reproduced by the real client (model or binding out of date): %s -> %s"
                            % ([fmt_step(s) for s in sc["steps"]], [(c["op"], c["got"]) for c in byi[i]["conns"]]))
    if unreproduced and not ck.viol:      # the tree follows neither variant of the model and no behaviour showed a violation: inconclusive
        raise vf.Infra(unreproduced)
    if unreproduced:
        ck.notes.append(unreproduced)
    ck.extra["judged_connections"] = tot_j
    ck.extra["overlapping_connections"] = tot_r
    if tot_m:
        ck.notes.append("%d connection outcomes differ from the model's prediction (overlapping connections are free; informative)" % tot_m)
    ck.assumptions += ["gates sit between proxy invalidation and router rebuild and between route load and proxy lookup; interleavings inside these "
                       "segments are not explored", "a value t1/t2 of the model is one (target, options) pair; the target side reports which listener was "
                       "reached, the Host header it saw and the status, from which the value in effect is read back",
                       "gateway RPCs (publish, unpublish, release, registered hostnames) are scripted and succeed; in the nosave behaviours saving the configuration file fails (the change applies all the same)",
                       "DESIGN 4.0: connections whose handling overlaps a change are not judged"]
