"""C07 — a failed or timed-out join or leave loses no data and locks no node (fault enumeration).

Spec ChordFault (EXTENDS ChordKV): every RPC of the join and leave protocols can lose its request or its response.
One TLC run enumerates all cells (RPC x fault mode x first/every occurrence x error kind x scenario) and emits, for
every quiescent state, the outcome (state of every node, holders of every key, acknowledged keys no longer served):
the model's PREDICTION per cell.  Each cell is then executed on real LocalNodes that talk through the fault-injecting
RPC fabric (harness/verifkit/fabric, driver chordfault): retries run out with their real back-off, maintenance runs to
a fixpoint, node states + stored copies + Get of every acknowledged key from every remaining node are observed.
  * the observation is judged by the property statement (a remaining node outside Active, or an acknowledged key that
    some remaining node cannot read => violation, signature C07:<rpc>:<mode>:<scenario>:<symptom>);
  * the observation must be the predicted outcome; a deviation that does not itself break the property means the
    model does not describe the code: exit 2.
"""
import json, os, concurrent.futures
import vf

LEVEL = "fault_enumeration"

RPC_RULE = {
    "RequestToJoin": ("RequestToJoin", ""),
    "FinishJoin-advisory": ("FinishJoin", "advisory"),
    "FinishJoin-release": ("FinishJoin", "release"),
    "RequestToLeave": ("RequestToLeave", ""),
    "FinishLeave-advisory": ("FinishLeave", "advisory"),
    "FinishLeave-release": ("FinishLeave", "release"),
    "Import": ("Import", ""),
}
JOIN_RPCS = {"RequestToJoin", "FinishJoin-advisory", "FinishJoin-release", "Import"}
LEAVE_RPCS = {"RequestToLeave", "FinishLeave-advisory", "FinishLeave-release", "Import"}
RETRIED = {"RequestToJoin", "RequestToLeave", "Import"}      # calls that are repeated by a retry loop
MODES = ("fail-before", "lose-response")
SERVING = ("Inactive", "Active", "Left")

CFG = """SPECIFICATION FSpec
CONSTANTS
  L = 4
  FixPred = TRUE
  FixLeave = TRUE
  FixWrap = TRUE
  FixDead = TRUE
  FixAdopt = TRUE
  MaxTry = 3
  TrackCov = FALSE
  Goal = "none"
  MCLayout <- Lay
  InitMembers = {}
  Joiners = {}
  Leavers = {}
  MaxOps = 0
  Faults = TRUE
  OpKinds = {}
  Scenarios <- MCScenarios
  CellSet <- %(cells)s
  MaintAny = %(any)s
INVARIANTS InvEmitOutcome InvFNoLoss InvFNoGhost
CHECK_DEADLOCK FALSE
"""


def cell_key(c):
    return (c["scen"], c["rpc"], c["mode"], c["occ"], c["err"])


def applicable(c, scen):
    if c["rpc"] == "none":
        return False
    return c["rpc"] in (JOIN_RPCS if scen["joiner"] else LEAVE_RPCS)


def model_outcome(r):
    return dict(fired=bool(r["fired"]), st=list(r["st"]), holders=[sorted(h) for h in r["holders"]],
                unserved=sorted(r["unserved"]), lost=sorted(r["lost"]))


def okey(o, full=True):
    if full:
        return json.dumps([o["fired"], o["st"], o["holders"], o["unserved"]])
    return json.dumps([o["st"], o["holders"]])


def symptoms(o):
    """what the property statement forbids at quiescence -> {symptom: detail}"""
    out = {}
    for i, st in enumerate(o["st"]):
        if st not in SERVING:
            out.setdefault("stuck-" + st.lower(), []).append("n%d" % (i + 1))
    for k in o["lost"]:
        out.setdefault("key-lost", []).append("k%d" % k)
    for k in o["unserved"]:
        if k not in o["lost"]:
            out.setdefault("key-unreachable", []).append("k%d" % k)
    return out


def predict(ck, cellset, maint_any):
    """-> (scenarios by name, predictions: cell key -> list of outcomes)"""
    r = ck.tlc("MC_ChordFault", CFG % dict(cells=cellset, any="TRUE" if maint_any else "FALSE"), timeout=900, workers=min(vf.NCPU, 8))
    scens, pred = {}, {}
    for rec in r.printed:
        if rec["t"] == "scen":
            scens[rec["name"]] = rec
        elif rec["t"] == "outcome":
            o = model_outcome(rec)
            l = pred.setdefault(cell_key(rec["cell"]), [])
            if all(okey(x) != okey(o) for x in l):
                l.append(o)
    if not r.finished or not pred or not scens:
        raise vf.Infra("ChordFault produced no predictions")
    return scens, pred, r


# ----------------------------------------------------------------------------- real cases
def successor_of(scen, node):
    """the member that follows position of node on the circle"""
    npos = scen["npos"]
    mem = sorted(scen["members"], key=lambda m: npos[m - 1])
    above = [m for m in mem if npos[m - 1] > npos[node - 1]]
    return above[0] if above else mem[0]


def make_case(cell, scen, rng, maint="after", via_mode=None, tag=""):
    items = sorted([(p, {"n": "n%d" % (i + 1)}) for i, p in enumerate(scen["npos"])] +
                   [(p, {"k": "k%d" % (i + 1)}) for i, p in enumerate(scen["kpos"])], key=lambda x: x[0])
    members = list(scen["members"])
    rng.shuffle(members)
    case = {"cell": cell, "scen": scen["name"], "layout": [x[1] for x in items], "variant": rng.randrange(4),
            "members": ["n%d" % m for m in members], "maint": maint, "rule": None, "via": "", "tag": tag}
    target = ""
    if scen["joiner"]:
        x = successor_of(scen, scen["joiner"])
        others = [m for m in scen["members"] if m != x]
        if via_mode is None:
            via_mode = rng.choice(["x", "other", "first-hop"])
        via = x if via_mode == "x" else rng.choice(others)
        case.update(op="join", node="n%d" % scen["joiner"], via="n%d" % via)
        # the hop that is disturbed: the one that reaches the successor, or the joiner's own call to the contacted node
        target = "n%d" % (via if via_mode == "first-hop" else x)
        case["via_mode"] = via_mode
    else:
        case.update(op="leave", node="n%d" % scen["leaver"])
    if cell["rpc"] != "none":
        method, sub = RPC_RULE[cell["rpc"]]
        case["rule"] = {"method": method, "sub": sub, "target": target if method == "RequestToJoin" else "",
                        "nth": 1 if cell["occ"] == "first" else 0, "mode": cell["mode"], "err": cell["err"]}
    case["name"] = "%s/%s/%s/%s/%s%s" % (cell["scen"], cell["rpc"], cell["mode"], cell["occ"], cell["err"], tag)
    return case


def real_outcome(case, scen, ans):
    """normalise a driver answer into the model's outcome vocabulary"""
    N, K = len(scen["npos"]), len(scen["kpos"])
    after = ans.get("after") or {}
    acked = ans.get("acked") or {}
    st = [(after.get("n%d" % (i + 1)) or {}).get("st", "Inactive") for i in range(N)]
    holders, lost, unserved, extra = [], [], [], []
    gets = ans.get("gets") or {}
    for k in range(1, K + 1):
        kn = "k%d" % k
        want = acked.get(kn)
        h = []
        for i in range(N):
            v = ((after.get("n%d" % (i + 1)) or {}).get("store") or {}).get(kn)
            if v is None:
                continue
            if v == want:
                h.append(i + 1)
            elif "ghost-value" not in extra:
                extra.append("ghost-value")
        holders.append(h)
        if want is not None and not h:
            lost.append(k)
        answers = gets.get(kn) or {}
        if want is not None and (not answers or any(a != "val:" + want for a in answers.values())):
            unserved.append(k)
    if not ans.get("stable", False):
        extra.append("no-fixpoint")
    return dict(fired=(ans.get("fired") or 0) > 0, st=st, holders=holders, unserved=unserved, lost=lost, extra=extra)


def drive_parallel(ck, binary, cases, procs):
    chunks = [cases[i::procs] for i in range(procs)]
    chunks = [c for c in chunks if c]

    def one(chunk):
        recs = ck.drive(binary, [], input_lines=chunk, timeout=900)
        byi = {r["i"]: r["o"] for r in recs if "i" in r}
        if len(byi) != len(chunk):
            raise vf.Infra("driver chordfault answered %d of %d cases" % (len(byi), len(chunk)))
        return [byi[i] for i in range(len(chunk))]

    out = [None] * len(cases)
    with concurrent.futures.ThreadPoolExecutor(max_workers=len(chunks)) as ex:
        res = list(ex.map(one, chunks))
    for ci, answers in enumerate(res):
        for j, a in enumerate(answers):
            out[ci + j * procs] = a
    return out


# ----------------------------------------------------------------------------- the check
def run(ck):
    binary = ck.build("chordfault")
    replay = ck.replay
    quick = not ck.thorough and replay is None
    scens, pred_idle, r1 = predict(ck, "MCCellsQuick" if quick else "MCCells", maint_any=False)
    pred_any = None
    if ck.thorough or (replay and replay.get("maint") == "between"):
        _, pred_any, _ = predict(ck, "MCCells", maint_any=True)

    # sanity of the model side (vacuity): the fault-free control cells are clean, some cells are predicted to fail,
    # every prediction under the driver's schedule is a single outcome
    for key, outs in pred_idle.items():
        if len(outs) != 1:
            raise vf.Infra("the prediction for cell %s is not unique: %s" % (":".join(key), outs))
        if key[1] == "none" and symptoms(outs[0]):
            raise vf.Infra("the model breaks the property without any fault: %s" % (outs[0],))
    predicted_bad = sorted(":".join(k) for k, outs in pred_idle.items() if symptoms(outs[0]))
    if not predicted_bad:
        raise vf.Infra("the model predicts no failing cell at all (no lock timeout exists in the code): vacuous")
    ck.extra["cells_predicted"] = len(pred_idle)
    ck.extra["cells_predicted_failing"] = len(predicted_bad)
    if pred_any is not None:
        ck.extra["cells_failing_under_some_interleaving"] = sum(1 for outs in pred_any.values() if any(symptoms(o) for o in outs))

    # the real runs
    if replay is not None:
        cases = [replay]
    else:
        cases = []
        for key in sorted(pred_idle):
            cell = dict(scen=key[0], rpc=key[1], mode=key[2], occ=key[3], err=key[4])
            scen = scens[key[0]]
            cases.append(make_case(cell, scen, ck.rng))
            if ck.thorough and applicable(cell, scen):
                if scen["joiner"]:
                    first = cases[-1]["via_mode"]
                    other = ck.rng.choice([m for m in ("x", "other", "first-hop") if m != first])
                    cases.append(make_case(cell, scen, ck.rng, via_mode=other, tag="#2"))
                else:
                    cases.append(make_case(cell, scen, ck.rng, tag="#2"))
                cases.append(make_case(cell, scen, ck.rng, maint="between", tag="#between"))
    # a leaver that holds several hundred keys: the hand-over may take more than one Import call; each of them is disturbed in turn.
    # (outside the ChordFault model, which hands the keys over in one step: judged by the statement alone)
    bulk_cases = []
    if replay is None or replay.get("bulk"):
        for key in sorted(pred_idle):
            if key[1] == "Import" and key[0] == "leave-populated" and key[3] == "first":
                cell = dict(scen=key[0], rpc=key[1], mode=key[2], occ=key[3], err=key[4])
                for nth, frm in ((1, 0), (2, 0), (3, 0), (0, 2), (0, 3)):        # one call disturbed / every call from the k-th on
                    c = make_case(cell, scens[key[0]], ck.rng, tag="#bulk-import-%s" % (nth or "from%d" % frm))
                    c["bulk"] = 2400
                    c["rule"]["nth"], c["rule"]["from"] = nth, frm
                    bulk_cases.append(c)
        if replay is not None:
            bulk_cases, cases = [replay], []
    answers = drive_parallel(ck, binary, cases + bulk_cases, procs=1 if len(cases) < 4 else 4)
    for case, ans in zip(bulk_cases, answers[len(cases):]):
        cell = case["cell"]
        if ans.get("err"):
            if ans["err"] == "operation did not return":
                ck.violation("C07:Import:%s:leave-populated:operation-hangs:bulk" % cell["mode"], "leave never returned in case %s" % case["name"], case)
                continue
            raise vf.Infra("driver chordfault failed on %s: %s" % (case["name"], ans["err"]))
        ck.count(case["name"], (ans.get("fired") or 0) > 0)
        st = {n: (v or {}).get("st") for n, v in (ans.get("after") or {}).items()}
        stuck = sorted(n for n, x in st.items() if x not in SERVING)
        miss = ans.get("bulk_missing") or []
        if stuck:
            ck.violation("C07:Import:%s:leave-populated:stuck:bulk" % cell["mode"], "leave of a node holding about a third of %d keys, Import call %s disturbed (%s): %s stay(s) %s after quiescence"
                         % (ans.get("bulk", 0), case["rule"]["nth"] or "%d and later" % case["rule"]["from"], cell["mode"], stuck, [st[n] for n in stuck]), case)
        if miss:
            ck.violation("C07:Import:%s:leave-populated:key-unreachable:bulk" % cell["mode"],
                         "leave of a node holding about a third of %d keys, Import call %s disturbed (%s, fired=%s, leave result %s): after quiescence %d acknowledged keys are not "
                         "served any more, e.g. %s" % (ans.get("bulk", 0), case["rule"]["nth"] or "%d and later" % case["rule"]["from"], cell["mode"], ans.get("fired"), ans.get("op_res"), len(miss), miss[:3]), case)
    answers = answers[:len(cases)]
    ck.extra["bulk_leave_runs"] = len(bulk_cases)

    mismatches, unpredicted, fired_pairs = [], 0, set()
    for case, ans in zip(cases, answers):
        cell = case["cell"]
        key = cell_key(cell)
        scen = scens[case["scen"]]
        base = case["scen"].replace("-wrap", "")
        if ans.get("err"):
            if ans["err"] == "operation did not return":
                ck.violation("C07:%s:%s:%s:operation-hangs" % (cell["rpc"], cell["mode"], base),
                             "%s never returned in case %s (calls: %s)" % (case["op"], case["name"], ans.get("calls")), case)
                unpredicted += 1
                continue
            raise vf.Infra("driver chordfault failed on %s: %s" % (case["name"], ans["err"]))
        obs = real_outcome(case, scen, ans)
        if "no-fixpoint" in obs["extra"]:
            raise vf.Infra("the ring of case %s does not reach a maintenance fixpoint within %s rounds" % (case["name"], ans.get("rounds")))
        between = case.get("maint") == "between"
        preds = (pred_any if between else pred_idle).get(key)
        if preds is None:
            raise vf.Infra("no prediction for cell %s" % (key,))
        matched = okey(obs, not between) in {okey(p, not between) for p in preds} and not obs["extra"]
        sy = symptoms(obs)
        psy = set()
        for p in preds:
            psy |= set(symptoms(p))
        nontrivial = obs["fired"]
        ck.count(case["name"] + "|" + case.get("via", "") + "|" + str(case["variant"]) + "|" + ",".join(case["members"]), nontrivial)
        if nontrivial and not between:
            fired_pairs.add((cell["rpc"], cell["mode"]))
        if len(ck.samples) < 6 and nontrivial and (len(ck.samples) % 2 == (1 if sy else 0)):
            ck.sample({"cell": cell, "op": case["op"], "node": case["node"], "via": case.get("via"), "maint": case["maint"],
                       "predicted": preds[0] if len(preds) == 1 else preds, "observed": {k: obs[k] for k in ("fired", "st", "holders", "unserved", "lost")},
                       "op_result": ans.get("op_res"), "rpc_calls": (ans.get("calls") or [])[:8]})
        for s, who in sorted(sy.items()):
            if s not in psy:
                unpredicted += 1
            detail = []
            for i, st in enumerate(obs["st"]):
                if st not in SERVING:
                    detail.append("n%d stays %s" % (i + 1, st))
            for k in obs["unserved"]:
                detail.append("k%d: %s" % (k, json.dumps((ans.get("gets") or {}).get("k%d" % k), sort_keys=True)))
            ck.violation("C07:%s:%s:%s:%s" % (cell["rpc"], cell["mode"], base, s),
                         "%s of %s (%s%s, occurrence=%s, error=%s, scenario %s, maintenance %s) ended with %s [%s]; after quiescence: %s; "
                         "holders=%s; operation result=%s; the model %s this outcome" % (
                             case["op"], case["node"], ("via %s, " % case["via"]) if case.get("via") else "", cell["rpc"] + " " + cell["mode"],
                             cell["occ"], cell["err"], case["scen"], case["maint"], s, ",".join(w for w in who if w), "; ".join(detail),
                             obs["holders"], ans.get("op_res"), "predicts" if s in psy else "does NOT predict"), case)
        if not matched:
            mismatches.append("%s: predicted %s, observed %s (op result %s, calls %s)" % (
                case["name"], [json.loads(okey(p, not between)) for p in preds], json.loads(okey(obs, not between)) + obs["extra"],
                ans.get("op_res"), (ans.get("calls") or [])[:6]))
    ck.traces += len(cases)
    ck.exhaustive = replay is None
    ck.extra["cells_run_on_real_nodes"] = len({cell_key(c["cell"]) for c in cases})
    ck.extra["real_runs"] = len(cases)
    ck.extra["model_mismatches"] = len(mismatches)
    ck.extra["predicted_failing_cells"] = predicted_bad[:40]
    if replay is None:
        missing = [(r, m) for r in RPC_RULE for m in MODES if (r, m) not in fired_pairs]
        if missing:
            raise vf.Infra("fault never fired for %s" % missing)
    ck.rule = ("one evaluation = one cell (membership RPC x fail-before/lose-response x first/every occurrence x deadline/transport error x "
               "scenario: join into a populated 3-node ring / leave of a populated node, each also across the origin of the identifier circle) "
               "executed on real LocalNodes over the fault-injecting RPC fabric (seeded id placement, member order, contacted node, disturbed hop; "
               "thorough: a second placement and a run with a maintenance round between the attempts), compared with the ChordFault prediction; "
               "non-trivial = the fault rule fired at least once; distinct = distinct (cell, placement) pairs")
    ck.assumptions += [
        "the fabric delivers a call synchronously in the caller's goroutine; a lost response is reported at once instead of after the RPC timeout",
        "one fault rule per run (single RPC kind); maintenance tasks are parked and invoked by the driver in rounds until nothing changes",
        "the model bounds the retry loops at 3 attempts (code: 10); 'every occurrence' outlasts both",
        "key reachability is judged by Get from every remaining node after the fixpoint, not by waiting for a hypothetical later repair",
    ]
    if mismatches:
        ck.notes.append("%d run(s) deviate from the prediction: %s" % (len(mismatches), " || ".join(mismatches[:4])))
        if unpredicted == 0:
            raise vf.Infra("the real code does not behave as ChordFault predicts (and does not break the property there): " + " || ".join(mismatches[:4]))
