"""C11 Identifier arithmetic implements the 2^48 ring exactly.  Spec: RingMath (families between, sum)."""
import vf

def run(ck):
    ck.rule = ("TLC enumerates every (low,target,high,inclusive) of a ring of M ids and every (x,y) of W-bit words; "
               "each case is run through Go Between under 11 monotone embeddings into 2^48 and through ModuloSum under 2 "
               "homomorphic embeddings; non-trivial = every case (all are distinct inputs)")
    M = 16 if ck.thorough else 8
    b = ck.build("ringmath")
    # Between
    def judge(c, e, o):
        bad = [k for k, v in enumerate(o) if v != e]
        return ("Between differs from circular-interval membership under embedding(s) %s" % bad) if bad else None
    vf.table_check(ck, "RingMath", "MC_RingMath_between.cfg", "ringmath", binary=b, drv_args=["between", str(M)],
                   constants={"M": M}, judge=judge,
                   sig=lambda c, e, o: "C11:between:l%s-t%s-h%s-%s" % (_ord(c), "", "", c["incl"]))
    # ModuloSum
    W, B = (9, 5) if ck.thorough else (7, 4)
    def judge2(c, e, o):
        return None if all(v == e for v in o) else "ModuloSum differs from (x+y) mod 2^48 on the embedded operands"
    vf.table_check(ck, "RingMath", "MC_RingMath_sum.cfg", "ringmath", binary=b, drv_args=["sum", str(W), str(B)],
                   constants={"W": W, "B": B}, judge=judge2,
                   sig=lambda c, e, o: "C11:sum:%d+%d" % (c["x"], c["y"]))
    # full-width probes and hash range
    for r in ck.drive(b, ["extra"]):
        ck.evaluations += r["n"]
        ck.sample(r)
        if r["bad"]:
            ck.violation("C11:%s" % r["kind"], "%s: %d of %d wrong; %s" % (r["kind"], r["bad"], r["n"], r.get("first", "")), r)
    ck.assumptions += ["Between depends only on the relative order of its arguments (proved by TLC on the small ring: ASSUME OrderInvariant)",
                       "xxh3 is trusted; the hash-range clause is sampled (200k seeded byte strings), the model adds nothing to it",
                       "math/big is the reference for the auxiliary full-width ModuloSum probes"]

def _ord(c):
    v = sorted(set([c["l"], c["t"], c["h"]]))
    return "%d%d%d" % (v.index(c["l"]), v.index(c["t"]), v.index(c["h"]))
