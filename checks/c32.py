"""C32 Client certificates carry a stable identity that only the key holder can renew.  Spec: Pki (families cases, obs)."""
import json, vf


def run(ck):
    ck.rule = ("TLC enumerates the renewal decision table (issuer client CA | foreign CA, v1 | v2 subject, proof key = certificate key, "
               "proof valid) and 6 issuance scenarios (key sequences with repeats), proves the transcribed order of checks equivalent "
               "to the stated condition; each case is concretised several ways (foreign CA with the same name / another name / "
               "self-signed; proof invalid by signature, signer, difficulty, zero bits, expiry, window or subject; certificates issued by "
               "RequestCertificate or directly by the CA, the latter also with a hash component that is not the key's and with further subject attributes) through the real pki.Server with real x509/ed25519/proof-of-work; the "
               "observations are read back into TLC and judged by RenewDecl / IssueDecl; non-trivial = every (case, variant)")
    variants = 6 if ck.thorough else 3
    r = ck.tlc("Pki", "MC_Pki_cases.cfg")
    cases = r.printed
    if ck.replay is not None:
        cases = [ck.replay]
    b = ck.build("pki")
    recs = ck.drive(b, [str(variants)], input_lines=[c["c"] for c in cases])
    byi = {x["i"]: x["o"] for x in recs if "i" in x}
    if len(byi) != len(cases):
        raise vf.Infra("driver answered %d of %d\n%s" % (len(byi), len(cases), getattr(ck, "last_stderr", "")[-2000:]))
    flat = []   # (case index, variant, case, obs)
    for i, c in enumerate(cases):
        cc = c["c"]
        for v, o in enumerate(byi[i]):
            if cc["fam"] == "renew":
                want = (cc["ca"] == "client", cc["ver"] == "v2", cc["key"])
                if (o["FCA"], o["FV2"], o["FKey"]) != want:
                    raise vf.Infra("harness built objects whose conditions differ from the case: %s %s" % (json.dumps(cc), json.dumps(o)))
            elif o.get("err"):
                raise vf.Infra("issuance with a valid proof failed (nothing to judge): %s" % o["err"])
            flat.append((i, v, c, o))
    obs = "\n".join(json.dumps({"c": c["c"], "o": o}) for _, _, c, o in flat) + "\n"
    r2 = ck.tlc("Pki", "MC_Pki_obs.cfg", files={"obs_pki.ndjson": obs})
    verdict = {rec["c"] - 1: rec["e"] for rec in r2.printed}
    if len(verdict) != len(flat):
        raise vf.Infra("validator judged %d of %d" % (len(verdict), len(flat)))
    renewed_ok = 0
    drift = 0
    for k, (i, v, c, o) in enumerate(flat):
        cc, ver = c["c"], verdict[k]
        ck.count({"c": cc, "v": v}, True)
        if v == 0 and i % 4 == 0:
            ck.sample({"case": cc, "observed": o, "verdict": ver})
        if cc["fam"] == "renew":
            if o["renewed"] and ver["may"]:
                renewed_ok += 1
            if (ver["model"] == "renewed") != o["renewed"] or (not o["renewed"] and ver["model"] != o["code"]):
                drift += 1
            if ver["ok"]:
                continue
            if not ver["may"]:
                why = [n for n, good in (("foreign-ca", cc["ca"] == "client"), ("v1-subject", cc["ver"] == "v2"),
                                         ("other-key", cc["key"]), ("invalid-proof", cc["proof"])) if not good]
                ck.violation("C32:renewed-despite:" + "+".join(why),
                             "RenewCertificate succeeded for a certificate/proof with %s [%s]: old CN=%s new CN=%s" % (
                                 ", ".join(why), o["how"], o["old"]["cn"], o["new"]["cn"]), c)
            else:
                what = []
                if not (o["sameSubject"] and o["new"]["subj"] == o["old"]["subj"]):
                    what.append("subject-changed")
                if not (o["sameIdentity"] and o["new"]["tok"] == o["old"]["tok"]):
                    what.append("identity-changed")
                nw = o["new"]
                if nw["key"] != nw["pkey"]:
                    what.append("key-not-proof-key")
                if o["old"]["bound"] and not nw["bound"]:
                    what.append("token-not-bound-to-key")
                if nw["ver"] != "v2" or not nw["chain"]:
                    what.append("not-a-client-ca-v2-certificate")
                ck.violation("C32:renewal:" + "+".join(what or ["token-subject"]),
                             "renewed certificate: %s [%s]: old CN=%s new CN=%s" % (", ".join(what), o["how"], o["old"]["cn"], nw["cn"]), c)
        else:
            if ver["ok"]:
                continue
            certs = o["certs"]
            what = []
            if any(k2["key"] != k2["pkey"] for k2 in certs):
                what.append("key-not-proof-key")
            if any(not k2["bound"] for k2 in certs):
                what.append("token-not-bound-to-key")
            if any(k2["ver"] != "v2" or not k2["chain"] for k2 in certs):
                what.append("not-a-client-ca-v2-certificate")
            if any((a["subj"] == b2["subj"]) != (a["tok"] == b2["tok"]) for a in certs for b2 in certs):
                what.append("token-not-unique-to-subject")
            allc = certs + (o.get("elders") or [])
            if "token-not-unique-to-subject" not in what and any((a["subj"] == b2["subj"]) != (a["tok"] == b2["tok"]) for a in allc for b2 in allc):
                what.append("token-not-unique-to-subject:version-1-subjects")
            ck.violation("C32:issue:" + "+".join(what or ["count"]),
                         "issued certificates for keys %s: %s: CNs=%s" % (cc["keys"], ", ".join(what), [k2["cn"] for k2 in certs]), c)
    ck.traces += len(flat)
    ck.exhaustive = ck.replay is None
    if ck.replay is None and not renewed_ok:
        raise vf.Infra("no legitimate renewal succeeded: the renewal clauses were judged vacuously")
    if drift:
        ck.notes.append("%d observations differ from the transcribed order of checks (error code), not judged" % drift)
    ck.assumptions += ["x509, ed25519, SHA-256 are trusted; the harness builds the objects so that the abstract conditions hold / fail and "
                       "recomputes issuer / version / key equality on them; proof validity holds by construction (one defect per invalid proof)",
                       "'bound to the proof-of-work key' = certificate key is the proof key and the v2 token carries base64url(sha256(key)) "
                       "as documented in spec/pki/token.go; 'unique to the subject' = equal tokens iff equal subjects among the certificates of a case",
                       "a legitimate renewal that fails is not a violation of the statement ('succeeds only'); if none succeeds the check is vacuous (exit 2)"]
