"""C03 — ring engine (ChordKV / Trace_ChordKV); see ringcheck.py."""
import ringcheck

KINDS = set("NoLoss NoGhost Reachable SingleCopy staleread splitwrite read-not-latest".split())

def run(ck):
    ringcheck.engine(ck, "C03", KINDS)
    ringcheck.finish_common(ck)
