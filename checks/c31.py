"""C31 Proof-of-work checks accept exactly the valid proofs.  Spec: Pow (families bits, accept, stamp, solve)."""
import json, vf


def run(ck):
    ck.rule = ("bits: TLC enumerates bits 0..26 x 4-byte prefixes over {00,01,0F,10,7F,80,FF}, proves the transcribed verifyBits equal to "
               "'the first bits bits are zero' and every case is run through Go verifyBits; accept: every combination of (signature, "
               "difficulty, subject, zero bits) x 7 expiry offsets (covers all 2^6 combinations of the six conditions and both sides of "
               "the expiry / window edges) is concretised 3 ways into a real signed stamp and given to pow.VerifySolution; stamp: real "
               "stamps with exactly d-1 / exactly d / more than d leading zero bits through hashcash.Verify and VerifySolution; solve: "
               "GenerateSolution/Solve round trips per difficulty; non-trivial = bits > 0 (bits), at least one condition false or all true "
               "(accept: every case), every stamp / solve case")
    b = ck.build("pow")
    fam = ck.replay["c"]["fam"] if ck.replay is not None else None     # a replay names one case of one family
    consts = {"MaxStamp": 18 if ck.thorough else 14, "MaxSolve": 22 if ck.thorough else 16}
    variants = 5 if ck.thorough else 3

    # (a) the leading-zero-bit test (one TLC case packs the 49 prefixes that share bits and the first two bytes)
    if fam in (None, "bits"):
        def first_bad(c, e, o):
            return next((k for k in range(len(e)) if o[k] != e[k]), None)
        def judge_bits(c, e, o):
            k = first_bad(c, e, o)
            if k is None:
                return None
            p = c["hi"] + c["tails"][k]
            return "verifyBits(% s, bits=%d) = %s but the first %d bits are%s all zero" % (
                " ".join("%02X" % x for x in p[:c["n"]]), c["bits"], o[k], c["bits"], "" if e[k] else " not")
        def sig_bits(c, e, o):
            v = o[first_bad(c, e, o)]
            return "C31:verifyBits:%s:bits%%8=%d" % ("false-accept" if v is True else "false-reject" if v is False else "panic", c["bits"] % 8)
        cs, _ = vf.table_check(ck, "Pow", "MC_Pow_bits.cfg", "pow", binary=b, drv_args=["bits"], judge=judge_bits, constants=consts,
                               nontrivial=lambda c: c["c"]["bits"] > 0, sig=sig_bits)
        packed = sum(len(c["c"]["tails"]) - 1 for c in cs)
        ck.evaluations += packed
        ck.traces += packed
        extra_distinct = sum(len(c["c"]["tails"]) - 1 for c in cs if c["c"]["bits"] > 0)
    else:
        extra_distinct = 0

    small = None
    if fam != "bits":
        small = ck.tlc("Pow", "MC_Pow_small.cfg", constants=consts).printed
    def fam_cases(f):
        return [c for c in small if c["c"]["fam"] == f]

    # (b) acceptance <=> conjunction of the six conditions
    if fam in (None, "accept"):
        def judge_acc(c, e, o):
            for v in o:
                if (v["FSig"], v["FDiff"], v["FSubj"], v["FZeros"]) != (c["sig"], c["diff"], c["subj"], c["zeros"]):
                    raise vf.Infra("harness built a proof whose conditions differ from the case: %s %s" % (json.dumps(c), json.dumps(v)))
            bad = [v for v in o if v["accept"] != e["accept"] or (v["accept"] and not v["bound"])]
            if not bad:
                return None
            v = bad[0]
            if v["accept"] and e["accept"]:
                return "accepted proof is not bound to the presented key / expected subject (%s)" % v["stamp"]
            return "%s a proof with %s [%s] stamp=%s err=%s" % (
                "accepted" if v["accept"] else "rejected", _conds(c, e), v["how"], v["stamp"], v.get("err"))
        def sig_acc(c, e, o):
            acc = any(v["accept"] for v in o)
            if e["accept"]:
                return "C31:accept:valid-proof-rejected" if not acc else "C31:accept:not-bound"
            falses = [k for k, ok in (("signature", c["sig"]), ("difficulty", c["diff"]), ("expired", e["fresh"]), ("window", e["window"]),
                                      ("subject", c["subj"]), ("zero-bits", c["zeros"])) if not ok]
            return "C31:accept:accepted-despite:" + "+".join(falses)
        vf.table_check(ck, "Pow", None, "pow", binary=b, drv_args=["accept", str(variants)], judge=judge_acc,
                       sig=sig_acc, cases=fam_cases("accept"))

    # real stamps around the boundary, through Verify's own byte-count computation
    if fam in (None, "stamp"):
        def judge_stamp(c, e, o):
            bad = [v for v in o if v["hashcash"] != e or v["pow"] != e or v.get("err", "").startswith("panic")]
            if bad:
                v = bad[0]
                return "stamp with %d leading zero bits at difficulty %d: hashcash.Verify accepted=%s VerifySolution accepted=%s (%s) %s" % (
                    v["lz"], c["bits"], v["hashcash"], v["pow"], v.get("err"), v["stamp"])
            return None
        vf.table_check(ck, "Pow", None, "pow", binary=b, drv_args=["stamp", str(variants)], judge=judge_stamp,
                       cases=fam_cases("stamp"),
                       sig=lambda c, e, o: "C31:stamp:%s:bits%%8=%d" % ("false-reject" if e else "false-accept", c["bits"] % 8))

    # (c) solver round trip
    if fam in (None, "solve"):
        produced = [0]
        def judge_solve(c, e, o):
            for v in o:
                if v.get("err", "").startswith("panic"):
                    return "solver / verifier panicked at difficulty %d: %s" % (c["d"], v["err"])
                if v["produced"]:
                    produced[0] += 1
                    if not v["accepted"]:
                        return "GenerateSolution's proof for difficulty %d is rejected by VerifySolution under the same parameters: %s" % (c["d"], v.get("err"))
                elif c["d"] >= 1:
                    raise vf.Infra("GenerateSolution produced no proof at difficulty %d (%s): round trip vacuous" % (c["d"], v.get("err")))
                if v["hcProduced"] and not v["hcAccepted"]:
                    return "hashcash.Solve's stamp for difficulty %d is rejected by Verify: %s" % (c["d"], v.get("err"))
            return None
        cs, _ = vf.table_check(ck, "Pow", None, "pow", binary=b, drv_args=["solve", str(variants)], judge=judge_solve,
                               cases=fam_cases("solve"),
                               sig=lambda c, e, o: "C31:solve:roundtrip-rejected")
        if not produced[0] and not fam:
            raise vf.Infra("no proof produced by the solver")
        if not fam:
            ck.notes.append("difficulty 0: GenerateSolution returns an error (hashcash.New turns difficulty 0 into 10, Solve(0) refuses it); "
                            "no proof is produced, nothing to accept")
    ck.exhaustive = fam is None
    ck.distinct_n = len(ck.distinct) + extra_distinct
    ck.assumptions += ["SHA-256 and ed25519 are trusted; the harness constructs each proof so that the abstract conditions hold / fail "
                       "(and recomputes them on the concrete proof) - the specification decides acceptance from the conditions",
                       "'allowed window' = |expiry - now| <= 2 x Parameters.Expires as in pow.go; offsets stay 5 s away from the edges "
                       "(stamps carry whole seconds)",
                       "only well-formed stamps (7 fields, SHA-256, numeric difficulty/expiry) and well-sized keys/signatures are generated"]


def _conds(c, e):
    return "signature=%s difficulty=%s not-expired=%s in-window=%s subject=%s zero-bits=%s" % (
        c["sig"], c["diff"], e["fresh"], e["window"], c["subj"], c["zeros"])
