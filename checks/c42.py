"""C42 Incoming streams are dispatched to the right handler.  Spec: Router."""
import json, vf


def run(ck):
    nt, ng = (3, 3) if ck.thorough else (3, 2)
    ck.rule = ("TLC enumerates every registration table (virtual handlers: subsets of %d types x %d nodes; node-wide handlers and client handlers: "
               "subsets of the types), proves the transcribed nested-map lookup equal to the statement and emits, per table, the expected outcome of "
               "every incoming stream (chord: (types + one type without handlers) x (registered nodes + one unregistered node + 3 ids >= 2^48 per node that share its low 48 bits); client: type); each table is installed into a real "
               "StreamRouter (seeded registration order, seeded node ids, seeded arrival order) fed through channel-backed stub transports; "
               "one evaluation = one incoming stream; non-trivial = every (table, stream) pair (distinct inputs)" % (nt, ng))

    def key(x):
        return (x["src"], x["kind"], x["target"])

    def diff(e, obs):
        om = {key(x): x for x in obs}
        out = []
        for x in e:
            o = om.get(key(x))
            if o is None:
                out.append((x, None, "stream not driven"))
            elif o["h"] == ["skipped"]:
                continue        # the driver stops after a dozen streams that were neither handled nor closed
            elif o["h"] != x["h"]:
                out.append((x, o, "dispatched to %s, specification says %s" % (json.dumps(o["h"]), json.dumps(x["h"]))))
            elif o.get("note"):
                out.append((x, o, o["note"]))
        return out

    def judge(c, e, obs):
        d = diff(e, obs)
        if d:
            x, o, why = d[0]
            return "incoming %s stream type=%d target=%d: %s (%d of %d streams differ)" % (x["src"], x["kind"], x["target"], why, len(d), len(e))
        return None

    def sig(c, e, obs):
        x, o, why = diff(e, obs)[0]
        got = (o or {}).get("h", ["?"])[0]
        reg = []
        if x["src"] == "chord":
            if [x["kind"], x["target"]] in c["virt"]:
                reg.append("virtual")
            elif any(v[0] == x["kind"] for v in c["virt"]):
                reg.append("other-virtual-of-type")
            if x["kind"] in c["phys"]:
                reg.append("physical")
        elif x["kind"] in c["tun"]:
            reg.append("client")
        return "C42:%s:registered=%s:expected=%s:got=%s%s" % (x["src"], "+".join(reg) or "none", x["h"][0], got,
                                                               ":note" if (o or {}).get("note") and o["h"] == x["h"] else "")

    total = 0
    for (a, b) in ([(nt, ng), (4, 2)] if ck.thorough and ck.replay is None else [(nt, ng)]):
        if ck.replay is not None:       # a replayed table carries its own dimensions
            a = max([x["kind"] for x in ck.replay["e"]]) - 1
            b = (max([x["target"] for x in ck.replay["e"]]) - 1) // 4
        cases, byi = vf.table_check(ck, "Router", "MC_Router.cfg", "c42router", drv_args=[str(a), str(b)],
                                    constants={"NTypes": a, "NTargets": b}, judge=judge, sig=sig)
        total += sum(len(c["e"]) for c in cases)
    ck.evaluations = total
    ck.distinct_n = total
    ck.assumptions += ["stream types are RPC/DIRECT/PROXY (values 1..3); handlers are told apart by the label they were created with",
                       "one stream at a time per router (the two accept loops per transport are running, but arrivals are not overlapped)",
                       "re-registration of the same key and registration concurrent with dispatch are not generated (the statement is silent)"]
