"""C22 The append-only log never opens with data no prefix could produce.  Spec: AOF (invariant TailLoss over entry-aligned cuts).
Binding: the log files written by real histories (abrupt end, nothing synced) are cut at every byte offset of the tail segment
and the last entry is torn (zero-filled / bit-flipped); aof.New must fail or yield a prefix state."""
import json
import vf, aoflib

def _records(data):
    """offsets of the records of a log segment (each is uvarint(length) + bytes), or None if the bytes are not such a sequence"""
    out, i = [0], 0
    while i < len(data):
        n, shift = 0, 0
        while True:
            if i >= len(data) or shift > 63:
                return None
            c = data[i]; i += 1
            n |= (c & 0x7f) << shift
            shift += 7
            if c < 0x80:
                break
        i += n
        if i > len(data):
            return None
        out.append(i)
    return out


def run(ck):
    b = ck.build("aof")
    ck.tlc("AOF", aoflib.mc_cfg(aoflib.CODE_SKIP_CONFLICT, 3 if not ck.thorough else 4, invs="TailLoss", maxcrash=2, children='{"c"}'))
    hs = [ck.replay] if ck.replay is not None else aoflib.histories(ck, 12 if ck.thorough else 3, maxhist=5 if not ck.thorough else 7)
    total = 0
    for hi, h in enumerate(hs):
        rec, out = aoflib.record(ck, b, h)
        final = rec.images[-1]["files"]
        segs = sorted(k for k in final if "/wal/" in "/" + k or k.startswith("wal/"))
        if not segs:
            raise vf.Infra("no log segment in the recorded image: %s" % list(final))
        tail = segs[-1]
        data = final[tail]
        imgs, what = [], []
        big = any(a["m"].get("fill") for a in h["att"])       # a many-key import: record boundaries inside it matter, every offset is cut
        step = 1 if (len(data) <= 400 or (big and len(data) <= 12000)) else max(1, len(data) // 400)
        for cut in range(0, len(data) + 1, step):
            f = dict(final); f[tail] = data[:cut]
            imgs.append(f); what.append("cut@%d/%d" % (cut, len(data)))
        for k in range(1, min(len(data), 48) + 1):        # torn last write: zero-filled and bit-flipped tails
            f = dict(final); f[tail] = data[:-k] + b"\0" * k
            imgs.append(f); what.append("zerofill-last-%d" % k)
            f = dict(final); f[tail] = data[:-k] + bytes([data[-k] ^ 0x5a]) + data[len(data) - k + 1:]
            imgs.append(f); what.append("flip@-%d" % k)
        bounds = _records(data)          # a hole of zeroes over whole records (length prefix included) with intact records behind it
        if bounds is None:
            ck.notes.append("tail segment of history %d is not a sequence of length-prefixed records: no zeroed-record images" % hi)
        else:
            nrec = len(bounds) - 1
            ck.extra["tail_records"] = ck.extra.get("tail_records", 0) + nrec
            for i in range(nrec):
                for j in range(i + 1, min(nrec, i + 3) + 1):
                    f = dict(final); f[tail] = data[:bounds[i]] + b"\0" * (bounds[j] - bounds[i]) + data[bounds[j]:]
                    imgs.append(f); what.append("zeroed-records@%d..%d/%d" % (i + 1, j, nrec))
        res = aoflib.reopen(ck, b, imgs)
        ps = aoflib.prefix_states(h)
        for w, o in zip(what, res):
            total += 1
            ck.count((hi, w), True)
            if "err" in o:
                continue
            if not any(o == p for p in ps):
                ck.violation("C22:%s" % w.split("@")[0].split("-last")[0], "log image %s opens with %s, which no prefix of the history produces; history %s"
                             % (w, json.dumps(o), json.dumps([a["m"] for a in h["att"]])), h)
        if hi == 0:
            ck.sample({"history": [a["m"] for a in h["att"]], "tail_segment": tail, "bytes": len(data), "variants": len(imgs),
                       "opened_ok": sum(1 for o in res if "err" not in o)})
    ck.traces += len(hs)
    ck.extra["damaged_images_reopened"] = total
    ck.rule = ("for TLC-generated histories run on the real store: every truncation offset of the tail segment (all bytes up to 400, sampled beyond), "
               "zero-filled and bit-flipped tails of 1..48 bytes, every run of 1..3 whole records replaced by zeroes (with the records behind it intact); each image is reopened; non-trivial = every image; distinct = (history, damage)")
    ck.assumptions += ["only the tail segment is damaged (earlier segments were closed long before); checksum strength (crc64) is trusted: flips are sampled"]
