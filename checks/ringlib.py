"""Shared machinery for the ring checks (C02-C09): scenario generation for drv/chord, translation of its
events into Trace_ChordKV records, TLC validation and interpretation of the verdict records."""
import json, random, os
import vf

GATES_MEMBERSHIP = ["join:", "leave:", "start:", "rtj:lock"]


# ----------------------------------------------------------------------------- scenarios
def layout(names_nodes, names_keys, rng, interleave=True):
    """random circular order of nodes and keys"""
    items = [{"n": n} for n in names_nodes] + [{"k": k} for k in names_keys]
    rng.shuffle(items)
    return items


class Gen:
    """seeded generator of controlled-scheduler scenarios: an initial ring with data, then a concurrent phase
    where joins, leaves, client operations and maintenance calls are interleaved at gate granularity."""

    def __init__(self, rng, n_nodes=5, n_keys=3, n_init=3, n_join=1, n_leave=1, n_ops=6, kinds=("put", "get", "delete", "append", "remove", "list"),
                 maint_p=0.35, variant=None, final_reads=True, gates=None, kv_gates=False, ns_gates=False):
        self.rng = rng
        self.nodes = ["n%d" % i for i in range(n_nodes)]
        self.keys = ["k%d" % i for i in range(n_keys)]
        self.n_init, self.n_join, self.n_leave, self.n_ops = n_init, n_join, n_leave, n_ops
        self.kinds = kinds
        self.maint_p = maint_p
        self.variant = rng.randrange(4) if variant is None else variant
        self.final_reads = final_reads
        self.kv_gates = kv_gates
        self.gates = gates or (GATES_MEMBERSHIP + (["kv:local"] if kv_gates else []) + (["ns:loaded"] if ns_gates == "loaded" else ["ns:enter"] if ns_gates else []))

    def make(self, name):
        rng = self.rng
        lay = layout(self.nodes, self.keys, rng)
        order = self.nodes[:]
        rng.shuffle(order)
        init, spare = order[:self.n_init], order[self.n_init:]
        steps = [{"do": "create", "n": init[0]}]
        opn = [0]
        val = [0]

        def opname(p):
            opn[0] += 1
            return "%s%d" % (p, opn[0])

        members = [init[0]]
        for n in init[1:]:
            o = opname("j")
            steps += [{"do": "start", "op": o, "kind": "join", "n": n, "via": rng.choice(members)}, {"do": "steps", "op": o}, {"do": "settle"}]
            members.append(n)
        # initial data
        for k in self.keys:
            if rng.random() < 0.8:
                val[0] += 1
                steps.append({"do": "start", "op": opname("w"), "kind": "put", "at": rng.choice(members), "k": k, "v": str(val[0])})
            if rng.random() < 0.5 and "append" in self.kinds:
                steps.append({"do": "start", "op": opname("w"), "kind": "append", "at": rng.choice(members), "k": k, "v": str(rng.randrange(1, 3))})
        # concurrent phase
        joiners = spare[:self.n_join]
        leavers = rng.sample(members, min(self.n_leave, len(members) - 1))
        pending = [("join", n) for n in joiners] + [("leave", n) for n in leavers] + [("op", None)] * self.n_ops
        rng.shuffle(pending)
        active = []      # op names with remaining step budget
        stable_members = [m for m in members if m not in leavers]
        budget = 400
        while (pending or active) and budget > 0:
            budget -= 1
            r = rng.random()
            if r < self.maint_p:
                steps.append({"do": rng.choice(["stabilize", "stabilize", "checkpred", "fixfinger"]), "n": rng.choice(members + joiners)})
                continue
            if pending and (not active or rng.random() < 0.4):
                kind, n = pending.pop()
                if kind == "join":
                    o = opname("j")
                    steps.append({"do": "start", "op": o, "kind": "join", "n": n, "via": rng.choice(stable_members)})
                    active.append(o)
                elif kind == "leave":
                    o = opname("l")
                    steps.append({"do": "start", "op": o, "kind": "leave", "n": n})
                    active.append(o)
                else:
                    k = rng.choice(self.kinds)
                    st = {"do": "start", "op": opname("c"), "kind": k, "at": rng.choice(stable_members), "k": rng.choice(self.keys)}
                    if k == "lookup":
                        st["at"] = rng.choice(members + joiners)
                    if k == "put":
                        val[0] += 1
                        st["v"] = str(val[0])
                    elif k in ("append", "remove"):
                        st["v"] = str(rng.randrange(1, 3))
                    steps.append(st)
                    if self.kv_gates and k != "lookup":
                        active.append(st["op"])      # parks right before the decision under the read lock; resumed later
                continue
            if active:
                o = rng.choice(active)
                steps.append({"do": "step", "op": o})
                # an op needs at most ~14 gate steps (+ retries); drop it from the active list lazily
                if rng.random() < 0.08:
                    active.remove(o)
                    steps.append({"do": "steps", "op": o})
        for o in active:
            steps.append({"do": "steps", "op": o})
        steps.append({"do": "settle", "rounds": 16})
        if self.final_reads:
            for k in self.keys:
                for n in stable_members + joiners:
                    steps.append({"do": "start", "op": opname("r"), "kind": "get", "at": n, "k": k})
                    steps.append({"do": "start", "op": opname("r"), "kind": "list", "at": n, "k": k})
        steps.append({"do": "settle", "rounds": 2})
        return {"name": name, "layout": lay, "variant": self.variant, "gates": self.gates, "steps": steps}


def lock_word_race():
    """directed: two membership operations read the lock word of the same node before either of them writes it.  A joiner's request is
    parked inside RequestToJoin at its future successor S right after nodeState.Transition has loaded the word; the predecessor of S
    (the member with the largest id, so it asks for S's lock before its own) then takes the first lock of its leave; the joiner resumes:
    its compare-and-swap must fail and the join be retried after the leave."""
    lay = [{"n": "n0"}, {"n": "n1"}, {"k": "k0"}, {"n": "n2"}, {"k": "k1"}, {"n": "n3"}]
    steps = [{"do": "create", "n": "n0"}]
    for m in ("n1", "n2"):
        steps += [{"do": "start", "op": "init" + m, "kind": "join", "n": m, "via": "n0"}, {"do": "steps", "op": "init" + m}, {"do": "settle"}]
    steps += [{"do": "settle", "rounds": 12},
              {"do": "start", "op": "w1", "kind": "put", "at": "n0", "k": "k0", "v": "1"}, {"do": "start", "op": "w2", "kind": "put", "at": "n1", "k": "k1", "v": "2"},
              {"do": "start", "op": "j3", "kind": "join", "n": "n3", "via": "n1"}, {"do": "until", "op": "j3", "gate": "ns:loaded"},
              {"do": "start", "op": "l2", "kind": "leave", "n": "n2"}, {"do": "until", "op": "l2", "gate": "leave:lock2"},
              {"do": "step", "op": "j3"}, {"do": "steps", "op": "l2"}, {"do": "settle", "rounds": 8}, {"do": "steps", "op": "j3"},
              {"do": "settle", "rounds": 16}]
    r = 0
    for k in ("k0", "k1"):
        for n in ("n0", "n1", "n3"):
            r += 1
            steps.append({"do": "start", "op": "r%d" % r, "kind": "get", "at": n, "k": k})
    steps.append({"do": "settle", "rounds": 2})
    return {"name": "lock-word-race", "layout": lay, "variant": 1, "gates": GATES_MEMBERSHIP + ["ns:loaded"], "critparks": True, "steps": steps}


def stabilize_while_leaver_holds_own_lock():
    """directed: a leaver with a smaller id than its successor takes its own lock first (state Leaving) and is stopped before it asks the
    successor; its predecessor runs a stabilize round and a client writes a key of the leaver's range through the predecessor; then the leave
    goes on.  The leaver still holds its data until the hand-over: the write is either refused (retryably) or ends up where later reads find it."""
    lay = [{"n": "n0"}, {"k": "k0"}, {"n": "n1"}, {"k": "k1"}, {"n": "n2"}]
    steps = [{"do": "create", "n": "n0"}]
    for m in ("n1", "n2"):
        steps += [{"do": "start", "op": "init" + m, "kind": "join", "n": m, "via": "n0"}, {"do": "steps", "op": "init" + m}, {"do": "settle"}]
    steps += [{"do": "settle", "rounds": 12},
              {"do": "start", "op": "w1", "kind": "put", "at": "n0", "k": "k0", "v": "1"}, {"do": "start", "op": "w2", "kind": "put", "at": "n2", "k": "k1", "v": "2"},
              {"do": "start", "op": "l1", "kind": "leave", "n": "n1"}, {"do": "until", "op": "l1", "gate": "leave:lock2"},
              {"do": "stabilize", "n": "n0"},
              {"do": "start", "op": "w3", "kind": "put", "at": "n0", "k": "k0", "v": "3"},
              {"do": "steps", "op": "l1"}, {"do": "settle", "rounds": 16}]
    r = 0
    for k in ("k0", "k1"):
        for n in ("n0", "n2"):
            r += 1
            steps.append({"do": "start", "op": "r%d" % r, "kind": "get", "at": n, "k": k})
    steps.append({"do": "settle", "rounds": 2})
    return {"name": "stabilize-while-leaver-holds-own-lock", "layout": lay, "variant": 1, "gates": GATES_MEMBERSHIP, "steps": steps}


# ----------------------------------------------------------------------------- events -> trace records
def _gate(g):
    """'join:attempt@4' -> ('join:attempt', 4) ; 'done' -> ('done', None)"""
    if g is None:
        return ("", None)
    if "@" in g:
        p, r = g.rsplit("@", 1)
        try:
            return (p, int(r))
        except ValueError:
            return (p, None)
    return (g, None)


JOIN_SEQ = {
    ("join:start", "join:attempt"): "Stutter",
    ("join:answered", "join:installed"): "JoinInstall",
    ("join:installed", "start:stabilized"): "JoinStab",
    ("start:stabilized", "join:advisory"): "JoinFix",
    ("join:advisory", "join:activate"): "JoinAdvisory",
    ("join:activate", "join:release"): "JoinActive",
    ("join:release", "done"): "JoinRelease",
    ("join:answered", "done"): "JoinFail",
}
LEAVE_SEQ = {
    ("leave:attempt", "ns:enter"): "LeaveRead",        # (handled before the generic ns rule)
    ("leave:lock2", "leave:locked"): "LeaveSecond",
    ("leave:lock2", "leave:attempt"): "LeaveSecond",
    ("leave:lock2", "done"): "LeaveSecond",
    ("leave:attempt", "leave:lock2"): "LeaveReadFirst",
    ("leave:attempt", "leave:attempt"): "LeaveReadFirst",
    ("leave:attempt", "leave:advisory"): "LeaveReadFirst",
    ("leave:attempt", "done"): "LeaveReadFirst",
    ("leave:locked", "leave:advisory"): "LeaveTransfer",
    ("leave:advisory", "leave:left"): "LeaveAdvisory",
    ("leave:left", "leave:release"): "LeaveLeft",
    ("leave:release", "done"): "LeaveRelease",
}


class Translator:
    def __init__(self):
        self.lines = []        # trace records
        self.meta = []         # parallel: (sid, step index, event summary)
        self.issues = []       # translation problems (Infra)
        self.panics = []
        self.client_errors = []  # (sid, step, kind, errclass)
        self.op_results = {}
        self.kinds = {}
        self.lookups = []
        self.history = {}     # sid -> acknowledged client operations in execution order (operations are serialised by the driver)

    def begin(self, ev):
        self.sid = ev["s"]
        self.nrank = sorted(ev["nodes"].values())
        self.krank = sorted(ev["keys"].values())
        self.nidx = {r: i + 1 for i, r in enumerate(self.nrank)}
        self.kidx = {r: i + 1 for i, r in enumerate(self.krank)}
        self.opkind = {}
        self.opnode = {}
        self.opdone = {}
        self.oplast = {}
        self.opargs = {}
        self.op_entry_dead = {}
        self.pgate = {}
        self.read_done = {}
        self.loaded, self.pnode, self.read_line, self.touch = {}, {}, {}, {}
        self.last_sur = getattr(self, "last_sur", {})
        self.acked = []       # acknowledged client operations of this scenario, in order
        self.lines.append({"act": "Reset", "sid": self.sid, "lay": {"npos": self.nrank, "kpos": self.krank}})
        self.meta.append((self.sid, -1, "begin " + ev.get("name", "")))

    def lock_target(self, op, kind, pgate, at):
        """the node whose lock word the operation loaded at its ns:loaded park (line index at): 1-based node index or None"""
        if kind == "join":
            return self.pnode.get(op)
        if kind != "leave" or at >= len(self.lines):
            return None
        me = self.opnode.get(op, 0)
        # the successor the leaver read: recorded on the line of its LeaveRead step (the park line itself or an earlier one)
        k = self.read_line.get(op, at)
        succ = (self.lines[k].get("succ") or [])
        sc = succ[me - 1][0] if me and succ and succ[me - 1] else 0
        if not me or not sc:
            return None
        succ_first = self.nrank[me - 1] > self.nrank[sc - 1]
        if pgate == "leave:attempt":
            return sc if succ_first else me
        if pgate == "leave:lock2":
            return me if succ_first else sc
        return None

    def state(self, st):
        N, K = len(self.nrank), len(self.krank)
        out = {"st": ["Inactive"] * N, "pred": [0] * N, "succ": [[] for _ in range(N)], "sur": [0] * N, "fs": [[] for _ in range(N)],
               "store": [[{"v": 0, "kids": []} for _ in range(K)] for _ in range(N)]}
        for rk, ns in st.items():
            i = self.nidx[int(rk)] - 1
            out["st"][i] = ns["st"]
            out["pred"][i] = self.nidx.get(ns["pred"], 0)
            out["succ"][i] = [self.nidx.get(x, 0) for x in ns["succ"]]
            if ns["sur"] == -3 and (self.sid, i) in self.last_sur:
                # unreadable: an operation is parked holding that node's surrogateMu (only before its first write): the last value read stands
                out["sur"][i] = self.last_sur[(self.sid, i)]
            else:
                out["sur"][i] = self.nidx.get(ns["sur"], 0)
                self.last_sur[(self.sid, i)] = out["sur"][i]
            out["fs"][i] = [self.nidx.get(x, 0) for x in ns.get("fs") or []]
            for kr, v in ns.get("store", {}).items():
                out["store"][i][self.kidx[int(kr)] - 1]["v"] = int(v)
            for kr, ch in (ns.get("kids") or {}).items():
                out["store"][i][self.kidx[int(kr)] - 1]["kids"] = sorted(int(c) for c in ch)
        return out

    def add(self, ev, rec):
        self.prev_state = ev["state"]
        rec.update(self.state(ev["state"]))
        if getattr(self, "_early", False):
            if rec.get("act") in ("JoinLock", "LeaveFirst", "LeaveSecond"):
                rec["early"] = True
            self._early = False
        # nodes whose lock word this step may have written: those whose state changed, and the targets of a lock attempt (a refused
        # RequestToLeave takes the lock and gives it back within the step)
        prev = self.lines[-1] if self.lines and self.lines[-1].get("sid") == self.sid and self.lines[-1].get("st") else None
        t = {i + 1 for i, v in enumerate(rec["st"]) if prev is None or prev["st"][i] != v}
        op = getattr(self, "_cur_op", None)
        if rec.get("act") == "JoinLock" and self.pnode.get(op):
            t.add(self.pnode[op])
        if rec.get("act") in ("LeaveFirst", "LeaveSecond", "LeaveReadFirst") and op in self.opnode:
            me = self.opnode[op]
            src = self.lines[self.read_line[op]] if op in self.read_line and self.read_line[op] < len(self.lines) else rec
            succ = src.get("succ") or []
            t.add(me)
            if succ and succ[me - 1]:
                t.add(succ[me - 1][0])
        self.touch[len(self.lines)] = t
        self._cur_op = None
        rec["sid"] = self.sid
        rec.setdefault("n", 0)
        self.lines.append(rec)
        self.meta.append((self.sid, ev.get("i"), "%s %s %s %s->%s" % (ev.get("do"), ev.get("op"), ev.get("kind"), ev.get("from"), ev.get("to"))))

    def step(self, ev, step_def):
        do = ev["do"]
        if do == "create":
            return self.add(ev, {"act": "Create", "n": self.nidx[ev["n"]]})
        if do in ("stabilize", "checkpred", "fixfinger"):
            act = {"stabilize": "Stabilize", "checkpred": "CheckPred", "fixfinger": "Stutter"}[do]
            if ev.get("to") == "skipped":       # not run (an operation hangs on a lock, or the node's periodic tasks have not started)
                act = "Stutter"
            return self.add(ev, {"act": act, "n": self.nidx[ev["n"]]})
        op = ev["op"]
        self._cur_op = op
        if do == "start":
            self.opkind[op] = ev["kind"]
            self.kinds[(self.sid, op)] = ev["kind"]
            self.opargs[op] = step_def
            if ev["kind"] in ("join", "leave"):
                self.opnode[op] = self.nidx[ev["n"]]
        kind = self.opkind.get(op)
        if kind is None:
            return
        to, tonode = _gate(ev["to"])
        frm, _ = _gate(ev["from"]) if do != "start" else ("", None)
        # sub-gates inside nodeState.Transition (ns:enter): the operation is parked before the transition it is about to make; nothing
        # has changed yet.  The protocol action is labelled when the operation reaches its next protocol gate.
        if self.opdone.get(op):
            return self.add(ev, {"act": "Stutter"})   # stepping a finished op
        if to == "done":
            self.opdone[op] = True
            self.op_results[(self.sid, op)] = ev.get("res")
            if isinstance(ev.get("res"), str) and ev["res"].startswith("panic"):
                self.panics.append((self.sid, op, kind, ev["res"]))
        sub = do != "start" and frm.startswith("ns:")      # resumed from a sub-gate
        self._early = False
        if sub and frm.startswith("ns:loaded") and op in self.loaded:
            # resumed after the load of a lock word: its compare-and-swap fails if the word changed in between.  The acquisition may then be
            # linearized at any recorded moment since the load at which the target node was locked (field early, see ChordKV "The lock word")
            at, prior = self.loaded.pop(op)
            tgt = self.lock_target(op, kind, self.pgate.get(op, ""), at)
            if tgt:
                self._early = (any(l.get("st") and l["st"][tgt - 1] != "Active" for l in self.lines[at:]) or
                               any(tgt in self.touch.get(k, ()) for k in range(at + 1, len(self.lines))))
        if sub:
            frm = self.pgate.get(op, "")
        if to.startswith("ns:loaded"):
            self.loaded[op] = (len(self.lines), None)       # index of the line this park is about to add
        if to.startswith("ns:"):
            # parked before a lifecycle transition.  On the leave path the first such park after leave:attempt comes after the
            # leaver has read its predecessor / successor pointers: that is the specification's LeaveRead step.
            if kind == "leave" and frm == "leave:attempt" and not self.read_done.get(op):
                self.read_done[op] = True
                self.read_line[op] = len(self.lines)
                return self.add(ev, {"act": "LeaveRead", "n": self.opnode.get(op, 0)})
            if kind == "join" and getattr(self, "prev_state", None) is not None:
                # parked inside RequestToJoin, holding the handling node's surrogateMu: the snapshot cannot read that node's guarded
                # fields; nothing has changed between the lock gate and the load of the lock word, the previous snapshot stands
                ev = dict(ev, state=self.prev_state)
            return self.add(ev, {"act": "Stutter"})
        if kind == "leave" and frm == "leave:attempt" and self.read_done.get(op):
            # the pointers were read in an earlier segment: this one only takes the first lock (or is refused)
            self.read_done[op] = False
            self.pgate[op] = to
            return self.add(ev, {"act": "LeaveFirst", "n": self.opnode.get(op, 0)})
        self.pgate[op] = to
        if to == "rtj:lock" and tonode in self.nidx:
            self.pnode[op] = self.nidx[tonode]
        if to == "blocked":
            self.issues.append("operation %s blocked at step %s of scenario %s" % (op, ev.get("i"), self.sid))
            return self.add(ev, {"act": "Unknown"})
        n = self.opnode.get(op, 0)
        if kind == "join":
            if do == "start":
                if to == "join:start":
                    return self.add(ev, {"act": "JoinStart", "n": n})
                return self.add(ev, {"act": "Stutter", "n": n})      # "node is not Inactive"
            if do != "start" and frm == "" and to == "join:start":
                return self.add(ev, {"act": "JoinStart", "n": n})
            if do != "start" and frm == "" and to == "done":
                return self.add(ev, {"act": "Stutter", "n": n})
            if do == "run":   # several protocol steps in one scheduler step: only usable while setting up
                return self.add(ev, {"act": "JoinWhole", "n": n})
            if (frm, to) in JOIN_SEQ:
                return self.add(ev, {"act": JOIN_SEQ[(frm, to)], "n": n})
            if frm == "join:attempt" and to == "rtj:lock":
                return self.add(ev, {"act": "JoinRoute", "n": n, "x": self.nidx[tonode]})
            if frm == "rtj:lock" and to in ("join:attempt", "join:answered", "done"):
                return self.add(ev, {"act": "JoinLock", "n": n})
            if frm == "join:attempt" and to in ("join:attempt", "join:answered"):
                res = ev.get("res")
                return self.add(ev, {"act": "JoinRouteFail", "n": n, "fatal": to == "join:answered"})
            return self.add(ev, {"act": "Unknown:%s->%s" % (frm, to), "n": n})
        if kind == "leave":
            if do == "start":
                if to == "leave:attempt":
                    return self.add(ev, {"act": "LeaveStart", "n": n})
                return self.add(ev, {"act": "Stutter", "n": n})
            if do != "start" and frm == "" and to == "leave:attempt":
                return self.add(ev, {"act": "LeaveStart", "n": n})
            if do == "run":
                return self.add(ev, {"act": "LeaveWhole", "n": n})
            if (frm, to) in LEAVE_SEQ:
                return self.add(ev, {"act": LEAVE_SEQ[(frm, to)], "n": n})
            return self.add(ev, {"act": "Unknown:%s->%s" % (frm, to), "n": n})
        if kind == "stabilize":      # a stabilize round as an operation: parked between computing and installing its list
            if do == "start":
                self.opnode[op] = self.nidx[ev["n"]]
            n = self.opnode.get(op, 0)
            if to.startswith("stab:computed"):
                return self.add(ev, {"act": "StabRead", "n": n})
            if to == "done":
                return self.add(ev, {"act": "StabWrite" if frm.startswith("stab:computed") else "Stabilize", "n": n})
            return self.add(ev, {"act": "Unknown:%s->%s" % (frm, to), "n": n})
        if kind == "lookup":
            if to == "done":
                self.lookups.append((self.sid, ev.get("i"), ev.get("res")))
            return self.add(ev, {"act": "Stutter"})
        # client operation: routing hops up to the kv:local gate change nothing; the last segment (the decision under
        # surrogateMu.RLock and the store access) is the step the specification judges
        a = self.opargs[op]
        if do == "start":
            entry = str(self.keyranks_nodes.get(a.get("at"), -9))
            self.op_entry_dead[op] = self.prev_state is not None and self.prev_state.get(entry, {}).get("st", "Inactive") in ("Inactive", "Left")
        if to != "done":
            if to.startswith("kv:"):
                return self.add(ev, {"act": "Stutter"})
            return self.add(ev, {"act": "Unknown:op-%s" % to})
        res = ev.get("res")
        if self.op_entry_dead.get(op):
            return self.add(ev, {"act": "Stutter"})      # the generator picked an entry node that is not a member (yet / any more)
        err = res.get("err") if isinstance(res, dict) else res
        rec = {"act": "Op", "kind": kind, "k": self.kidx[self._keyrank(a["k"])], "arg": int(a.get("v") or 0),
               "res": "done", "rtag": "ok", "rv": 0, "rkids": []}
        if err == "retryable:ErrKVStaleOwnership":
            rec["res"] = "stale"
        elif err == "fatal:ErrKVPrefixConflict" and kind == "append":
            rec["rtag"] = "conflict"
        elif err != "ok":
            self.client_errors.append((self.sid, ev.get("i"), kind, err))
            rec["res"] = "stale"      # no effect expected
        elif kind == "get":
            rec["rtag"], rec["rv"] = "val", int(res.get("v") or 0)
        elif kind == "list":
            rec["rtag"], rec["rkids"] = "kids", sorted(int(c) for c in res.get("l") or [])
        if err == "ok":
            self.history.setdefault(self.sid, []).append({"kind": kind, "k": rec["k"], "arg": rec["arg"], "rv": rec["rv"], "rkids": rec["rkids"],
                                                          "line": len(self.lines) + 1, "step": ev.get("i")})
        return self.add(ev, rec)

    def _keyrank(self, kname):
        return self.keyranks[kname]

    def settled(self, ev):
        alldone = all(self.opdone.get(o) for o in self.opkind)
        if ev["stable"] and alldone:
            rec = {"act": "Quiet"}
            rec.update(self.state(ev["state"]))
            rec["sid"] = self.sid
            rec["n"] = 0
            self.lines.append(rec)
            self.meta.append((self.sid, ev.get("i"), "settled"))
        return ev["stable"], alldone


def translate(events, scenarios):
    """events: driver output for a list of scenarios -> Translator"""
    t = Translator()
    for ev in events:
        if ev["t"] == "begin":
            t.begin(ev)
            t.keyranks = ev["keys"]
            t.keyranks_nodes = ev["nodes"]
            t.prev_state = None
        elif ev["t"] == "step":
            sc = scenarios[ev["s"]]
            sd = sc["steps"][ev["i"]] if ev["i"] < len(sc["steps"]) else {}
            t.step(ev, sd)
        elif ev["t"] == "settled":
            t.settled(ev)
        elif ev["t"] == "panic":
            t.issues.append("driver panic in scenario %s: %s" % (ev["s"], ev["msg"]))
    return t


# ----------------------------------------------------------------------------- run + validate
def run_scenarios(ck, scenarios, binary=None, timeout=900):
    b = binary or ck.build("chord")
    events = ck.drive(b, ["script"], input_lines=scenarios, timeout=timeout)
    return events


def validate(ck, tr, fixpred=False, fixleave=False, fixwrap=False, timeout=900, fixdead=None):
    """run Trace_ChordKV over the translated trace; returns (viol, div, quiet, consumed) record lists"""
    text = "\n".join(json.dumps(x) for x in tr.lines) + "\n"
    if fixdead is None:
        import ringcheck
        fixdead = ringcheck.CODE_FIXDEAD
    cfg = open(os.path.join(vf.VERIF, "spec", "Trace_ChordKV.cfg")).read()
    if fixpred:
        cfg = cfg.replace("FixPred = FALSE", "FixPred = TRUE")
    if fixleave:
        cfg = cfg.replace("FixLeave = FALSE", "FixLeave = TRUE")
    if fixwrap:
        cfg = cfg.replace("FixWrap = FALSE", "FixWrap = TRUE")
    if fixdead:
        cfg = cfg.replace("FixDead = FALSE", "FixDead = TRUE")
    import ringcheck as _rc
    if _rc.CODE_FIXADOPT:
        cfg = cfg.replace("FixAdopt = FALSE", "FixAdopt = TRUE")
    r = ck.tlc("Trace_ChordKV", cfg, files={"trace.ndjson": text}, workers=1, timeout=timeout)
    viol = [x for x in r.printed if x["t"] == "viol"]
    div = [x for x in r.printed if x["t"] in ("div", "opdiv")]
    quiet = [x for x in r.printed if x["t"] == "quiet"]
    end = [x for x in r.printed if x["t"] == "end"]
    if not end or end[0]["lines"] != len(tr.lines):
        raise vf.Infra("trace not consumed: %s of %d lines" % (end, len(tr.lines)))
    return viol, div, quiet


# ----------------------------------------------------------------------------- TLC counterexample -> scenario
JPC_GATE = {"req": "join:attempt", "atx": "rtj:lock", "granted": "join:answered", "failing": "join:answered",
            "installed": "join:installed", "stabilized": "start:stabilized", "adv": "join:advisory", "act": "join:activate",
            "rel": "join:release", "done": "done", "failed": "done"}
LPC_GATE = {"try": "leave:attempt", "read": "ns:enter", "lock2": "leave:lock2", "locked": "leave:locked", "adv": "leave:advisory",
            "left": "leave:left", "rel": "leave:release", "done": "done", "failed": "done"}


def cex_states(trace_json):
    out = []
    for item in trace_json["counterexample"]["action"]:
        # [[idx, state], action, [idx, state]]
        if not out:
            out.append(item[0][1])
        out.append(item[2][1])
    if not out and trace_json["counterexample"].get("state"):
        out = [x[1] for x in trace_json["counterexample"]["state"]]
    return out


def cex_to_scenario(states, name, finish=True, scale_bits=None, lookups_at_end=False):
    """translate a behaviour of MC_ChordKV (list of states, each {'s':..., 'ops':...}) into a driver scenario that steers the
    real code through the same interleaving (which process moves when); what the real code then does is recorded."""
    s0 = states[0]["s"]
    npos, kpos = s0["lay"]["npos"], s0["lay"]["kpos"]
    N, K = len(npos), len(kpos)
    items = sorted([(p, {"n": "n%d" % (i + 1)}) for i, p in enumerate(npos)] + [(p, {"k": "k%d" % (i + 1)}) for i, p in enumerate(kpos)],
                   key=lambda x: x[0])
    lay = [x[1] for x in items]
    if scale_bits:
        for p, it in items:
            if "n" in it:
                it["id"] = p * (1 << (48 - scale_bits)) + 1
    nm = lambda i: "n%d" % i
    members = [i + 1 for i in range(N) if s0["st"][i] == "Active"]
    steps = [{"do": "create", "n": nm(members[0])}]
    for m in members[1:]:
        steps += [{"do": "start", "op": "init%d" % m, "kind": "join", "n": nm(m), "via": nm(members[0])}, {"do": "steps", "op": "init%d" % m}, {"do": "settle"}]
    steps.append({"do": "settle", "rounds": 16})
    started = set()
    stabop = {}
    nops = 0
    for a, b in zip(states, states[1:]):
        sa, sb = a["s"], b["s"]
        moved = False
        for i in range(N):
            if sa["jpc"][i] != sb["jpc"][i]:
                moved = True
                op = "j%d" % (i + 1)
                if sa["jpc"][i] == "idle":
                    via = next((x + 1 for x in range(N) if sa["st"][x] == "Active" and x != i), 1)
                    steps.append({"do": "start", "op": op, "kind": "join", "n": nm(i + 1), "via": nm(via)})
                    steps.append({"do": "until", "op": op, "gate": "join:attempt"})
                elif sa["jpc"][i] == "req" and sb["jpc"][i] == "req":
                    steps.append({"do": "step", "op": op})
                else:
                    steps.append({"do": "until", "op": op, "gate": JPC_GATE[sb["jpc"][i]]})
            if sa["lpc"][i] != sb["lpc"][i] or sa["ltry"][i] != sb["ltry"][i]:
                moved = True
                op = "l%d" % (i + 1)
                if sa["lpc"][i] == "idle":
                    steps.append({"do": "start", "op": op, "kind": "leave", "n": nm(i + 1)})
                elif sb["lpc"][i] == sa["lpc"][i]:
                    steps.append({"do": "step", "op": op})
                else:
                    steps.append({"do": "until", "op": op, "gate": LPC_GATE[sb["lpc"][i]]})
        for i in range(N):
            if "stb" in sa and sa["stb"][i]["on"] != sb["stb"][i]["on"]:
                moved = True
                if sb["stb"][i]["on"]:
                    nstab = sum(1 for x in steps if x.get("kind") == "stabilize")
                    stabop[i] = "sb%d_%d" % (i + 1, nstab)
                    steps.append({"do": "start", "op": stabop[i], "kind": "stabilize", "n": nm(i + 1)})
                else:
                    steps.append({"do": "steps", "op": stabop[i]})
        opsa, opsb = a.get("ops", []), b.get("ops", [])
        for i, ob in enumerate(opsb):
            if ob["st"] != "run" and (i >= len(opsa) or opsa[i]["st"] == "run"):
                moved = True
                nops += 1
                st = {"do": "start", "op": "c%d" % nops, "kind": ob["kind"], "at": nm(ob["at"]), "k": "k%d" % ob["k"]}
                if ob["kind"] in ("put", "append", "remove"):
                    st["v"] = str(ob["arg"])
                steps.append(st)
        if len(opsb) > len(opsa) or any(x["st"] == "run" for x in opsb) and opsa != opsb:
            moved = True
        if not moved:
            # maintenance: checkpred if a predecessor was cleared, otherwise stabilize by the node whose list changed / who notified
            done = False
            for i in range(N):
                if sa["pred"][i] != 0 and sb["pred"][i] == 0:
                    steps.append({"do": "checkpred", "n": nm(i + 1)}); done = True
            if not done:
                for i in range(N):
                    if sa["succ"][i] != sb["succ"][i]:
                        steps.append({"do": "stabilize", "n": nm(i + 1)}); done = True
                        break
            if not done:
                for i in range(N):
                    if sa["pred"][i] != sb["pred"][i] and sb["pred"][i] != 0:
                        steps.append({"do": "stabilize", "n": nm(sb["pred"][i])}); done = True
                        break
    if finish:
        for i in range(N):
            for op in ("j%d" % (i + 1), "l%d" % (i + 1)):
                steps.append({"do": "steps", "op": op})
        steps.append({"do": "settle", "rounds": 16})
        for k in range(K):
            for i in range(N):
                steps.append({"do": "start", "op": "rg%d_%d" % (k, i), "kind": "get", "at": nm(i + 1), "k": "k%d" % (k + 1)})
        steps.append({"do": "settle", "rounds": 2})
    if lookups_at_end and scale_bits:
        sl = states[-1]["s"]
        n = 0
        for i in range(N):
            if sl["st"][i] in ("Joining", "Active", "Transferring", "Leaving"):
                for pos in range(1 << scale_bits):
                    n += 1
                    steps.append({"do": "start", "op": "lk%d" % n, "kind": "lookup", "at": nm(i + 1), "key": pos * (1 << (48 - scale_bits)) + 1})
    return {"name": name, "layout": lay, "variant": 0, "gates": GATES_MEMBERSHIP + ["ns:enter"], "steps": steps}


# ----------------------------------------------------------------------------- engine shared by C03-C06, C08
PROP_OF = {"read-not-latest": ("C03", "C04"), "SingleCopy": ("C05", "C03"), "NoLoss": ("C03",), "NoGhost": ("C03",), "Placement": ("C05",), "Reachable": ("C03",),
           "OneMembershipOp": ("C06",), "JoinLockHeld": ("C06",), "NoStuck": ("C06",), "staleread": ("C04", "C03"), "splitwrite": ("C04", "C03"),
           "nilpred-panic": ("C08",)}

MC_CFG = """SPECIFICATION Spec
CONSTANTS
  L = 4
  FixPred = %(fixpred)s
  FixLeave = %(fixleave)s
  FixWrap = %(fixwrap)s
  FixDead = %(fixdead)s
  FixAdopt = %(fixadopt)s
  MaxTry = 2
  TrackCov = %(trackcov)s
  Goal = "%(goal)s"
  MCLayout <- %(lay)s
  InitMembers = %(init)s
  Joiners = %(joiners)s
  Leavers = %(leavers)s
  MaxOps = %(maxops)d
  Faults = FALSE
  OpKinds = %(opkinds)s
INVARIANTS %(invs)s
CHECK_DEADLOCK FALSE
"""
ALL_INVS = "InvSingleCopy InvNoLoss InvNoGhost InvOneOp InvJoinLockHeld InvNoStuck InvPlacement InvReachable InvNoBad InvNoNonRetryable"


# coverage goals: branches of the membership actions (tags recorded by ChordKV when TrackCov = TRUE) and the small instances in which
# TLC finds a shortest witness for each; the witnesses are replayed on the real code (see ringcheck.engine)
GOAL_INSTANCES = [
    dict(init="{1, 2, 4}", joiners="{3}", leavers="{2}"),       # join between the leaver and its successor
    dict(init="{1, 2, 4}", joiners="{3}", leavers="{4}"),       # the leaver is the highest node (its successor wraps around) and the join arrives at the leaver
    dict(init="{1, 2, 3, 4}", joiners="{}", leavers="{2, 3}"),  # leaves of adjacent nodes
    dict(init="{1, 2, 3, 4}", joiners="{}", leavers="{3, 4}"),  # adjacent leaves including the wrap-around node
    dict(init="{1, 2, 3}", joiners="{4}", leavers="{3}"),       # the highest member leaves while a node with an even higher id joins behind it
    dict(init="{2}", joiners="{1}", leavers="{2}"),             # a one-node ring: its only member leaves while the first joiner is being admitted
    dict(init="{1, 4}", joiners="{2, 3}", leavers="{}"),        # two joins into the same gap
]
GOAL_AT = {"join-refused-busy": 0, "join-refused-pred-unsettled": 0, "join-granted-with-keys": 1, "leave1-succfirst-granted": 1,
           "leave1-succfirst-refused-busy": 3, "leave1-succfirst-refused-not-predecessor": 3, "leave1-selffirst-granted": 0,
           "leave1-selffirst-refused-busy": 2, "leave2-succfirst-granted": 1, "leave2-succfirst-refused-self-busy": 1,
           "leave2-selffirst-granted": 0, "leave2-selffirst-refused-succ-busy": 2, "leave2-selffirst-refused-not-predecessor": 0,
           "leave-transfer-with-keys": 0, "checkpred-cleared": 0, "leave-no-neighbour": 2,
           "leave1-succfirst-refused-not-predecessor-with-keys-stale-read": 4, "leave2-selffirst-refused-not-predecessor-with-keys-stale-read": 0,
           "leave-own-successor-with-predecessor-with-keys": 5, "join-refused-wrong-successor-with-keys": 6}     # measured: first instance that reaches the goal
GOALS = ["join-refused-busy", "join-refused-pred-unsettled", "join-refused-wrong-successor", "join-granted-with-keys",
         "leave1-succfirst-granted", "leave1-succfirst-refused-busy", "leave1-succfirst-refused-not-predecessor",
         "leave1-selffirst-granted", "leave1-selffirst-refused-busy",
         "leave2-succfirst-granted", "leave2-succfirst-refused-self-busy",
         "leave2-selffirst-granted", "leave2-selffirst-refused-succ-busy", "leave2-selffirst-refused-not-predecessor",
         "leave-transfer-with-keys", "checkpred-cleared", "leave-no-neighbour",
         "leave1-succfirst-refused-not-predecessor-with-keys-stale-read", "leave2-selffirst-refused-not-predecessor-with-keys-stale-read",
         "leave-own-successor-with-predecessor-with-keys", "join-refused-wrong-successor-with-keys"]


def mc_cfg(fixpred, fixleave, fixwrap=False, lay="Lay4", init="{1, 2, 4}", joiners="{3}", leavers="{2}", maxops=2, invs=ALL_INVS,
           goal=None, opkinds='{"put", "get"}', fixdead=None, fixadopt=None):
    import ringcheck
    if fixdead is None:
        fixdead = ringcheck.CODE_FIXDEAD
    if fixadopt is None:
        fixadopt = ringcheck.CODE_FIXADOPT
    return MC_CFG % dict(fixadopt="TRUE" if fixadopt else "FALSE", fixdead="TRUE" if fixdead else "FALSE", trackcov="TRUE" if goal else "FALSE", goal=goal or "none", opkinds=opkinds, fixpred="TRUE" if fixpred else "FALSE", fixleave="TRUE" if fixleave else "FALSE", fixwrap="TRUE" if fixwrap else "FALSE", lay=lay, init=init, joiners=joiners, leavers=leavers, maxops=maxops, invs=invs)


def findings_from(tr, viol, div, quiet, scenarios):
    """-> list of dict(kind, sid, line, detail).  kind is a key of PROP_OF or 'join-fatal', 'client-fatal', 'panic'."""
    out = []
    seen = set()

    def add(kind, sid, line, detail):
        if (kind, sid) in seen:
            return
        seen.add((kind, sid))
        out.append(dict(kind=kind, sid=sid, line=line, detail=detail, at=tr.meta[line - 1][2] if line and line - 1 < len(tr.meta) else ""))

    for v in viol:
        for w in v["what"]:
            if w == "Bad":
                for b in v.get("bad", []):
                    add(b, v["sid"], v["l"], "flagged by the specification at trace line %d" % v["l"])
            else:
                add(w, v["sid"], v["l"], "invariant %s false on the recorded state at trace line %d" % (w, v["l"]))
    for q in quiet:
        for w in q["what"]:
            add(w, q["sid"], q["l"], "%s false at the maintenance fixpoint (members %s)" % (w, q["members"]))
    # the statement itself, on the serialised client history: a read must return what the acknowledged writes before it produced
    for sid, hist in tr.history.items():
        val, kids = {}, {}
        for h in hist:
            k = h["k"]
            if h["kind"] == "put": val[k] = h["arg"]
            elif h["kind"] == "delete": val[k] = 0
            elif h["kind"] == "append": kids.setdefault(k, set()).add(h["arg"])
            elif h["kind"] == "remove": kids.setdefault(k, set()).discard(h["arg"])
            elif h["kind"] == "get" and h["rv"] != val.get(k, 0):
                add("read-not-latest", sid, h["line"], "Get of key %d returned %d, the latest acknowledged value is %d (step %s)" % (k, h["rv"], val.get(k, 0), h["step"]))
            elif h["kind"] == "list" and set(h["rkids"]) != kids.get(k, set()):
                add("read-not-latest", sid, h["line"], "PrefixList of key %d returned %s, the acknowledged appends/removes give %s (step %s)"
                    % (k, h["rkids"], sorted(kids.get(k, set())), h["step"]))
    for sid, op, kind, msg in tr.panics:
        add("panic", sid, 0, "%s %s: %s" % (kind, op, msg))
    for sid, i, kind, err in tr.client_errors:
        add("client-fatal", sid, 0, "client %s at step %s answered %s" % (kind, i, err))
    for (sid, op), res in tr.op_results.items():
        if tr_kind(tr, sid, op) == "join" and isinstance(res, str) and res.startswith("fatal:"):
            add("join-fatal", sid, 0, "join %s answered %s" % (op, res))
    return out


def tr_kind(tr, sid, op):
    return tr.kinds.get((sid, op))


def goal_witnesses(ck, fixpred, fixleave, fixwrap, goals=None):
    """one TLC run per coverage goal (invariant: goal not reached); the 'counterexample' is a shortest behaviour taking that branch;
    returns driver scenarios that steer the real code through each witness"""
    goals = goals or [g for g in GOALS if g in GOAL_AT]
    jobs = [dict(module="MC_ChordKV", cfg=mc_cfg(fixpred, fixleave, fixwrap, maxops=1, invs="InvGoalUnreached", goal=g, opkinds='{"put"}',
                                                  **GOAL_INSTANCES[GOAL_AT[g]]), allow_error=True, timeout=900, workers=2) for g in goals]
    res = ck.tlc_many(jobs, parallel=8)
    out, missing = [], []
    for g, r in zip(goals, res):
        if r.error and r.trace_json:
            out.append(cex_to_scenario(cex_states(r.trace_json), "witness-" + g))
        else:
            missing.append(g)
    if missing:
        ck.notes.append("coverage goals without a witness in their instance: %s" % missing)
    return out
