"""C38 Length-prefixed messages round-trip and respect size bounds.  Spec: Framing."""
import json, vf

REPS = 10   # consecutive repetitions rotate the message type of every frame position through all five framed types


def run(ck):
    mf = 3 if ck.thorough else 2
    ck.rule = ("TLC enumerates every stream layout of 1..%d frames (size class empty/small/large x reader bound none/below/equal/above the "
               "frame size) x trailing bytes {0,1,many} x truncation {none, 0/1/3 bytes of the length prefix, payload missing / cut in the middle / "
               "one byte short}, proves the transcribed receive() against the statement and emits per read the expected kind and stream position; "
               "each layout is built %d times with rpc.Send from seeded protocol.Stream/Connection/TunnelStatus/TunnelRoute/Link messages (every "
               "type in every frame position) and read with Receive/BoundedReceive through a chunking, byte-counting reader; non-trivial = every "
               "layout (all are distinct inputs)" % (mf, REPS))

    def problems(c, e, obs):
        """yield (signature suffix, text) for every repetition that breaks the statement"""
        for o in obs:
            if o.get("senderr"):
                yield "send-failed", "Send failed: %s" % o["senderr"], o
                continue
            hdr = o["ends"][0] - o["starts"][0] - o["sizes"][0]
            for j, x in enumerate(e):
                if j >= len(o["reads"]):
                    yield "read-missing", "read %d not performed" % (j + 1), o
                    break
                rd = o["reads"][j]
                fr = c["frames"][j]
                what = "read %d (%s, %d bytes, bound %s, chunks %s)" % (j + 1, o["types"][j], o["sizes"][j],
                                                                        "none" if rd["bound"] < 0 else rd["bound"], o["chunk"])
                if x["k"] == "ok":
                    if rd["err"]:
                        yield "%s-%s-frame-rejected" % (fr["bd"], fr["sz"]), "%s failed: %s" % (what, rd.get("text")), o
                        break
                    if not rd["equal"]:
                        yield "message-differs", "%s returned a message different from the one sent" % what, o
                    if rd["pos"] != o["ends"][j]:
                        yield "bytes-behind-frame-consumed", "%s left the stream at offset %d, the frame ends at %d" % (what, rd["pos"], o["ends"][j]), o
                elif x["k"] == "big":
                    if not rd["err"]:
                        yield "overbound-accepted", "%s accepted a frame longer than the bound" % what, o
                    elif rd["decodes"]:
                        yield "overbound-decoded", "%s decoded the payload before rejecting it" % what, o
                    elif rd["pos"] != o["starts"][j] + hdr:
                        yield "overbound-payload-read", "%s consumed %d bytes behind the length prefix of a frame it rejected" % (
                            what, rd["pos"] - o["starts"][j] - hdr), o
                else:   # short: the frame is not completely there; it must not be delivered
                    if not rd["err"]:
                        yield "truncated-%s-delivered" % c["trunc"], "%s succeeded on a truncated frame" % what, o
            else:
                if len(o["reads"]) > len(e):
                    yield "read-extra", "more reads than frames", o
            if e and all(x["k"] == "ok" for x in e) and len(e) == len(c["frames"]) and len(o["reads"]) == len(e) \
                    and not any(rd["err"] for rd in o["reads"]) and not o["tail_ok"]:
                yield "tail-damaged", "after %d successful reads the next reader does not find exactly the %d trailing bytes" % (len(e), o["tail"]), o

    def judge(c, e, obs):
        for s, text, o in problems(c, e, obs):
            return text + "; observation=" + json.dumps(o)[:600]
        return None

    def sig(c, e, obs):
        for s, text, o in problems(c, e, obs):
            return "C38:" + s
        return "C38:?"

    cases, byi = vf.table_check(ck, "Framing", "MC_Framing.cfg", "c38framing", drv_args=[str(REPS)],
                                constants={"MaxFrames": mf}, judge=judge, sig=sig)
    ck.evaluations = len(cases) * REPS
    # which message types were really exercised
    seen = {}
    for i in byi:
        for o in byi[i]["o"]:
            for t in o["types"]:
                seen[t] = seen.get(t, 0) + 1
    ck.extra["frames_by_type"] = seen
    if ck.replay is None and len(seen) < 5:
        raise vf.Infra("not every framed message type was exercised: %s" % seen)
    ck.assumptions += ["framed types = the arguments of rpc.Send/BoundedReceive in /repo (overlay, gateway, tun/server, tun/client, spec/tun): "
                       "protocol.Stream, Connection, TunnelStatus, TunnelRoute, Link; protobuf encoding itself is trusted (proto.Equal decides equality)",
                       "the stream is only ever built by the real Send (no wire format is assumed); 'decoding' = a call of UnmarshalVT on the receiver's message",
                       "a frame longer than the bound must be rejected with nothing behind the length prefix consumed (otherwise the stream position "
                       "would no longer be defined for the caller); for truncated frames only 'an error, no message' is required",
                       "length prefixes above 2^31 are not generated (no 4 GiB frames)"]
