"""setup: sanity-check tools, parse every spec with SANY, build every driver once (warms the Go build cache).
Nothing produced here is needed later: every check rebuilds from /repo's working tree."""
import glob, os, subprocess, sys, shutil, tempfile
import vf

def main():
    rc = 0
    for tool in ["java", "strace", "python3"]:
        if not shutil.which(tool):
            print("missing tool", tool); rc = 2
    print("go:", vf.GO, subprocess.run([vf.GO, "version"], capture_output=True, text=True, env=vf.go_env()).stdout.strip())
    d = tempfile.mkdtemp(prefix="verif-setup-")
    try:
        sd = os.path.join(d, "spec"); shutil.copytree(os.path.join(vf.VERIF, "spec"), sd)
        bad = 0
        for f in sorted(glob.glob(os.path.join(sd, "*.tla"))):
            p = subprocess.run(["java", "-cp", vf.JAR, "tla2sany.SANY", os.path.basename(f)], cwd=sd, capture_output=True, text=True)
            if p.returncode != 0 or "error" in p.stdout.lower().replace("semantic errors:\n\n", ""):
                if "*** Errors" in p.stdout or p.returncode != 0:
                    print("SANY failed:", f, p.stdout[-800:]); bad += 1
        print("specs parsed:", len(glob.glob(os.path.join(sd, "*.tla"))), "failed:", bad)
        if bad: rc = 2
        ck = vf.Check("SETUP", "quick", 1)
        names = sorted(os.path.basename(x) for x in glob.glob(os.path.join(vf.VERIF, "harness", "drv", "*")))
        from concurrent.futures import ThreadPoolExecutor
        def b(n):
            try:
                ck.build(n); return None
            except vf.Infra as e:
                return "%s: %s" % (n, e)
        with ThreadPoolExecutor(4) as ex:
            for err in ex.map(b, names):
                if err:
                    print("driver build failed:", err[-1500:]); rc = 2
        ck.cleanup()
    finally:
        shutil.rmtree(d, ignore_errors=True)
    print("setup", "ok" if rc == 0 else "FAILED")
    return rc
