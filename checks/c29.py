"""C29 A custom hostname is bound to one client, only after DNS proof.  Spec: AcmeCtl (families validate, hist, hist_obs)."""
import json, vf

REFUSED_HOSTS = ("bare", "apex", "apexup", "acme", "apexspaced", "acmespaced", "apexself", "acmeself")

def _why(c, e):
    if c["host"] in REFUSED_HOSTS:
        return "%s-host" % c["host"]
    if c["proof"] not in ("valid", "validsent"):
        return "%s-proof" % c["proof"]
    if e["pre"] not in ("none", c["caller"]):
        return "bound-to-other"
    return "cname-%s" % c["cname"]

def run(ck):
    ck.rule = ("TLC enumerates caller {A,B} x method {validate, instruction} x 12 hostname classes (valid, upper-case, white space around, bare, "
               "apex-suffixed, upper-case apex, ACME-zone, white space inside the apex / ACME zone, non-ASCII label, the apex itself, the ACME zone itself) x CNAME answer {own target, other client's target, junk, none} x stored binding "
               "{none, caller, other client} (also with the DHT failing the read of the binding record: retryably on every attempt / otherwise) x proof {valid for the denoted name, valid for the string as sent, missing, other subject, tampered signature, expired, too few bits}, and all "
               "histories of <=3 validations by two clients with a changing DNS answer; every case runs on the real handlers over the "
               "in-memory KV provider with real proofs of work; the stored bindings are read back after every call; histories are judged "
               "by TLC on the recorded outcomes; non-trivial = every case")
    b = ck.build("acmectl")
    stats = {"accepted": 0, "model_accept": 0}

    def judge(c, e, o):
        if o["pre"] != e["pre"]:
            raise vf.Infra("precondition not established: %s vs %s" % (o["pre"], e["pre"]))
        stats["accepted"] += 1 if o["ok"] else 0
        stats["model_accept"] += 1 if e["accept"] else 0
        if o["ok"] and e["refuse"]:
            return "request accepted (%s) that the statement refuses (%s)" % (c["method"], _why(c, e))
        if o["post"] not in e["posts"]:
            return "binding went from %s to %s, statement allows %s (%s)" % (o["pre"], o["post"], e["posts"], _why(c, e))
        want = {} if o["post"] == "none" else {o["norm"]: o["post"]}
        if o["bindings"] != want:
            return "bindings stored after the call: %s, expected only %s" % (o["bindings"], want)
        if [x for x in o["listed"] if x != o["post"]]:
            return "hostname listed for client(s) %s while bound to %s" % (o["listed"], o["post"])
        if o["ok"] and c["method"] == "instruction" and o["target"] != "own":
            return "instruction names a record that is not the caller's token-specific target: %s" % o["target"]
        return None

    def sig(c, e, o):
        if o["ok"] and e["refuse"]:
            return "C29:accepts:%s:%s%s" % (c["method"], _why(c, e), "" if c.get("fault", "none") == "none" else ":binding-read-" + c["fault"])
        if o["post"] not in e["posts"]:
            return "C29:rebinds:%s-to-%s:%s" % ("none" if o["pre"] == "none" else ("same" if o["pre"] == c["caller"] else "other"),
                                               "none" if o["post"] == "none" else ("caller" if o["post"] == c["caller"] else "other"), _why(c, e))
        if o["ok"] and c["method"] == "instruction" and o["target"] != "own":
            return "C29:instruction-target"
        return "C29:stray-binding:%s-host" % c["host"]

    # one TLC run enumerates the single calls and the histories (and proves the transcription against the declaration)
    r = ck.tlc("AcmeCtl", "MC_AcmeCtl_c29.cfg", constants={"MaxHist": 4 if ck.thorough else 3})
    single = [x for x in r.printed if "hist" not in x["c"]]
    hist = [{"c": x["c"]["hist"], "e": x["e"]} for x in r.printed if "hist" in x["c"]]
    if ck.replay is not None and isinstance(ck.replay.get("c"), list):
        hist, single = [ck.replay], []
    if single:
        cases, _ = vf.table_check(ck, "AcmeCtl", None, "acmectl", binary=b, drv_args=["validate"], judge=judge, sig=sig, cases=single)
    if ck.replay is not None and not isinstance(ck.replay.get("c"), list):
        return
    if single and stats["accepted"] == 0:
        raise vf.Infra("vacuous: the handlers accepted none of the %d cases (the transcription accepts %d)" % (len(cases), stats["model_accept"]))
    ck.extra["accepted_cases"] = stats["accepted"]
    ck.extra["transcription_accepts"] = stats["model_accept"]
    if stats["accepted"] != stats["model_accept"]:
        ck.notes.append("handlers accepted %d cases, the transcription %d (not judged: the statement only restricts acceptance)" % (stats["accepted"], stats["model_accept"]))

    # histories: forward to the handlers, backward into TLC
    recs = ck.drive(b, ["hist"], input_lines=[h["c"] for h in hist])
    byi = {x["i"]: x["o"] for x in recs if "i" in x}
    if len(byi) != len(hist):
        raise vf.Infra("driver answered %d of %d histories" % (len(byi), len(hist)))
    obs = "\n".join(json.dumps({"c": h["c"], "o": [{"pre": s["pre"], "ok": s["ok"], "post": s["post"]} for s in byi[i]]})
                    for i, h in enumerate(hist)) + "\n"
    r2 = ck.tlc("AcmeCtl", "MC_AcmeCtl_hist_obs.cfg", files={"obs_hist.ndjson": obs})
    verdict = {rec["c"] - 1: rec["e"] for rec in r2.printed}
    if len(verdict) != len(hist):
        raise vf.Infra("validator judged %d of %d histories" % (len(verdict), len(hist)))
    bound = 0
    for i, h in enumerate(hist):
        ck.count(("hist", json.dumps(h["c"])), True)
        v = verdict[i]
        steps = byi[i]
        bound += 1 if any(s["post"] != "none" for s in steps) else 0
        if i % (len(hist) // 3 + 1) == 0:
            ck.sample({"history": h["c"], "observed": [{k: s[k] for k in ("pre", "ok", "post")} for s in steps], "verdict": v})
        stray = [s["bindings"] for s in steps if s["bindings"] != ({} if s["post"] == "none" else {s["norm"]: s["post"]})]
        if not v["decl"] or not v["sticky"] or stray:
            k = v["bad"] or 1
            st, hs = steps[min(k, len(steps)) - 1], h["c"][min(k, len(steps)) - 1]
            what = "rebinds" if (st["pre"] != "none" and st["post"] != st["pre"]) else ("binds-without-cname" if st["post"] != st["pre"] else "accepts")
            ck.violation("C29:history:%s:cname-%s" % (what, "own" if hs["cname"] == hs["caller"] else ("none" if hs["cname"] == "none" else "other")),
                         "history %s: step %d by %s with CNAME of %s: binding %s -> %s, ok=%s; run=%s" % (
                             json.dumps(h["c"]), k, hs["caller"], hs["cname"], st["pre"], st["post"], st["ok"],
                             json.dumps([{k2: s[k2] for k2 in ("pre", "ok", "post")} for s in steps])), h)
    ck.traces += len(hist)
    if bound == 0 and ck.replay is None:
        raise vf.Infra("vacuous: no history ever bound the hostname")
    ck.assumptions += ["callers are identified by the certificate subject exactly as extractAuthenticated reads it; the twirp layer and its "
                       "RequestRouted hook (C25) are not on the path",
                       "proof-of-work validity classes are produced with the repository's own generator / hashcash solver; SHA-256 and ed25519 are trusted",
                       "DNS is a stub resolver answering only the exact challenge name of the normalized hostname",
                       "the statement only restricts acceptance: refusing a legitimate request is not judged (guarded against vacuity instead)",
                       "release of a hostname (ReleaseTunnel) is outside this check"]
