//go:build verif

// Package fabric is an in-memory RPC fabric for rings of real chord.LocalNode objects: an rpc.ChordClient
// that dispatches every VNodeService / KVService call to the chord.Server of the target node (so that
// chord/remote.go, chord/server_rpc.go, rpc.WrapError and chord.ErrorMapper are on the path of every call,
// and nodes only ever hold chord.RemoteNode references to each other), with per-call fault injection:
//
//	fail-before    the request is lost: the callee never sees it, the caller gets an error
//	lose-response  the callee handles the request, its answer is lost, the caller gets an error
//
// A fault is selected by a Rule: RPC method name (+ flavour of a membership conclusion: advisory / release,
// + optionally the target node) and the n-th matching call (0 = every matching call).
// Errors cross the fabric the way they cross the wire: a twirp error keeps code, message and meta and loses
// its Go cause; anything else becomes a twirp internal error.
package fabric

import (
	"context"
	"fmt"
	"io"
	"sync"
	"time"

	implchord "go.miragespace.co/specter/chord"
	"go.miragespace.co/specter/spec/chord"
	"go.miragespace.co/specter/spec/protocol"
	"go.miragespace.co/specter/spec/rpc"

	"github.com/twitchtv/twirp"
	"go.uber.org/zap"
)

const (
	FailBefore   = "fail-before"
	LoseResponse = "lose-response"
)

// Rule selects the calls to disturb.
type Rule struct {
	Method string `json:"method"`           // "RequestToJoin", "FinishJoin", "RequestToLeave", "FinishLeave", "Import", ...
	Sub    string `json:"sub,omitempty"`    // "" | "advisory" | "release" (FinishJoin / FinishLeave)
	Target uint64 `json:"target,omitempty"` // 0: any callee
	Nth    int    `json:"nth"`              // 0: every matching call, k > 0: only the k-th matching call
	From   int    `json:"from,omitempty"`   // k > 0 (with Nth = 0): every matching call from the k-th on
	Mode   string `json:"mode"`             // FailBefore | LoseResponse
	Err    string `json:"err,omitempty"`    // "deadline" (default): the caller's deadline expires; "transport": the connection breaks

	seen  int
	fired int
}

// Call is one entry of the fabric's call log (membership RPCs and Import only).
type Call struct {
	Seq    int    `json:"seq"`
	Method string `json:"method"`
	Sub    string `json:"sub,omitempty"`
	Target uint64 `json:"target"`
	Fault  string `json:"fault,omitempty"` // fault applied to this call
	Res    string `json:"res"`             // "ok" or the error text the caller received
}

type Fabric struct {
	mu      sync.Mutex
	servers map[uint64]*implchord.Server
	rules   []*Rule
	log     []Call
	seq     int
	Logger  *zap.Logger
	Ctx     context.Context
}

func New(logger *zap.Logger) *Fabric {
	return &Fabric{servers: map[uint64]*implchord.Server{}, Logger: logger, Ctx: context.Background()}
}

var _ rpc.ChordClient = (*Fabric)(nil)

// Register makes a node reachable: calls addressed to its identity are served by a chord.Server around it
// whose Factory turns every identity it is handed into a RemoteNode on this fabric.
func (f *Fabric) Register(n chord.VNode) {
	f.mu.Lock()
	f.servers[n.ID()] = &implchord.Server{LocalNode: n, Factory: func(p *protocol.Node) (chord.VNode, error) {
		return implchord.NewRemoteNode(f.Ctx, f.Logger, f, p)
	}}
	f.mu.Unlock()
}

// Remote is the reference other nodes hold to the node with this identity.
func (f *Fabric) Remote(p *protocol.Node) chord.VNode {
	r, err := implchord.NewRemoteNode(f.Ctx, f.Logger, f, p)
	if err != nil {
		panic(err)
	}
	return r
}

// SetRules replaces the fault rules (counters start at zero).
func (f *Fabric) SetRules(rules ...Rule) {
	f.mu.Lock()
	f.rules = nil
	for i := range rules {
		r := rules[i]
		r.seen, r.fired = 0, 0
		f.rules = append(f.rules, &r)
	}
	f.mu.Unlock()
}

// Fired returns how many calls each rule matched and how many it disturbed.
func (f *Fabric) Fired() (seen, fired []int) {
	f.mu.Lock()
	defer f.mu.Unlock()
	for _, r := range f.rules {
		seen = append(seen, r.seen)
		fired = append(fired, r.fired)
	}
	return
}

// TakeLog returns and clears the call log.
func (f *Fabric) TakeLog() []Call {
	f.mu.Lock()
	defer f.mu.Unlock()
	l := f.log
	f.log = nil
	return l
}

func subOf(req any) string {
	if r, ok := req.(*protocol.MembershipConclusionRequest); ok {
		switch {
		case r.GetRelease():
			return "release"
		case r.GetStabilize():
			return "advisory"
		}
	}
	return ""
}

var logged = map[string]bool{"RequestToJoin": true, "FinishJoin": true, "RequestToLeave": true, "FinishLeave": true, "Import": true}

// decide looks up the server and the fault for one call.
func (f *Fabric) decide(ctx context.Context, method string, req any) (srv *implchord.Server, target uint64, rule *Rule, err error) {
	n := rpc.GetNode(ctx)
	if n == nil {
		return nil, 0, nil, fmt.Errorf("fabric: no target node in the request context")
	}
	target = n.GetId()
	sub := subOf(req)
	f.mu.Lock()
	defer f.mu.Unlock()
	srv, ok := f.servers[target]
	if !ok {
		return nil, target, nil, fmt.Errorf("fabric: unknown node %d", target)
	}
	for _, r := range f.rules {
		if r.Method != method || (r.Sub != "" && r.Sub != sub) || (r.Target != 0 && r.Target != target) {
			continue
		}
		r.seen++
		if (r.Nth == 0 && r.seen >= r.From) || r.Nth == r.seen {
			r.fired++
			rule = r
			break
		}
	}
	return srv, target, rule, nil
}

func (f *Fabric) record(method string, req any, target uint64, rule *Rule, err error) {
	if !logged[method] {
		return
	}
	c := Call{Method: method, Sub: subOf(req), Target: target, Res: "ok"}
	if rule != nil {
		c.Fault = rule.Mode
	}
	if err != nil {
		c.Res = err.Error()
	}
	f.mu.Lock()
	f.seq++
	c.Seq = f.seq
	f.log = append(f.log, c)
	f.mu.Unlock()
}

// lostErr is what the generated twirp client hands to its caller when the request context expires before
// the answer arrives, or when the connection breaks: an internal twirp error wrapping the cause.
func lostErr(kind string) error {
	if kind == "transport" {
		return twirp.InternalErrorWith(fmt.Errorf("failed to do request: %w", io.ErrUnexpectedEOF))
	}
	return twirp.InternalErrorWith(fmt.Errorf("failed to do request: %w", context.DeadlineExceeded))
}

// wire turns a handler error into what the caller would decode from the response.
func wire(err error) error {
	if err == nil {
		return nil
	}
	if te, ok := err.(twirp.Error); ok {
		out := twirp.NewError(te.Code(), te.Msg())
		for k, v := range te.MetaMap() {
			out = out.WithMeta(k, v)
		}
		return out
	}
	return twirp.NewError(twirp.Internal, err.Error())
}

func call[Req any, Resp any](f *Fabric, ctx context.Context, method string, req Req, fn func(*implchord.Server) (Resp, error)) (Resp, error) {
	var zero Resp
	srv, target, rule, err := f.decide(ctx, method, req)
	if err != nil {
		return zero, twirp.InternalErrorWith(err)
	}
	if rule != nil && rule.Mode == FailBefore {
		e := lostErr(rule.Err)
		f.record(method, req, target, rule, e)
		return zero, e
	}
	resp, herr := fn(srv)
	if rule != nil && rule.Mode == LoseResponse {
		e := lostErr(rule.Err)
		f.record(method, req, target, rule, e)
		return zero, e
	}
	herr = wire(herr)
	f.record(method, req, target, rule, herr)
	if herr != nil {
		return zero, herr
	}
	return resp, nil
}

func (f *Fabric) RatePer(time.Duration) float64 { return 0 }

func (f *Fabric) Identity(ctx context.Context, r *protocol.IdentityRequest) (*protocol.IdentityResponse, error) {
	return call(f, ctx, "Identity", r, func(s *implchord.Server) (*protocol.IdentityResponse, error) { return s.Identity(ctx, r) })
}
func (f *Fabric) Ping(ctx context.Context, r *protocol.PingRequest) (*protocol.PingResponse, error) {
	return call(f, ctx, "Ping", r, func(s *implchord.Server) (*protocol.PingResponse, error) { return s.Ping(ctx, r) })
}
func (f *Fabric) Notify(ctx context.Context, r *protocol.NotifyRequest) (*protocol.NotifyResponse, error) {
	return call(f, ctx, "Notify", r, func(s *implchord.Server) (*protocol.NotifyResponse, error) { return s.Notify(ctx, r) })
}
func (f *Fabric) FindSuccessor(ctx context.Context, r *protocol.FindSuccessorRequest) (*protocol.FindSuccessorResponse, error) {
	return call(f, ctx, "FindSuccessor", r, func(s *implchord.Server) (*protocol.FindSuccessorResponse, error) { return s.FindSuccessor(ctx, r) })
}
func (f *Fabric) GetSuccessors(ctx context.Context, r *protocol.GetSuccessorsRequest) (*protocol.GetSuccessorsResponse, error) {
	return call(f, ctx, "GetSuccessors", r, func(s *implchord.Server) (*protocol.GetSuccessorsResponse, error) { return s.GetSuccessors(ctx, r) })
}
func (f *Fabric) GetPredecessor(ctx context.Context, r *protocol.GetPredecessorRequest) (*protocol.GetPredecessorResponse, error) {
	return call(f, ctx, "GetPredecessor", r, func(s *implchord.Server) (*protocol.GetPredecessorResponse, error) { return s.GetPredecessor(ctx, r) })
}
func (f *Fabric) RequestToJoin(ctx context.Context, r *protocol.RequestToJoinRequest) (*protocol.RequestToJoinResponse, error) {
	return call(f, ctx, "RequestToJoin", r, func(s *implchord.Server) (*protocol.RequestToJoinResponse, error) { return s.RequestToJoin(ctx, r) })
}
func (f *Fabric) FinishJoin(ctx context.Context, r *protocol.MembershipConclusionRequest) (*protocol.MembershipConclusionResponse, error) {
	return call(f, ctx, "FinishJoin", r, func(s *implchord.Server) (*protocol.MembershipConclusionResponse, error) { return s.FinishJoin(ctx, r) })
}
func (f *Fabric) RequestToLeave(ctx context.Context, r *protocol.RequestToLeaveRequest) (*protocol.RequestToLeaveResponse, error) {
	return call(f, ctx, "RequestToLeave", r, func(s *implchord.Server) (*protocol.RequestToLeaveResponse, error) { return s.RequestToLeave(ctx, r) })
}
func (f *Fabric) FinishLeave(ctx context.Context, r *protocol.MembershipConclusionRequest) (*protocol.MembershipConclusionResponse, error) {
	return call(f, ctx, "FinishLeave", r, func(s *implchord.Server) (*protocol.MembershipConclusionResponse, error) {
		return s.FinishLeave(ctx, r)
	})
}
func (f *Fabric) Put(ctx context.Context, r *protocol.SimpleRequest) (*protocol.SimpleResponse, error) {
	return call(f, ctx, "Put", r, func(s *implchord.Server) (*protocol.SimpleResponse, error) { return s.Put(ctx, r) })
}
func (f *Fabric) Get(ctx context.Context, r *protocol.SimpleRequest) (*protocol.SimpleResponse, error) {
	return call(f, ctx, "Get", r, func(s *implchord.Server) (*protocol.SimpleResponse, error) { return s.Get(ctx, r) })
}
func (f *Fabric) Delete(ctx context.Context, r *protocol.SimpleRequest) (*protocol.SimpleResponse, error) {
	return call(f, ctx, "Delete", r, func(s *implchord.Server) (*protocol.SimpleResponse, error) { return s.Delete(ctx, r) })
}
func (f *Fabric) Append(ctx context.Context, r *protocol.PrefixRequest) (*protocol.PrefixResponse, error) {
	return call(f, ctx, "Append", r, func(s *implchord.Server) (*protocol.PrefixResponse, error) { return s.Append(ctx, r) })
}
func (f *Fabric) List(ctx context.Context, r *protocol.PrefixRequest) (*protocol.PrefixResponse, error) {
	return call(f, ctx, "List", r, func(s *implchord.Server) (*protocol.PrefixResponse, error) { return s.List(ctx, r) })
}
func (f *Fabric) Contains(ctx context.Context, r *protocol.PrefixRequest) (*protocol.PrefixResponse, error) {
	return call(f, ctx, "Contains", r, func(s *implchord.Server) (*protocol.PrefixResponse, error) { return s.Contains(ctx, r) })
}
func (f *Fabric) Remove(ctx context.Context, r *protocol.PrefixRequest) (*protocol.PrefixResponse, error) {
	return call(f, ctx, "Remove", r, func(s *implchord.Server) (*protocol.PrefixResponse, error) { return s.Remove(ctx, r) })
}
func (f *Fabric) Acquire(ctx context.Context, r *protocol.LeaseRequest) (*protocol.LeaseResponse, error) {
	return call(f, ctx, "Acquire", r, func(s *implchord.Server) (*protocol.LeaseResponse, error) { return s.Acquire(ctx, r) })
}
func (f *Fabric) Renew(ctx context.Context, r *protocol.LeaseRequest) (*protocol.LeaseResponse, error) {
	return call(f, ctx, "Renew", r, func(s *implchord.Server) (*protocol.LeaseResponse, error) { return s.Renew(ctx, r) })
}
func (f *Fabric) Release(ctx context.Context, r *protocol.LeaseRequest) (*protocol.LeaseResponse, error) {
	return call(f, ctx, "Release", r, func(s *implchord.Server) (*protocol.LeaseResponse, error) { return s.Release(ctx, r) })
}
func (f *Fabric) Import(ctx context.Context, r *protocol.ImportRequest) (*protocol.ImportResponse, error) {
	return call(f, ctx, "Import", r, func(s *implchord.Server) (*protocol.ImportResponse, error) { return s.Import(ctx, r) })
}
func (f *Fabric) ListKeys(ctx context.Context, r *protocol.ListKeysRequest) (*protocol.ListKeysResponse, error) {
	return call(f, ctx, "ListKeys", r, func(s *implchord.Server) (*protocol.ListKeysResponse, error) { return s.ListKeys(ctx, r) })
}
