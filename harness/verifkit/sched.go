//go:build verif

package verifkit

import (
	"bytes"
	"fmt"
	"runtime"
	"strconv"
	"strings"
	"sync"
	"time"
)

// Controlled scheduler: operations run in their own goroutines and park at verifhook.At gates;
// the driver advances one operation at a time, so the interleaving is the one the driver chose.

type Op struct {
	Name       string
	Gate       string // last gate reached ("" before the first)
	Done       bool
	Result     any
	parked     chan string
	resume     chan struct{}
	done       chan struct{}
	isParked   bool // owned by the driver goroutine
	SubParks   int  // parks at sub-gates (ns:*) since the last protocol gate; owned by the operation's goroutine
	wasBlocked bool // the last wait ran into the step limit: later waits on this operation are short
}

type Sched struct {
	mu       sync.Mutex
	ops      map[int64]*Op
	Gates    func(point string) bool           // which points park controlled operations
	GatesOp  func(point string, op *Op) bool   // if set, decides instead of Gates (sees the operation)
	TaskStop func(node uint64) <-chan struct{} // periodic task loops park until this closes (nil: run free)
	Perturb  func(point string, node uint64)   // free-running mode: schedule perturbation
	StepWait time.Duration
	Observe  func(point string, node uint64, op *Op) // called at every gate hit (before parking)
}

// Blocked: the operation is neither parked at a gate nor finished: it is waiting for something another operation holds
// (or still running).  Owned by the driver goroutine, like isParked.
func (o *Op) Blocked() bool { return !o.Done && !o.isParked }

func NewSched() *Sched {
	return &Sched{ops: map[int64]*Op{}, StepWait: 5 * time.Second}
}

func goid() int64 {
	var buf [64]byte
	n := runtime.Stack(buf[:], false)
	f := bytes.Fields(buf[:n])
	id, _ := strconv.ParseInt(string(f[1]), 10, 64)
	return id
}

// At is installed as verifhook.AtFn.
func (s *Sched) At(point string, node uint64) {
	if strings.HasPrefix(point, "task:") {
		if s.TaskStop != nil {
			<-s.TaskStop(node)
		}
		return
	}
	s.mu.Lock()
	op := s.ops[goid()]
	s.mu.Unlock()
	if s.Observe != nil {
		s.Observe(point, node, op)
	}
	if op == nil {
		if s.Perturb != nil {
			s.Perturb(point, node)
		}
		return
	}
	if s.GatesOp != nil {
		if !s.GatesOp(point, op) {
			return
		}
	} else if s.Gates == nil || !s.Gates(point) {
		return
	}
	op.parked <- point + "@" + strconv.FormatUint(node, 10)
	<-op.resume
}

// Start launches fn as a controlled operation and waits until it parks, finishes or blocks.
func (s *Sched) Start(name string, fn func() any) (*Op, string) {
	op := &Op{Name: name, parked: make(chan string), resume: make(chan struct{}), done: make(chan struct{})}
	ready := make(chan struct{})
	go func() {
		s.mu.Lock()
		s.ops[goid()] = op
		s.mu.Unlock()
		close(ready)
		defer func() {
			s.mu.Lock()
			delete(s.ops, goid())
			s.mu.Unlock()
			close(op.done)
		}()
		defer func() {
			if r := recover(); r != nil {
				op.Result = "panic: " + fmt.Sprint(r)
			}
		}()
		op.Result = fn()
	}()
	<-ready
	return op, s.wait(op)
}

// Step resumes a parked operation and waits for its next gate / completion.  Returns
// "gate:<point>@<node>", "done", or "blocked" (still running after StepWait: e.g. waiting for a
// lock held by a parked operation, or in a retry sleep).
func (s *Sched) Step(op *Op) string {
	if op.Done {
		return "done"
	}
	if op.isParked {
		op.isParked = false
		op.resume <- struct{}{}
	} // else: it was blocked (still running): just wait again
	return s.wait(op)
}

func (s *Sched) wait(op *Op) string {
	d := s.StepWait
	if op.wasBlocked && d > 300*time.Millisecond {
		d = 300 * time.Millisecond
	}
	t := time.NewTimer(d)
	defer t.Stop()
	select {
	case p := <-op.parked:
		op.Gate = p
		op.isParked = true
		op.wasBlocked = false
		return "gate:" + p
	case <-op.done:
		op.Done = true
		op.Gate = "done"
		return "done"
	case <-t.C:
		op.wasBlocked = true
		return "blocked"
	}
}

// Run advances op to completion (bounded).
func (s *Sched) Run(op *Op, maxSteps int) string {
	st := ""
	for i := 0; i < maxSteps; i++ {
		st = s.Step(op)
		if st == "done" {
			return st
		}
	}
	return st
}
