//go:build verif

// Package ring builds rings of real chord.LocalNode objects for the verification drivers and
// projects their state into rank space (every id of a run is replaced by its rank among all ids).
package ring

import (
	"context"
	"fmt"
	"sort"
	"strconv"
	"time"

	implchord "go.miragespace.co/specter/chord"
	"go.miragespace.co/specter/kv/memory"
	"go.miragespace.co/specter/spec/chord"
	"go.miragespace.co/specter/spec/protocol"
	"go.miragespace.co/specter/spec/rpc"
	"go.miragespace.co/specter/spec/rtt"

	"go.uber.org/zap"
)

type nopRTT struct{}

func (nopRTT) Snapshot(string, time.Duration) *rtt.Statistics { return &rtt.Statistics{} }
func (nopRTT) RecordLatency(string, float64)                  {}
func (nopRTT) RecordSent(string)                              {}
func (nopRTT) RecordLost(string)                              {}
func (nopRTT) Drop(string)                                    {}

type nopClient struct{ rpc.ChordClient }

// Item of a layout, in ascending identifier order.  Exactly one of N (node name) / K (key name).
type Item struct {
	N    string `json:"n,omitempty"`
	K    string `json:"k,omitempty"`
	ID   uint64 `json:"id,omitempty"`   // optional explicit node id
	Zero bool   `json:"zero,omitempty"` // explicit node id 0
}

type Ring struct {
	Layout   []Item
	Nodes    map[string]*implchord.LocalNode
	NodeID   map[string]uint64
	Keys     map[string][]byte
	KeyID    map[string]uint64
	Rank     map[uint64]int // id -> rank (index in layout)
	Logger   *zap.Logger
	MkKV     func(name string) chord.KVProvider
	Client   rpc.ChordClient
	Interval time.Duration
}

const ringSize = uint64(1) << 48

// Build chooses concrete keys and node ids realising the layout order.  variant selects how node ids
// are placed in the gaps between key hashes (0: middle, 1: adjacent above the previous item, 2: adjacent
// below the next item, 3: seeded random).
func Build(layout []Item, seed int64, variant int, logger *zap.Logger) *Ring {
	r := &Ring{Layout: layout, Nodes: map[string]*implchord.LocalNode{}, NodeID: map[string]uint64{},
		Keys: map[string][]byte{}, KeyID: map[string]uint64{}, Rank: map[uint64]int{}, Logger: logger,
		Client: nopClient{}, Interval: time.Millisecond}
	nk := 0
	for _, it := range layout {
		if it.K != "" {
			nk++
		}
	}
	// candidate keys, sorted by hash
	type kh struct {
		key []byte
		h   uint64
	}
	cands := make([]kh, 0, nk)
	for i := 0; len(cands) < nk; i++ {
		k := []byte(fmt.Sprintf("key-%d-%d", seed, i))
		cands = append(cands, kh{k, chord.Hash(k)})
	}
	sort.Slice(cands, func(i, j int) bool { return cands[i].h < cands[j].h })
	// assign values position by position
	vals := make([]uint64, len(layout))
	ki := 0
	for i, it := range layout {
		if it.K != "" {
			vals[i] = cands[ki].h
			r.Keys[it.K] = cands[ki].key
			r.KeyID[it.K] = cands[ki].h
			ki++
		}
	}
	rnd := newRand(seed)
	i := 0
	for i < len(layout) {
		if layout[i].K != "" {
			i++
			continue
		}
		// run of nodes i..j-1 between lower bound lo (exclusive) and upper bound hi (exclusive)
		j := i
		for j < len(layout) && layout[j].K == "" {
			j++
		}
		var lo, hi uint64
		if i == 0 {
			lo = 0 // ids start at 1
		} else {
			lo = vals[i-1]
		}
		if j == len(layout) {
			hi = ringSize
		} else {
			hi = vals[j]
		}
		n := uint64(j - i)
		gap := hi - lo - 1
		if gap < n {
			panic("layout gap too small")
		}
		for k := uint64(0); k < n; k++ {
			it := layout[i+int(k)]
			var v uint64
			switch {
			case it.ID != 0 || it.Zero:
				v = it.ID
			case variant == 1:
				v = lo + 1 + k
			case variant == 2:
				v = hi - n + k
			case variant == 3:
				cell := gap / n
				v = lo + 1 + k*cell + rnd.next()%cell
			default:
				v = lo + (gap/(n+1))*(k+1)
			}
			vals[i+int(k)] = v
		}
		i = j
	}
	for i, it := range layout {
		if i > 0 && vals[i] <= vals[i-1] && !(layout[i].ID != 0 || layout[i].Zero) {
			panic(fmt.Sprintf("layout not increasing at %d: %d <= %d", i, vals[i], vals[i-1]))
		}
		r.Rank[vals[i]] = i
		if it.N != "" {
			r.NodeID[it.N] = vals[i]
		}
	}
	return r
}

type xs struct{ s uint64 }

func newRand(seed int64) *xs { return &xs{uint64(seed)*2654435761 + 88172645463325252} }
func (x *xs) next() uint64 {
	x.s ^= x.s << 13
	x.s ^= x.s >> 7
	x.s ^= x.s << 17
	return x.s
}

// Node creates (once) the LocalNode for a layout name.
func (r *Ring) Node(name string) *implchord.LocalNode {
	if n, ok := r.Nodes[name]; ok {
		return n
	}
	id, ok := r.NodeID[name]
	if !ok {
		panic("unknown node " + name)
	}
	var kv chord.KVProvider
	if r.MkKV != nil {
		kv = r.MkKV(name)
	} else {
		kv = memory.WithHashFn(chord.Hash)
	}
	n := implchord.NewLocalNode(implchord.NodeConfig{
		BaseLogger:               r.Logger,
		ChordClient:              r.Client,
		Identity:                 &protocol.Node{Id: id, Address: "node-" + name},
		KVProvider:               kv,
		StabilizeInterval:        r.Interval,
		FixFingerInterval:        r.Interval,
		PredecessorCheckInterval: r.Interval,
		NodesRTT:                 nopRTT{},
	})
	r.Nodes[name] = n
	return n
}

func (r *Ring) rk(v chord.VNode) int {
	if v == nil {
		return -1
	}
	if k, ok := r.Rank[v.ID()]; ok {
		return k
	}
	return -2
}

type NodeSnap struct {
	St    string              `json:"st"`
	Pred  int                 `json:"pred"`
	Succ  []int               `json:"succ"`
	Sur   int                 `json:"sur"`
	Store map[string]string   `json:"store"`          // key rank -> simple value
	Kids  map[string][]string `json:"kids,omitempty"` // key rank -> sorted children
	Fing  []int               `json:"fing,omitempty"`
	FS    []int               `json:"fs"` // distinct ranks named by the finger table
	Hist  []string            `json:"hist,omitempty"`
}

// Snapshot projects every created node.  withFingers adds the 48 finger ranks.
func (r *Ring) Snapshot(withFingers bool, withHist bool) map[string]NodeSnap {
	out := map[string]NodeSnap{}
	for name, n := range r.Nodes {
		s := NodeSnap{St: n.VerifState().String(), Pred: r.rk(n.VerifPred()), Store: map[string]string{}}
		for _, v := range n.VerifSucc() {
			s.Succ = append(s.Succ, r.rk(v))
		}
		if s.Succ == nil {
			s.Succ = []int{}
		}
		if sur, ok := n.VerifTrySurrogate(); ok {
			s.Sur = r.rk(sur)
		} else {
			s.Sur = -3
		}
		ctx := context.Background()
		kv := n.VerifKV()
		for kname, key := range r.Keys {
			kr := strconv.Itoa(r.Rank[r.KeyID[kname]])
			if v, err := kv.Get(ctx, key); err == nil && len(v) > 0 {
				s.Store[kr] = string(v)
			}
			if ch, err := kv.PrefixList(ctx, key); err == nil && len(ch) > 0 {
				if s.Kids == nil {
					s.Kids = map[string][]string{}
				}
				var l []string
				for _, c := range ch {
					l = append(l, string(c))
				}
				sort.Strings(l)
				s.Kids[kr] = l
			}
		}
		// the distinct nodes named by the finger table (what stabilize can fall back on when its successor list is dead)
		seen := map[int]bool{}
		s.FS = []int{}
		for k := 1; k <= chord.MaxFingerEntries; k++ {
			if f := n.VerifFinger(k); f != nil {
				if rk := r.rk(f); !seen[rk] {
					seen[rk] = true
					s.FS = append(s.FS, rk)
				}
			}
		}
		sort.Ints(s.FS)
		if withFingers {
			for k := 1; k <= chord.MaxFingerEntries; k++ {
				s.Fing = append(s.Fing, r.rk(n.VerifFinger(k)))
			}
		}
		if withHist {
			for _, h := range n.VerifHistory() {
				s.Hist = append(s.Hist, h.String())
			}
		}
		out[strconv.Itoa(r.Rank[r.NodeID[name]])] = s
	}
	return out
}

// ErrClass classifies an error for the trace.
func ErrClass(err error) string {
	if err == nil {
		return "ok"
	}
	for name, e := range map[string]error{
		"ErrJoinInvalidState": chord.ErrJoinInvalidState, "ErrJoinTransferFailure": chord.ErrJoinTransferFailure,
		"ErrJoinInvalidSuccessor": chord.ErrJoinInvalidSuccessor, "ErrLeaveInvalidState": chord.ErrLeaveInvalidState,
		"ErrLeaveTransferFailure": chord.ErrLeaveTransferFailure, "ErrKVStaleOwnership": chord.ErrKVStaleOwnership,
		"ErrKVPendingTransfer": chord.ErrKVPendingTransfer, "ErrNodeGone": chord.ErrNodeGone,
		"ErrNodeNotStarted": chord.ErrNodeNotStarted, "ErrNodeNoSuccessor": chord.ErrNodeNoSuccessor,
		"ErrNodeNil": chord.ErrNodeNil, "ErrDuplicateJoinerID": chord.ErrDuplicateJoinerID,
		"ErrKVSimpleConflict": chord.ErrKVSimpleConflict, "ErrKVPrefixConflict": chord.ErrKVPrefixConflict,
		"ErrKVLeaseConflict": chord.ErrKVLeaseConflict, "ErrKVLeaseExpired": chord.ErrKVLeaseExpired,
		"ErrKVLeaseInvalidTTL": chord.ErrKVLeaseInvalidTTL,
	} {
		if err == e || err.Error() == e.Error() {
			if chord.ErrorIsRetryable(err) {
				return "retryable:" + name
			}
			return "fatal:" + name
		}
	}
	if chord.ErrorIsRetryable(err) {
		return "retryable:other:" + err.Error()
	}
	return "fatal:other:" + err.Error()
}
